------------------------------- MODULE TxOrder -------------------------------
(* Property C43: the price-and-nonce iterator used for block building                      *)
(* (core/txpool/txorder/ordering.go: NewTransactionsByPriceAndNonce, Peek, Shift, Pop)     *)
(* yields every account's transactions in nonce order, never a transaction before its      *)
(* predecessor, always the available head with the highest effective tip (ties: earlier    *)
(* arrival), and drops the rest of an account on Pop.                                      *)
(*                                                                                         *)
(* Two layers in one state:                                                                *)
(*  - the abstract iterator: next[a] = index (nonce order) of the account's current head,  *)
(*    0 when the account has none; the rest of the account is the suffix after it;          *)
(*  - the mechanism of the code: heap = the array of container/heap holding the accounts   *)
(*    with a head, maintained by heap.Init / heap.Fix(0) / heap.Pop exactly as the code     *)
(*    calls them (down/up sifting transcribed from container/heap).                        *)
(* Ghost variables done/popped record what has been yielded, so that the property can be   *)
(* stated against the snapshot (pending) instead of against the iterator's own state.      *)
(* Effective tip (EIP-1559): min(tip, feeCap - baseFee); a transaction with                *)
(* feeCap < baseFee is not includable and ends its account's sequence.                     *)
EXTENDS Integers, Sequences, FiniteSets, TLC

CONSTANTS NA,        \* accounts are 1..NA
          NoBase     \* the value of base meaning "no base fee" (pre-London: tip = gas price)

Accts == 1..NA

VARIABLES pending,   \* [Accts -> Seq([cap, tip, time])]  the snapshot, nonce-ordered (constant)
          base,      \* base fee or NoBase (constant)
          next,      \* [Accts -> Nat]  index of the current head of each account, 0 = none
          heap,      \* Seq(Accts): the heap array of accounts that have a head
          done,      \* ghost: [Accts -> Nat] number of transactions of the account yielded so far
          popped     \* ghost: accounts discarded by Pop

vars == << pending, base, next, heap, done, popped >>

Min(a, b) == IF a < b THEN a ELSE b

---------------------------------------------------------------------------
(* Fees *)

Priced(a, i) == base = NoBase \/ pending[a][i].cap >= base
Eff(a, i)    == IF base = NoBase THEN pending[a][i].tip
                ELSE Min(pending[a][i].tip, pending[a][i].cap - base)

(* strict order of two heads: higher effective tip first, then earlier arrival *)
Before(a, i, b, j) ==
  IF Eff(a, i) = Eff(b, j) THEN pending[a][i].time < pending[b][j].time
  ELSE Eff(a, i) > Eff(b, j)

(* the head the specification expects to be yielded, from the abstract state: 0 if none *)
BestOf(nx) ==
  LET live == {a \in Accts : nx[a] # 0} IN
  IF live = {} THEN 0
  ELSE CHOOSE a \in live : \A b \in live \ {a} : Before(a, nx[a], b, nx[b])
Best == BestOf(next)

---------------------------------------------------------------------------
(* container/heap on a sequence of accounts, 0-based positions as in Go (h[i+1]);      *)
(* less(i,j) compares the heads under the head-index function nx.                      *)

Less(h, nx, i, j) == Before(h[i + 1], nx[h[i + 1]], h[j + 1], nx[h[j + 1]])
Swap(h, i, j)     == [h EXCEPT ![i + 1] = h[j + 1], ![j + 1] = h[i + 1]]

RECURSIVE Down(_, _, _, _)
Down(h, nx, i, n) ==
  LET j1 == 2 * i + 1 IN
  IF j1 >= n THEN h
  ELSE LET j2 == j1 + 1
           j  == IF j2 < n /\ Less(h, nx, j2, j1) THEN j2 ELSE j1
       IN IF ~Less(h, nx, j, i) THEN h ELSE Down(Swap(h, i, j), nx, j, n)

RECURSIVE Up(_, _, _)
Up(h, nx, j) ==
  LET i == (j - 1) \div 2 IN
  IF j = 0 \/ i = j \/ ~Less(h, nx, j, i) THEN h ELSE Up(Swap(h, i, j), nx, i)

RECURSIVE Heapify(_, _, _)
Heapify(h, nx, i) == IF i < 0 THEN h ELSE Heapify(Down(h, nx, i, Len(h)), nx, i - 1)
HeapInit(h, nx)   == Heapify(h, nx, Len(h) \div 2 - 1)

(* heap.Fix(h, i): if !down(i) then up(i) -- down moved iff the array changed (accounts are distinct) *)
HeapFix(h, nx, i) == LET d == Down(h, nx, i, Len(h)) IN IF d = h THEN Up(h, nx, i) ELSE d

(* heap.Pop: swap(0, n-1); down(0, n-1); drop the last *)
HeapPop(h, nx) ==
  LET n == Len(h) - 1 IN SubSeq(Down(Swap(h, 0, n), nx, 0, n), 1, n)

---------------------------------------------------------------------------
(* Actions *)

(* NewTransactionsByPriceAndNonce: the first transaction of each account becomes its head unless *)
(* it is not includable (then the account is deleted); the heads are collected in map iteration  *)
(* order (arbitrary) and heap.Init is called.                                                    *)
FirstHeads == [a \in Accts |-> IF Len(pending[a]) >= 1 /\ Priced(a, 1) THEN 1 ELSE 0]

Perms(S) == {p \in [1..Cardinality(S) -> S] : \A i, j \in 1..Cardinality(S) : i # j => p[i] # p[j]}

(* the construction with the heads collected in order p; written over arbitrary (possibly primed) *)
(* variables so that it can serve as initial predicate and as an action                           *)
Built(nx, hp, dn, pp, p) ==
  /\ nx = FirstHeads
  /\ hp = HeapInit(p, FirstHeads)
  /\ dn = [a \in Accts |-> 0]
  /\ pp = {}

LiveFirst == {a \in Accts : FirstHeads[a] # 0}

InitIter == \E p \in Perms(LiveFirst) : Built(next, heap, done, popped, p)

(* Peek: the transaction at the root of the heap *)
PeekAcct == IF Len(heap) = 0 THEN 0 ELSE heap[1]
Empty    == Len(heap) = 0

(* Shift: the root's account advances to its next transaction (heap.Fix), or leaves the heap when *)
(* it has none or the next one is not includable (heap.Pop)                                       *)
Shift ==
  /\ ~Empty
  /\ LET a == heap[1]  i == next[a] IN
     /\ done' = [done EXCEPT ![a] = @ + 1]
     /\ IF i < Len(pending[a]) /\ Priced(a, i + 1)
          THEN /\ next' = [next EXCEPT ![a] = i + 1]
               /\ heap' = HeapFix(heap, next', 0)
          ELSE /\ next' = [next EXCEPT ![a] = 0]
               /\ heap' = HeapPop(heap, next)
  /\ UNCHANGED << pending, base, popped >>

(* Pop: the root's account is discarded with everything after its head *)
Pop ==
  /\ ~Empty
  /\ LET a == heap[1] IN
     /\ done' = [done EXCEPT ![a] = @ + 1]       \* its head was yielded (and failed)
     /\ next' = [next EXCEPT ![a] = 0]
     /\ heap' = HeapPop(heap, next)
     /\ popped' = popped \cup {a}
  /\ UNCHANGED << pending, base >>

Next == Shift \/ Pop

---------------------------------------------------------------------------
(* The property *)

(* how many leading transactions of the account are includable *)
RECURSIVE PricedPrefix(_, _)
PricedPrefix(a, i) == IF i < Len(pending[a]) /\ Priced(a, i + 1) THEN PricedPrefix(a, i + 1) ELSE i

(* what should be the available head of the account, from the snapshot and the yield history only *)
Avail(a) ==
  IF a \in popped THEN 0
  ELSE IF done[a] < PricedPrefix(a, 0) THEN done[a] + 1 ELSE 0

(* nonce order: the head of an account is exactly the successor of what was yielded from it,   *)
(* i.e. no transaction is offered before all its predecessors were yielded, none is skipped,   *)
(* nothing follows an unincludable transaction, nothing follows a Pop                          *)
HeadIsAvail     == \A a \in Accts : next[a] = Avail(a)
NoYieldAfterPop == \A a \in popped : next[a] = 0 /\ a \notin {heap[i] : i \in 1..Len(heap)}

(* the mechanism: the heap holds exactly the accounts with a head, is heap-ordered, and its    *)
(* root is the best head by the definition (highest effective tip, earlier arrival on ties)    *)
HeapHoldsHeads == /\ {heap[i] : i \in 1..Len(heap)} = {a \in Accts : next[a] # 0}
                  /\ Len(heap) = Cardinality({a \in Accts : next[a] # 0})
HeapOrdered    == \A i \in 1..(Len(heap) - 1) : ~Less(heap, next, i, (i - 1) \div 2)
RootIsBest     == PeekAcct = Best

(* when nothing was popped, an exhausted iterator has yielded exactly the includable prefix of every account *)
Complete == (Empty /\ popped = {}) => \A a \in Accts : done[a] = PricedPrefix(a, 0)

(* every step yields the best available head and touches only that account *)
StepYieldsBest ==
  [][ /\ PeekAcct = Best
      /\ \A b \in Accts \ {Best} : next'[b] = next[b] /\ done'[b] = done[b]
      /\ done'[Best] = done[Best] + 1 ]_vars
=============================================================================
