\* KNOWN-FINDING (open, known_findings.json) C41-gap-after-reorg: searches the model for states violating the strict
\* "pending is gapless" property and prints the behaviours leading there (tag GAP).
SPECIFICATION MCSpec
CONSTANTS Accts = {"a1"}
          MaxN = 2
          NFees = 2
          MaxBlocks = 2
          MaxInc = 2
          NBal = 1
          Deleg = FALSE
          NTips = 0
          HistLen = 0
INVARIANTS WitnessGap
CONSTRAINT NoWitnessYet
VIEW View
CHECK_DEADLOCK FALSE
