SPECIFICATION SimSpec
CONSTANTS NA = 5
          NoBase <- MinusOne
          Lens <- Lens33333
          KindIds = {1, 2, 3, 4, 5, 6, 7}
          Bases <- Bases3
          Tables = {}
          SimTable = 3
          SimMinTx = 9
CONSTRAINT EmitHist
CHECK_DEADLOCK FALSE
