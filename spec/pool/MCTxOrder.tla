------------------------------ MODULE MCTxOrder ------------------------------
(* Model-checking wrapper of TxOrder: bounded snapshots, action labels for edge emission   *)
(* (ACTION_CONSTRAINT Edge), history for sampled behaviours (CONSTRAINT EmitHist).         *)
EXTENDS TxOrder, Json

CONSTANTS Lens,        \* <<l1..lNA>>: account a has 0..Lens[a] transactions
          KindIds,     \* which of the fee kinds below are used
          Bases,       \* base fees explored (NoBase = none)
          Tables       \* which arrival-time tables are used

(* fee kinds [cap, tip]; with base fee 2: unincludable, 0, 1 (tip-bound), 1 (cap-bound), 1, 2, 3 *)
Kind == << [cap |-> 1, tip |-> 1], [cap |-> 2, tip |-> 2], [cap |-> 3, tip |-> 1], [cap |-> 3, tip |-> 3],
           [cap |-> 4, tip |-> 1], [cap |-> 4, tip |-> 4], [cap |-> 6, tip |-> 3] >>

(* arrival times, all distinct; not monotone inside an account in table 2 and 3 *)
TimeTable == << << <<1, 2, 3>>, <<4, 5, 6>>, <<7, 8, 9>>, <<10, 11, 12>>, <<13, 14, 15>> >>,
                << <<9, 4, 2>>, <<5, 6, 1>>, <<3, 8, 7>>, <<12, 10, 11>>, <<15, 14, 13>> >>,
                << <<15, 1, 8>>, <<14, 2, 9>>, <<13, 3, 10>>, <<12, 4, 7>>, <<11, 5, 6>> >> >>

(* values for the cfg files (tuples cannot be written there) *)
MinusOne  == -1
Bases3    == {-1, 2, 3}
Bases2    == {-1, 2}
BasesE    == {-1, 3}
Lens221   == << 2, 2, 1 >>
Lens321   == << 3, 2, 1 >>
Lens222   == << 2, 2, 2 >>
Lens322   == << 3, 2, 2 >>
Lens333   == << 3, 3, 3 >>
Lens3333  == << 3, 3, 3, 3 >>
Lens22222 == << 2, 2, 2, 2, 2 >>
Lens33333 == << 3, 3, 3, 3, 3 >>
Lens21111 == << 2, 1, 1, 1, 1 >>

KindSeqs(n) == UNION {[1..m -> KindIds] : m \in 0..n}

KS(a) == IF a <= NA THEN KindSeqs(Lens[a]) ELSE {<< >>}     \* at most five accounts

VARIABLES act, hist

PeekRec(h, nx) == IF Len(h) = 0 THEN [acct |-> 0, idx |-> 0, fee |-> 0]
                  ELSE [acct |-> h[1], idx |-> nx[h[1]], fee |-> Eff(h[1], nx[h[1]])]

MCInit ==
  /\ base \in Bases
  /\ \E tt \in Tables : \E k1 \in KS(1), k2 \in KS(2), k3 \in KS(3), k4 \in KS(4), k5 \in KS(5) :
        LET ks == << k1, k2, k3, k4, k5 >> IN
        pending = [a \in Accts |-> [i \in 1..Len(ks[a]) |->
                          [cap |-> Kind[ks[a][i]].cap, tip |-> Kind[ks[a][i]].tip, time |-> TimeTable[tt][a][i]]]]
  /\ InitIter
  /\ act = [op |-> "init"]
  /\ hist = << [op |-> "New", peek |-> PeekRec(heap, next)] >>

MCNext ==
  \/ Shift /\ act' = [op |-> "Shift", peek |-> PeekRec(heap, next)] /\ hist' = Append(hist, [op |-> "Shift", peek |-> PeekRec(heap', next')])
  \/ Pop   /\ act' = [op |-> "Pop", peek |-> PeekRec(heap, next)]   /\ hist' = Append(hist, [op |-> "Pop", peek |-> PeekRec(heap', next')])

MCSpec == MCInit /\ [][MCNext]_<< vars, act, hist >>

(* MC: the heap arrangement is part of the state; labels and history are not *)
View     == vars
(* emission: one representative per abstract state *)
AbsView  == << pending, base, next, done, popped >>

PendingJ == [a \in Accts |-> [i \in 1..Len(pending[a]) |-> << pending[a][i].cap, pending[a][i].tip, pending[a][i].time >>]]
Snap     == [base |-> base, pending |-> PendingJ]
Proj(nx, h) == [snap |-> Snap, next |-> nx, peek |-> PeekRec(h, nx),
                fresh |-> (\A a \in Accts : done[a] = 0) /\ popped = {}]

Edge == PrintT(<< "EDGE", ToJson([from |-> Proj(next, heap), act |-> act', to |-> [next |-> next', peek |-> PeekRec(heap', next')]]) >>)

(* ---- sampled behaviours (TLC -simulate): the snapshot is built transaction by transaction so *)
(* that a random walk chooses it (TLC would otherwise enumerate all initial states first)        *)
CONSTANTS SimTable, SimMinTx
RECURSIVE SumLen(_)
SumLen(a) == IF a = 0 THEN 0 ELSE Len(pending[a]) + SumLen(a - 1)
LiveSeq == SelectSeq([i \in 1..NA |-> i], LAMBDA a : FirstHeads[a] # 0)
SimInit ==
  /\ base \in Bases
  /\ pending = [a \in Accts |-> << >>]
  /\ next = [a \in Accts |-> 0] /\ heap = << >> /\ done = [a \in Accts |-> 0] /\ popped = {}
  /\ act = [op |-> "setup"]
  /\ hist = << >>

SimAdd ==
  /\ act.op = "setup"
  /\ \E a \in Accts, k \in KindIds :
        /\ Len(pending[a]) < Lens[a]
        /\ pending' = [pending EXCEPT ![a] = Append(@, [cap |-> Kind[k].cap, tip |-> Kind[k].tip,
                                                        time |-> TimeTable[SimTable][a][Len(@) + 1]])]
  /\ UNCHANGED << base, next, heap, done, popped, act, hist >>

SimStart ==
  /\ act.op = "setup"
  /\ SumLen(NA) >= SimMinTx
  /\ Built(next', heap', done', popped', LiveSeq)
  /\ act' = [op |-> "New"]
  /\ hist' = << [op |-> "New", peek |-> PeekRec(heap', next')] >>
  /\ UNCHANGED << pending, base >>

SimNext == SimAdd \/ SimStart \/ (act.op # "setup" /\ MCNext)
SimSpec == SimInit /\ [][SimNext]_<< vars, act, hist >>

(* printed once per behaviour: when the iterator is exhausted *)
EmitHist ==
  IF act.op # "setup" /\ Empty /\ Len(hist) > 1
    THEN PrintT(<< "MBT", ToJson([snap |-> Snap, first |-> hist[1], steps |-> Tail(hist)]) >>)
    ELSE TRUE
=============================================================================
