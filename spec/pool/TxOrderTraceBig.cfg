SPECIFICATION TraceSpec
CONSTANTS NA = 300
          NoBase <- TraceNoBase
INVARIANTS HeadIsAvail NoYieldAfterPop HeapHoldsHeads HeapOrdered RootIsBest Complete
POSTCONDITION TraceAccepted
CHECK_DEADLOCK FALSE
