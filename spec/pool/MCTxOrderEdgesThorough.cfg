SPECIFICATION MCSpec
CONSTANTS NA = 3
          NoBase <- MinusOne
          Lens <- Lens321
          KindIds = {1, 3, 6}
          Bases <- BasesE
          Tables = {2}
          SimTable = 1
          SimMinTx = 1
INVARIANTS HeadIsAvail RootIsBest
ACTION_CONSTRAINT Edge
VIEW AbsView
CHECK_DEADLOCK FALSE
