SPECIFICATION MCSpec
CONSTANTS Accts = {"a1", "a2"}
          MaxN = 2
          NFees = 2
          MaxBlocks = 1
          MaxInc = 1
          NBal = 1
          Deleg = FALSE
          NTips = 1
          HistLen = 0
INVARIANTS PendingGapless Affordable Disjoint AllIsUnion HeapAccounting PendingNonces BeatsDomain
PROPERTIES ReplacementBumped LimitsAfterCycle TipRespected
VIEW View
CHECK_DEADLOCK FALSE
