------------------------- MODULE MCChainFreezer -------------------------
(* Model-checking wrapper of ChainFreezer.tla: a set of block trees with side branches of   *)
(* different depths and fork points, every finality schedule, crashes between any two steps.*)
EXTENDS ChainFreezer, Json

CONSTANTS MaxCrashes

B(n, p, c) == [n |-> n, p |-> p, c |-> c]
(* canonical 0..3, a side chain of depth 3 forking at genesis *)
T1 == << B(0,0,TRUE), B(1,1,TRUE), B(2,2,TRUE), B(3,3,TRUE), B(1,1,FALSE), B(2,5,FALSE), B(3,6,FALSE) >>
(* canonical 0..4, forks at heights 1 and 2, one crossing every boundary *)
T2 == << B(0,0,TRUE), B(1,1,TRUE), B(2,2,TRUE), B(3,3,TRUE), B(4,4,TRUE), B(2,2,FALSE), B(3,6,FALSE), B(3,3,FALSE), B(4,8,FALSE) >>
(* two siblings at one height and a long side chain above the canonical head *)
T3 == << B(0,0,TRUE), B(1,1,TRUE), B(2,2,TRUE), B(1,1,FALSE), B(1,1,FALSE), B(2,4,FALSE), B(3,6,FALSE), B(4,7,FALSE) >>
(* no side chains *)
T4 == << B(0,0,TRUE), B(1,1,TRUE), B(2,2,TRUE), B(3,3,TRUE), B(4,4,TRUE), B(5,5,TRUE) >>
TreeSeq == << T1, T2, T3, T4 >>
Trees == {TreeSeq[i] : i \in 1..Len(TreeSeq)}
(* the same trees are handed to the driver (harness/cmd/c25 -trees) *)
ASSUME PrintT(<<"TREES", ToJson(TreeSeq)>>)

MCInit == \E t \in Trees : InitWith(t)
MCSpec == MCInit /\ [][Next]_vars
Bounded == gh.crashes <= MaxCrashes
ASSUME \A t \in Trees : TreeOK(t)
=============================================================================
