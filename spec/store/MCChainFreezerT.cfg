SPECIFICATION MCSpec
CONSTANTS MaxCrashes = 3
INVARIANTS TypeOK CanonReadable OpenOK GenesisKept SideGone CanonMoved
CONSTRAINT Bounded
CHECK_DEADLOCK FALSE
