SPECIFICATION TraceSpec
CONSTANTS Tables = {"a", "b"}
          GroupOf <- GroupsG2
          MaxFile = 64
POSTCONDITION TraceAccepted
CHECK_DEADLOCK FALSE
