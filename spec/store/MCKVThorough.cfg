SPECIFICATION MCSpec
CONSTANTS QEmptyDel = FALSE
          QEager = FALSE
          QReplayRange = FALSE
          Keys <- KeysA
          Vals <- ValsA
          IterPrefixes <- PrefA
          MaxBatch = 2
          BatchBounds <- BoundsS
          DirectWithBatch = 1
          IterWithBatch = 1
INVARIANTS TypeOK IterSorted HalfOpen ValueSizeExact
PROPERTIES BufferingInvisible IterStable
CONSTRAINT Bounded
VIEW View
CHECK_DEADLOCK FALSE
