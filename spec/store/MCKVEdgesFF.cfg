SPECIFICATION MCSpec
CONSTANTS QEmptyDel = FALSE
          QEager = FALSE
          QReplayRange = FALSE
          Keys <- KeysB
          Vals <- ValsB
          IterPrefixes <- PrefB
          MaxBatch = 2
          BatchBounds <- BoundsB
          DirectWithBatch = 1
          IterWithBatch = 0
INVARIANTS TypeOK IterSorted
CONSTRAINT Bounded
ACTION_CONSTRAINT Edge
VIEW View
CHECK_DEADLOCK FALSE
