SPECIFICATION MCSpec
CONSTANTS MaxCrashes = 1
INVARIANTS TypeOK SideGoneAlways
CONSTRAINT Bounded
CHECK_DEADLOCK FALSE
