SPECIFICATION TraceSpec
CONSTANTS Tables = {"a", "b", "c"}
          GroupOf <- GroupsG3
          MaxFile = 64
POSTCONDITION TraceAccepted
CHECK_DEADLOCK FALSE
