SPECIFICATION TraceSpec
CONSTANTS QEmptyDel = FALSE
          QEager = TRUE
          QReplayRange = FALSE
INVARIANTS TypeOK IterSorted
POSTCONDITION TraceAccepted
CHECK_DEADLOCK FALSE
