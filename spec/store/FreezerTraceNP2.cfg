SPECIFICATION TraceSpec
CONSTANTS Tables = {"a", "b"}
          GroupOf <- GroupsNone
          MaxFile = 64
POSTCONDITION TraceAccepted
CHECK_DEADLOCK FALSE
