SPECIFICATION TraceSpec
CONSTANTS QEmptyDel = FALSE
          QEager = FALSE
          QReplayRange = TRUE
INVARIANTS TypeOK IterSorted
POSTCONDITION TraceAccepted
CHECK_DEADLOCK FALSE
