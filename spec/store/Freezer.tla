------------------------------ MODULE Freezer ------------------------------
(* The append-only "freezer" of go-ethereum (core/rawdb/freezer*.go) at the granularity of  *)
(* its file-system calls, with a crash model, for property C24:                             *)
(*                                                                                          *)
(*   for any sequence of appends, head/tail truncations and syncs and a crash at any point  *)
(*   (unsynced file data lost or left as zero-filled extension), reopening yields tables    *)
(*   whose items form one contiguous range shared by all tables, every readable item equals *)
(*   what was appended at that position, and every item covered by a completed sync and not *)
(*   later truncated is still present.                                                      *)
(*                                                                                          *)
(* Shape.  A table is three kinds of files: an index file (entry 0 = [earliest data file,   *)
(* number of deleted items], entry k = [data file, end offset] of the k-th stored item),    *)
(* numbered data files, and a metadata file [virtualTail, flushOffset].  Every file has a   *)
(* volatile content (what read() returns) and a durable content (what survives a crash for  *)
(* sure).  Every public call is compiled - from the volatile state, as the Go code reads it *)
(* - into a PROGRAM: the sequence of write/truncate/fsync/rename/unlink calls the code      *)
(* issues (operators *P below follow freezer_table.go / freezer_batch.go line by line).     *)
(* Programs are executed one primitive at a time; Crash may happen between any two.         *)
(* Open is the repair procedure of freezer_table.go:repair/repairIndex/checkIndex followed  *)
(* by the cross-table alignment of freezer.go:repair, itself a program that can crash.      *)
(*                                                                                          *)
(* File-system model (the property's): a crash keeps, per file, any length between the      *)
(* durable and the volatile length; the part beyond the durable length is either the        *)
(* written data or zeros; the small metadata file is rewritten in place and is either old   *)
(* or new.  Creating, unlinking, truncating-to-create (O_TRUNC) and renaming are taken as   *)
(* immediately durable (the code fsyncs the directory after renames only).                  *)
EXTENDS Integers, Sequences, FiniteSets, TLC

CONSTANTS Tables,      \* set of table names
          GroupOf,     \* [Tables -> tail group]; "" = not prunable (tail is always 0)
          MaxFile      \* maxTableSize: a data file is rolled before it would exceed this many bytes

JUNK == 0              \* id of bytes that are not the image of an appended item (zeros, torn item)
CORRUPT == -1          \* result of reading an item whose bytes are not exactly one appended item

(* ------------------------------------------------------------------------------------- *)
(* files                                                                                   *)
(* ------------------------------------------------------------------------------------- *)
ZERO == [f |-> 0, o |-> 0]                      \* an all-zero index entry
Chunk(id, n) == [id |-> id, n |-> n]

RECURSIVE FLen(_)
FLen(df) == IF df = <<>> THEN 0 ELSE Head(df).n + FLen(Tail(df))

(* cut a data file to byte length len (len may also extend it with zeros) *)
RECURSIVE TruncDF(_, _)
TruncDF(df, len) ==
  IF len = 0 THEN <<>>
  ELSE IF df = <<>> THEN << Chunk(JUNK, len) >>
  ELSE IF Head(df).n <= len THEN << Head(df) >> \o TruncDF(Tail(df), len - Head(df).n)
  ELSE << Chunk(JUNK, len) >>                   \* a torn item is garbage

(* id of the item stored exactly at [start, end) of the data file, CORRUPT otherwise *)
RECURSIVE ChunkAt(_, _, _)
ChunkAt(df, start, end) ==
  IF df = <<>> THEN CORRUPT
  ELSE IF start = 0 THEN (IF Head(df).n = end /\ Head(df).id # JUNK THEN Head(df).id ELSE CORRUPT)
  ELSE IF Head(df).n > start THEN CORRUPT
  ELSE ChunkAt(Tail(df), start - Head(df).n, end - Head(df).n)

IsPrefix(a, b) == Len(a) <= Len(b) /\ SubSeq(b, 1, Len(a)) = a
Min(a, b) == IF a < b THEN a ELSE b
Max(a, b) == IF a > b THEN a ELSE b

(* A table.  dat: function from the numbers of the existing data files.                    *)
(*   [idx  |-> [vol, dur],  dat |-> [fileno -> [vol, dur]],  meta |-> [vol, dur],           *)
(*    head |-> number of the data file appended to,  failed |-> open/repair gave up]        *)
Meta(vt, fo) == [vt |-> vt, fo |-> fo]          \* flushOffset counted in index entries
Both(x) == [vol |-> x, dur |-> x]
NoMeta == Meta(-1, -1)                          \* metadata file of length 0 (just created)
TornMeta == Meta(-2, -2)                        \* metadata file that does not decode
(* length of the file content rlp([version, virtualTail, flushOffset in bytes]) *)
IntLen(x) == IF x < 128 THEN 1 ELSE IF x < 256 THEN 2 ELSE IF x < 65536 THEN 3 ELSE IF x < 16777216 THEN 4 ELSE 5
MetaLen(m) == IF m.vt < 0 THEN 0 ELSE 2 + IntLen(m.vt) + IntLen(6 * m.fo)
NewTable == [idx |-> Both(<<>>), dat |-> <<>>, meta |-> Both(NoMeta), head |-> 0, failed |-> FALSE]

Files(ts)   == DOMAIN ts.dat
Idx(ts)     == ts.idx.vol
Offset(ts)  == Idx(ts)[1].o                     \* itemOffset: items deleted from the tail
TailId(ts)  == Idx(ts)[1].f
Items(ts)   == Offset(ts) + Len(Idx(ts)) - 1    \* head: number of items ever stored
Hidden(ts)  == ts.meta.vol.vt                   \* itemHidden = virtual tail
Fo(ts)      == ts.meta.vol.fo
HeadBytes(ts) == IF ts.head \in Files(ts) THEN FLen(ts.dat[ts.head].vol) ELSE 0
OpenFiles(ts) == {x \in Files(ts) : TailId(ts) <= x /\ x <= ts.head}   \* the descriptors the table holds (only these get unlinked)

(* Retrieve(i) as retrieveItems/getIndices compute it *)
Read(ts, i) ==
  IF i < Hidden(ts) \/ i >= Items(ts) THEN CORRUPT
  ELSE LET k  == i - Offset(ts)
           e0 == Idx(ts)[k + 1]
           e1 == Idx(ts)[k + 2]
           start == IF k = 0 \/ e0.f # e1.f THEN 0 ELSE e0.o
       IN IF e1.f \notin Files(ts) \/ e1.o < start THEN CORRUPT
          ELSE ChunkAt(ts.dat[e1.f].vol, start, e1.o)

(* ------------------------------------------------------------------------------------- *)
(* primitives = file-system calls; observable ones (fsync, rename) carry obs = TRUE        *)
(* ------------------------------------------------------------------------------------- *)
WIdx(es)        == [p |-> "widx", es |-> es]
WDat(f, cs)     == [p |-> "wdat", f |-> f, cs |-> cs]
SIdx            == [p |-> "sidx"]
SDat(f)         == [p |-> "sdat", f |-> f]
WMeta(m)        == [p |-> "meta", m |-> m]          \* rewrite the metadata file in place (no fsync)
SMeta           == [p |-> "smeta"]                 \* fsync the metadata file
TIdx(n)         == [p |-> "tidx", n |-> n]
TDat(f, len)    == [p |-> "tdat", f |-> f, len |-> len]
NewF(f)         == [p |-> "newf", f |-> f]          \* O_CREATE|O_TRUNC
EnsF(f)         == [p |-> "ensf", f |-> f]          \* O_CREATE
RmF(fs)         == [p |-> "rmf", fs |-> fs]
RIdx(es)        == [p |-> "ridx", es |-> es]        \* temp file, fsync, rename over the index, fsync dir
SetHead(f)      == [p |-> "head", f |-> f]
Fail            == [p |-> "fail"]

IsSync(pr) == pr.p \in {"sidx", "sdat", "smeta", "ridx"}

Exec(ts, pr) ==
  CASE pr.p = "widx"  -> [ts EXCEPT !.idx.vol = @ \o pr.es]
    [] pr.p = "wdat"  -> [ts EXCEPT !.dat[pr.f].vol = @ \o pr.cs]
    [] pr.p = "sidx"  -> [ts EXCEPT !.idx.dur = ts.idx.vol]
    [] pr.p = "sdat"  -> IF pr.f \in Files(ts) THEN [ts EXCEPT !.dat[pr.f].dur = ts.dat[pr.f].vol] ELSE ts
    [] pr.p = "meta"  -> [ts EXCEPT !.meta.vol = pr.m]
    [] pr.p = "smeta" -> [ts EXCEPT !.meta.dur = ts.meta.vol]
    [] pr.p = "tidx"  -> [ts EXCEPT !.idx.vol = SubSeq(@, 1, pr.n)]
    [] pr.p = "tdat"  -> [ts EXCEPT !.dat[pr.f].vol = TruncDF(@, pr.len)]
    [] pr.p = "newf"  -> [ts EXCEPT !.dat = TLCEval([x \in Files(ts) \cup {pr.f} |->
                                    IF x # pr.f THEN ts.dat[x]
                                    ELSE IF x \in Files(ts) THEN [vol |-> <<>>, dur |-> ts.dat[x].dur]   \* O_TRUNC of a leftover file: not durable yet
                                    ELSE Both(<<>>)])]
    [] pr.p = "ensf"  -> [ts EXCEPT !.dat = TLCEval([x \in Files(ts) \cup {pr.f} |-> IF x \in Files(ts) THEN ts.dat[x] ELSE Both(<<>>)])]
    [] pr.p = "rmf"   -> [ts EXCEPT !.dat = TLCEval([x \in Files(ts) \ pr.fs |-> ts.dat[x]])]
    [] pr.p = "ridx"  -> [ts EXCEPT !.idx = Both(pr.es)]
    [] pr.p = "head"  -> [ts EXCEPT !.head = pr.f]
    [] pr.p = "fail"  -> [ts EXCEPT !.failed = TRUE]

RECURSIVE Run(_, _)
Run(ts, prog) == IF prog = <<>> THEN ts ELSE Run(Exec(ts, Head(prog)), Tail(prog))

(* ------------------------------------------------------------------------------------- *)
(* programs of the table operations (compiled from the volatile state)                     *)
(* ------------------------------------------------------------------------------------- *)

(* freezer_table.go:doSync - index fsync, head-file fsync, flushOffset := index size (synced) *)
DoSyncP(ts) == << SIdx, SDat(ts.head), WMeta(Meta(Hidden(ts), Len(Idx(ts)))), SMeta >>

(* freezer_batch.go: Append*/appendItem/commit and freezer_table.go:advanceHead for a list   *)
(* of items << [id, n] >> of one ModifyAncients call.  part1 = everything before the final  *)
(* commit (buffer flushes forced by file rolls, with their syncs), part2 = the final commit *)
(* (data write, then index write).  h/hb: head file and its size, bd/bi: buffered data/index,*)
(* nidx: index length on disk.                                                              *)
RECURSIVE AppendWalk(_, _, _, _, _, _, _, _)
AppendWalk(items, h, hb, bd, bi, nidx, vt, acc) ==
  IF items = <<>> THEN [part1 |-> acc, part2 |-> << WDat(h, bd), WIdx(bi) >>]
  ELSE LET it == Head(items)
           off == hb + FLen(bd) IN
       IF off + it.n > MaxFile
       THEN \* commit the buffer, roll the head file (advanceHead)
            LET n2 == nidx + Len(bi) IN
            AppendWalk(Tail(items), h + 1, 0, << Chunk(it.id, it.n) >>, << [f |-> h + 1, o |-> it.n] >>, n2, vt,
                       acc \o << WDat(h, bd), WIdx(bi), SIdx, SDat(h), WMeta(Meta(vt, n2)), SMeta,
                                 NewF(h + 1), SDat(h), SetHead(h + 1) >>)
       ELSE AppendWalk(Tail(items), h, hb, bd \o << Chunk(it.id, it.n) >>,
                       bi \o << [f |-> h, o |-> off + it.n] >>, nidx, vt, acc)
AppendP(ts, items) == AppendWalk(items, ts.head, HeadBytes(ts), <<>>, <<>>, Len(Idx(ts)), Hidden(ts), <<>>)

(* freezer_table.go:resetTo(tail) *)
ResetToP(ts, tail) ==
  DoSyncP(ts) \o
  << RIdx(<< [f |-> ts.head + 1, o |-> tail] >>),
     WMeta(Meta(tail, Len(Idx(ts)))), SMeta,        \* setVirtualTail(tail, sync): flushOffset still the old one
     WMeta(Meta(tail, 1)), SMeta,                   \* setFlushOffset(indexEntrySize, sync)
     SetHead(ts.head + 1), NewF(ts.head + 1),
     RmF(OpenFiles(ts)) >>

(* freezer_table.go:truncateHead(items) *)
TruncateHeadP(ts, n) ==
  IF Items(ts) <= n THEN <<>>
  ELSE IF n < Hidden(ts) THEN (IF Items(ts) = Hidden(ts) THEN ResetToP(ts, n) ELSE << Fail >>)
  ELSE LET length == n - Offset(ts)
           exp == IF length = 0 THEN [f |-> TailId(ts), o |-> 0] ELSE Idx(ts)[length + 1]
           fix == IF Fo(ts) > length + 1 THEN << WMeta(Meta(Hidden(ts), length + 1)), SMeta >> ELSE <<>>
           roll == IF exp.f # ts.head
                   THEN << EnsF(exp.f), RmF({x \in OpenFiles(ts) : x > exp.f}), SetHead(exp.f) >> ELSE <<>>
       IN << TIdx(length + 1), SIdx >> \o fix \o roll \o << TDat(exp.f, exp.o), SDat(exp.f) >>

(* freezer_table.go:truncateTail(items) *)
RECURSIVE FirstInFile(_, _, _, _)
(* smallest item number c in [deleted, cur] such that items c..cur all live in file fid *)
FirstInFile(ts, cur, deleted, fid) ==
  IF cur < deleted \/ Idx(ts)[cur - deleted + 2].f # fid THEN cur + 1
  ELSE FirstInFile(ts, cur - 1, deleted, fid)
TruncateTailP(ts, n) ==
  IF Hidden(ts) >= n THEN <<>>
  ELSE IF Items(ts) < n THEN ResetToP(ts, n)
  ELSE LET deleted == Offset(ts)
           newTailId == IF Items(ts) = n THEN ts.head ELSE Idx(ts)[n - deleted + 2].f
           hide == << WMeta(Meta(n, Fo(ts))) >>          \* setVirtualTail(items, no sync)
       IN IF TailId(ts) = newTailId THEN hide
          ELSE IF TailId(ts) > newTailId THEN hide \o << Fail >>
          ELSE LET ts1 == Run(ts, hide)
                   newDeleted == FirstInFile(ts, n - 1, deleted, newTailId)
                   rest == SubSeq(Idx(ts), newDeleted - deleted + 2, Len(Idx(ts)))
                   fo1 == Len(Idx(ts))                            \* after doSync
                   shorten == newDeleted - deleted
               IN hide \o DoSyncP(ts1) \o
                  << RIdx(<< [f |-> newTailId, o |-> newDeleted] >> \o rest), SIdx,
                     RmF({x \in OpenFiles(ts) : x < newTailId}) >> \o
                  (IF fo1 <= shorten THEN << Fail >> ELSE << WMeta(Meta(n, fo1 - shorten)), SMeta >>)

(* ---------------------------- open = repair ---------------------------- *)

(* checkIndex: number of leading index entries that are in order *)
EntryOK(a, b) == /\ (b.f = a.f \/ b.f = a.f + 1)
                 /\ (b.f = a.f => b.o >= a.o)
                 /\ (b.f = a.f + 1 => b.o # 0)
RECURSIVE ValidFrom(_, _)
ValidFrom(idx, k) ==      \* entries 1..k are fine, look at k+1
  IF k >= Len(idx) THEN k
  ELSE IF k = 1 THEN (IF idx[2].f = idx[1].f \/ idx[2].f = idx[1].f + 1 THEN ValidFrom(idx, 2) ELSE 1)
  ELSE IF EntryOK(idx[k], idx[k + 1]) THEN ValidFrom(idx, k + 1) ELSE k
ValidLen(idx) == ValidFrom(idx, 1)

(* the "keep truncating both files until they come in sync" loop of repair:                 *)
(* n entries left, fo flush offset, last = entry describing the head, size of that file     *)
RECURSIVE Slip(_, _, _, _, _, _, _)
Slip(ts, idx, n, fo, vt, tailId, acc) ==
  LET last == IF n = 1 THEN [f |-> tailId, o |-> 0] ELSE idx[n]
      size == IF last.f \in Files(ts) THEN FLen(ts.dat[last.f].vol) ELSE 0
  IN IF last.o = size THEN [prog |-> acc \o << EnsF(last.f) >>, n |-> n, fo |-> fo, head |-> last.f]
     ELSE IF last.o < size THEN [prog |-> acc \o << EnsF(last.f), TDat(last.f, last.o) >>, n |-> n, fo |-> fo, head |-> last.f]
     ELSE LET fo2 == IF fo > n - 1 THEN n - 1 ELSE fo
              fix == IF fo > n - 1 THEN << WMeta(Meta(vt, n - 1)), SMeta >> ELSE <<>>
          IN Slip(ts, idx, n - 1, fo2, vt, tailId, acc \o << EnsF(last.f), TIdx(n - 1) >> \o fix)

(* newTable + repair of one table *)
OpenP(ts) ==
  IF ts.meta.vol = TornMeta THEN << Fail >>        \* newMetadata: "failed to decode metadata"
  ELSE
  LET fresh == ts.meta.vol = NoMeta
      m0    == IF fresh THEN Meta(0, 0) ELSE ts.meta.vol
      pM    == IF fresh THEN << WMeta(Meta(0, 0)), SMeta >> ELSE <<>>
      empty == Idx(ts) = <<>>
      idx1  == IF empty THEN << ZERO >> ELSE Idx(ts)
      pA    == IF empty THEN << WIdx(<< ZERO >>) >> ELSE <<>>
      v     == ValidLen(idx1)
      pC    == IF v < Len(idx1) THEN << TIdx(v) >> ELSE <<>>
      \* repairIndex
      case1 == v = 1 /\ m0.fo = 0
      n     == IF case1 THEN 1 ELSE IF v > m0.fo THEN m0.fo ELSE v
      fo1   == IF case1 THEN 1 ELSE IF v < m0.fo THEN v ELSE m0.fo
      pR    == IF case1 THEN << WMeta(Meta(m0.vt, 1)), SMeta >>
               ELSE IF v > m0.fo THEN << TIdx(m0.fo) >>
               ELSE IF v < m0.fo THEN << WMeta(Meta(m0.vt, v)), SMeta >> ELSE <<>>
  IN IF n = 0 THEN pM \o pA \o pC \o pR \o << Fail >>          \* the code would compute items = 2^64-1
     ELSE
     LET first == idx1[1]
         vt1   == IF first.o > m0.vt THEN first.o ELSE m0.vt
         pV    == IF first.o > m0.vt THEN << WMeta(Meta(vt1, fo1)), SMeta >> ELSE <<>>
         sl    == Slip(ts, idx1, n, fo1, vt1, first.f, <<>>)
         missing == {x \in first.f .. (sl.head - 1) : x \notin Files(ts)}      \* preopen: read-only open fails
         \* newTable then asks for the table size: sizeHidden reads the index entry of item hidden-1,
         \* which is beyond the end of the index when more items are hidden than stored (error: EOF)
         hiddenBeyond == vt1 > first.o + sl.n - 1
     IN pM \o pA \o pC \o pR \o pV \o sl.prog \o << SIdx, SDat(sl.head), SMeta, SetHead(sl.head) >> \o
        (IF missing # {} \/ hiddenBeyond THEN << Fail >> ELSE <<>>)

(* ------------------------------------------------------------------------------------- *)
(* crash                                                                                   *)
(* ------------------------------------------------------------------------------------- *)
(* what a crash may leave of one file: a length between the durable and the volatile one;   *)
(* beyond the durable length either the written data or zeros                               *)
CutIdx(f, n, zf) ==
  IF Len(f.dur) <= Len(f.vol)
  THEN IF zf THEN SubSeq(f.dur, 1, Min(n, Len(f.dur))) \o [i \in 1..(n - Len(f.dur)) |-> ZERO] ELSE SubSeq(f.vol, 1, n)
  ELSE SubSeq(f.dur, 1, n)
(* data file: grown since the last fsync (prefix kept, rest written or zero), shrunk (old content up to *)
(* any length in between), or - a leftover file recycled by O_TRUNC and rewritten - either the old     *)
(* content or the new one, cut anywhere                                                                *)
CutDat(f, len, zf, old) ==
  IF IsPrefix(f.dur, f.vol) THEN (IF zf THEN TruncDF(f.dur, len) ELSE TruncDF(f.vol, len))
  ELSE IF IsPrefix(f.vol, f.dur) THEN TruncDF(f.dur, len)
  ELSE IF old THEN TruncDF(f.dur, len)
  ELSE IF zf THEN TruncDF(<<>>, len) ELSE TruncDF(f.vol, len)
LenRange(a, b) == Min(a, b) .. Max(a, b)

(* cut: [idx |-> [n, zf], dat |-> [fileno -> [len, zf, old]], meta |-> "old"|"new"] *)
CrashTable(ts, cut) ==
  [ idx  |-> Both(CutIdx(ts.idx, cut.idx.n, cut.idx.zf)),
    dat  |-> TLCEval([x \in Files(ts) |-> Both(CutDat(ts.dat[x], cut.dat[x].len, cut.dat[x].zf, cut.dat[x].old))]),
    meta |-> Both(IF cut.meta = "old" THEN ts.meta.dur ELSE IF cut.meta = "torn" THEN TornMeta ELSE ts.meta.vol),
    head |-> 0, failed |-> FALSE ]

Related(f) == IsPrefix(f.dur, f.vol) \/ IsPrefix(f.vol, f.dur)
DatOpts(ts, x) ==
  IF Related(ts.dat[x]) THEN [len : LenRange(FLen(ts.dat[x].dur), FLen(ts.dat[x].vol)), zf : BOOLEAN, old : {FALSE}]
  ELSE [len : 0..FLen(ts.dat[x].vol), zf : BOOLEAN, old : {FALSE}] \cup [len : 0..FLen(ts.dat[x].dur), zf : {FALSE}, old : {TRUE}]
CutsOf(ts) ==
  [ idx  : [n : LenRange(Len(ts.idx.dur), Len(ts.idx.vol)), zf : BOOLEAN],
    dat  : {d \in [Files(ts) -> UNION {DatOpts(ts, x) : x \in Files(ts)}] : \A x \in Files(ts) : d[x] \in DatOpts(ts, x)},
    \* the rewrite happens in place: old or new - or, when the encoding grew, the new bytes at the old length
    meta : {"old", "new"} \cup (IF MetaLen(ts.meta.vol) > MetaLen(ts.meta.dur) /\ MetaLen(ts.meta.dur) > 0 THEN {"torn"} ELSE {}) ]

(* ------------------------------------------------------------------------------------- *)
(* the freezer: tables + the running call                                                  *)
(* ------------------------------------------------------------------------------------- *)
VARIABLES tab,      \* [Tables -> table]
          queue,    \* remaining work of the running call: sequence of segments
          mode,     \* "run" | "down" (crashed or not yet opened)
          uncut,    \* tables a crash in progress has not reached yet
          g         \* ghost: app[i] = id last appended at position i; items in [lo[group], hi) are covered by a
                    \*        completed sync and by no truncation started since; next = fresh id

vars == <<tab, queue, mode, uncut, g>>

Groups == {GroupOf[t] : t \in Tables} \ {""}
Seg(t, prog) == [k |-> "prims", t |-> t, prog |-> prog]
Mark(k, step) == [k |-> k, step |-> step]

Idle == mode = "run" /\ queue = <<>> /\ \A t \in Tables : ~tab[t].failed
JustOpened == mode = "run" /\ queue # <<>> /\ Head(queue).k = "opened"
Settled == Idle \/ JustOpened
Head0 == LET t == CHOOSE t \in Tables : TRUE IN Items(tab[t])     \* common head when aligned

(* every ordering of a set of tables *)
RECURSIVE Orders(_)
Orders(S) == IF S = {} THEN {<<>>} ELSE UNION {{<<t>> \o o : o \in Orders(S \ {t})} : t \in S}

FailedOf(tb) == \E t \in Tables : tb[t].failed

(* freezer.go:repair after all tables are open, as three successive steps each compiled    *)
(* from the state the previous one left (tb: a table map)                                   *)
NonEmptyOf(tb) == {t \in Tables : Items(tb[t]) # 0}
CommonHeadOf(tb) == IF NonEmptyOf(tb) = {} THEN 0
                    ELSE CHOOSE h \in {Items(tb[t]) : t \in NonEmptyOf(tb)} : \A t \in NonEmptyOf(tb) : h <= Items(tb[t])
GroupTailOf(tb, grp) == LET S == {Hidden(tb[t]) : t \in {u \in Tables : GroupOf[u] = grp}} IN
                        CHOOSE x \in S : \A y \in S : x >= y
AlignProg(tb, step, t) ==
  CASE step = 1 -> IF CommonHeadOf(tb) > 0 /\ Items(tb[t]) = 0 THEN TruncateTailP(tb[t], CommonHeadOf(tb)) ELSE <<>>
    [] step = 2 -> TruncateHeadP(tb[t], CommonHeadOf(tb))
    [] step = 3 -> IF GroupOf[t] = "" THEN (IF Hidden(tb[t]) # 0 THEN << Fail >> ELSE <<>>)
                   ELSE TruncateTailP(tb[t], GroupTailOf(tb, GroupOf[t]))
CommonHead == CommonHeadOf(tab)
GroupTail(grp) == GroupTailOf(tab, grp)
AlignProgs(step, order) == [i \in 1..Len(order) |-> Seg(order[i], AlignProg(tab, step, order[i]))]

(* NewFreezer as one function (no crash inside): what Ancients()/Tail() report afterwards is *)
(* the head and the tails computed by repair                                                *)
OpenAll(tb) ==
  \* (TLCEval: function constructors are lazy in TLC; without it every application re-runs the repair)
  \* A failed table open / alignment step ends NewFreezer with an error (or a panic): later stages do not run.
  LET t0 == TLCEval([t \in Tables |-> Run(tb[t], OpenP(tb[t]))])
      t1 == IF FailedOf(t0) THEN t0 ELSE TLCEval([t \in Tables |-> Run(t0[t], AlignProg(t0, 1, t))])
      t2 == IF FailedOf(t1) THEN t1 ELSE TLCEval([t \in Tables |-> Run(t1[t], AlignProg(t1, 2, t))])
      t3 == IF FailedOf(t2) THEN t2 ELSE TLCEval([t \in Tables |-> Run(t2[t], AlignProg(t2, 3, t))])
  IN IF FailedOf(t3) THEN [tabs |-> t3, head |-> 0, tails |-> TLCEval([grp \in Groups |-> 0])]
     ELSE [tabs |-> t3, head |-> CommonHeadOf(t0), tails |-> TLCEval([grp \in Groups |-> GroupTailOf(t2, grp)])]

(* ------------------------------ actions ------------------------------ *)
Init == /\ tab = [t \in Tables |-> NewTable]
        /\ queue = << >>
        /\ mode = "down"
        /\ uncut = {}
        /\ g = [app |-> << >>, lo |-> [grp \in Groups |-> 0], hi |-> 0, next |-> 1]

(* NewFreezer: open every table (in any order), then align *)
Open == /\ mode = "down" /\ uncut = {}
        /\ \E order \in Orders(Tables) :
             queue' = [i \in 1..Len(order) |-> Seg(order[i], OpenP(tab[order[i]]))] \o
                      << Mark("align", 1), Mark("align", 2), Mark("align", 3), Mark("opened", 0) >>
        /\ mode' = "run"
        /\ UNCHANGED <<tab, uncut, g>>

(* one file-system call of the running call, or the expansion of the next stage *)
Step == /\ mode = "run" /\ queue # <<>>
        /\ LET s == Head(queue) IN
           CASE s.k = "prims" ->
                  IF s.prog = <<>> THEN queue' = Tail(queue) /\ UNCHANGED <<tab, g>>
                  ELSE /\ tab' = [tab EXCEPT ![s.t] = Exec(@, Head(s.prog))]
                       /\ queue' = IF Head(s.prog).p = "fail" THEN <<>>            \* the call / NewFreezer ends with an error
                                   ELSE << [s EXCEPT !.prog = Tail(@)] >> \o Tail(queue)
                       /\ UNCHANGED g
             [] s.k = "align" ->
                  /\ \E order \in Orders(Tables) : queue' = AlignProgs(s.step, order) \o Tail(queue)
                  /\ UNCHANGED <<tab, g>>
             [] s.k = "opened" ->   \* the freezer is open: what is on disk now is what there is
                  /\ queue' = Tail(queue)
                  /\ g' = [g EXCEPT !.lo = [grp \in Groups |-> GroupTail(grp)], !.hi = Head0]
                  /\ UNCHANGED tab
             [] s.k = "synced" ->   \* a Sync call completed: everything stored now is covered
                  /\ queue' = Tail(queue)
                  /\ g' = [g EXCEPT !.hi = Head0]
                  /\ UNCHANGED tab
        /\ UNCHANGED <<mode, uncut>>

(* ModifyAncients appending items with the given ids at positions head, head+1, ...;        *)
(* sizes[t][j] bytes in table t.  The caller appends table by table, so all part1 programs  *)
(* run one after the other, then the final commits in any order.                            *)
AppendItems(ids, sizes) ==
  /\ Idle
  /\ \E o1 \in Orders(Tables), o2 \in Orders(Tables) :
       LET prog(t) == AppendP(tab[t], [j \in 1..Len(ids) |-> [id |-> ids[j], n |-> sizes[t][j]]]) IN
       queue' = [i \in 1..Len(o1) |-> Seg(o1[i], prog(o1[i]).part1)] \o
                [i \in 1..Len(o2) |-> Seg(o2[i], prog(o2[i]).part2)]
  /\ g' = [g EXCEPT !.app = [i \in (DOMAIN g.app) \cup (Head0 .. (Head0 + Len(ids) - 1)) |->
                               IF i >= Head0 /\ i < Head0 + Len(ids) THEN ids[i - Head0 + 1] ELSE g.app[i]],
                    !.next = g.next + Len(ids)]
  /\ UNCHANGED <<tab, mode, uncut>>

Sync == /\ Idle
        /\ \E order \in Orders(Tables) :
             queue' = [i \in 1..Len(order) |-> Seg(order[i], DoSyncP(tab[order[i]]))] \o << Mark("synced", 0) >>
        /\ UNCHANGED <<tab, mode, uncut, g>>

(* Freezer.TruncateHead(n) (a no-op unless n < head).  From the moment it starts the items  *)
(* >= n count as truncated.                                                                 *)
TruncateHead(n) ==
  /\ Idle /\ n < Head0 /\ \A t \in Tables : n >= Hidden(tab[t])
  /\ \E order \in Orders(Tables) :
       queue' = [i \in 1..Len(order) |-> Seg(order[i], TruncateHeadP(tab[order[i]], n))]
  /\ g' = [g EXCEPT !.hi = Min(g.hi, n)]
  /\ UNCHANGED <<tab, mode, uncut>>

(* Freezer.TruncateTail(group, n), n <= head *)
TruncateTail(grp, n) ==
  /\ Idle /\ grp \in Groups /\ n <= Head0 /\ GroupTail(grp) < n
  /\ \E order \in Orders({t \in Tables : GroupOf[t] = grp}) :
       queue' = [i \in 1..Len(order) |-> Seg(order[i], TruncateTailP(tab[order[i]], n))]
  /\ g' = [g EXCEPT !.lo[grp] = Max(@, n)]
  /\ UNCHANGED <<tab, mode, uncut>>

(* power failure: the running call is abandoned; every table is cut independently *)
Crash == /\ mode = "run"
         /\ mode' = "down" /\ uncut' = Tables /\ queue' = <<>>
         /\ UNCHANGED <<tab, g>>
CrashCut == /\ mode = "down" /\ uncut # {}
            /\ \E t \in uncut : \E cut \in CutsOf(tab[t]) :
                 /\ tab' = [tab EXCEPT ![t] = CrashTable(@, cut)]
                 /\ uncut' = uncut \ {t}
            /\ UNCHANGED <<queue, mode, g>>

(* ------------------------------------------------------------------------------------- *)
(* properties (C24), stated for the moments the freezer is open and no call is running     *)
(* (JustOpened: reopened after a crash, compared with what was promised before it)         *)
(* ------------------------------------------------------------------------------------- *)
(* one contiguous range shared by all tables (tail per group; 0 for tables that are not prunable) *)
AlignedOf(tb) ==
  /\ \A t, u \in Tables : Items(tb[t]) = Items(tb[u])
  /\ \A t, u \in Tables : GroupOf[t] = GroupOf[u] /\ GroupOf[t] # "" => Hidden(tb[t]) = Hidden(tb[u])
  /\ \A t \in Tables : GroupOf[t] = "" => Hidden(tb[t]) = 0
  /\ \A t \in Tables : Hidden(tb[t]) <= Items(tb[t]) /\ Offset(tb[t]) <= Hidden(tb[t])

(* every readable item equals what was appended at that position *)
ReadableCorrectOf(tb, gh) ==
  \A t \in Tables : \A i \in Hidden(tb[t]) .. (Items(tb[t]) - 1) :
     i \in DOMAIN gh.app /\ Read(tb[t], i) = gh.app[i]

(* every item covered by a completed sync and not truncated later is still present *)
DurableOf(tb, gh) ==
  \A t \in Tables : LET lo == IF GroupOf[t] = "" THEN 0 ELSE gh.lo[GroupOf[t]] IN
     lo < gh.hi => Items(tb[t]) >= gh.hi /\ Hidden(tb[t]) <= lo

NeverFails == ~FailedOf(tab)

(* KNOWN-FINDING (tolerated only through ctx.known_finding in the check) (spec/store/NOTES.md C24-F1, C24-F2): the two ways the pinned code is known to    *)
(* refuse to reopen.  F1: more items hidden than stored (virtualTail written without fsync by           *)
(* TruncateTail survives while the unflushed index entries do not) - newTable fails with EOF; or, with  *)
(* the loss in another table, the common head falls below a table's tail and Freezer.repair fails with *)
(* "truncation below tail".                                                                             *)
(* F2: a table that is not prunable is left with 0 items while another table has items (first          *)
(* SyncAncient or TruncateHead(0) interrupted); Freezer.repair takes it for a freshly added table,     *)
(* fast-forwards it with truncateTail and then panics on its non-zero tail.                            *)
KnownF1(tb) == \E t, u \in Tables : tb[t].failed /\ Hidden(tb[t]) > Items(tb[u])   \* u = t: EOF; u # t: "truncation below tail"
KnownF2(tb) == \E t \in Tables : tb[t].failed /\ GroupOf[t] = "" /\ Hidden(tb[t]) # 0
(* F3: the metadata rewrite is not atomic when its RLP encoding grows by a byte (a value reaches 2^7,  *)
(* 2^8, 2^16 ...): the new bytes at the old length do not decode and newMetadata gives up.              *)
KnownF3(tb) == \E t \in Tables : tb[t].failed /\ tb[t].meta.vol = TornMeta
FailsOnlyKnown == FailedOf(tab) => KnownF3(tab) \/ KnownF1(tab) \/ KnownF2(tab)
Aligned == Settled => AlignedOf(tab)
ReadableCorrect == Settled => ReadableCorrectOf(tab, g)
Durable == Settled => DurableOf(tab, g)

(* between two syncs a data or index file only grows or only shrinks (the crash model relies on it) *)
(* (data files too, except a leftover file recycled by O_TRUNC - and that one is never referenced by a  *)
(* durable index entry before it is fsynced)                                                            *)
Monotone == \A t \in Tables :
  /\ IsPrefix(tab[t].idx.dur, tab[t].idx.vol) \/ IsPrefix(tab[t].idx.vol, tab[t].idx.dur)
  /\ \A x \in Files(tab[t]) : ~Related(tab[t].dat[x]) =>
        \A i \in 1..Min(Len(tab[t].idx.dur), tab[t].meta.dur.fo) : tab[t].idx.dur[i].f # x \/ i = 1

(* the index is well formed whenever the table is in use *)
IndexOK == Idle => \A t \in Tables : ValidLen(Idx(tab[t])) = Len(Idx(tab[t])) /\ Fo(tab[t]) <= Len(Idx(tab[t]))
=============================================================================
