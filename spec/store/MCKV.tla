------------------------------- MODULE MCKV -------------------------------
(* Model-checking wrapper of KV.tla: finite key/value universes, the label of the last      *)
(* action (with its observable result) in `act`, and an ACTION_CONSTRAINT that prints every *)
(* transition of the reachable graph for replay on the real backends (DESIGN 2.1, R).       *)
EXTENDS KV, Json

CONSTANTS Keys,       \* finite set of byte strings
          Vals,       \* finite set of byte strings
          IterPrefixes,   \* iterator prefixes tried (besides nil)
          MaxBatch,   \* bound on buffered operations
          BatchBounds,   \* range bounds used for buffered range deletions
          DirectWithBatch, \* largest batch length at which direct writes are explored
          IterWithBatch  \* largest batch length explored while an iterator is open

VARIABLE act

(* universes selectable from the cfg files (cfg syntax has no tuples) *)
KeysS == {<<>>, <<1>>, <<1, 0>>}                 \* edge replay: empty key, a key, its extension
KeysA == {<<>>, <<1>>, <<1, 0>>, <<2>>}           \* empty key, a key, its extension, a sibling
KeysB == {<<1>>, <<1, 255>>, <<2>>, <<255>>}      \* 0xff bytes: prefix upper bounds
KeysC == {<<>>, <<0>>, <<1>>, <<1, 0>>, <<1, 1>>, <<2>>}
ValsA == {<<>>, <<7>>}
ValsB == {<<7>>}
PrefA == {<<>>, <<1>>}
PrefB == {<<1>>, <<1, 255>>, <<255>>}

Bounds == Keys \cup {Nil}
Rest == SubSeq(it.items, it.pos + 1, Len(it.items))
P == [store |-> Dump(store), batch |-> batch, bstate |-> bstate, vsize |-> vsize,
      itopen |-> it.open, rest |-> Rest]
PNext == [store |-> Dump(store'), batch |-> batch', bstate |-> bstate', vsize |-> vsize',
          itopen |-> it'.open, rest |-> SubSeq(it'.items, it'.pos + 1, Len(it'.items))]

SortedK == SortedKeys(Keys)
ReadAll == [i \in 1..Len(SortedK) |-> [k |-> SortedK[i], found |-> HasRes(SortedK[i]), v |-> B(GetRes(SortedK[i]))]]

MCInit == Init /\ act = [op |-> "init"]

MCNext ==
  \/ /\ Len(batch) <= DirectWithBatch
     /\ \/ \E k \in Keys, v \in Vals : Put(k, v) /\ act' = [op |-> "Put", k |-> k, v |-> v]
        \/ \E k \in Keys : Delete(k) /\ act' = [op |-> "Delete", k |-> k]
        \/ \E a \in Bounds, e \in Bounds : DeleteRange(a, e) /\ act' = [op |-> "DeleteRange", a |-> a, e |-> e]
  \/ UNCHANGED vars /\ act' = [op |-> "Reads", res |-> ReadAll]
  \/ /\ Len(batch) < MaxBatch
     /\ it.open => Len(batch) < IterWithBatch
     /\ \/ \E k \in Keys, v \in Vals : BPut(k, v) /\ act' = [op |-> "BPut", k |-> k, v |-> v]
        \/ \E k \in Keys : BDelete(k) /\ act' = [op |-> "BDelete", k |-> k]
        \/ \E a \in BatchBounds, e \in BatchBounds : BDeleteRange(a, e) /\ act' = [op |-> "BDeleteRange", a |-> a, e |-> e]
  \/ BWrite /\ act' = [op |-> "BWrite"]
  \/ (batch # <<>> \/ bstate = "written") /\ BReset /\ act' = [op |-> "BReset"]
  \/ \E viaBatch \in BOOLEAN : batch # <<>> /\ BReplay /\ act' = [op |-> "BReplay", viaBatch |-> viaBatch, err |-> ReplayErr]
  \/ \E p \in IterPrefixes \cup {Nil}, st \in Bounds : Len(batch) <= IterWithBatch /\ IterNew(p, st) /\ act' = [op |-> "IterNew", p |-> p, st |-> st]
  \/ IterNext /\ act' = [op |-> "IterNext", ok |-> NextRes]
  \/ IterRelease /\ act' = [op |-> "IterRelease"]
  \/ Reopen /\ act' = [op |-> "Reopen"]

MCSpec == MCInit /\ [][MCNext]_<<vars, act>>

View == <<store, batch, bstate, vsize, it.open, Rest>>

(* the QEager expansion may buffer several deletions per call: explore a finite part *)
Bounded == Len(batch) <= MaxBatch + Cardinality(Keys)
BoundsS == {Nil, <<1>>}
BoundsS2 == {Nil, <<>>, <<1>>}
BoundsB == {Nil, <<1, 255>>, <<255>>}

HalfOpen == RangeHalfOpen(Keys)

Edge == PrintT(<<"EDGE", ToJson([from |-> P, act |-> act', to |-> PNext])>>)
=============================================================================
