SPECIFICATION MCSpec
CONSTANTS Tables = {"a"}
          GroupOf <- Groups1
          MaxFile = 2
          Sizes = {1, 2}
          MaxItems = 4
          MaxBatch = 3
          MaxCrashes = 2
          TailBeyondSync = TRUE
INVARIANTS FailsOnlyKnown Aligned ReadableCorrect Durable Monotone IndexOK
VIEW View
CHECK_DEADLOCK FALSE
