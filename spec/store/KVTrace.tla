------------------------------ MODULE KVTrace ------------------------------
(* Trace validation for KV.tla (property C23): every line of an ndjson trace recorded from *)
(* a real backend or table view (harness/cmd/c23 -mode record) must be explained by the    *)
(* corresponding action of KV.tla, and every reported result (reads, iterator positions,   *)
(* ValueSize, replay outcome, full dumps) must be the one the specification determines.    *)
(* The specification is deterministic given the logged arguments, so validation is linear. *)
EXTENDS KV, Json, IOUtils

Trace == ndJsonDeserialize(IOEnv.TRACE)

VARIABLE l      \* next line of the trace to explain

Ev == Trace[l]

Step(A) == l <= Len(Trace) /\ A /\ l' = l + 1

SizeOK == vsize' < 0 \/ Ev.size = vsize' + Ev.pfx * Len(batch')   \* pfx: prefix length of a table view (0 otherwise)

TReset   == Step(Ev.op = "reset" /\ store' = Empty /\ batch' = <<>> /\ bstate' = "open" /\ vsize' = 0 /\ it' = NoIter)
TPut     == Step(Ev.op = "Put" /\ Put(Ev.k, Ev.v))
TDelete  == Step(Ev.op = "Delete" /\ Delete(Ev.k))
TDelRng  == Step(Ev.op = "DeleteRange" /\ DeleteRange(Ev.a, Ev.e))
TGet     == Step(/\ Ev.op = "Get"
                 /\ Ev.has = HasRes(Ev.k) /\ Ev.found = HasRes(Ev.k)
                 /\ (Ev.found => Ev.v = store[Ev.k])
                 /\ UNCHANGED vars)
TBPut    == Step(Ev.op = "BPut" /\ BPut(Ev.k, Ev.v) /\ SizeOK)
TBDelete == Step(Ev.op = "BDelete" /\ BDelete(Ev.k) /\ SizeOK)
TBDelRng == Step(Ev.op = "BDeleteRange" /\ BDeleteRange(Ev.a, Ev.e))
TBWrite  == Step(Ev.op = "BWrite" /\ BWrite)
TBReset  == Step(Ev.op = "BReset" /\ BReset /\ Ev.size = 0)
TBReplay == Step(Ev.op = "BReplay" /\ Ev.err = ReplayErr /\ BReplay)
TIterNew == Step(Ev.op = "IterNew" /\ IterNew(Ev.p, Ev.st))
TIterNxt == Step(/\ Ev.op = "IterNext"
                 /\ Ev.ok = NextRes
                 /\ (Ev.ok => <<Ev.k, Ev.v>> = it.items[it.pos + 1])
                 /\ IterNext)
TIterRel == Step(Ev.op = "IterRelease" /\ IterRelease)
TReopen  == Step(Ev.op = "Reopen" /\ Reopen)
TDump    == Step(Ev.op = "Dump" /\ Ev.store = Dump(store) /\ UNCHANGED vars)

TraceInit == Init /\ l = 1
TraceNext == \/ TReset \/ TPut \/ TDelete \/ TDelRng \/ TGet \/ TBPut \/ TBDelete \/ TBDelRng
             \/ TBWrite \/ TBReset \/ TBReplay \/ TIterNew \/ TIterNxt \/ TIterRel \/ TReopen \/ TDump
TraceSpec == TraceInit /\ [][TraceNext]_<<vars, l>>

TraceAccepted == TLCGet("stats").diameter - 1 = Len(Trace)
=============================================================================
