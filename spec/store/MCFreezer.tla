---------------------------- MODULE MCFreezer ----------------------------
(* Model-checking wrapper of Freezer.tla: bounded histories (items, sizes, crashes).        *)
EXTENDS Freezer

CONSTANTS Sizes,        \* item sizes (bytes on disk) tried
          MaxItems,     \* ids handed out at most
          MaxBatch,     \* items per ModifyAncients call at most
          MaxCrashes,   \* crashes per behaviour at most
          TailBeyondSync \* explore TruncateTail(n) with n above the head covered by the last completed sync

VARIABLE crashes

Groups1 == [t \in Tables |-> "g"]                     \* all tables prunable together
GroupsMixed == [t \in Tables |-> IF t = "a" THEN "" ELSE "g"]   \* table "a" is not prunable

MCInit == Init /\ crashes = 0

SizeFns(k) == [Tables -> [1..k -> Sizes]]

MCNext ==
  \/ Open /\ UNCHANGED crashes
  \/ Step /\ UNCHANGED crashes
  \/ (g.next <= MaxItems /\ \E k \in 1..Min(MaxBatch, MaxItems - g.next + 1) : \E sz \in SizeFns(k) :
        AppendItems([j \in 1..k |-> g.next + j - 1], sz)) /\ UNCHANGED crashes
  \/ Sync /\ UNCHANGED crashes
  \/ (\E n \in 0..MaxItems : TruncateHead(n)) /\ UNCHANGED crashes
  \/ (\E grp \in Groups, n \in 1..MaxItems : (TailBeyondSync \/ n <= g.hi) /\ TruncateTail(grp, n)) /\ UNCHANGED crashes
  \/ crashes < MaxCrashes /\ Crash /\ crashes' = crashes + 1
  \/ CrashCut /\ UNCHANGED crashes

MCSpec == MCInit /\ [][MCNext]_<<vars, crashes>>
=============================================================================
