---------------------------- MODULE MCFreezer ----------------------------
(* Model-checking wrapper of Freezer.tla: bounded histories (items, sizes, crashes).        *)
EXTENDS Freezer, Json

CONSTANTS Sizes,        \* item sizes (bytes on disk) tried
          MaxItems,     \* ids handed out at most
          MaxBatch,     \* items per ModifyAncients call at most
          MaxCrashes,   \* crashes per behaviour at most
          TailBeyondSync \* explore TruncateTail(n) with n above the head covered by the last completed sync

VARIABLES crashes,
          hist     \* the public calls made so far, as driver script tokens (a<k> s h<n> t<n> c); not part of the VIEW

Groups1 == [t \in Tables |-> "g"]                     \* all tables prunable together
GroupsMixed == [t \in Tables |-> IF t = "a" THEN "" ELSE "g"]   \* table "a" is not prunable

MCInit == Init /\ crashes = 0 /\ hist = <<>>
Tok(c, n) == [c |-> c, n |-> n]

SizeFns(k) == [Tables -> [1..k -> Sizes]]

MCNext ==
  \/ Open /\ UNCHANGED <<crashes, hist>>
  \/ Step /\ UNCHANGED <<crashes, hist>>
  \/ /\ g.next <= MaxItems
     /\ \E k \in 1..Min(MaxBatch, MaxItems - g.next + 1) : \E sz \in SizeFns(k) :
          AppendItems([j \in 1..k |-> g.next + j - 1], sz) /\ hist' = Append(hist, Tok("a", k))
     /\ UNCHANGED crashes
  \/ Sync /\ hist' = Append(hist, Tok("s", 0)) /\ UNCHANGED crashes
  \/ (\E n \in 0..MaxItems : TruncateHead(n) /\ hist' = Append(hist, Tok("h", n))) /\ UNCHANGED crashes
  \/ (\E grp \in Groups, n \in 1..MaxItems : (TailBeyondSync \/ n <= g.hi) /\ TruncateTail(grp, n) /\ hist' = Append(hist, Tok("t", n)))
     /\ UNCHANGED crashes
  \/ crashes < MaxCrashes /\ Crash /\ crashes' = crashes + 1
     /\ hist' = IF queue = <<>> THEN Append(hist, Tok("c", 0)) ELSE hist    \* the driver's main line crashes between calls
  \/ CrashCut /\ UNCHANGED <<crashes, hist>>

MCSpec == MCInit /\ [][MCNext]_<<vars, crashes, hist>>
View == <<vars, crashes>>

(* simulation mode: print the call history of every behaviour once it has SimCalls calls and is idle *)
SimCalls == 7
Emit == IF Idle /\ Len(hist) >= SimCalls THEN PrintT(<<"MBT", ToJson(hist)>>) /\ FALSE ELSE TRUE
=============================================================================
