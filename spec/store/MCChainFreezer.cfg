SPECIFICATION MCSpec
CONSTANTS MaxCrashes = 2
INVARIANTS TypeOK CanonReadable OpenOK GenesisKept SideGone CanonMoved
CONSTRAINT Bounded
CHECK_DEADLOCK FALSE
