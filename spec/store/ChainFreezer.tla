---------------------------- MODULE ChainFreezer ----------------------------
(* Migration of finalized chain segments from the key-value store into the freezer          *)
(* (core/rawdb/chain_freezer.go: freeze, freezeRange; accessor fall-back of                 *)
(* accessors_chain.go), property C25:                                                       *)
(*                                                                                          *)
(*   for any chain with side branches and any finality schedule, including a stop between   *)
(*   copying blocks to the freezer and deleting them from the key-value store, every chain  *)
(*   accessor returns the same result for canonical blocks before and after freezing,       *)
(*   side-chain data below the frozen boundary is removed, and no canonical block becomes   *)
(*   unreadable.                                                                            *)
(*                                                                                          *)
(* The block tree is a sequence of blocks  [n: number, p: index of the parent (0 for        *)
(* genesis), c: canonical?];  block identities are the indices (hashes are injective).      *)
(* One freeze cycle is split where the code performs separate durable effects:              *)
(*   Copy (freezeRange: ModifyAncients)  ->  SyncF (SyncAncient)  ->  Del1 (batch: frozen   *)
(*   canonical blocks + canonical mapping)  ->  Del2 (batch: everything left at the frozen  *)
(*   heights)  ->  Del3 (batch: dangling descendants above the boundary).                   *)
(* Crash may happen between any two; the freezer then keeps any head between its synced and *)
(* its current one (what C24 establishes), the key-value store keeps what was written.      *)
EXTENDS Integers, Sequences, FiniteSets, TLC

VARIABLES tree,     \* Seq([n, p, c])
          kv,       \* key-value store: [hdr, num, body, rcpt: sets of blocks; canon: set of <<number, block>>; txl: set of blocks]
          fz,       \* freezer head (number of frozen canonical blocks): [vol, dur]
          final,    \* finalized block number (0 = unknown)
          pc,       \* "idle" | "copied" | "synced" | "del1" | "del2"
          loc,      \* cycle locals: [first, dang]
          gh        \* ghost: [crashes, clean]: clean = heights frozen by a cycle that ran to completion

vars == <<tree, kv, fz, final, pc, loc, gh>>

Blocks    == 1..Len(tree)
Num(b)    == tree[b].n
Par(b)    == tree[b].p
IsCanon(b) == tree[b].c
CanonAt(n) == CHOOSE b \in Blocks : IsCanon(b) /\ Num(b) = n      \* the canonical block of a height
ChainHead      == CHOOSE h \in {Num(b) : b \in {x \in Blocks : IsCanon(x)}} : \A b \in Blocks : IsCanon(b) => Num(b) <= h

(* a well-formed tree: one genesis, parents one below, the canonical blocks form a chain 0..ChainHead *)
TreeOK(t) ==
  /\ Len(t) >= 1 /\ t[1] = [n |-> 0, p |-> 0, c |-> TRUE]
  /\ \A b \in 2..Len(t) : t[b].p \in 1..(b - 1) /\ t[b].n = t[t[b].p].n + 1 /\ (t[b].c => t[t[b].p].c)
  /\ \A a, b \in 1..Len(t) : t[a].c /\ t[b].c /\ t[a].n = t[b].n => a = b

(* ---------------------------- accessors (accessors_chain.go) ---------------------------- *)
(* as functions of a key-value store k and a freezer head f                                  *)
FrozenIn(f, b) == IsCanon(b) /\ Num(b) < f            \* isCanon(reader, number, hash): the freezer holds b at its height
(* ReadCanonicalHash: freezer first, else the number->hash mapping *)
CanonHashIn(k, f, n) == IF n < f THEN CanonAt(n)
                        ELSE IF \E b \in Blocks : <<n, b>> \in k.canon THEN CHOOSE b \in Blocks : <<n, b>> \in k.canon
                        ELSE 0
(* ReadTransaction: lookup entry -> number -> canonical hash -> ReadCanonicalBodyRLP *)
ProjIn(k, f, b) ==
  [ canon |-> CanonHashIn(k, f, Num(b)) = b,
    hdr   |-> FrozenIn(f, b) \/ b \in k.hdr,          \* ReadHeaderRLP / HasHeader: freezer when the frozen header hashes to b
    body  |-> FrozenIn(f, b) \/ b \in k.body,         \* ReadBodyRLP: freezer iff isCanon, else key-value store
    rcpt  |-> FrozenIn(f, b) \/ b \in k.rcpt,
    num   |-> b \in k.num,                            \* ReadHeaderNumber: key-value store only
    tx    |-> b \in k.txl /\ CanonHashIn(k, f, Num(b)) = b /\ (FrozenIn(f, b) \/ b \in k.body),
    kvh   |-> b \in k.hdr, kvb |-> b \in k.body, kvr |-> b \in k.rcpt ]   \* what the key-value store itself still holds

F         == fz.vol
CanonHash(n) == CanonHashIn(kv, F, n)
Proj(b)   == ProjIn(kv, F, b)

(* ---------------------------- the freeze cycle, as functions ---------------------------- *)
FullKV(t) == [hdr |-> 1..Len(t), num |-> 1..Len(t), body |-> 1..Len(t), rcpt |-> 1..Len(t),
              canon |-> {<<t[b].n, b>> : b \in {x \in 1..Len(t) : t[x].c}},
              txl |-> {x \in 1..Len(t) : t[x].c}]

(* threshold = finalized number (chains shorter than the 90000-block immutability window);  *)
(* nothing to do when everything up to it is frozen; freezeRange needs the canonical        *)
(* mapping, header, body and receipts of every block first..last in the key-value store     *)
CanCopyIn(k, f, fin) ==
  /\ fin > 0 /\ ~(f # 0 /\ f - 1 >= fin)
  /\ \A n \in f..fin : \E b \in Blocks : <<n, b>> \in k.canon /\ b \in k.hdr /\ b \in k.body /\ b \in k.rcpt
(* batch 1: DeleteBlockWithoutNumber + DeleteCanonicalHash for every frozen block but genesis *)
Del1K(k, first, f) ==
  LET gone == {b \in Blocks : IsCanon(b) /\ Num(b) >= first /\ Num(b) < f /\ Num(b) # 0} IN
  [k EXCEPT !.hdr = @ \ gone, !.body = @ \ gone, !.rcpt = @ \ gone,
            !.canon = {e \in @ : ~(e[1] >= first /\ e[1] < f /\ e[1] # 0)}]
(* batch 2: DeleteBlock for everything still stored at the frozen heights; "dangling" = what *)
(* was found at the last of these heights                                                   *)
Del2K(k, first, f) ==
  LET gone == {b \in k.hdr : Num(b) >= first /\ Num(b) < f /\ Num(b) # 0} IN
  [k EXCEPT !.hdr = @ \ gone, !.num = @ \ gone, !.body = @ \ gone, !.rcpt = @ \ gone]
DangIn(k, f) == IF f - 1 # 0 THEN {b \in k.hdr : Num(b) = f - 1} ELSE {}
(* batch 3: children (by stored header) of dangling blocks, transitively upwards *)
RECURSIVE Descend(_, _, _)
Descend(k, dang, tip) == IF dang = {} THEN {}
                         ELSE LET ch == {b \in k.hdr : Num(b) = tip /\ Par(b) \in dang} IN ch \cup Descend(k, ch, tip + 1)
Del3K(k, dang, f) ==
  LET gone == IF f > 0 THEN Descend(k, dang, f) ELSE {} IN
  [k EXCEPT !.hdr = @ \ gone, !.num = @ \ gone, !.body = @ \ gone, !.rcpt = @ \ gone]
(* one whole cycle that runs to completion from (k, f) *)
CycleK(k, f, fin) ==
  IF ~CanCopyIn(k, f, fin) THEN [kv |-> k, f |-> f]
  ELSE LET f2 == fin + 1
           k1 == Del1K(k, f, f2)
           k2 == Del2K(k1, f, f2)
       IN [kv |-> Del3K(k2, DangIn(k1, f2), f2), f |-> f2]

(* ---------------------------- actions ---------------------------- *)
InitWith(t) == /\ tree = t /\ kv = FullKV(t) /\ fz = [vol |-> 0, dur |-> 0] /\ final = 0
               /\ pc = "idle" /\ loc = [first |-> 0, dang |-> {}] /\ gh = [crashes |-> 0, clean |-> {}]

SetFinal(n) == /\ pc = "idle" /\ n > final /\ n <= ChainHead
               /\ final' = n /\ UNCHANGED <<tree, kv, fz, pc, loc, gh>>

CanCopy == CanCopyIn(kv, F, final)
Copy == /\ pc = "idle" /\ CanCopy
        /\ fz' = [fz EXCEPT !.vol = final + 1]
        /\ loc' = [first |-> F, dang |-> {}]
        /\ pc' = "copied" /\ UNCHANGED <<tree, kv, final, gh>>
SyncF == /\ pc = "copied" /\ fz' = [fz EXCEPT !.dur = fz.vol] /\ pc' = "synced"
         /\ UNCHANGED <<tree, kv, final, loc, gh>>
Del1 == /\ pc = "synced" /\ kv' = Del1K(kv, loc.first, F)
        /\ pc' = "del1" /\ UNCHANGED <<tree, fz, final, loc, gh>>
Del2 == /\ pc = "del1" /\ kv' = Del2K(kv, loc.first, F) /\ loc' = [loc EXCEPT !.dang = DangIn(kv, F)]
        /\ pc' = "del2" /\ UNCHANGED <<tree, fz, final, gh>>
Del3 == /\ pc = "del2" /\ kv' = Del3K(kv, loc.dang, F)
        /\ pc' = "idle"
        /\ gh' = [gh EXCEPT !.clean = @ \cup (loc.first .. (F - 1))]
        /\ UNCHANGED <<tree, fz, final, loc>>

(* a stop anywhere: the freezer keeps a head between the synced and the current one *)
Crash == /\ \E h \in fz.dur..fz.vol : fz' = [vol |-> h, dur |-> h]
         /\ pc' = "idle" /\ loc' = [first |-> 0, dang |-> {}]
         /\ gh' = [gh EXCEPT !.crashes = @ + 1]
         /\ UNCHANGED <<tree, kv, final>>

Next == (\E n \in 1..ChainHead : SetFinal(n)) \/ Copy \/ SyncF \/ Del1 \/ Del2 \/ Del3 \/ Crash

(* ---------------------------- properties ---------------------------- *)
TypeOK == TreeOK(tree) /\ fz.dur <= fz.vol /\ fz.vol <= ChainHead + 1

(* every accessor gives, for every canonical block, what it gave before any freezing *)
Readable(pr) == pr.canon /\ pr.hdr /\ pr.body /\ pr.rcpt /\ pr.num /\ pr.tx
CanonReadableIn(k, f) == \A b \in Blocks : IsCanon(b) => Readable(ProjIn(k, f, b))
CanonReadable == CanonReadableIn(kv, F)

(* rawdb.Open accepts the combination (no gap between the freezer and the key-value store) *)
OpenOKIn(k, f) == (\E b \in Blocks : <<f, b>> \in k.canon) \/ ChainHead <= f - 1
OpenOK == pc = "idle" => OpenOKIn(kv, F)
GenesisKept == 1 \in kv.hdr /\ <<0, 1>> \in kv.canon

(* side blocks at frozen heights, and every stored descendant of them, are removed by a cycle that runs *)
(* to completion                                                                                          *)
RECURSIVE SideRooted(_)
SideRooted(b) == ~IsCanon(b) /\ Num(b) # 0 /\ (Num(b) \in gh.clean \/ SideRooted(Par(b)))
Stored(b) == b \in kv.hdr \/ b \in kv.body \/ b \in kv.rcpt
SideGone == pc = "idle" => \A b \in Blocks : SideRooted(b) => ~Stored(b) /\ b \notin kv.num
(* frozen canonical blocks do not stay behind in the key-value store either *)
CanonMoved == pc = "idle" => \A b \in Blocks : IsCanon(b) /\ Num(b) \in gh.clean /\ Num(b) # 0 => ~Stored(b)

(* anything frozen that is still stored in the key-value store although no cycle will come back for it *)
LeakIn(k, f) == {b \in Blocks : Num(b) < f /\ Num(b) # 0 /\ (b \in k.hdr \/ b \in k.body \/ b \in k.rcpt)}

(* what does NOT hold (finding C25-F1): after an interrupted cycle nothing revisits the heights that *)
(* were already copied, so their side blocks and duplicates stay in the key-value store for good      *)
SideGoneAlways == pc = "idle" /\ ~CanCopy => \A b \in Blocks : ~IsCanon(b) /\ Num(b) < F /\ Num(b) # 0 => ~Stored(b)
=============================================================================
