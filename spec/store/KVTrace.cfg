SPECIFICATION TraceSpec
CONSTANTS QEmptyDel = FALSE
          QEager = FALSE
          QReplayRange = FALSE
INVARIANTS TypeOK IterSorted
POSTCONDITION TraceAccepted
CHECK_DEADLOCK FALSE
