SPECIFICATION TraceSpec
CONSTANTS Tables = {"a", "b"}
          GroupOf <- GroupsMixed
          MaxFile = 64
POSTCONDITION TraceAccepted
CHECK_DEADLOCK FALSE
