------------------------- MODULE ChainFreezerTrace -------------------------
(* Trace validation for ChainFreezer.tla (property C25).  The trace is recorded by          *)
(* harness/cmd/c25 from rawdb.Open(key-value store, Ancient: dir) with the freeze loop      *)
(* parked at the gate hooks of chain_freezer.freeze:                                        *)
(*   init      the block tree and the projection of every chain accessor for every block    *)
(*   final n   the finalized block moves to number n                                        *)
(*   gate k    the running freeze cycle reached gate k (1 copied, 2 synced, 3 canonical     *)
(*             deleted, 4 side blocks deleted, 5 dangling deleted): projection              *)
(*   crashopen a crash image of that moment (key-value snapshot + freezer directory cut at  *)
(*             fsync positions) reopened by rawdb.Open in a child process: projection right *)
(*             after opening and after one further complete cycle                           *)
(*   freezeret the Freeze() call returned                                                   *)
(* Every projection must be the specification's; after every step and in every crash image  *)
(* every canonical block must be readable through every accessor.                           *)
EXTENDS ChainFreezer, Json, IOUtils

Trace == ndJsonDeserialize(IOEnv.TRACE)
VARIABLE l
Ev == Trace[l]
tvars == <<vars, l>>
Step_(A) == l <= Len(Trace) /\ A /\ l' = l + 1

(* the logged projection equals the specification's for key-value store k and freezer head f *)
SameProj(p, k, f) == /\ p.f = f
                     /\ Len(p.blocks) = Len(tree)
                     /\ \A b \in Blocks : p.blocks[b] = ProjIn(k, f, b)

TreeOf(ev) == [i \in 1..Len(ev.tree) |-> [n |-> ev.tree[i].n, p |-> ev.tree[i].p, c |-> ev.tree[i].c]]
TInit == Step_(/\ Ev.op = "init" /\ TreeOK(TreeOf(Ev))
               /\ tree' = TreeOf(Ev) /\ kv' = FullKV(TreeOf(Ev)) /\ fz' = [vol |-> 0, dur |-> 0] /\ final' = 0
               /\ pc' = "idle" /\ loc' = [first |-> 0, dang |-> {}] /\ gh' = [crashes |-> 0, clean |-> {}])
(* the projection of the untouched store (follows init) *)
TCheck == Step_(Ev.op = "check" /\ SameProj(Ev.proj, kv, fz.vol) /\ CanonReadableIn(kv, fz.vol) /\ UNCHANGED vars)

TFinal == Step_(Ev.op = "final" /\ SetFinal(Ev.n))

TGate == Step_(/\ Ev.op = "gate"
               /\ CASE Ev.k = 1 -> Copy
                    [] Ev.k = 2 -> SyncF
                    [] Ev.k = 3 -> Del1
                    [] Ev.k = 4 -> Del2
                    [] Ev.k = 5 -> Del3
               /\ SameProj(Ev.proj, kv', fz'.vol)
               /\ CanonReadableIn(kv', fz'.vol))

(* a crash image of the present moment: the reopened freezer head lies between the synced and the  *)
(* current one; rawdb.Open accepts the combination; all canonical blocks are readable; one further *)
(* complete cycle gives what the specification computes and again everything is readable           *)
ImageOK == \E c \in {CycleK(kv, Ev.open.f, final)} :
  /\ Ev.ok
  /\ Ev.open.f \in fz.dur..fz.vol
  /\ OpenOKIn(kv, Ev.open.f)
  /\ SameProj(Ev.open, kv, Ev.open.f)
  /\ CanonReadableIn(kv, Ev.open.f)
  /\ SameProj(Ev.after, c.kv, c.f)
  /\ CanonReadableIn(c.kv, c.f)
  /\ (Ev.gates # <<>>) = CanCopyIn(kv, Ev.open.f, final)
  \* KNOWN-FINDING (tolerated only through ctx.known_finding in the check) (C25-F1): after the interrupted cycle and one further complete cycle, blocks at frozen
  \* heights are still stored in the key-value store (nothing revisits them) - reported, not rejected
  /\ (LeakIn(c.kv, c.f) # {} => PrintT(<<"PENDING", ToJson([line |-> l, finding |-> "C25-F1", gate |-> Ev.k, left |-> Cardinality(LeakIn(c.kv, c.f))])>>))
TCrashOpen == Step_(Ev.op = "crashopen" /\ ImageOK /\ UNCHANGED vars)
TCrashOpenBad == /\ l <= Len(Trace) /\ Ev.op = "crashopen" /\ ~ImageOK
                 /\ PrintT(<<"REJECT", ToJson([line |-> l, ok |-> Ev.ok, head_range |-> <<fz.dur, fz.vol>>, reopened |-> Ev.open.f,
                                               spec_open |-> [b \in Blocks |-> ProjIn(kv, Ev.open.f, b)],
                                               open_ok |-> OpenOKIn(kv, Ev.open.f)])>>)
                 /\ FALSE /\ UNCHANGED tvars

(* Freeze() returned: the cycle ran to its end and nothing that could be frozen is left *)
TFreezeRet == Step_(/\ Ev.op = "freezeret" /\ pc = "idle" /\ ~CanCopy
                    /\ SameProj(Ev.proj, kv, fz.vol) /\ CanonReadableIn(kv, fz.vol)
                    /\ SideGone /\ CanonMoved
                    /\ UNCHANGED vars)

TraceInit == InitWith(<< [n |-> 0, p |-> 0, c |-> TRUE] >>) /\ l = 1
TraceNext == TInit \/ TCheck \/ TFinal \/ TGate \/ TCrashOpen \/ TCrashOpenBad \/ TFreezeRet
TraceSpec == TraceInit /\ [][TraceNext]_tvars
TraceAccepted == TLCGet("stats").diameter - 1 = Len(Trace)
=============================================================================
