SPECIFICATION TraceSpec
INVARIANTS TypeOK GenesisKept
POSTCONDITION TraceAccepted
CHECK_DEADLOCK FALSE
