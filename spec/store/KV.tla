------------------------------- MODULE KV -------------------------------
(* The ethdb.KeyValueStore contract (property C23).                                         *)
(*                                                                                          *)
(* One abstract ordered map from byte strings to byte strings, one write batch and one     *)
(* iterator, with one action per interface method (ethdb/database.go, ethdb/batch.go,       *)
(* ethdb/iterator.go).  Every backend (memorydb, pebble, leveldb) and every prefixed        *)
(* table view (core/rawdb/table.go) over a backend must be a behaviour of this module; the  *)
(* backends are then observationally equal to each other *through* the module.              *)
(*                                                                                          *)
(* Written from the interface documentation:                                                *)
(*   - DeleteRange(start,end) removes the half-open range [start,end); a nil start is the   *)
(*     key before all keys, a nil end the key after all keys (an *empty* non-nil end is     *)
(*     the smallest key, so nothing is below it);                                           *)
(*   - a Batch buffers Put/Delete/DeleteRange, nothing is visible before Write, Write       *)
(*     applies all buffered operations in order as one step, Reset empties the batch,       *)
(*     Replay(w) re-issues the buffered operations in order on w;                           *)
(*   - NewIterator(prefix,start) iterates in binary-alphabetical order over the keys        *)
(*     with the prefix that are >= prefix \o start, over the content at creation time.      *)
(*                                                                                          *)
(* The three Q* constants describe how particular backends DEVIATE from the contract in     *)
(* the pinned go-ethereum tree (all FALSE = the contract).  They exist so that these        *)
(* backends stay bound to an exact specification while the deviations are reported as       *)
(* findings (see NOTES.md C23-F1..F3); the property itself is the Q-free module.            *)
EXTENDS Integers, Sequences, FiniteSets, SequencesExt, TLC

CONSTANTS QEmptyDel,      \* memorydb: batch.Delete(empty key) is recorded as DeleteRange(nil,nil)
          QEager,         \* leveldb: batch.DeleteRange is expanded at call time into Deletes of the keys present then
          QReplayRange    \* rawdb table batch: Replay stops with an error at the first DeleteRange

VARIABLES store,    \* the database content: a function  key -> value  with a finite domain
          batch,    \* buffered operations of the (single) batch
          bstate,   \* "open" | "written"   (a written batch may only be Reset or Replayed)
          vsize,    \* Batch.ValueSize(): sum of key+value lengths; -1 once a range deletion made it backend-specific
          it        \* the (single) iterator: [open, items, pos]

vars == <<store, batch, bstate, vsize, it>>

Nil == <<-1>>        \* the nil byte string (distinct from the empty one) for range bounds / prefix / start

(* ---------------------------- byte strings ---------------------------- *)
RECURSIVE Less(_, _)
Less(a, b) == IF a = <<>> THEN b # <<>>
              ELSE IF b = <<>> THEN FALSE
              ELSE IF a[1] # b[1] THEN a[1] < b[1]
              ELSE Less(Tail(a), Tail(b))
Leq(a, b) == a = b \/ Less(a, b)
HasPrefix(k, p) == Len(p) <= Len(k) /\ SubSeq(k, 1, Len(p)) = p
B(x) == IF x = Nil THEN <<>> ELSE x      \* nil used as a byte string is the empty string

InRange(k, s, e) == (s = Nil \/ Leq(s, k)) /\ (e = Nil \/ Less(k, e))

(* ---------------------------- the map ---------------------------- *)
Empty == [x \in {} |-> <<>>]                   \* function with empty domain
SPut(s, k, v) == [x \in DOMAIN s \cup {k} |-> IF x = k THEN v ELSE s[x]]
SDel(s, k)    == [x \in DOMAIN s \ {k} |-> s[x]]
SDelRange(s, a, e) == [x \in {y \in DOMAIN s : ~InRange(y, a, e)} |-> s[x]]
SortedKeys(S) == SetToSortSeq(S, Less)
Dump(s) == LET ks == SortedKeys(DOMAIN s) IN [i \in 1..Len(ks) |-> <<ks[i], s[ks[i]]>>]

(* ---------------------------- batch operations ---------------------------- *)
OpPut(k, v) == [t |-> "put", k |-> k, v |-> v, e |-> Nil]
OpDel(k)    == [t |-> "del", k |-> k, v |-> <<>>, e |-> Nil]
OpRng(a, e) == [t |-> "rng", k |-> a, v |-> <<>>, e |-> e]

ApplyOp(s, op) == CASE op.t = "put" -> SPut(s, op.k, op.v)
                    [] op.t = "del" -> SDel(s, op.k)
                    [] op.t = "rng" -> SDelRange(s, op.k, op.e)
RECURSIVE ApplyAll(_, _)
ApplyAll(s, ops) == IF ops = <<>> THEN s ELSE ApplyAll(ApplyOp(s, Head(ops)), Tail(ops))

HasRng(ops) == \E i \in 1..Len(ops) : ops[i].t = "rng"
FirstRng(ops) == CHOOSE i \in 1..Len(ops) : ops[i].t = "rng" /\ \A j \in 1..(i-1) : ops[j].t # "rng"

(* ---------------------------- direct operations ---------------------------- *)
Put(k, v)         == store' = SPut(store, k, v) /\ UNCHANGED <<batch, bstate, vsize, it>>
Delete(k)         == store' = SDel(store, k) /\ UNCHANGED <<batch, bstate, vsize, it>>
DeleteRange(a, e) == store' = SDelRange(store, a, e) /\ UNCHANGED <<batch, bstate, vsize, it>>
(* reads are observations: Has(k) = k \in DOMAIN store, Get(k) = store[k] when present *)
HasRes(k) == k \in DOMAIN store
GetRes(k) == IF k \in DOMAIN store THEN store[k] ELSE Nil

(* ---------------------------- batch ---------------------------- *)
Grow(n) == IF vsize < 0 THEN -1 ELSE vsize + n

BPut(k, v) == /\ bstate = "open"
              /\ batch' = Append(batch, OpPut(k, v))
              /\ vsize' = Grow(Len(k) + Len(v))
              /\ UNCHANGED <<store, bstate, it>>
BDelete(k) == /\ bstate = "open"
              /\ batch' = Append(batch, IF QEmptyDel /\ k = <<>> THEN OpRng(Nil, Nil) ELSE OpDel(k))
              /\ vsize' = Grow(Len(k))
              /\ UNCHANGED <<store, bstate, it>>
EagerDels(a, e) == LET ks == SortedKeys({k \in DOMAIN store : InRange(k, a, e)})
                   IN [i \in 1..Len(ks) |-> OpDel(ks[i])]
BDeleteRange(a, e) == /\ bstate = "open"
                      /\ batch' = IF QEager THEN batch \o EagerDels(a, e) ELSE Append(batch, OpRng(a, e))
                      /\ vsize' = -1
                      /\ UNCHANGED <<store, bstate, it>>
(* Write: everything or nothing, in order, in one step *)
BWrite == /\ bstate = "open"
          /\ store' = ApplyAll(store, batch)
          /\ bstate' = "written"
          /\ UNCHANGED <<batch, vsize, it>>
BReset == batch' = <<>> /\ bstate' = "open" /\ vsize' = 0 /\ UNCHANGED <<store, it>>
(* Replay into the database itself or into a fresh batch of it that is then written: the   *)
(* result is the same map.  ReplayErr is the reported outcome.                              *)
ReplayErr == QReplayRange /\ HasRng(batch)
Replayed  == IF ReplayErr THEN SubSeq(batch, 1, FirstRng(batch) - 1) ELSE batch
BReplay == store' = ApplyAll(store, Replayed) /\ UNCHANGED <<batch, bstate, vsize, it>>

(* ---------------------------- iterator ---------------------------- *)
NoIter == [open |-> FALSE, items |-> <<>>, pos |-> 0]
Snapshot(p, st) == LET lo == B(p) \o B(st)
                       ks == SortedKeys({k \in DOMAIN store : HasPrefix(k, B(p)) /\ Leq(lo, k)})
                   IN [i \in 1..Len(ks) |-> <<ks[i], store[ks[i]]>>]
IterNew(p, st) == /\ ~it.open
                  /\ it' = [open |-> TRUE, items |-> Snapshot(p, st), pos |-> 0]
                  /\ UNCHANGED <<store, batch, bstate, vsize>>
(* Next() = TRUE iff there is a further item; then Key()/Value() are that item *)
NextRes == it.pos < Len(it.items)
IterNext == /\ it.open
            /\ it' = [it EXCEPT !.pos = IF it.pos < Len(it.items) THEN it.pos + 1 ELSE it.pos]
            /\ UNCHANGED <<store, batch, bstate, vsize>>
IterRelease == it.open /\ it' = NoIter /\ UNCHANGED <<store, batch, bstate, vsize>>

(* close and reopen of a disk backend (no iterator or batch alive): nothing changes *)
Reopen == ~it.open /\ batch = <<>> /\ UNCHANGED vars

Init == store = Empty /\ batch = <<>> /\ bstate = "open" /\ vsize = 0 /\ it = NoIter

(* ---------------------------- properties ---------------------------- *)
TypeOK == /\ bstate \in {"open", "written"}
          /\ vsize >= -1
          /\ it.pos \in 0..Len(it.items)
          /\ \A i \in 1..Len(batch) : batch[i].t \in {"put", "del", "rng"}

(* iterator yields a strictly ascending sequence *)
IterSorted == \A i \in 1..(Len(it.items) - 1) : Less(it.items[i][1], it.items[i+1][1])

(* the contract's half-open range semantics (checked as a property of the operator) *)
RangeHalfOpen(S) == \A a \in S \cup {Nil}, e \in S \cup {Nil} :
      LET s2 == SDelRange(store, a, e) IN
      /\ \A k \in DOMAIN store :
            (k \in DOMAIN s2) <=> ~((a = Nil \/ Leq(a, k)) /\ (e = Nil \/ Less(k, e)))
      /\ \A k \in DOMAIN s2 : s2[k] = store[k]
      /\ (a # Nil /\ e # Nil /\ Leq(e, a) => s2 = store)       \* empty and inverted ranges delete nothing
      /\ (e = <<>> => s2 = store)

(* batch atomicity / isolation: the map only changes by a direct write, Write or Replay;    *)
(* buffering operations never changes it (action property)                                  *)
BufferingInvisible == [][batch' # batch /\ bstate' = "open" /\ batch' # <<>> => store' = store]_vars
(* an iterator is a snapshot: its items never change while it is open (action property) *)
IterStable == [][it.open /\ it'.open => it'.items = it.items]_vars
(* without the deviations a batch holds exactly what was buffered and ValueSize is exact *)
SizeOf(op) == Len(B(op.k)) + Len(op.v)
RECURSIVE SumSizes(_)
SumSizes(ops) == IF ops = <<>> THEN 0 ELSE SizeOf(Head(ops)) + SumSizes(Tail(ops))
ValueSizeExact == vsize >= 0 => vsize = SumSizes(batch)
=============================================================================
