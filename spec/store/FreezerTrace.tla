---------------------------- MODULE FreezerTrace ----------------------------
(* Trace validation for Freezer.tla (property C24).  The trace is recorded by               *)
(* harness/cmd/c24 from a real core/rawdb.Freezer:                                          *)
(*                                                                                          *)
(*   init / call / presync / fsync / rename / ret   the main line: public calls and, through*)
(*              the fsync hook of core/rawdb, every fsync and index rename they perform      *)
(*   image      a crash image of the present moment (per file: the cut length, zero-filled  *)
(*              or not, metadata old or new) together with what the real NewFreezer made of *)
(*              it in a child process (Ancients, Tail, every item)                          *)
(*   crash / reopen   the main line itself continues on a crash image                       *)
(*                                                                                          *)
(* The specification compiles every call into its file-level program (Freezer.tla), follows *)
(* the observed fsyncs through it (a sync the program does not contain, or one it contains  *)
(* but the code did not perform, rejects the trace), checks the real file lengths (durable  *)
(* and current) against its own, and for every image recomputes crash + repair and demands  *)
(* (a) the same observable result as the real code and (b) the three clauses of C24         *)
(* against the ghost state (what was appended where, what a completed sync covers).         *)
EXTENDS Freezer, Json, IOUtils

Trace == ndJsonDeserialize(IOEnv.TRACE)

VARIABLES l,      \* next line of the trace to explain
          pend,   \* [Tables -> [p1, p2, st]]: the programs of the running call; st: "new" | "run" | "done1"
          rep     \* what the freezer reports: [head, tails] (Ancients()/Tail() are cached values)

Ev == Trace[l]
tvars == <<tab, queue, mode, uncut, g, l, pend, rep>>
Step_(A) == l <= Len(Trace) /\ A /\ l' = l + 1 /\ UNCHANGED <<queue, mode, uncut>>

GroupsG2 == [t \in Tables |-> "g"]
GroupsMixed == [t \in Tables |-> IF t = "a" THEN "" ELSE "g"]
GroupsNone == [t \in Tables |-> ""]
GroupsG3 == [t \in Tables |-> IF t = "a" THEN "" ELSE IF t = "b" THEN "g" ELSE "h"]

NoPend == [t \in Tables |-> [p1 |-> <<>>, p2 |-> <<>>, st |-> "new"]]

(* ---------------------------- following a program ---------------------------- *)
RECURSIVE UntilSync(_, _)
UntilSync(ts, prog) ==        \* execute up to (excluding) the next fsync/rename
  IF prog = <<>> \/ IsSync(Head(prog)) THEN [ts |-> ts, rest |-> prog]
  ELSE UntilSync(Exec(ts, Head(prog)), Tail(prog))
NoSyncIn(prog) == \A i \in 1..Len(prog) : ~IsSync(prog[i])

Matches(pr, kind, fno) ==
  \/ kind = "idx"  /\ pr.p = "sidx"
  \/ kind = "dat"  /\ pr.p = "sdat" /\ pr.f = fno
  \/ kind = "meta" /\ pr.p = "smeta"

(* real file lengths and metadata content = the model's (index in bytes: 6 per entry) *)
DatLensT(ts) == {<<x, FLen(ts.dat[x].vol)>> : x \in Files(ts)}
SameLensT(lens, t, ts) ==
  /\ lens[t].idx = 6 * Len(ts.idx.vol)
  /\ lens[t].meta = << Hidden(ts), 6 * Fo(ts) >>        \* the metadata file content: [virtualTail, flushOffset]
  /\ {<<lens[t].dat[i][1], lens[t].dat[i][2]>> : i \in 1..Len(lens[t].dat)} = DatLensT(ts)
SameLens(lens, tb) == \A t \in Tables : SameLensT(lens, t, tb[t])

(* The tables of one call are worked on in map order, which the trace shows only through the fsyncs.   *)
(* A table whose part of the call performs no fsync at all (TruncateTail within one data file: only   *)
(* the unsynced metadata rewrite) may therefore have run already, unobserved, when another table's    *)
(* first fsync is seen: it has iff the real files (lengths, metadata content) recorded with the       *)
(* presync event are those after its program and not those before.                                    *)
RanSilently(x, lens) ==
  /\ pend[x].st = "new" /\ pend[x].p1 # <<>> /\ NoSyncIn(pend[x].p1)
  /\ SameLensT(lens, x, Run(tab[x], pend[x].p1)) /\ ~SameLensT(lens, x, tab[x])

(* table t is about to perform the observed sync: the tables that were running have finished their   *)
(* first part (without any unobserved sync), t has advanced to just before the sync                  *)
Advance(t, lens) ==
  \E u \in {UntilSync(tab[t], pend[t].p1)} :
  /\ \A x \in Tables \ {t} : pend[x].st = "run" => NoSyncIn(pend[x].p1)
  /\ tab' = [x \in Tables |-> IF x = t THEN u.ts
                              ELSE IF pend[x].st = "run" \/ RanSilently(x, lens) THEN Run(tab[x], pend[x].p1) ELSE tab[x]]
  /\ pend' = [x \in Tables |-> IF x = t THEN [pend[t] EXCEPT !.p1 = u.rest, !.st = "run"]
                               ELSE IF pend[x].st = "run" \/ RanSilently(x, lens) THEN [pend[x] EXCEPT !.p1 = <<>>, !.st = "done1"] ELSE pend[x]]
  /\ u.rest # <<>>

(* ---------------------------- observations ---------------------------- *)
TailOfTable(t, tails) == IF GroupOf[t] = "" THEN 0 ELSE tails[GroupOf[t]]
Reads(tb, t, lo, hi) == [i \in 1..(hi - lo) |-> Read(tb[t], lo + i - 1)]
(* the projection harness/cmd/c24:project computes through the public API *)
SameResult(res, tb, head, tails) ==
  /\ res.ok
  /\ res.head = head
  /\ \A grp \in Groups : res.tails[grp] = tails[grp]
  /\ \A t \in Tables : res.items[t] = Reads(tb, t, TailOfTable(t, tails), head)
  /\ \A t \in Tables : res.edge[t] = << IF TailOfTable(t, tails) > 0 THEN Read(tb[t], TailOfTable(t, tails) - 1) ELSE CORRUPT,
                                        Read(tb[t], head) >>
(* ---------------------------- crash images ---------------------------- *)
CutFile(c, x) == LET i == CHOOSE i \in 1..Len(c.dat) : c.dat[i].fno = x IN c.dat[i]
(* the recorded durable/current lengths are the model's *)
CutLensOK(c, ts) ==
  /\ (c.meta = "torn" => MetaLen(ts.meta.vol) > MetaLen(ts.meta.dur) /\ MetaLen(ts.meta.dur) > 0
                         /\ c.mlen = <<MetaLen(ts.meta.dur), MetaLen(ts.meta.vol)>>)
  /\ c.idx.dur = 6 * Len(ts.idx.dur) /\ c.idx.vol = 6 * Len(ts.idx.vol)
  /\ {c.dat[i].fno : i \in 1..Len(c.dat)} = Files(ts)
  /\ \A i \in 1..Len(c.dat) : c.dat[i].dur = FLen(ts.dat[c.dat[i].fno].dur) /\ c.dat[i].vol = FLen(ts.dat[c.dat[i].fno].vol)
ModelCut(c, ts) ==
  [ idx  |-> [n |-> c.idx.len \div 6, zf |-> c.idx.zf],
    dat  |-> TLCEval([x \in Files(ts) |-> [len |-> CutFile(c, x).len, zf |-> CutFile(c, x).zf, old |-> CutFile(c, x).old]]),
    meta |-> c.meta ]
Crashed(cuts) == TLCEval([t \in Tables |-> CrashTable(tab[t], ModelCut(cuts[t], tab[t]))])

(* C24 for a reopened image *)
C24(o) == /\ ~FailedOf(o.tabs)
          /\ AlignedOf(o.tabs)
          /\ ReadableCorrectOf(o.tabs, g)
          /\ DurableOf(o.tabs, g)

ImageOK(cuts, res) ==
  LET o == OpenAll(Crashed(cuts)) IN
  /\ \A t \in Tables : CutLensOK(cuts[t], tab[t])
  /\ SameResult(res, o.tabs, o.head, o.tails)
  /\ C24(o)

(* ---------------------------- events ---------------------------- *)
FreshTabs == TLCEval([t \in Tables |-> NewTable])
TInit == Step_(/\ Ev.op = "init" /\ Ev.maxfile = MaxFile
               /\ LET o == OpenAll(FreshTabs) IN
                  /\ tab' = o.tabs /\ rep' = [head |-> o.head, tails |-> o.tails]
                  /\ SameResult(Ev.res, o.tabs, o.head, o.tails) /\ SameLens(Ev.lens, o.tabs)
               /\ g' = [app |-> << >>, lo |-> [grp \in Groups |-> 0], hi |-> 0, next |-> 1]
               /\ pend' = NoPend)

ItemsOf(t) == [j \in 1..Len(Ev.ids) |-> [id |-> Ev.ids[j], n |-> Ev.sizes[t][j]]]
TCall == Step_(/\ Ev.op = "call" /\ \A t \in Tables : pend[t] = NoPend[t]
               /\ CASE Ev.name = "append" ->
                         /\ pend' = [t \in Tables |-> LET a == AppendP(tab[t], ItemsOf(t)) IN [p1 |-> a.part1, p2 |-> a.part2, st |-> "new"]]
                         /\ g' = [g EXCEPT !.app = [i \in (DOMAIN g.app) \cup (rep.head .. (rep.head + Len(Ev.ids) - 1)) |->
                                                      IF i >= rep.head /\ i < rep.head + Len(Ev.ids) THEN Ev.ids[i - rep.head + 1] ELSE g.app[i]]]
                    [] Ev.name = "sync" ->
                         /\ pend' = [t \in Tables |-> [p1 |-> DoSyncP(tab[t]), p2 |-> <<>>, st |-> "new"]]
                         /\ g' = g
                    [] Ev.name = "thead" ->
                         /\ pend' = [t \in Tables |-> [p1 |-> IF Ev.n < rep.head THEN TruncateHeadP(tab[t], Ev.n) ELSE <<>>, p2 |-> <<>>, st |-> "new"]]
                         /\ g' = [g EXCEPT !.hi = Min(g.hi, Ev.n)]
                    [] Ev.name = "ttail" ->
                         /\ pend' = [t \in Tables |-> [p1 |-> IF GroupOf[t] = Ev.group /\ rep.tails[Ev.group] < Ev.n
                                                               THEN TruncateTailP(tab[t], Ev.n) ELSE <<>>, p2 |-> <<>>, st |-> "new"]]
                         /\ g' = [g EXCEPT !.lo[Ev.group] = Max(@, Ev.n)]
               /\ UNCHANGED <<tab, rep>>)

TPreSync == Step_(/\ Ev.op = "presync"
                  /\ Advance(Ev.t, Ev.lens)
                  /\ Matches(Head(pend'[Ev.t].p1), Ev.kind, Ev.fno)
                  /\ UNCHANGED <<g, rep>>)
TFsync == Step_(/\ Ev.op = "fsync"
                /\ pend[Ev.t].st = "run" /\ pend[Ev.t].p1 # <<>> /\ Matches(Head(pend[Ev.t].p1), Ev.kind, Ev.fno)
                /\ tab' = [tab EXCEPT ![Ev.t] = Exec(@, Head(pend[Ev.t].p1))]
                /\ pend' = [pend EXCEPT ![Ev.t].p1 = Tail(@)]
                /\ UNCHANGED <<g, rep>>)
(* the index was replaced (temp file, fsync, rename, directory fsync): one observable step *)
TRename == Step_(/\ Ev.op = "rename"
                 /\ LET u == UntilSync(tab[Ev.t], pend[Ev.t].p1) IN
                    /\ \A x \in Tables \ {Ev.t} : pend[x].st = "run" => NoSyncIn(pend[x].p1)
                    /\ u.rest # <<>> /\ Head(u.rest).p = "ridx"
                    /\ tab' = [x \in Tables |-> IF x = Ev.t THEN Exec(u.ts, Head(u.rest))
                                                ELSE IF pend[x].st = "run" THEN Run(tab[x], pend[x].p1) ELSE tab[x]]
                    /\ pend' = [x \in Tables |-> IF x = Ev.t THEN [pend[x] EXCEPT !.p1 = Tail(u.rest), !.st = "run"]
                                                 ELSE IF pend[x].st = "run" THEN [pend[x] EXCEPT !.p1 = <<>>, !.st = "done1"] ELSE pend[x]]
                 /\ UNCHANGED <<g, rep>>)

TImage == Step_(/\ Ev.op = "image"
                /\ ImageOK(Ev.cuts, Ev.res)
                /\ UNCHANGED <<tab, g, pend, rep>>)
(* KNOWN-FINDING (tolerated only through ctx.known_finding in the check) (C24-F1, C24-F2): an image the real NewFreezer refused to open is accepted as    *)
(* pending iff the specification computes a failure of exactly one of the two known kinds for it      *)
KnownFailure(o) == FailedOf(o.tabs) /\ (KnownF3(o.tabs) \/ KnownF1(o.tabs) \/ KnownF2(o.tabs))
WhichKnown(o) == IF KnownF3(o.tabs) THEN "C24-F3" ELSE IF KnownF1(o.tabs) THEN "C24-F1" ELSE "C24-F2"
TImageKnown == Step_(/\ Ev.op = "image" /\ ~Ev.res.ok
                     /\ \E o \in {OpenAll(Crashed(Ev.cuts))} :
                          /\ \A t \in Tables : CutLensOK(Ev.cuts[t], tab[t])
                          /\ KnownFailure(o)
                          /\ PrintT(<<"PENDING", ToJson([line |-> l, finding |-> WhichKnown(o), at |-> Ev.at])>>)
                     /\ UNCHANGED <<tab, g, pend, rep>>)
(* the main line itself crashed into such an image: the history ends here *)
TReopenKnown == Step_(/\ Ev.op = "reopen" /\ ~Ev.res.ok
                      /\ \E o \in {OpenAll(tab)} :
                           /\ KnownFailure(o)
                           /\ PrintT(<<"PENDING", ToJson([line |-> l, finding |-> WhichKnown(o), at |-> "main line"])>>)
                      /\ UNCHANGED <<tab, g, pend, rep>>)

(* diagnostics for a rejected image: what the specification computes for it (never advances) *)
Explain(cuts, res) ==
  LET o == OpenAll(Crashed(cuts)) IN
  [ lens_ok |-> \A t \in Tables : CutLensOK(cuts[t], tab[t]),
    spec_head |-> o.head, spec_tails |-> o.tails,
    spec_items |-> [t \in Tables |-> Reads(o.tabs, t, TailOfTable(t, o.tails), o.head)],
    table_items |-> [t \in Tables |-> Items(o.tabs[t])], table_hidden |-> [t \in Tables |-> Hidden(o.tabs[t])],
    same_result |-> SameResult(res, o.tabs, o.head, o.tails),
    failed |-> FailedOf(o.tabs), aligned |-> AlignedOf(o.tabs),
    readable_correct |-> ReadableCorrectOf(o.tabs, g), durable |-> DurableOf(o.tabs, g),
    ghost |-> [lo |-> g.lo, hi |-> g.hi] ]
TImageBad == /\ l <= Len(Trace) /\ Ev.op = "image" /\ ~ImageOK(Ev.cuts, Ev.res)
             /\ ~(~Ev.res.ok /\ \E o \in {OpenAll(Crashed(Ev.cuts))} : KnownFailure(o) /\ \A t \in Tables : CutLensOK(Ev.cuts[t], tab[t]))
             /\ PrintT(<<"REJECT", ToJson([line |-> l, explain |-> Explain(Ev.cuts, Ev.res)])>>)
             /\ FALSE /\ UNCHANGED tvars

(* the call returns: every remaining primitive is executed (none of them may be a sync) *)
Finished == TLCEval([t \in Tables |-> Run(Run(tab[t], pend[t].p1), pend[t].p2)])
TRet == Step_(/\ Ev.op = "ret" /\ ~Ev.err
              /\ \A t \in Tables : NoSyncIn(pend[t].p1) /\ NoSyncIn(pend[t].p2)
              /\ tab' = Finished
              /\ pend' = NoPend
              /\ LET head == Ev.res.head
                     tails == [grp \in Groups |-> Ev.res.tails[grp]] IN
                 /\ rep' = [head |-> head, tails |-> tails]
                 /\ ~FailedOf(tab') /\ AlignedOf(tab')
                 /\ head = Items(tab'[CHOOSE t \in Tables : TRUE])
                 /\ \A grp \in Groups : tails[grp] = GroupTailOf(tab', grp)
                 /\ SameResult(Ev.res, tab', head, tails)
                 /\ SameLens(Ev.lens, tab')
                 /\ ReadableCorrectOf(tab', g)
              /\ g' = IF Ev.name = "sync" THEN [g EXCEPT !.hi = Ev.res.head] ELSE g)

(* the main line crashes and continues on the image *)
TCrash == Step_(/\ Ev.op = "crash"
                /\ \A t \in Tables : CutLensOK(Ev.cuts[t], tab[t])
                /\ tab' = Crashed(Ev.cuts)
                /\ pend' = NoPend
                /\ UNCHANGED <<g, rep>>)
TReopen == Step_(/\ Ev.op = "reopen"
                 /\ LET o == OpenAll(tab) IN
                    /\ SameResult(Ev.res, o.tabs, o.head, o.tails)
                    /\ C24(o)
                    /\ SameLens(Ev.lens, o.tabs)
                    /\ tab' = o.tabs
                    /\ rep' = [head |-> o.head, tails |-> o.tails]
                    /\ g' = [g EXCEPT !.lo = o.tails, !.hi = o.head]
                 /\ UNCHANGED pend)

TraceInit == /\ tab = FreshTabs /\ queue = <<>> /\ mode = "run" /\ uncut = {}
             /\ g = [app |-> << >>, lo |-> [grp \in Groups |-> 0], hi |-> 0, next |-> 1]
             /\ l = 1 /\ pend = NoPend /\ rep = [head |-> 0, tails |-> [grp \in Groups |-> 0]]
TraceNext == TInit \/ TCall \/ TPreSync \/ TFsync \/ TRename \/ TImage \/ TImageKnown \/ TImageBad \/ TRet \/ TCrash \/ TReopen \/ TReopenKnown
TraceSpec == TraceInit /\ [][TraceNext]_tvars

TraceAccepted == TLCGet("stats").diameter - 1 = Len(Trace)
=============================================================================
