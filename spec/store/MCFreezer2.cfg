SPECIFICATION MCSpec
CONSTANTS Tables = {"a", "b"}
          GroupOf <- Groups1
          MaxFile = 2
          Sizes = {1, 2}
          MaxItems = 3
          MaxBatch = 2
          MaxCrashes = 1
          TailBeyondSync = TRUE
INVARIANTS FailsOnlyKnown Aligned ReadableCorrect Durable Monotone IndexOK
VIEW View
CHECK_DEADLOCK FALSE
