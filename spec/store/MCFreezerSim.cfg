SPECIFICATION MCSpec
CONSTANTS Tables = {"a", "b"}
          GroupOf <- Groups1
          MaxFile = 2
          Sizes = {1, 2}
          MaxItems = 12
          MaxBatch = 3
          MaxCrashes = 2
          TailBeyondSync = TRUE
CONSTRAINT Emit
CHECK_DEADLOCK FALSE
