SPECIFICATION MCSpec
CONSTANTS Tables = {"a", "b"}
          GroupOf <- GroupsMixed
          MaxFile = 2
          Sizes = {1, 2}
          MaxItems = 2
          MaxBatch = 2
          MaxCrashes = 1
          TailBeyondSync = TRUE
INVARIANTS FailsOnlyKnown Aligned ReadableCorrect Durable Monotone IndexOK
VIEW View
CHECK_DEADLOCK FALSE
