SPECIFICATION TraceSpec
CONSTANTS QEmptyDel = TRUE
          QEager = FALSE
          QReplayRange = FALSE
INVARIANTS TypeOK IterSorted
POSTCONDITION TraceAccepted
CHECK_DEADLOCK FALSE
