SPECIFICATION MCSpec
CONSTANTS QEmptyDel = FALSE
          QEager = FALSE
          QReplayRange = FALSE
          Keys <- KeysS
          Vals <- ValsB
          IterPrefixes <- PrefA
          MaxBatch = 2
          BatchBounds <- BoundsS2
          DirectWithBatch = 1
          IterWithBatch = 1
INVARIANTS TypeOK IterSorted
CONSTRAINT Bounded
ACTION_CONSTRAINT Edge
VIEW View
CHECK_DEADLOCK FALSE
