SPECIFICATION MCSpec
CONSTANTS QEmptyDel = FALSE
          QEager = FALSE
          QReplayRange = FALSE
          Keys <- KeysB
          Vals <- ValsB
          IterPrefixes <- PrefB
          MaxBatch = 2
          BatchBounds <- BoundsB
          DirectWithBatch = 1
          IterWithBatch = 1
INVARIANTS TypeOK IterSorted HalfOpen ValueSizeExact
PROPERTIES BufferingInvisible IterStable
CONSTRAINT Bounded
VIEW View
CHECK_DEADLOCK FALSE
