---------------------------- MODULE MCEstimator ----------------------------
(* Model-checking wrapper of Estimator.tla: TLC enumerates every hidden program of a       *)
(* bounded family (monotone thresholds, and - when Holes is set - thresholds with one      *)
(* succeeding island below or one failing hole above the threshold, i.e. gas-dependent     *)
(* programs), every used/peak pair and every cap, and runs the algorithm on each.          *)
EXTENDS Estimator

CONSTANTS ErrShift, \* ErrorRatio = 2^-ErrShift (0: exact)
          Max,      \* largest gas limit of the scaled universe
          Holes     \* BOOLEAN: also explore non-monotone programs

Gas == 0..Max

OkSets ==
  LET mono == { {g \in Gas : g >= t} : t \in 0..(Max + 1) } IN
  IF Holes
    THEN mono \cup { ({g \in Gas : g >= t} \ {h}) \cup {i} : t \in 0..(Max + 1), h \in Gas, i \in Gas }
    ELSE mono

MCInit ==
  /\ pc = "start" /\ lo = 0 /\ hi = 0 /\ res = [ok |-> FALSE, gas |-> 0] /\ probes = << >>
  /\ cap \in 1..Max
  /\ \E os \in OkSets, u \in TxGas..Max, p \in TxGas..Max, pl \in BOOLEAN, f \in BOOLEAN :
        /\ u <= p
        /\ (cap \in os => p <= cap)   \* a successful run never uses more than its limit
        /\ env = [okset |-> os, used |-> u, peak |-> p, plain |-> pl, fatal |-> f, errShift |-> ErrShift]

MCSpec == MCInit /\ [][Next]_vars

(* termination: the state graph is acyclic (every step appends a probe or changes pc), so   *)
(* the algorithm terminates iff every non-final state has a successor                       *)
Progress == pc # "done" => ENABLED Next
ProbeBound == Len(probes) <= Max + 2

(* the cap is below every applicable bound, for every request of a small domain *)
ReqDomain == [callGas : {0, TxGas - 1, TxGas, Max}, blockGas : {TxGas, Max}, osaka : BOOLEAN,
              feeCap : {0, 1, 3}, balance : {0, 5, Max * 3}, value : {0, 4}, gasCap : {0, 2, Max - 1}]
CapLemma == \A r \in ReqDomain : ~FundsError(r) =>
               /\ (r.gasCap # 0 => Cap(r) <= r.gasCap)
               /\ (r.osaka => Cap(r) <= TxCap)
               /\ (r.feeCap > 0 => Cap(r) * r.feeCap + r.value <= r.balance)
               /\ Cap(r) <= (IF r.callGas >= TxGas THEN r.callGas ELSE r.blockGas)
ASSUME CapLemma
=============================================================================
