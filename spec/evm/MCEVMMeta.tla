---------------------------- MODULE MCEVMMeta ----------------------------
(* Model-checking wrapper of EVMMeta: every interleaving of Issue / Complete / Fault /     *)
(* Adjust / Enter / Exit over small abstract programs (a representative opcode per arity   *)
(* and role class, small gas, memory and limits).                                          *)
EXTENDS EVMMeta

CONSTANTS MaxGas, MaxCost, MaxMem, MCForks, MCOps

ErrClasses == {"", "revert", "oog", "underflow", "overflow", "invalid", "writeprot", "jump",
               "depth", "balance", "collision", "codestore", "code"}

MCInit == fork = Frontier /\ fs = << >> /\ res = NoRes

MCNext ==
  \/ (Len(fs) = 0 /\ res = NoRes /\ \E f \in MCForks, G \in 0..MaxGas, c \in BOOLEAN : Start(f, G, c))
  \/ \E o \in MCOps, cost \in 0..MaxCost, cv \in {0, 1} : Issue(o, cost, cv)
  \/ \E m \in 0..MaxMem : Complete(m)
  \/ \E o \in MCOps, cls \in ErrClasses : FaultAtIssue(o, cls)
  \/ \E cls \in ErrClasses : FaultInExec(cls)
  \/ \E g2 \in 0..MaxGas : Adjust(g2)
  \/ \E typ \in MCOps, given \in 0..MaxGas, pre \in BOOLEAN : Enter(typ, given, pre)
  \/ \E used \in 0..MaxGas, err \in ErrClasses, out \in {0, 1}, rev \in BOOLEAN : Exit(used, err, out, rev)

MCSpec == MCInit /\ [][MCNext]_vars

(* derived facts worth checking on the whole graph *)
(* the outermost frame never reports more gas than it was given, and a halted run used it all *)
LeftoverNonNegative == res # NoRes => res.given - res.used >= 0
=============================================================================
