SPECIFICATION Spec
CONSTANTS Keys = {1, 2}
          MaxVal = 2
          N = 3
          BaseMax = 2
          Workers = {1}
          SchedMuts = FALSE
          Sched = FALSE
          EmitCases = FALSE
INVARIANTS HonestAccepted ParallelEqualsSequential WrongBALRejected CacheIsBase
CHECK_DEADLOCK FALSE
