SPECIFICATION Spec
CONSTANTS MaxTxGas = 3
          MaxLimit = 4
INVARIANTS UsedWithinLimit RefundCapped BlockWithinLimit LegacyPoolExact
CHECK_DEADLOCK FALSE
