SPECIFICATION TraceSpec
CONSTANTS AllowIgnoredDbError = FALSE
INVARIANTS NoWrongResult
POSTCONDITION TraceAccepted
CHECK_DEADLOCK FALSE
