SPECIFICATION MCSpec
CONSTANTS EVMs = {1, 2}
          ArenaSize = 6
          MaxFrames = 3
          MaxCap = 3
          PoolLimit = 2
          Codes = {"c1", "c2"}
          InitCodes = {"i1", "i2"}
          Inputs <- InputsSim
          MaxPool = 3
          D = 40
INVARIANTS ArenaTiled StackOwned FreshMemoryZero BeyondLenZero PoolBounded CacheSound HistoryIndependent
CONSTRAINT Emit
CHECK_DEADLOCK FALSE
