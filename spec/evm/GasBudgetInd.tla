--------------------------- MODULE GasBudgetInd ---------------------------
(* Inductive-invariant formulation of GasBudget.tla over UNBOUNDED integers, discharged   *)
(* with Apalache (Init => IndInv at length 0; IndInv /\ Next => IndInv' at length 1).     *)
(* Two adjacent frames suffice: p (suspended caller, or the running frame when there is   *)
(* no child) and c (running child).  A deeper stack is the same obligation repeated,      *)
(* because a caller's conservation only depends on the child's entry budget (e0, s0) and  *)
(* on the leftover it absorbs.  The operators are those of GasBudget.tla, restated on     *)
(* typed records.                                                                          *)
EXTENDS Integers

\* @typeAlias: frame = { exec: Int, state: Int, usedExec: Int, usedState: Int, spilled: Int, e0: Int, s0: Int };
GasBudgetInd_aliases == TRUE

VARIABLES
  \* @type: $frame;
  p,
  \* @type: $frame;
  c,
  \* @type: Bool;
  hasChild

\* @type: (Int, Int) => $frame;
Frame(e, s) == [exec |-> e, state |-> s, usedExec |-> 0, usedState |-> 0, spilled |-> 0, e0 |-> e, s0 |-> s]

Min(a, b) == IF a < b THEN a ELSE b

\* @type: ($frame, Int, Int) => Bool;
CanAfford(f, ce, cs) == f.exec >= ce /\ (cs > f.state => cs - f.state <= f.exec - ce)

\* @type: ($frame, Int, Int) => $frame;
Charged(f, ce, cs) ==
  LET spill == IF cs > f.state THEN cs - f.state ELSE 0 IN
  [f EXCEPT !.exec = f.exec - ce - spill,
            !.state = IF cs > f.state THEN 0 ELSE f.state - cs,
            !.usedExec = f.usedExec + ce,
            !.usedState = f.usedState + cs,
            !.spilled = f.spilled + spill]

\* @type: ($frame, Int) => $frame;
Refunded(f, s) ==
  LET repay == Min(s, f.spilled) IN
  [f EXCEPT !.exec = f.exec + repay, !.spilled = f.spilled - repay,
            !.state = f.state + (s - repay), !.usedState = f.usedState - s]

\* @type: $frame => $frame;
Drained(f) == [f EXCEPT !.usedExec = f.usedExec + f.exec, !.exec = 0]

\* @type: $frame => $frame;
LeftRevert(f) == [f EXCEPT !.exec = f.exec + f.spilled, !.state = f.state + f.usedState - f.spilled, !.usedState = 0, !.spilled = 0]
\* @type: $frame => $frame;
LeftHalt(f)   == [f EXCEPT !.exec = 0, !.state = f.state + f.usedState - f.spilled, !.usedState = 0, !.spilled = 0,
                            !.usedExec = f.usedExec + f.exec + f.spilled]

\* @type: ($frame, $frame) => $frame;
Absorbed(q, r) ==
  [q EXCEPT !.usedExec = q.usedExec - r.exec - r.spilled, !.exec = q.exec + r.exec, !.state = r.state,
            !.usedState = q.usedState + r.usedState, !.spilled = q.spilled + r.spilled]

(* one step of the running frame f |-> g *)
\* @type: ($frame, $frame) => Bool;
LocalStep(f, g) ==
  \/ \E ce, cs \in Nat : CanAfford(f, ce, cs) /\ g = Charged(f, ce, cs)
  \/ \E s \in Nat : g = Refunded(f, s)
  \/ g = Drained(f)

Next ==
  \/ /\ ~hasChild /\ LocalStep(p, p') /\ UNCHANGED <<c, hasChild>>
  \/ /\ hasChild /\ LocalStep(c, c') /\ UNCHANGED <<p, hasChild>>
  \/ /\ ~hasChild
     /\ \E x \in Nat : /\ x <= p.exec
                       /\ p' = [p EXCEPT !.exec = p.exec - x, !.usedExec = p.usedExec + x, !.state = 0]
                       /\ c' = Frame(x, p.state)
     /\ hasChild' = TRUE
  \/ /\ hasChild
     /\ \/ p' = Absorbed(p, c)
        \/ p' = Absorbed(p, LeftRevert(c))
        \/ p' = Absorbed(p, LeftHalt(c))
     /\ hasChild' = FALSE /\ UNCHANGED c

\* @type: $frame => Bool;
NonNegF(f)  == f.exec >= 0 /\ f.state >= 0 /\ f.usedExec >= 0 /\ f.spilled >= 0 /\ f.e0 >= 0 /\ f.s0 >= 0
\* @type: $frame => Bool;
ExecOK(f)   == f.exec + f.usedExec + f.spilled = f.e0
\* @type: $frame => Bool;
StateTop(f) == f.state + f.usedState - f.spilled = f.s0

IndInv ==
  /\ NonNegF(p) /\ ExecOK(p)
  /\ IF hasChild
     THEN /\ NonNegF(c) /\ ExecOK(c) /\ StateTop(c)
          /\ p.state = 0 /\ p.usedState - p.spilled + c.s0 = p.s0
          /\ c.e0 <= p.usedExec                 \* what was forwarded is booked as used by the caller
     ELSE StateTop(p)

(* the property clauses that are consequences of the invariant *)
Reservoir == hasChild => /\ LeftRevert(c).state = c.s0 /\ LeftHalt(c).state = c.s0 /\ LeftHalt(c).exec = 0

\* arbitrary state satisfying the invariant (induction hypothesis)
IndInit ==
  /\ \E a1, a2, a3, a4, a5, a6, a7 \in Int :
       p = [exec |-> a1, state |-> a2, usedExec |-> a3, usedState |-> a4, spilled |-> a5, e0 |-> a6, s0 |-> a7]
  /\ \E b1, b2, b3, b4, b5, b6, b7 \in Int :
       c = [exec |-> b1, state |-> b2, usedExec |-> b3, usedState |-> b4, spilled |-> b5, e0 |-> b6, s0 |-> b7]
  /\ hasChild \in BOOLEAN
  /\ IndInv

\* genuine initial states
Init == \E e, s \in Nat : p = Frame(e, s) /\ c = Frame(0, 0) /\ hasChild = FALSE
=============================================================================
