------------------------------ MODULE EVMMeta ------------------------------
(* Frame-level contract of EVM execution, for ALL opcodes and ALL rule sets (property C27;  *)
(* the static-flag part is shared with C29).  The machine does not compute values: it says  *)
(* what every interpreter step and every call frame must respect, whatever the bytecode:    *)
(*   - operand-stack arity of every opcode, per rule set (Yellow Paper appendix H plus the    *)
(*     opcode-introducing EIPs: 7, 140, 145, 211, 214, 1014, 1052, 1153, 1344, 1884, 3198,   *)
(*     3855, 4844, 5656, 7516, 7843, 7939, 8024) and the stack limit of 1024;               *)
(*   - gas: a step is only executed when its cost is covered, gas of a frame never grows     *)
(*     except by what a child frame hands back, a child never gets more than was paid for,    *)
(*     a frame hands back exactly what it did not use, an exceptional halt consumes all;      *)
(*   - memory: word aligned, never shrinks, every growth step is paid by at least the         *)
(*     difference of the quadratic memory cost C_mem(a) = 3a + floor(a^2/512);                *)
(*   - call depth limit 1024; static flag inherited by all descendants of a STATICCALL and    *)
(*     no state-modifying instruction completes in a static frame (EIP-214).                  *)
(* The instruction cycle is split like in the interpreter loop: Issue (validate stack,       *)
(* charge gas) then Complete (stack effect, memory growth) or Fault.  A call/create           *)
(* instruction stays pending while its child frame runs.                                      *)
(* The opcode table below is written from the specification documents, not from              *)
(* core/vm/jump_table.go.                                                                     *)
EXTENDS Integers, Sequences, TLC

CONSTANTS StackLimit,    \* 1024
          DepthLimit     \* 1024: a frame entered at depth > DepthLimit is not executed

VARIABLES fork,   \* rule set of the running execution (index below)
          fs,     \* stack of call frames, the running one last
          res     \* [given, used] of the finished outermost frame ("none" while running)

vars == <<fork, fs, res>>

Frontier == 0   Homestead == 1   Tangerine == 2   Spurious == 3   Byzantium == 4
Constantinople == 5   Petersburg == 6   Istanbul == 7   Berlin == 8   London == 9
Paris == 10   Shanghai == 11   Cancun == 12   Prague == 13   Osaka == 14
Amsterdam == 15   Bogota == 16
Forks == Frontier..Bogota

(* From Amsterdam on gas is two-dimensional (EIP-8037): state gas may be borrowed from and   *)
(* repaid to execution gas, so only the per-frame bounds hold for the execution dimension;   *)
(* the exact 2-D identities are the subject of GasBudget.tla (C31).                           *)
TwoD(f) == f >= Amsterdam

(* ------------------------------ opcode table ------------------------------ *)
Info(d, p, q) == [def |-> d, pops |-> p, pushes |-> q]
Undef == Info(FALSE, 0, 0)

OpInfo(f, b) ==
  CASE b = 0                               -> Info(TRUE, 0, 0)           \* STOP
    [] b \in {1, 2, 3, 4, 5, 6, 7, 10, 11} -> Info(TRUE, 2, 1)           \* ADD..SMOD, EXP, SIGNEXTEND
    [] b \in {8, 9}                        -> Info(TRUE, 3, 1)           \* ADDMOD MULMOD
    [] b \in 16..20                        -> Info(TRUE, 2, 1)           \* LT GT SLT SGT EQ
    [] b = 21                              -> Info(TRUE, 1, 1)           \* ISZERO
    [] b \in {22, 23, 24}                  -> Info(TRUE, 2, 1)           \* AND OR XOR
    [] b = 25                              -> Info(TRUE, 1, 1)           \* NOT
    [] b = 26                              -> Info(TRUE, 2, 1)           \* BYTE
    [] b \in {27, 28, 29}                  -> Info(f >= Constantinople, 2, 1)  \* SHL SHR SAR (EIP-145)
    [] b = 30                              -> Info(f >= Osaka, 1, 1)     \* CLZ (EIP-7939)
    [] b = 32                              -> Info(TRUE, 2, 1)           \* KECCAK256
    [] b = 48                              -> Info(TRUE, 0, 1)           \* ADDRESS
    [] b = 49                              -> Info(TRUE, 1, 1)           \* BALANCE
    [] b \in {50, 51, 52}                  -> Info(TRUE, 0, 1)           \* ORIGIN CALLER CALLVALUE
    [] b = 53                              -> Info(TRUE, 1, 1)           \* CALLDATALOAD
    [] b = 54                              -> Info(TRUE, 0, 1)           \* CALLDATASIZE
    [] b = 55                              -> Info(TRUE, 3, 0)           \* CALLDATACOPY
    [] b = 56                              -> Info(TRUE, 0, 1)           \* CODESIZE
    [] b = 57                              -> Info(TRUE, 3, 0)           \* CODECOPY
    [] b = 58                              -> Info(TRUE, 0, 1)           \* GASPRICE
    [] b = 59                              -> Info(TRUE, 1, 1)           \* EXTCODESIZE
    [] b = 60                              -> Info(TRUE, 4, 0)           \* EXTCODECOPY
    [] b = 61                              -> Info(f >= Byzantium, 0, 1) \* RETURNDATASIZE (EIP-211)
    [] b = 62                              -> Info(f >= Byzantium, 3, 0) \* RETURNDATACOPY
    [] b = 63                              -> Info(f >= Constantinople, 1, 1) \* EXTCODEHASH (EIP-1052)
    [] b = 64                              -> Info(TRUE, 1, 1)           \* BLOCKHASH
    [] b \in 65..69                        -> Info(TRUE, 0, 1)           \* COINBASE TIMESTAMP NUMBER DIFFICULTY/PREVRANDAO GASLIMIT
    [] b \in {70, 71}                      -> Info(f >= Istanbul, 0, 1)  \* CHAINID (EIP-1344) SELFBALANCE (EIP-1884)
    [] b = 72                              -> Info(f >= London, 0, 1)    \* BASEFEE (EIP-3198)
    [] b = 73                              -> Info(f >= Cancun, 1, 1)    \* BLOBHASH (EIP-4844)
    [] b = 74                              -> Info(f >= Cancun, 0, 1)    \* BLOBBASEFEE (EIP-7516)
    [] b = 75                              -> Info(f >= Amsterdam, 0, 1) \* SLOTNUM (EIP-7843)
    [] b = 80                              -> Info(TRUE, 1, 0)           \* POP
    [] b = 81                              -> Info(TRUE, 1, 1)           \* MLOAD
    [] b \in {82, 83}                      -> Info(TRUE, 2, 0)           \* MSTORE MSTORE8
    [] b = 84                              -> Info(TRUE, 1, 1)           \* SLOAD
    [] b = 85                              -> Info(TRUE, 2, 0)           \* SSTORE
    [] b = 86                              -> Info(TRUE, 1, 0)           \* JUMP
    [] b = 87                              -> Info(TRUE, 2, 0)           \* JUMPI
    [] b \in {88, 89, 90}                  -> Info(TRUE, 0, 1)           \* PC MSIZE GAS
    [] b = 91                              -> Info(TRUE, 0, 0)           \* JUMPDEST
    [] b = 92                              -> Info(f >= Cancun, 1, 1)    \* TLOAD (EIP-1153)
    [] b = 93                              -> Info(f >= Cancun, 2, 0)    \* TSTORE
    [] b = 94                              -> Info(f >= Cancun, 3, 0)    \* MCOPY (EIP-5656)
    [] b = 95                              -> Info(f >= Shanghai, 0, 1)  \* PUSH0 (EIP-3855)
    [] b \in 96..127                       -> Info(TRUE, 0, 1)           \* PUSH1..PUSH32
    [] b \in 128..143                      -> Info(TRUE, b - 127, b - 126)  \* DUPn: delta n, alpha n+1
    [] b \in 144..159                      -> Info(TRUE, b - 142, b - 142)  \* SWAPn: delta = alpha = n+1
    [] b \in 160..164                      -> Info(TRUE, b - 158, 0)     \* LOGn: n+2
    \* EIP-8024: immediate-operand instructions; the table holds the smallest requirement over
    \* all immediates (DUPN n >= 17; SWAPN needs n+1 >= 18; EXCHANGE needs m+1 >= 3)
    [] b = 230                             -> Info(f >= Amsterdam, 17, 18)
    [] b = 231                             -> Info(f >= Amsterdam, 18, 18)
    [] b = 232                             -> Info(f >= Amsterdam, 3, 3)
    [] b = 240                             -> Info(TRUE, 3, 1)           \* CREATE
    [] b \in {241, 242}                    -> Info(TRUE, 7, 1)           \* CALL CALLCODE
    [] b = 243                             -> Info(TRUE, 2, 0)           \* RETURN
    [] b = 244                             -> Info(f >= Homestead, 6, 1) \* DELEGATECALL (EIP-7)
    [] b = 245                             -> Info(f >= Constantinople, 4, 1) \* CREATE2 (EIP-1014)
    [] b = 250                             -> Info(f >= Byzantium, 6, 1) \* STATICCALL (EIP-214)
    [] b = 253                             -> Info(f >= Byzantium, 2, 0) \* REVERT (EIP-140)
    [] b = 255                             -> Info(TRUE, 1, 0)           \* SELFDESTRUCT
    [] OTHER                               -> Undef                      \* includes 0xfe INVALID

(* instructions whose stack requirement also depends on an immediate byte (EIP-8024): they   *)
(* may additionally fail with a stack-underflow or invalid-immediate error at execution       *)
ImmOps   == {230, 231, 232}
CallOps  == {241, 242, 244, 250}
CreateOps == {240, 245}
SelfDestruct == 255
StaticCall == 250
Terminal == {0, 243, 253, 255}          \* STOP RETURN REVERT SELFDESTRUCT end the frame
NormalStop == {0, 243, 255}

(* state-modifying instructions (EIP-214 plus TSTORE of EIP-1153); cv = 1: CALL with value *)
IsWrite(o, cv) == o \in {85, 93, 240, 245, 255} \cup (160..164) \/ (o = 241 /\ cv = 1)

(* precompiled contract addresses per rule set (YP appendix E, EIP-196/197/198, 152, 4844, 2537, 7951) *)
IsPrecompile(f, a) ==
  \/ a \in 1..4
  \/ a \in 5..8 /\ f >= Byzantium
  \/ a = 9 /\ f >= Istanbul
  \/ a = 10 /\ f >= Cancun
  \/ a \in 11..17 /\ f >= Prague
  \/ a = 256 /\ f >= Osaka

(* C_mem(a) = 3a + floor(a^2 / 512), computed without exceeding 2^31 for a < 2^20 *)
MemCost(w) == LET q == w \div 512  r == w % 512
              IN  3 * w + 512 * q * q + 2 * q * r + (r * r) \div 512

(* EIP-150: all but one 64th *)
Fwd(f, g) == IF f >= Tangerine THEN g - (g \div 64) ELSE g

CodeDepositCost(n) == 200 * n

(* ------------------------------ frames ------------------------------ *)
NoPend == [o |-> -1, cost |-> 0, cv |-> 0, kids |-> 0]

NewFrame(kind, typ, static, pre, given, st) ==
  [kind |-> kind, typ |-> typ, static |-> static, pre |-> pre, given |-> given,
   g |-> given,      \* execution gas held by the frame
   sl |-> 0,         \* operand stack length
   mw |-> 0,         \* active memory in words
   ran |-> FALSE,    \* at least one instruction was issued
   pend |-> NoPend,  \* instruction issued but not yet completed
   st |-> st]        \* "run" | "fault" | "noexec"

Top == fs[Len(fs)]
SetTop(f) == [fs EXCEPT ![Len(fs)] = f]
NoRes == [given |-> -1, used |-> -1]

(* --- Issue: validate the stack against the table and charge the cost --- *)
ArityOK(f, o) == LET i == OpInfo(fork, o) IN
  i.def /\ f.sl >= i.pops /\ f.sl - i.pops + i.pushes <= StackLimit

(* Whether a stack violation is detected before charging or while executing is not       *)
(* prescribed (EIP-8024 instructions are checked against their immediate while executing): *)
(* an instruction whose arity is violated, or an undefined one (charged nothing), may be   *)
(* issued, but it can never complete: its only continuation is a fault.                    *)
CanIssue(f, o, cost) ==
  /\ f.st = "run" /\ f.pend = NoPend
  /\ OpInfo(fork, o).def \/ cost = 0
  /\ cost >= 0 /\ cost <= f.g

Issued(f, o, cost, cv) ==
  [f EXCEPT !.g = f.g - cost, !.ran = TRUE, !.pend = [o |-> o, cost |-> cost, cv |-> cv, kids |-> 0]]

(* --- Complete: the pending instruction finished without error; mw2 = memory size after it --- *)
MemPaid(f, mw2) == mw2 >= f.mw /\ f.pend.cost >= MemCost(mw2) - MemCost(f.mw)

CanComplete(f, mw2) ==
  /\ f.st = "run" /\ f.pend.o >= 0
  /\ ArityOK(f, f.pend.o)
  /\ f.pend.o \notin Terminal
  /\ ~(f.static /\ IsWrite(f.pend.o, f.pend.cv))
  /\ MemPaid(f, mw2)

Completed(f, mw2) == LET i == OpInfo(fork, f.pend.o) IN
  [f EXCEPT !.sl = f.sl - i.pops + i.pushes, !.mw = mw2, !.pend = NoPend]

(* --- Fault: exceptional halt of the running frame --- *)
(* classes that are decided by the table: the others (out of gas, bad jump, ...) may always happen *)
FaultConsistent(f, o, cls, atIssue) == LET i == OpInfo(fork, o) IN
  /\ cls # "" /\ cls # "revert"
  /\ cls = "underflow" => (f.sl < i.pops \/ (~atIssue /\ o \in ImmOps))
  /\ cls = "overflow"  => f.sl - i.pops + i.pushes > StackLimit
  /\ cls = "invalid"   => (~i.def \/ (~atIssue /\ o \in ImmOps))
  /\ cls = "writeprot" => f.static
  /\ cls \notin {"depth", "balance", "nonce", "collision"}     \* those belong to frame entry

(* ------------------------------ actions ------------------------------ *)
Start(f, G, create) ==
  /\ fork' = f
  /\ fs' = << NewFrame(IF create THEN "create" ELSE "call", IF create THEN 240 ELSE 241, FALSE, FALSE, G, "run") >>
  /\ res' = NoRes

Issue(o, cost, cv) ==
  /\ Len(fs) > 0 /\ CanIssue(Top, o, cost)
  /\ fs' = SetTop(Issued(Top, o, cost, cv))
  /\ UNCHANGED <<fork, res>>

Complete(mw2) ==
  /\ Len(fs) > 0 /\ CanComplete(Top, mw2)
  /\ fs' = SetTop(Completed(Top, mw2))
  /\ UNCHANGED <<fork, res>>

(* failure while validating/charging the instruction o (nothing is pending) *)
FaultAtIssue(o, cls) ==
  /\ Len(fs) > 0 /\ Top.st = "run" /\ Top.pend = NoPend
  /\ FaultConsistent(Top, o, cls, TRUE)
  /\ (cls \in {"underflow", "overflow"} \/ OpInfo(fork, o).def)   \* an undefined opcode is charged nothing and fails in execution
  /\ fs' = SetTop([Top EXCEPT !.st = "fault", !.ran = TRUE, !.pend = [o |-> o, cost |-> 0, cv |-> 0, kids |-> 0]])
  /\ UNCHANGED <<fork, res>>

(* failure while executing the pending instruction *)
FaultInExec(cls) ==
  /\ Len(fs) > 0 /\ Top.st = "run" /\ Top.pend.o >= 0 /\ Top.pend.kids = 0
  /\ FaultConsistent(Top, Top.pend.o, cls, FALSE)
  /\ fs' = SetTop([Top EXCEPT !.st = "fault"])
  /\ UNCHANGED <<fork, res>>

(* state gas borrowed from (spill: any time) / repaid to (only once the instruction's own    *)
(* charging and its child frame are done) execution gas; rule sets with two gas dimensions   *)
Adjust(g2) ==
  /\ Len(fs) > 0 /\ TwoD(fork) /\ Top.st = "run"
  /\ g2 >= 0 /\ g2 <= Top.given
  /\ g2 <= Top.g \/ Top.pend = NoPend \/ Top.pend.kids = 1
  /\ fs' = SetTop([Top EXCEPT !.g = g2])
  /\ UNCHANGED <<fork, res>>

(* a child frame is entered from the pending CALL*/CREATE*/SELFDESTRUCT of the running frame *)
Enter(typ, given, pre) ==
  LET p == Top
      d == Len(fs)                                   \* depth of the new frame
      child == NewFrame(IF typ \in CreateOps THEN "create" ELSE IF typ = SelfDestruct THEN "pseudo" ELSE "call",
                        typ, p.static \/ typ = StaticCall, pre, given,
                        IF d > DepthLimit \/ typ = SelfDestruct THEN "noexec" ELSE "run")
  IN
  /\ Len(fs) > 0 /\ p.st = "run"
  /\ p.pend.o = typ /\ p.pend.kids = 0 /\ ArityOK(p, typ)
  /\ typ \in CallOps \cup CreateOps \cup {SelfDestruct}
  /\ ~(p.static /\ IsWrite(typ, p.pend.cv))
  /\ d <= DepthLimit + 1
  /\ given >= 0
  /\ typ \in CallOps => given <= p.pend.cost             \* never more than was charged for the call
  /\ typ \in CreateOps => IF TwoD(fork) THEN given <= Fwd(fork, p.g) ELSE given = Fwd(fork, p.g)
  /\ typ = SelfDestruct => given = 0
  /\ fs' = [fs EXCEPT ![d] = [p EXCEPT !.pend.kids = 1, !.g = IF typ \in CreateOps THEN p.g - given ELSE p.g]] \o << child >>
  /\ UNCHANGED <<fork, res>>

PreCheckErr == {"depth", "balance", "nonce"}    \* the frame is not executed, gas is handed back untouched

(* what a finishing frame c may report: gas used, error class, output length, reverted flag *)
ExitOK(c, used, err, out, rev) ==
  /\ used >= 0 /\ used <= c.given
  /\ rev = (err # "" /\ ~(fork = Frontier /\ err = "codestore"))
  /\ err \in PreCheckErr => (~c.ran /\ used = 0)
  /\ CASE c.st = "noexec" -> /\ used = 0
                             /\ IF c.kind = "pseudo" THEN err = "" ELSE err = "depth"
       [] c.st = "fault"  -> err \notin ({"", "revert"} \cup PreCheckErr) /\ used = c.given
       [] c.st = "run" /\ c.pend.o >= 0 ->
             /\ c.pend.o \in Terminal /\ ArityOK(c, c.pend.o)
             /\ ~(c.static /\ IsWrite(c.pend.o, c.pend.cv))
             /\ IF c.pend.o \notin NormalStop                         \* REVERT
                THEN err = "revert" /\ (~TwoD(fork) => used = c.given - c.g)
                ELSE IF c.kind = "create"
                THEN \/ err = "" /\ (~TwoD(fork) => used = c.given - c.g + CodeDepositCost(out))
                     \/ err \in {"codestore", "code"} /\ fork = Frontier /\ err = "codestore" /\ used = c.given - c.g
                     \/ err \in {"codestore", "code"} /\ ~(fork = Frontier /\ err = "codestore") /\ used = c.given
                ELSE err = "" /\ (~TwoD(fork) => used = c.given - c.g)
       [] c.st = "run" /\ c.pend.o < 0 ->
             /\ ~c.ran                                               \* no code, empty initcode, precompile, refused entry
             /\ \/ err \in PreCheckErr
                \/ err = "" /\ (used = 0 \/ c.pre)
                \/ err \notin ({"", "revert"} \cup PreCheckErr) /\ used = c.given

Exit(used, err, out, rev) ==
  LET c == Top  n == Len(fs) IN
  /\ n > 0 /\ ExitOK(c, used, err, out, rev)
  /\ IF n = 1
     THEN fs' = << >> /\ res' = [given |-> c.given, used |-> used]
     ELSE /\ fs' = [SubSeq(fs, 1, n - 1) EXCEPT ![n - 1] = [@ EXCEPT !.g = @ + (c.given - used)]]
          /\ res' = res
  /\ fork' = fork

(* ------------------------------ properties ------------------------------ *)
StackWithinLimit == \A i \in 1..Len(fs) : fs[i].sl >= 0 /\ fs[i].sl <= StackLimit

GasWithinGiven == \A i \in 1..Len(fs) : fs[i].g >= 0 /\ fs[i].g <= fs[i].given

(* no gas is created: what all live frames hold never exceeds what the execution was given *)
RECURSIVE SumG(_)
SumG(i) == IF i = 0 THEN 0 ELSE fs[i].g + SumG(i - 1)
NoGasCreated == (Len(fs) > 0 /\ ~TwoD(fork)) => SumG(Len(fs)) <= fs[1].given

DepthWithinLimit ==
  /\ Len(fs) <= DepthLimit + 2
  /\ \A i \in 1..Len(fs) : i > DepthLimit + 1 => (fs[i].st = "noexec" /\ ~fs[i].ran)

StaticInherited == \A i \in 2..Len(fs) : fs[i-1].static => fs[i].static

(* only the running frame executes; suspended frames wait in a call/create/selfdestruct *)
OnlyTopRuns == \A i \in 1..(Len(fs) - 1) :
   fs[i].st = "run" /\ fs[i].pend.o \in CallOps \cup CreateOps \cup {SelfDestruct} /\ fs[i].pend.kids = 1

ResultWithinGiven == res # NoRes => (res.used >= 0 /\ res.used <= res.given)

TypeOK == fork \in Forks /\ \A i \in 1..Len(fs) : fs[i].st \in {"run", "fault", "noexec"} /\ fs[i].mw >= 0
=============================================================================
