-------------------------- MODULE EVMMetaTrace --------------------------
(* Trace validation for EVMMeta (C27): every callback of core/tracing.Hooks recorded while  *)
(* the real interpreter runs (OnEnter, OnOpcode, OnFault, OnExit, plus the driver's reset /  *)
(* end brackets around runtime.Call / Create / Execute / evm.Call) must be explained by the  *)
(* actions of EVMMeta.tla.  OnOpcode reports an instruction after validation and charging    *)
(* and before execution, so a step event = Complete(previous instruction) . Issue(this one). *)
(* A guard that fails prints <<"WHY", name, line>> so that the report names the broken rule. *)
EXTENDS EVMMeta, Json, IOUtils

Trace == ndJsonDeserialize(IOEnv.TRACE)

VARIABLES l,      \* next line of the trace to explain
          mode,   \* "idle" (between executions) | "run" | "skip" (rest of execution not logged)
          lim     \* gas limit announced for the execution and its entry kind

tvars == <<fork, fs, res, l, mode, lim>>

Ev == Trace[l]

Chk(name, c) == IF c THEN TRUE ELSE PrintT(<<"WHY", name, l>>) /\ FALSE

Step(A) == l <= Len(Trace) /\ A /\ l' = l + 1

TReset ==
  Step(/\ Ev.op = "reset"
       /\ Chk("ResetOnlyBetweenExecutions", mode \in {"idle", "skip"})
       /\ fork' = Ev.fork /\ fs' = << >> /\ res' = NoRes
       /\ lim' = [gas |-> Ev.gas, create |-> Ev.mode = "create"]
       /\ mode' = "run")

(* the rest of this execution was not recorded *)
TTrunc ==
  Step(Ev.op = "trunc" /\ mode = "run" /\ mode' = "skip" /\ fs' = << >> /\ UNCHANGED <<fork, res, lim>>)

TEnterTop ==
  Step(/\ Ev.op = "enter" /\ mode = "run" /\ Len(fs) = 0
       /\ Chk("EnterDepth", Ev.d = 0 /\ res = NoRes)
       /\ Chk("TopKind", Ev.typ = IF lim.create THEN 240 ELSE 241)
       /\ Chk("TopGasWithinLimit", IF TwoD(fork) THEN Ev.gas <= lim.gas ELSE Ev.gas = lim.gas)
       /\ Start(fork, Ev.gas, lim.create)
       /\ UNCHANGED <<mode, lim>>)

TEnter ==
  Step(/\ Ev.op = "enter" /\ mode = "run" /\ Len(fs) > 0
       /\ Chk("EnterDepth", Ev.d = Len(fs))
       /\ Chk("DepthLimit", Ev.d <= DepthLimit + 1)
       /\ Chk("EnterFromPendingCall", Top.st = "run" /\ Top.pend.o = Ev.typ /\ Top.pend.kids = 0 /\ ArityOK(Top, Ev.typ))
       /\ Chk("StaticNoWrite", ~(Top.static /\ IsWrite(Ev.typ, Top.pend.cv)))
       /\ Chk("ChildGasPaidFor", Ev.typ \in CallOps => Ev.gas <= Top.pend.cost)
       /\ Chk("CreateGasAllButOne64th", Ev.typ \in CreateOps =>
                 IF TwoD(fork) THEN Ev.gas <= Fwd(fork, Top.g) ELSE Ev.gas = Fwd(fork, Top.g))
       /\ Enter(Ev.typ, Ev.gas, IsPrecompile(fork, Ev.to))
       /\ UNCHANGED <<mode, lim>>)

(* frame after the previous instruction (if any) completed, with the observed memory size, *)
(* and (two gas dimensions only) re-synchronised with the observed execution gas            *)
AfterPrev(f) == LET f1 == IF f.pend.o >= 0 THEN Completed(f, Ev.mw) ELSE f
                IN  IF TwoD(fork) THEN [f1 EXCEPT !.g = Ev.gas] ELSE f1

Continuity(f) ==
  /\ Chk("StepDepth", Ev.d = Len(fs))
  /\ Chk("FrameRunning", f.st = "run")
  /\ Chk("MemAligned", Ev.ma)
  /\ IF f.pend.o >= 0
     THEN /\ Chk("NotAfterTerminal", f.pend.o \notin Terminal)
          /\ Chk("PrevArity", ArityOK(f, f.pend.o))
          /\ Chk("StaticNoWrite", ~(f.static /\ IsWrite(f.pend.o, f.pend.cv)))
          /\ Chk("MemNonDecreasing", Ev.mw >= f.mw)
          /\ Chk("MemGrowthPaid", f.pend.cost >= MemCost(Ev.mw) - MemCost(f.mw))
          /\ Chk("StackEffect", Ev.sl = Completed(f, Ev.mw).sl)
     ELSE /\ Chk("FreshFrame", ~f.ran /\ Ev.sl = 0 /\ Ev.mw = 0)
  /\ Chk("StackLimit", Ev.sl <= StackLimit)
  /\ IF TwoD(fork) THEN Chk("GasWithinGiven", Ev.gas >= 0 /\ Ev.gas <= f.given)
                   ELSE Chk("GasChain", Ev.gas = f.g)

TStep ==
  Step(/\ Ev.op = "step" /\ Ev.err = "" /\ mode = "run" /\ Len(fs) > 0
       /\ Continuity(Top)
       /\ LET f == AfterPrev(Top) IN
          /\ Chk("UndefinedChargedNothing", OpInfo(fork, Ev.o).def \/ Ev.cost = 0)
          /\ Chk("CostCovered", Ev.cost >= 0 /\ Ev.cost <= f.g)
          /\ CanIssue(f, Ev.o, Ev.cost)
          /\ fs' = SetTop(Issued(f, Ev.o, Ev.cost, Ev.cv))
       /\ UNCHANGED <<fork, res, mode, lim>>)

(* the instruction failed validation / charging *)
TStepErr ==
  Step(/\ Ev.op = "step" /\ Ev.err # "" /\ mode = "run" /\ Len(fs) > 0
       /\ Continuity(Top)
       /\ LET f == AfterPrev(Top) IN
          /\ Chk("FaultClass", FaultConsistent(f, Ev.o, Ev.err, TRUE))
          /\ Chk("UndefinedFailsInExecution", Ev.err \in {"underflow", "overflow"} \/ OpInfo(fork, Ev.o).def)
          /\ fs' = SetTop([f EXCEPT !.st = "fault", !.ran = TRUE, !.pend = [o |-> Ev.o, cost |-> 0, cv |-> 0, kids |-> 0]])
       /\ UNCHANGED <<fork, res, mode, lim>>)

(* the tracer interface reports the REVERT instruction through the fault callback too: *)
(* it is not an exceptional halt, the frame ends by its pending REVERT                  *)
TRevertNotice ==
  Step(/\ Ev.op = "fault" /\ Ev.err = "revert" /\ mode = "run" /\ Len(fs) > 0
       /\ Chk("FaultDepth", Ev.d = Len(fs))
       /\ Chk("RevertIsPending", Top.st = "run" /\ Top.pend.o = 253 /\ Ev.o = 253)
       /\ UNCHANGED <<fork, fs, res, mode, lim>>)

TFault ==
  Step(/\ Ev.op = "fault" /\ Ev.err # "revert" /\ mode = "run" /\ Len(fs) > 0
       /\ Chk("FaultDepth", Ev.d = Len(fs))
       /\ Chk("FaultOfPending", Top.st = "run" /\ Top.pend.o = Ev.o /\ Top.pend.kids = 0)
       /\ Chk("FaultClass", FaultConsistent(Top, Ev.o, Ev.err, FALSE))
       /\ FaultInExec(Ev.err)
       /\ UNCHANGED <<mode, lim>>)

TExit ==
  Step(/\ Ev.op = "exit" /\ mode = "run" /\ Len(fs) > 0
       /\ Chk("ExitDepth", Ev.d = Len(fs) - 1)
       /\ Chk("UsedWithinGiven", Ev.used >= 0 /\ Ev.used <= Top.given)
       /\ Chk("ExitAccounting", ExitOK(Top, Ev.used, Ev.err, Ev.out, Ev.rev))
       /\ Exit(Ev.used, Ev.err, Ev.out, Ev.rev)
       /\ UNCHANGED <<mode, lim>>)

(* the entry point returned: no panic, and the leftover is exactly given - used *)
TEnd ==
  Step(/\ Ev.op = "end" /\ mode = "run"
       /\ Chk("NoPanic", ~Ev.panic)
       /\ Chk("AllFramesExited", Len(fs) = 0 /\ res # NoRes)
       /\ Chk("LeftoverExact", Ev.left = res.given - res.used)
       /\ mode' = "idle" /\ UNCHANGED <<fork, fs, res, lim>>)

(* a panic is reported even when the execution is no longer logged: never accepted *)
TEndSkipped ==
  Step(/\ Ev.op = "end" /\ mode = "skip"
       /\ Chk("NoPanic", ~Ev.panic)
       /\ mode' = "idle" /\ UNCHANGED <<fork, fs, res, lim>>)

TraceInit == fork = Frontier /\ fs = << >> /\ res = NoRes /\ l = 1 /\ mode = "idle"
             /\ lim = [gas |-> 0, create |-> FALSE]
TraceNext == TReset \/ TTrunc \/ TEnterTop \/ TEnter \/ TStep \/ TStepErr \/ TFault \/ TRevertNotice \/ TExit \/ TEnd \/ TEndSkipped
TraceSpec == TraceInit /\ [][TraceNext]_tvars

TraceAccepted == TLCGet("stats").diameter - 1 = Len(Trace)
=============================================================================
