------------------------------ MODULE MCLedger ------------------------------
(* Model-checking wrapper of Ledger: one block, a sender (1), a contract (2) that is also    *)
(* the fee recipient, and a third party (3), tiny amounts.  Every interleaving of gas        *)
(* purchase, a frame (optionally a creation) with transfers out of the sender/contract,      *)
(* self-destruct sweeps and burns by the contract, reverts, gas return, tip, end-of-          *)
(* transaction burn, a withdrawal and a proof-of-work reward.  TLC checks that ether is      *)
(* conserved in every reachable state.  The dimensions that do not matter for conservation   *)
(* are fixed: base fee and proof-of-work follow from the rule set, only the contract can be  *)
(* created / destroyed, ether flows 1 -> 2 -> 3.                                              *)
EXTENDS Ledger

CONSTANTS MCForks, MaxAmt, MaxDepth, MaxTxs

VARIABLES ntx,       \* transactions started so far
          nblk       \* blocks started so far (every block mints: without a bound the model is infinite)

Init0 == /\ fork \in MCForks
         /\ bal = <<3, 1, 0>> /\ balu = <<0, 0, 0>>
         /\ burned = 0 /\ minted = 0 /\ mintedu = 0 /\ total0 = [w |-> 4, u |-> 0]
         /\ blk = NoBlk /\ tx = NoTx /\ frames = << >> /\ float = 0 /\ escrow = 0 /\ sd = {} /\ created = {}
         /\ ntx = 0 /\ nblk = 0

Pow == fork < 10                                   \* before the merge: block reward
Bf == IF fork >= London THEN 1 ELSE 0

MCNext ==
  \/ /\ nblk < 1 /\ nblk' = nblk + 1
     /\ \E wd \in {<< >>, << [a |-> 3, amt |-> 1] >>} :
          StartBlock(fork, Bf, 2, wd, IF Pow THEN << [a |-> 2, units |-> 2] >> ELSE << >>)
     /\ UNCHANGED ntx
  \/ /\ ntx < MaxTxs /\ ntx' = ntx + 1 /\ UNCHANGED nblk
     /\ \E gas \in 1..2, tipcap \in 0..1, blobfee \in {0, 1} :
          /\ (blobfee = 1 => fork >= Cancun)
          /\ StartTx(1, gas, Bf + 1, tipcap, blobfee)
  \/ UNCHANGED <<ntx, nblk>> /\
     \/ \E amt \in 1..(2 * MaxAmt + 1) : GasBuy(1, amt) \/ GasReturn(1, amt) \/ Tip(2, amt)
     \/ \E amt \in 1..MaxAmt : SdBurn(2, amt)
     \/ \E amt \in 1..MaxAmt : (float = 0 /\ \E a \in {1, 2} : Debit(a, amt))
     \/ (float > 0 /\ \E a \in {2, 3} : Credit(a, float))
     \/ (InTx /\ Len(frames) < MaxDepth /\ \E c \in BOOLEAN : EnterFrame(c, 2))
     \/ (Len(frames) <= MaxDepth /\ \E to \in {2, 3} : SelfDestructed(2, to))
     \/ \E rev \in BOOLEAN : ExitFrame(rev)
     \/ \E used \in 0..2 : EndTx(used)
     \/ Withdrawal(3, 1) \/ Reward(2, 2)
     \/ SkipZeroWithdrawal
     \/ EndBlock

MCSpec == Init0 /\ [][MCNext]_<<lvars, ntx, nblk>>

Bounded == burned <= 8
=============================================================================
