------------------------------ MODULE MCLedger ------------------------------
(* Model-checking wrapper of Ledger: one block over three accounts (a sender, a contract /   *)
(* fee recipient, a third party) with tiny amounts: every interleaving of gas purchase,      *)
(* nested frames with transfers, self-destruct sweeps and burns, reverts, gas return, tip,   *)
(* end-of-transaction burn, withdrawals and rewards.  TLC checks that ether is conserved in  *)
(* every reachable state and that the fee postconditions are satisfiable.                    *)
EXTENDS Ledger

CONSTANTS MCForks, MaxAmt, MaxDepth, MaxTxs

VARIABLE ntx        \* transactions started so far

Accts == 1..3
Init0 == /\ fork \in MCForks
         /\ bal = <<4, 1, 0>> /\ balu = <<0, 0, 0>>
         /\ burned = 0 /\ minted = 0 /\ mintedu = 0 /\ total0 = [w |-> 5, u |-> 0]
         /\ blk = NoBlk /\ tx = NoTx /\ frames = << >> /\ float = 0 /\ escrow = 0 /\ sd = {} /\ created = {}
         /\ ntx = 0

MCNext ==
  \/ /\ \E bf \in {0, 1}, wd \in {<< >>, << [a |-> 3, amt |-> 1] >>}, pow \in BOOLEAN :
          StartBlock(fork, bf, 2, wd, IF pow THEN << [a |-> 2, units |-> 2] >> ELSE << >>)
     /\ UNCHANGED ntx
  \/ /\ ntx < MaxTxs /\ ntx' = ntx + 1
     /\ \E gas \in 1..2, feecap \in 0..2, tipcap \in 0..1, bf \in {0, 1} : StartTx(1, gas, feecap, tipcap, bf)
  \/ UNCHANGED ntx /\
     \/ \E a \in Accts, amt \in 1..MaxAmt : GasBuy(a, amt) \/ GasReturn(a, amt) \/ Tip(a, amt) \/ SdBurn(a, amt)
     \/ \E a \in Accts, amt \in 1..MaxAmt : (float <= 0 /\ Debit(a, amt)) \/ (float # 0 /\ Credit(a, amt) /\ float' = 0)
     \/ (InTx /\ Len(frames) < MaxDepth /\ \E c \in BOOLEAN, to \in Accts : EnterFrame(c, to))
     \/ \E from \in Accts, to \in Accts : Len(frames) < MaxDepth + 1 /\ SelfDestructed(from, to)
     \/ \E rev \in BOOLEAN : ExitFrame(rev)
     \/ \E used \in 0..2 : EndTx(used)
     \/ \E a \in Accts, amt \in 1..MaxAmt : Withdrawal(a, amt) \/ Reward(a, amt)
     \/ SkipZeroWithdrawal
     \/ EndBlock

MCSpec == Init0 /\ [][MCNext]_<<lvars, ntx>>

(* a transaction can complete: the fee postconditions are not vacuous *)
Bounded == burned <= 12
=============================================================================
