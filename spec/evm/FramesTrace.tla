---------------------------- MODULE FramesTrace ----------------------------
(* Trace validation for Frames (C29).  The driver's tracer projects the real StateDB on     *)
(* every OnEnter / OnExit callback (and on every OnOpcode while a static frame is on the     *)
(* stack) over a small universe of accounts and slots; every event carries that projection. *)
(* Each event first lets the running frame change the state to the observed one (Change:    *)
(* refused for anything but warmth in a static context), then enters / leaves a frame; a    *)
(* failing frame must leave exactly Restored(frame).                                        *)
EXTENDS Frames, Json, IOUtils

Trace == ndJsonDeserialize(IOEnv.TRACE)

VARIABLE l
tvars == <<fvars, l>>
Ev == Trace[l]

Chk(name, c) == IF c THEN TRUE ELSE PrintT(<<"WHY", name, l>>) /\ FALSE
Step(A) == l <= Len(Trace) /\ A /\ l' = l + 1

(* the running frame may have brought the state to o *)
ChangeOK(o) == Chk("StaticNoChange", InStatic => NoWarm(o) = NoWarm(obs))

TReset ==
  Step(/\ Ev.op = "reset"
       /\ fork' = Ev.fork /\ fs' = << >> /\ dead' = {} /\ nid' = 1 /\ UNCHANGED obs)

TEnter ==
  Step(/\ Ev.op = "enter"
       /\ Chk("EnterDepth", Ev.d = Len(fs))
       /\ Len(fs) > 0 => ChangeOK(Ev.obs)        \* the outermost frame starts from the observed state
       /\ Chk("NoCreateInStatic", Ev.kind = "create" => ~InStatic)
       /\ fs' = Append(fs, [id |-> nid, kind |-> Ev.kind, static |-> (Ev.kind = "static" \/ InStatic),
                            snap |-> Ev.obs, creator |-> Ev.creator, created |-> Ev.created])
       /\ obs' = Ev.obs /\ nid' = nid + 1
       /\ UNCHANGED <<fork, dead>>)

(* an instruction is about to execute (recorded inside static contexts) *)
TStep ==
  Step(/\ Ev.op = "step"
       /\ Chk("StepDepth", Ev.d = Len(fs))
       /\ ChangeOK(Ev.obs)
       /\ obs' = Ev.obs
       /\ UNCHANGED <<fork, fs, dead, nid>>)

TExitOK ==
  Step(/\ Ev.op = "exit" /\ ~Ev.rev
       /\ Chk("ExitDepth", Len(fs) > 0 /\ Ev.d = Len(fs) - 1)
       /\ ChangeOK(Ev.obs)
       /\ obs' = Ev.obs
       /\ fs' = SubSeq(fs, 1, Len(fs) - 1)
       /\ UNCHANGED <<fork, dead, nid>>)

TExitFail ==
  Step(/\ Ev.op = "exit" /\ Ev.rev
       /\ Chk("ExitDepth", Len(fs) > 0 /\ Ev.d = Len(fs) - 1)
       /\ Chk("FailedFrameRestoresState", NoWarm(Ev.obs) = NoWarm(Restored(Top, Ev.err)))
       /\ Chk("FailedFrameRestoresWarmth", Ev.obs.wa = Restored(Top, Ev.err).wa /\ Ev.obs.ws = Restored(Top, Ev.err).ws)
       /\ ExitFail(Ev.err)
       /\ Chk("Observed", obs' = Ev.obs))

TraceInit == /\ fork = 0 /\ fs = << >> /\ dead = {} /\ nid = 1 /\ l = 1
             /\ obs = [bal |-> << >>, nonce |-> << >>, code |-> << >>, sd |-> << >>, st |-> << >>, ts |-> << >>,
                       logs |-> 0, refund |-> 0, wa |-> << >>, ws |-> << >>]
TraceNext == TReset \/ TEnter \/ TStep \/ TExitOK \/ TExitFail
TraceSpec == TraceInit /\ [][TraceNext]_tvars

TraceAccepted == TLCGet("stats").diameter - 1 = Len(Trace)
=============================================================================
