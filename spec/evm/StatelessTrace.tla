--------------------------- MODULE StatelessTrace ---------------------------
(* Trace validation for C34: every stateless run recorded from core.ExecuteStateless (the  *)
(* Gets of the witness database are observed through the verif hook) must be a behaviour   *)
(* of StatelessRun.tla.                                                                    *)
(*   reset  n         a block was imported with witness collection: witness = items 1..n   *)
(*   begin  removed   ExecuteStateless starts on the witness without item `removed` (0 =   *)
(*                    complete witness)                                                    *)
(*   read   id hit    one Get of the witness database for item id and whether it was served*)
(*   end    err same  ExecuteStateless returned (error?, state and receipt root equal to    *)
(*                    the block's?)                                                        *)
EXTENDS StatelessRun, Json, IOUtils, TLC, Sequences

CONSTANT AllowIgnoredDbError   \* TODO-KNOWN-FINDING (C34): see TEndKnown

Trace == ndJsonDeserialize(IOEnv.TRACE)

VARIABLE l

Ev == Trace[l]

Step(A) == l <= Len(Trace) /\ A /\ l' = l + 1

TReset == Step(/\ Ev.op = "reset"
               /\ witness' = 1..Ev.n /\ avail' = {} /\ running' = FALSE /\ missed' = FALSE
               /\ readset' = {} /\ outcome' = "none")

TBegin == Step(/\ Ev.op = "begin"
               /\ Begin(IF Ev.removed = 0 THEN {} ELSE {Ev.removed}))

(* the database must behave like the set `avail`: served iff present *)
TRead  == Step(/\ Ev.op = "read"
               /\ Ev.hit = Served(Ev.id)
               /\ Read(Ev.id))

(* the specified outcomes *)
TEnd   == Step(/\ Ev.op = "end"
               /\ End
               /\ \/ outcome' = "fail" /\ Ev.err
                  \/ outcome' = "same" /\ ~Ev.err /\ Ev.same)

(* tolerated: a read was not served, the run reported no error, and the result is the     *)
(* block's result all the same (the value of the missing item did not matter); the         *)
(* property forbids only a DIFFERENT result                                                 *)
TEndBenign == Step(/\ Ev.op = "end" /\ running /\ missed /\ ~Ev.err /\ Ev.same
                   /\ outcome' = "same" /\ running' = FALSE
                   /\ UNCHANGED <<witness, avail, missed, readset>>)

(* TODO-KNOWN-FINDING (C34, candidate defect reported to the coordinator): ExecuteStateless *)
(* does not consult StateDB.Error(), so a run whose database read FAILED can return err=nil*)
(* with a different state root.  While AllowIgnoredDbError is TRUE exactly this fingerprint *)
(* (a read was not served /\ no error /\ different result) is skipped over; everything else*)
(* is still validated.  Set the constant to FALSE once the defect is fixed.                 *)
TEndKnown == Step(/\ AllowIgnoredDbError
                  /\ Ev.op = "end" /\ running /\ missed /\ ~Ev.err /\ ~Ev.same
                  /\ outcome' = "fail" /\ running' = FALSE
                  /\ UNCHANGED <<witness, avail, missed, readset>>)

TraceInit == RunInit /\ l = 1
TraceNext == TReset \/ TBegin \/ TRead \/ TEnd \/ TEndBenign \/ TEndKnown
TraceSpec == TraceInit /\ [][TraceNext]_<<witness, avail, running, missed, readset, outcome, l>>

TraceAccepted == TLCGet("stats").diameter - 1 = Len(Trace)
=============================================================================
