--------------------------- MODULE StatelessTrace ---------------------------
(* Trace validation for C34: every stateless run recorded from core.ExecuteStateless (the  *)
(* Gets of the witness database are observed through the verif hook) must be a behaviour   *)
(* of StatelessRun.tla.                                                                    *)
(*   reset  n         a block was imported with witness collection: witness = items 1..n   *)
(*   begin  removed kind  ExecuteStateless starts on the witness without item `removed`    *)
(*                    (0 = complete witness); kind = "none"|"node"|"code"|"header"         *)
(*   read   id hit    one Get of the witness database for item id and whether it was served*)
(*   end    err same  ExecuteStateless returned (error?, state and receipt root equal to    *)
(*                    the block's?)                                                        *)
EXTENDS StatelessRun, Json, IOUtils, TLC, Sequences

Trace == ndJsonDeserialize(IOEnv.TRACE)

VARIABLES l, rmkind   \* rmkind: kind of the removed item of the current run ("none", "node", "code", "header")

Ev == Trace[l]

Step(A) == l <= Len(Trace) /\ A /\ l' = l + 1

TReset == Step(/\ Ev.op = "reset"
               /\ witness' = 1..Ev.n /\ avail' = {} /\ running' = FALSE /\ missed' = FALSE
               /\ readset' = {} /\ outcome' = "none" /\ rmkind' = "none")

TBegin == Step(/\ Ev.op = "begin"
               /\ Begin(IF Ev.removed = 0 THEN {} ELSE {Ev.removed})
               /\ rmkind' = Ev.kind)

(* the database must behave like the set `avail`: served iff present *)
TRead  == Step(/\ Ev.op = "read"
               /\ Ev.hit = Served(Ev.id)
               /\ Read(Ev.id) /\ UNCHANGED rmkind)

(* the specified outcomes *)
TEnd   == Step(/\ Ev.op = "end"
               /\ End
               /\ \/ outcome' = "fail" /\ Ev.err
                  \/ outcome' = "same" /\ ~Ev.err /\ Ev.same
               /\ UNCHANGED rmkind)

(* tolerated: a read was not served, the run reported no error, and the result is the     *)
(* block's result all the same (the value of the missing item did not matter); the         *)
(* property forbids only a DIFFERENT result                                                 *)
TEndBenign == Step(/\ Ev.op = "end" /\ running /\ missed /\ ~Ev.err /\ Ev.same
                   /\ outcome' = "same" /\ running' = FALSE
                   /\ UNCHANGED <<witness, avail, missed, readset, rmkind>>)

(* outside the property text (which speaks of trie nodes and code): with an ANCESTOR HEADER  *)
(* removed, BLOCKHASH silently yields zero (core.GetHashFn treats a missing header like an   *)
(* out-of-range number), so the run can finish with a different root and no error.  Such     *)
(* runs are recorded (the driver counts them as an observation) but not judged.               *)
TEndHeaderGap == Step(/\ Ev.op = "end" /\ running /\ missed /\ ~Ev.err /\ ~Ev.same /\ rmkind = "header"
                      /\ outcome' = "fail" /\ running' = FALSE
                      /\ UNCHANGED <<witness, avail, missed, readset, rmkind>>)

TraceInit == RunInit /\ l = 1 /\ rmkind = "none"
TraceNext == TReset \/ TBegin \/ TRead \/ TEnd \/ TEndBenign \/ TEndHeaderGap
TraceSpec == TraceInit /\ [][TraceNext]_<<witness, avail, running, missed, readset, outcome, l, rmkind>>

TraceAccepted == TLCGet("stats").diameter - 1 = Len(Trace)
=============================================================================
