----------------------------- MODULE Estimator -----------------------------
(* Gas estimation by trial execution (property C37).                                       *)
(*                                                                                         *)
(* The estimator does not know the program; it only observes the outcome of trial          *)
(* executions ("probes") at chosen gas limits.  The specification therefore models the     *)
(* program as an unknown predicate ok(g) (does the call succeed with gas limit g?) plus    *)
(* the two numbers the estimator reads from a successful probe: the gas used after refunds *)
(* (used) and the peak gas used before refunds (peak).  The algorithm is the one           *)
(* documented in eth/gasestimator (doc comments of Estimate):                              *)
(*   1. cap  = the caller's gas limit if >= 21000 else the block gas limit; capped by the  *)
(*      per-transaction cap (EIP-7825, Osaka only), by (balance - value) / feeCap when a   *)
(*      fee cap is given, and by the RPC gas cap when non-zero;                            *)
(*   2. a plain value transfer (no data, recipient without code) is tried at 21000 first,   *)
(*      provided the cap admits 21000;                                                      *)
(*   3. the call is executed at the cap: a failure there is final;                         *)
(*   4. lo = used - 1 is taken as a failing limit; the optimistic limit                    *)
(*      (peak + stipend) * 64 / 63 is probed if it is below the cap;                       *)
(*   5. bisection between lo (fails) and hi (succeeds), the midpoint clamped to 2*lo,      *)
(*      stopping early when (hi - lo) / hi < ErrorRatio.                                   *)
(* One action per probe, so that TLC enumerates every probe sequence.                      *)
EXTENDS Integers, Sequences, TLC

CONSTANTS TxGas,        \* 21000: gas of a plain transfer
          Stipend,      \* 2300
          TxCap         \* 2^24: per-transaction cap (EIP-7825)

VARIABLES
  pc,        \* "start" | "transfer" | "cap" | "optimistic" | "bisect" | "done"
  lo, hi,    \* search interval: lo is believed to fail, hi is known to succeed
  cap,       \* the allowance cap computed in step 1 (never changes afterwards)
  res,       \* [ok |-> BOOLEAN, gas |-> Int] once pc = "done"
  probes,    \* sequence of probed gas limits (history)
  env        \* the hidden program and request: [okset, used, peak, plain, fatal, errShift];
             \* ErrorRatio = 2^-errShift, errShift = 0 means ErrorRatio = 0 (exact answer)

vars == <<pc, lo, hi, cap, res, probes, env>>

Min(a, b) == IF a < b THEN a ELSE b

(* ---- step 1: the allowance cap, a pure function of the request ------------------------ *)
(* req = [callGas, blockGas, osaka, feeCap, balance, value, gasCap]                        *)
FundsError(req) == req.feeCap > 0 /\ req.value >= req.balance
Cap(req) ==
  LET h0 == IF req.callGas >= TxGas THEN req.callGas ELSE req.blockGas
      h1 == IF req.osaka /\ h0 > TxCap THEN TxCap ELSE h0
      h2 == IF req.feeCap > 0 THEN Min(h1, (req.balance - req.value) \div req.feeCap) ELSE h1
      h3 == IF req.gasCap # 0 THEN Min(h2, req.gasCap) ELSE h2
  IN h3

(* ---- the hidden program --------------------------------------------------------------- *)
(* Outcome of a probe at gas limit g: "ok" | "fail" (includes intrinsic-gas-too-low and    *)
(* limit-above-the-transaction-cap, which the estimator treats as ordinary failures) |     *)
(* "fatal" (an error unrelated to gas).                                                    *)
Outcome(g) == IF env.fatal THEN "fatal" ELSE IF g \in env.okset THEN "ok" ELSE "fail"

Optimistic(peak) == ((peak + Stipend) * 64) \div 63

(* early termination test: (hi-lo)/hi < 2^-ErrShift  <=>  (hi-lo) * 2^ErrShift < hi        *)
Close(l, h) == env.errShift > 0 /\ (h - l) * (2 ^ env.errShift) < h

Mid(l, h) == LET m == l + (h - l) \div 2 IN IF m > l * 2 THEN l * 2 ELSE m

Probe(g) == probes' = Append(probes, g)

Done(ok, g) == pc' = "done" /\ res' = [ok |-> ok, gas |-> g]

(* Every probing action exists in two forms: XxxP(o, u, p) takes the observed outcome of the *)
(* probe (and, for a success, the used / peak gas it reported) as parameters - this is the  *)
(* form the trace specification instantiates with logged values - and Xxx applies it to the *)
(* hidden program of the model.                                                             *)

(* step 2 *)
Start ==
  /\ pc = "start"
  /\ IF env.plain /\ cap >= TxGas THEN pc' = "transfer" ELSE pc' = "cap"
  /\ UNCHANGED <<lo, hi, cap, res, probes, env>>

TransferP(o) ==
  /\ pc = "transfer"
  /\ Probe(TxGas)
  /\ IF o = "ok"
       THEN Done(TRUE, TxGas) /\ UNCHANGED <<lo, hi>>
       ELSE pc' = "cap" /\ UNCHANGED <<lo, hi, res>>
  /\ UNCHANGED <<cap, env>>
Transfer == TransferP(Outcome(TxGas))

(* step 3 and the first half of step 4 *)
AtCapP(o, u, p) ==
  /\ pc = "cap"
  /\ Probe(cap)
  /\ IF o = "ok"
       THEN /\ lo' = u - 1
            /\ hi' = cap
            /\ pc' = IF Optimistic(p) < cap THEN "optimistic" ELSE "bisect"
            /\ UNCHANGED res
       ELSE Done(FALSE, 0) /\ UNCHANGED <<lo, hi>>
  /\ UNCHANGED cap
AtCap == AtCapP(Outcome(cap), env.used, env.peak) /\ UNCHANGED env

(* the optimistic limit is computed from the peak usage reported by the probe at the cap;   *)
(* the trace specification keeps it in env.peak                                             *)
OptimisticProbeP(o) ==
  /\ pc = "optimistic"
  /\ LET g == Optimistic(env.peak) IN
     /\ Probe(g)
     /\ CASE o = "fatal" -> Done(FALSE, 0) /\ UNCHANGED <<lo, hi>>
          [] o = "fail"  -> lo' = g /\ pc' = "bisect" /\ UNCHANGED <<hi, res>>
          [] o = "ok"    -> hi' = g /\ pc' = "bisect" /\ UNCHANGED <<lo, res>>
  /\ UNCHANGED <<cap, env>>
OptimisticProbe == OptimisticProbeP(Outcome(Optimistic(env.peak)))

(* step 5 *)
Searching == lo + 1 < hi /\ ~Close(lo, hi)
BisectP(o) ==
  /\ pc = "bisect"
  /\ Searching
  /\ LET g == Mid(lo, hi) IN
     /\ Probe(g)
     /\ CASE o = "fatal" -> Done(FALSE, 0) /\ UNCHANGED <<lo, hi>>
          [] o = "fail"  -> lo' = g /\ UNCHANGED <<hi, pc, res>>
          [] o = "ok"    -> hi' = g /\ UNCHANGED <<lo, pc, res>>
  /\ UNCHANGED <<cap, env>>
Bisect == BisectP(Outcome(Mid(lo, hi)))
Finish ==
  /\ pc = "bisect"
  /\ ~Searching
  /\ Done(TRUE, hi)
  /\ UNCHANGED <<lo, hi, probes, cap, env>>

(* Abstract search step: ANY probe strictly inside the interval is a sound step of the      *)
(* search (the optimistic probe and the clamped midpoint are optimisations of the choice).  *)
(* The trace specification accepts exactly these steps, so that it decides the property and  *)
(* not the probing strategy; SearchRefines below states that the documented algorithm only   *)
(* takes such steps.                                                                         *)
SoundProbeP(g, o) ==
  /\ pc \in {"optimistic", "bisect"}
  /\ lo < g /\ g < hi
  /\ Probe(g)
  /\ CASE o = "fatal" -> Done(FALSE, 0) /\ UNCHANGED <<lo, hi>>
       [] o = "fail"  -> lo' = g /\ pc' = "bisect" /\ UNCHANGED <<hi, res>>
       [] o = "ok"    -> hi' = g /\ pc' = "bisect" /\ UNCHANGED <<lo, res>>
  /\ UNCHANGED <<cap, env>>

Next == Start \/ Transfer \/ AtCap \/ OptimisticProbe \/ Bisect \/ Finish

(* ------------------------------- properties ------------------------------------------- *)
(* the program is gas-monotone with threshold T when okset = T..infinity                   *)
Monotone == \A g \in env.okset : \A g2 \in g..cap : g2 \in env.okset
(* the estimator's working assumption: the gas used (after refunds) by a successful run    *)
(* never exceeds what the run needs, so used-1 is a failing limit                          *)
UsedLowerBounds == (env.used - 1) \notin env.okset

Finished == pc = "done"

(* C37 (a): a call that succeeds at the cap gets an estimate, and the estimate succeeds.   *)
Sufficient == Finished /\ ~env.fatal /\ cap \in env.okset => res.ok /\ res.gas \in env.okset
(* C37 (b): exact answers are minimal for monotone programs.                               *)
Minimal == Finished /\ res.ok /\ env.errShift = 0 /\ Monotone /\ UsedLowerBounds /\ ~env.plain
             => (res.gas - 1) \notin env.okset
(* with a tolerated error the over-estimate is bounded by the ratio                        *)
WithinRatio == Finished /\ res.ok /\ env.errShift > 0 /\ Monotone /\ UsedLowerBounds /\ res.gas # TxGas
             => \E g \in 0..res.gas : g \notin env.okset /\ ((res.gas - g) * (2 ^ env.errShift) < res.gas \/ g + 1 = res.gas)
(* C37 (c): the estimate never exceeds the cap (funds, gas cap, transaction cap).          *)
WithinCap == Finished /\ res.ok => res.gas <= cap
(* a failure at the cap is reported as failure, never as an estimate                       *)
FailsCleanly == Finished /\ cap \notin env.okset /\ ~(env.plain /\ cap >= TxGas /\ TxGas \in env.okset) => ~res.ok
(* every probe stays within [0, cap] (apart from the fixed transfer probe)                 *)
ProbesWithinCap == \A i \in 1..Len(probes) : probes[i] <= cap
(* no gas limit is probed twice: the search makes progress                                 *)
NoRepeat == \A i, j \in 1..Len(probes) : i < j /\ probes[i] = probes[j] => probes[i] = TxGas /\ env.plain /\ i = 1
(* the documented algorithm refines the abstract search *)
InsideStep == pc \in {"optimistic", "bisect"} /\ probes' # probes
                => (lo < probes'[Len(probes')] /\ probes'[Len(probes')] < hi)
SearchRefines == [][InsideStep]_vars
(* hi always succeeds once the cap probe has succeeded                                     *)
HiSucceeds == pc \in {"optimistic", "bisect"} => hi \in env.okset
=============================================================================
