---------------------------- MODULE Settlement ----------------------------
(* Transaction-level gas settlement and the block gas pool (property C31, second half).   *)
(* Written from EIP-3529 (refund cap), EIP-7623 (calldata floor), EIP-7825 (tx gas cap)  *)
(* and the EIP-8037 block-level two-dimensional accounting described in the doc comments  *)
(* of core/state_transition.go:settleGas and core/gaspool.go.                              *)
(*                                                                                         *)
(* One action per transaction outcome: Included (executed and settled) or Rejected (the    *)
(* block gas pool or the intrinsic/floor checks refuse it; nothing changes).               *)
EXTENDS Integers, Sequences, TLC

CONSTANTS MaxTxGas,          \* EIP-7825 cap (2^24 in the implementation)
          MaxLimit           \* MC bound on gas limits / block limits

VARIABLES pool,              \* [fork, initial, remaining, cumUsed, cumExec, cumState]
          last               \* outcome of the last transaction (observable results)

vars == <<pool, last>>

Min(a, b) == IF a < b THEN a ELSE b
Max(a, b) == IF a > b THEN a ELSE b

Forks == {"london", "prague", "amsterdam"}   \* refund quotient 5 everywhere; floor from prague; 2D pool in amsterdam
HasFloor(fork) == fork \in {"prague", "amsterdam"}

NewPool(n, f) == [fork |-> f, initial |-> n, remaining |-> n, cumUsed |-> 0, cumExec |-> 0, cumState |-> 0]
NoTx == [used |-> 0, refund |-> 0, peak |-> 0, returned |-> 0, limit |-> 0]

Init == \E n \in 0..MaxLimit, f \in Forks : pool = NewPool(n, f) /\ last = NoTx

NewBlock(n, f) == pool' = NewPool(n, f) /\ last' = NoTx

(* Can the block still take a transaction with this gas limit? *)
PoolAdmits(fork, limit) ==
  IF fork = "amsterdam"
  THEN /\ pool.initial - pool.cumExec >= Min(limit, MaxTxGas)
       /\ pool.initial - pool.cumState >= limit
  ELSE pool.remaining >= limit

(* Settlement of an executed transaction.                                                 *)
(*   limit     gas limit of the transaction                                               *)
(*   left      gas left after execution (execution gas + state reservoir), before refunds *)
(*   counter   the refund counter accumulated by execution                                *)
(*   floor     EIP-7623 calldata floor (0 before prague)                                  *)
(*   stateUsed net state gas of the top frame (0 before amsterdam)                        *)
Settled(fork, limit, left, counter, floor, stateUsed) ==
  LET before == limit - left
      refund == Min(before \div 5, counter)
      afterR == before - refund
      used   == IF HasFloor(fork) /\ afterR < floor THEN floor ELSE afterR
  IN [used |-> used, refund |-> refund,
      peak |-> IF HasFloor(fork) /\ afterR < floor THEN Max(before, floor) ELSE before,
      returned |-> limit - used, limit |-> limit,
      txExec |-> Max(before - stateUsed, floor), txState |-> stateUsed]

Included(fork, limit, left, counter, floor, stateUsed) ==
  /\ fork = pool.fork
  /\ PoolAdmits(fork, limit)
  /\ 0 <= left /\ left <= limit
  /\ floor <= limit /\ counter >= 0
  /\ 0 <= stateUsed /\ stateUsed <= limit - left
  /\ (fork # "amsterdam" => stateUsed = 0)
  /\ (~HasFloor(fork) => floor = 0)
  /\ (fork = "amsterdam" => (limit - left) - stateUsed <= MaxTxGas /\ floor <= MaxTxGas)
  /\ LET s == Settled(fork, limit, left, counter, floor, stateUsed) IN
     /\ last' = [used |-> s.used, refund |-> s.refund, peak |-> s.peak, returned |-> s.returned, limit |-> limit]
     /\ pool' = IF fork = "amsterdam"
                THEN [pool EXCEPT !.cumExec = @ + s.txExec, !.cumState = @ + s.txState,
                                  !.cumUsed = @ + s.used,
                                  !.remaining = pool.initial - (pool.cumExec + s.txExec)]
                ELSE [pool EXCEPT !.remaining = @ - limit + s.returned, !.cumUsed = @ + s.used]

Rejected == UNCHANGED vars

Next == \/ \E n \in 0..MaxLimit, f \in Forks : NewBlock(n, f)
        \/ \E f \in Forks, limit, left, counter, floor, su \in 0..MaxLimit :
              Included(f, limit, left, counter, floor, su)

Spec == Init /\ [][Next]_vars

(* ------------------------------ properties ------------------------------ *)
UsedWithinLimit   == last.used <= last.limit /\ last.used >= 0 /\ last.returned >= 0
RefundCapped      == 5 * last.refund <= last.used + last.refund   \* refund <= (pre-refund usage)/5 ... when no floor lifts used
RefundCappedExact == last.refund >= 0
BlockWithinLimit  == /\ pool.cumExec <= pool.initial /\ pool.cumState <= pool.initial
                     /\ pool.remaining >= 0 /\ pool.remaining <= pool.initial
LegacyPoolExact   == pool.fork # "amsterdam" => pool.remaining + pool.cumUsed = pool.initial
=============================================================================
