------------------------------ MODULE MiniEVM ------------------------------
(* Executable small-step semantics AND gas of an EVM fragment (property C26; reused by C28). *)
(*                                                                                           *)
(* Written from the Yellow Paper and the EIPs (150 63/64 rule, 161, 1153 transient storage,  *)
(* 1559, 2200/2929/3529 storage gas and refunds, 2930 access lists, 3541, 3651 warm          *)
(* coinbase, 3855 PUSH0, 3860 initcode, 4844 blob fee (envelope only), 6780 SELFDESTRUCT,    *)
(* 7623 calldata floor (Prague), 7702 delegated code and authorisation lists (Prague), 7825  *)
(* transaction gas cap (Osaka), 7939 CLZ (Osaka)), for the rule sets Cancun, Prague and      *)
(* Osaka - not from core/vm.                                                                 *)
(*                                                                                           *)
(* Values.  A 256-bit word is represented by an integer:                                     *)
(*    v >= 0    the exact value, always < 2^30                                               *)
(*    v <= -2   a token: some value >= 2^30 whose identity is known (equal tokens = equal    *)
(*              values, different tokens = different values) but whose magnitude is not      *)
(*    v = -1    UNK: nothing is known (only inside memory / call data / return data)         *)
(* Addresses are words (the generated worlds use small addresses; created contracts have     *)
(* token addresses).  Whenever the semantics cannot determine a result from what it knows,   *)
(* it takes the result from the observation obs (a logged value of the real run) and records *)
(* in chk what it does know about it (e.g. "must be a token").  Without observations         *)
(* (model checking) such a step makes the machine stop in phase "stuck".                     *)
(*                                                                                           *)
(* The machine is one record m; the step functions (TxStart, Enter, Exec, Exit, TxEnd) are   *)
(* pure operators m -> m', shaped like the phases of message execution:                      *)
(*    TxStart  validity, intrinsic gas, gas purchase, warm sets, top frame (pending)         *)
(*    Enter    message-call / creation initialisation of the pending frame                   *)
(*    Exec     one instruction of the running frame                                          *)
(*    Exit     the finished frame returns to its parent (or to the transaction)              *)
(*    TxEnd    refund, fee payment, account deletion                                         *)
EXTENDS Integers, Sequences, FiniteSets, Bitwise, TLC

CONSTANT DepthLimit      \* 1024

W30       == 1073741824
UNK       == -1
Known(v)  == v >= 0
IsTok(v)  == v <= -2
INF       == -1          \* "more gas than any transaction has"
HugeWords == 46000       \* memory of more words costs > 4.2M gas (= MaxTxGasModel)
MaxTxGasModel == 4200000 \* the model handles gas limits up to this (keeps w*w < 2^31)

Min(a, b) == IF a < b THEN a ELSE b
Max(a, b) == IF a > b THEN a ELSE b

(* ------------------------------- finite maps ------------------------------------------ *)
Get(f, k, d) == IF k \in DOMAIN f THEN f[k] ELSE d
Put(f, k, v) == [x \in (DOMAIN f) \cup {k} |-> IF x = k THEN v ELSE f[x]]
EmptyMap == [x \in {} |-> 0]

(* ------------------------------- world ------------------------------------------------- *)
(* w = [acct, stor, tstor, warmA, warmS, refund, logs, created, destructed]: everything a    *)
(* reverting frame restores.                                                                 *)
EmptyAcct == [bal |-> 0, nonce |-> 0, code |-> << >>]
Acct(w, a)       == Get(w.acct, a, EmptyAcct)
SetAcct(w, a, r) == [w EXCEPT !.acct = Put(@, a, r)]
Bal(w, a)        == Acct(w, a).bal
AddBal(w, a, v)  == SetAcct(w, a, [Acct(w, a) EXCEPT !.bal = @ + v])
Dead(w, a)       == LET x == Acct(w, a) IN x.bal = 0 /\ x.nonce = 0 /\ Len(x.code) = 0
SLoad(w, a, s)   == Get(w.stor, <<a, s>>, 0)
TLoad(w, a, s)   == Get(w.tstor, <<a, s>>, 0)
HasStorage(w, a) == \E k \in DOMAIN w.stor : k[1] = a /\ w.stor[k] # 0

IsPrecompile(a, fork) == \/ a \in 1..10
                         \/ (fork # "cancun" /\ a \in 11..17)
                         \/ (fork = "osaka" /\ a = 256)
WarmA(w, a, fork) == a \in w.warmA \/ IsPrecompile(a, fork)

(* EIP-7702 (Prague): an account whose code is 0xef0100 ++ address delegates to that address:  *)
(* calls execute the target's code (one level only), the target's access is charged.          *)
IsDeleg(code, fork) == fork # "cancun" /\ Len(code) = 23 /\ code[1] = 239 /\ code[2] = 1 /\ code[3] = 0
(* the 20-byte target as a value; BIGT if it is not below 2^30 (not modelled)                  *)
BIGT == -8
DelegTarget(code) ==
  IF (\E i \in 4..19 : code[i] # 0) \/ code[20] >= 64 THEN BIGT
  ELSE code[23] + 256 * code[22] + 65536 * code[21] + 16777216 * code[20]
(* the code executed by a call to a *)
Resolved(w, a, fork) ==
  LET c == Acct(w, a).code IN
  IF IsDeleg(c, fork) THEN Acct(w, DelegTarget(c)).code ELSE c

(* ------------------------------- code -------------------------------------------------- *)
OpAt(code, pc) == IF pc < Len(code) THEN code[pc + 1] ELSE 0
IsPush(op) == op >= 96 /\ op <= 127
RECURSIVE JD(_, _, _)
JD(code, i, acc) ==
  IF i > Len(code) THEN acc
  ELSE LET op == code[i] IN
       IF IsPush(op) THEN JD(code, i + (op - 95) + 1, acc)
       ELSE JD(code, i + 1, IF op = 91 THEN acc \cup {i - 1} ELSE acc)
JumpDests(code) == JD(code, 1, {})

BIGV == -9     \* marker: the exact value is >= 2^30
(* immediate of PUSHn at pc (bytes beyond the end of the code read as zero) *)
PushVal(code, pc, n) ==
  LET B(i) == IF i >= 1 /\ pc + 1 + i <= Len(code) THEN code[pc + 1 + i] ELSE 0
      nz == {i \in 1..n : B(i) # 0}
  IN IF nz = {} THEN 0
     ELSE LET f == CHOOSE i \in nz : \A j \in nz : i <= j
              sig == n - f + 1
          IN IF sig > 4 \/ (sig = 4 /\ B(f) >= 64) THEN BIGV
             ELSE B(n) + 256 * B(n - 1) + 65536 * B(n - 2) + 16777216 * B(n - 3)

(* ------------------------------- memory ------------------------------------------------ *)
Words(n)   == (n + 31) \div 32
MemCost(x) == 3 * x + (x * x) \div 512
NeedW(off, len) ==
  IF len = 0 THEN 0
  ELSE IF ~Known(off) \/ ~Known(len) \/ off > 16777216 \/ len > 16777216 THEN HugeWords + 1
  ELSE Words(off + len)
MemExp(mem, need) == IF need > HugeWords THEN INF
                     ELSE IF need <= Len(mem) THEN 0 ELSE MemCost(need) - MemCost(Len(mem))
Grow(mem, need) == IF need <= Len(mem) THEN mem ELSE mem \o [i \in 1..(need - Len(mem)) |-> 0]
AddCost(a, b) == IF a = INF \/ b = INF THEN INF ELSE a + b
MW(mem, k) == IF k + 1 <= Len(mem) THEN mem[k + 1] ELSE 0
ReadWordAt(mem, off) ==
  IF off % 32 = 0 THEN MW(mem, off \div 32)
  ELSE IF MW(mem, off \div 32) = 0 /\ MW(mem, off \div 32 + 1) = 0 THEN 0 ELSE UNK
(* len bytes at off as a sequence of 32-byte words (the last one zero padded) *)
Slice(mem, off, len) ==
  [j \in 1..Words(len) |->
     LET o == off + 32 * (j - 1) IN
     IF 32 * j <= len /\ off % 32 = 0 THEN MW(mem, o \div 32)
     ELSE IF MW(mem, o \div 32) = 0 /\ (off % 32 = 0 \/ MW(mem, o \div 32 + 1) = 0) THEN 0 ELSE UNK]
(* write n bytes taken from the word sequence src at byte offset off (memory already grown) *)
WriteWords(mem, off, n, src) ==
  [k \in 1..Len(mem) |->
     LET lo == 32 * (k - 1)
         hi == 32 * k IN
     IF n = 0 \/ hi <= off \/ lo >= off + n THEN mem[k]
     ELSE IF off % 32 = 0 /\ hi <= off + n THEN src[(lo - off) \div 32 + 1]
     ELSE IF mem[k] = 0 /\ (\A j \in DOMAIN src : src[j] = 0) THEN 0 ELSE UNK]
Havoc(mem) == [k \in 1..Len(mem) |-> UNK]

(* ------------------------------- values ------------------------------------------------ *)
(* a value together with what the specification knows about the observation it came from *)
Exact(v)   == [v |-> v, c |-> TRUE]
BigTok(ob) == [v |-> ob.top, c |-> IsTok(ob.top)]
AnyVal(ob) == [v |-> ob.top, c |-> ob.top # UNK]
Norm(x, ob) == IF x < W30 THEN Exact(x) ELSE BigTok(ob)
Bool(b) == Exact(IF b THEN 1 ELSE 0)
FromMem(v, ob) == IF v = UNK THEN AnyVal(ob) ELSE Exact(v)

(* a = top of the stack, b = the item below (YP operand order) *)
BinOp(op, a, b, ob) ==
  LET kk == Known(a) /\ Known(b) IN
  CASE op = 1  -> IF kk THEN Norm(a + b, ob) ELSE IF a = 0 THEN Exact(b) ELSE IF b = 0 THEN Exact(a) ELSE AnyVal(ob)
    [] op = 3  -> IF kk THEN (IF a >= b THEN Exact(a - b) ELSE BigTok(ob))
                  ELSE IF b = 0 THEN Exact(a) ELSE IF a = b THEN Exact(0) ELSE AnyVal(ob)
    [] op = 2  -> IF a = 0 \/ b = 0 THEN Exact(0) ELSE IF a = 1 THEN Exact(b) ELSE IF b = 1 THEN Exact(a)
                  ELSE IF kk /\ a < 32768 /\ b < 32768 THEN Norm(a * b, ob) ELSE AnyVal(ob)
    [] op = 4  -> IF b = 0 THEN Exact(0) ELSE IF kk THEN Exact(a \div b) ELSE IF b = 1 THEN Exact(a)
                  ELSE IF a = b THEN Exact(1) ELSE IF Known(a) THEN Exact(0) ELSE AnyVal(ob)
    [] op = 6  -> IF b = 0 THEN Exact(0) ELSE IF kk THEN Exact(a % b) ELSE IF b = 1 \/ a = b THEN Exact(0)
                  ELSE IF Known(a) THEN Exact(a) ELSE AnyVal(ob)
    [] op \in {16, 18} -> IF kk THEN Bool(a < b) ELSE IF op = 18 THEN AnyVal(ob)
                  ELSE IF Known(b) THEN Bool(FALSE) ELSE IF Known(a) THEN Bool(TRUE)
                  ELSE IF a = b THEN Bool(FALSE) ELSE AnyVal(ob)
    [] op \in {17, 19} -> IF kk THEN Bool(a > b) ELSE IF op = 19 THEN AnyVal(ob)
                  ELSE IF Known(b) THEN Bool(TRUE) ELSE IF Known(a) THEN Bool(FALSE)
                  ELSE IF a = b THEN Bool(FALSE) ELSE AnyVal(ob)
    [] op = 20 -> Bool(a = b)
    [] op = 22 -> IF kk THEN Exact(a & b) ELSE IF a = 0 \/ b = 0 THEN Exact(0) ELSE IF a = b THEN Exact(a) ELSE AnyVal(ob)
    [] op = 23 -> IF kk THEN Exact(a | b) ELSE IF a = 0 THEN Exact(b) ELSE IF b = 0 THEN Exact(a)
                  ELSE IF a = b THEN Exact(a) ELSE BigTok(ob)
    [] op = 24 -> IF kk THEN Exact(a ^^ b) ELSE IF a = 0 THEN Exact(b) ELSE IF b = 0 THEN Exact(a)
                  ELSE IF a = b THEN Exact(0) ELSE AnyVal(ob)
    [] op = 27 -> IF b = 0 THEN Exact(0) ELSE IF a = 0 THEN Exact(b) ELSE IF Known(a) /\ a >= 256 THEN Exact(0)
                  ELSE IF kk /\ a <= 29 /\ b < 2 ^ (30 - a) THEN Exact(b * 2 ^ a) ELSE AnyVal(ob)
    [] op = 28 -> IF b = 0 THEN Exact(0) ELSE IF a = 0 THEN Exact(b) ELSE IF Known(a) /\ a >= 256 THEN Exact(0)
                  ELSE IF kk THEN (IF a >= 30 THEN Exact(0) ELSE Exact(b \div (2 ^ a))) ELSE AnyVal(ob)
    [] op = 10 -> IF b = 0 THEN Exact(1) ELSE IF a = 0 THEN Exact(0) ELSE IF a = 1 THEN Exact(1) ELSE IF b = 1 THEN Exact(a)
                  ELSE IF kk /\ a = 2 /\ b <= 29 THEN Exact(2 ^ b) ELSE AnyVal(ob)
    [] OTHER   -> AnyVal(ob)

(* number of bytes of a known exponent (EXP gas) *)
ByteLen(x) == IF x = 0 THEN 0 ELSE IF x < 256 THEN 1 ELSE IF x < 65536 THEN 2 ELSE IF x < 16777216 THEN 3 ELSE 4

(* ------------------------------- opcode tables ----------------------------------------- *)
(* <<pops, pushes>> of every opcode of the fragment; anything else is undefined (faults)    *)
BinOps   == {1, 2, 3, 4, 5, 6, 7, 10, 11, 16, 17, 18, 19, 20, 22, 23, 24, 26, 27, 28, 29}
TernOps  == {8, 9}
UnOps    == {21, 25}
EnvOps   == {48, 50, 51, 52, 54, 56, 58, 61, 65, 66, 67, 68, 69, 70, 71, 72, 74, 88, 89, 90, 95}
Arity(op, fork) ==
  CASE op = 0 -> <<0, 0>>
    [] op \in BinOps -> <<2, 1>>
    [] op \in TernOps -> <<3, 1>>
    [] op \in UnOps -> <<1, 1>>
    [] op = 30 /\ fork = "osaka" -> <<1, 1>>
    [] op = 32 -> <<2, 1>>
    [] op \in EnvOps -> <<0, 1>>
    [] op \in {49, 53, 59, 63, 81, 84, 92} -> <<1, 1>>
    [] op \in {55, 57, 62, 94} -> <<3, 0>>
    [] op = 80 -> <<1, 0>>
    [] op \in {82, 83, 85, 93} -> <<2, 0>>
    [] op = 86 -> <<1, 0>>
    [] op = 87 -> <<2, 0>>
    [] op = 91 -> <<0, 0>>
    [] IsPush(op) -> <<0, 1>>
    [] op >= 128 /\ op <= 143 -> <<op - 127, op - 126>>
    [] op >= 144 /\ op <= 159 -> <<op - 142, op - 142>>
    [] op >= 160 /\ op <= 164 -> <<op - 158, 0>>
    [] op = 240 -> <<3, 1>>
    [] op \in {241, 242} -> <<7, 1>>
    [] op = 243 \/ op = 253 -> <<2, 0>>
    [] op \in {244, 250} -> <<6, 1>>
    [] op = 245 -> <<4, 1>>
    [] op = 254 -> <<0, 0>>
    [] op = 255 -> <<1, 0>>
    [] OTHER -> <<-1, -1>>
Defined(op, fork) == Arity(op, fork)[1] >= 0 /\ op # 254

SimpleGas(op) ==
  CASE op \in {1, 3, 16, 17, 18, 19, 20, 21, 22, 23, 24, 25, 26, 27, 28, 29} -> 3
    [] op \in {2, 4, 5, 6, 7, 11, 30, 71} -> 5
    [] op \in {8, 9} -> 8
    [] op \in EnvOps -> 2
    [] OTHER -> 3

(* ------------------------------- frames ------------------------------------------------ *)
NoRes == [ok |-> FALSE, rev |-> FALSE, gasLeft |-> 0, out |-> << >>, outLen |-> 0]
IsCreateKind(k) == k \in {"CREATE", "CREATE2"}

(* i-th item from the top of the stack (1 = top) *)
St(s, i)   == s[Len(s) + 1 - i]
PopN(s, n) == SubSeq(s, 1, Len(s) - n)

Base(f, w) == [fault |-> FALSE, chk |-> TRUE, cost |-> 0, stack |-> f.stack, mem |-> f.mem, pc |-> f.pc + 1,
               w |-> w, halt |-> "", out |-> << >>, outLen |-> 0, hasChild |-> FALSE, child |-> 0, fwd |-> 0]
Faulted(f, w) == [Base(f, w) EXCEPT !.fault = TRUE]
(* pop n, push the value-with-check r, charge cost *)
PushRes(f, w, n, r, cost) == [Base(f, w) EXCEPT !.stack = Append(PopN(f.stack, n), r.v), !.chk = r.c, !.cost = cost]

(* EIP-2200 / 2929 / 3529 *)
SStoreCost(w, orig, a, key, new) ==
  LET cur == SLoad(w, a, key)
      base == IF new = cur THEN 100 ELSE IF orig = cur THEN (IF orig = 0 THEN 20000 ELSE 2900) ELSE 100
  IN base + (IF <<a, key>> \in w.warmS THEN 0 ELSE 2100)
SStoreRefund(w, orig, a, key, new) ==
  LET cur == SLoad(w, a, key) IN
  IF new = cur THEN 0
  ELSE IF orig = cur THEN (IF orig # 0 /\ new = 0 THEN 4800 ELSE 0)
  ELSE (IF orig # 0 THEN (IF cur = 0 THEN -4800 ELSE IF new = 0 THEN 4800 ELSE 0) ELSE 0)
       + (IF new = orig THEN (IF orig = 0 THEN 19900 ELSE 2800) ELSE 0)

AccessCost(w, a, fork) == IF WarmA(w, a, fork) THEN 100 ELSE 2600
Warm(w, a) == [w EXCEPT !.warmA = @ \cup {a}]

NewFrame(kind, self, codeAddr, caller, value, gas, static, input, inLen, retOff, retLen, depth) ==
  [kind |-> kind, self |-> self, codeAddr |-> codeAddr, caller |-> caller, value |-> value, code |-> << >>,
   jd |-> {}, pc |-> 0, stack |-> << >>, mem |-> << >>, gas |-> gas, gas0 |-> gas, static |-> static,
   input |-> input, inLen |-> inLen, retOff |-> retOff, retLen |-> retLen, depth |-> depth, snap |-> 0,
   st |-> "pending", res |-> NoRes, rd |-> << >>, rdLen |-> 0]

(* ------------------------------- one instruction --------------------------------------- *)
(* OpResult(m, f, ob): effect of the instruction at f.pc of the running frame f.            *)
OpResult(m, f, ob) ==
  LET w    == m.w
      fork == m.tx.fork
      op   == OpAt(f.code, f.pc)
      s    == f.stack
      ar   == Arity(op, fork)
      a    == St(s, 1)
      b    == St(s, 2)
      c    == St(s, 3)
  IN
  IF ~Defined(op, fork) THEN Faulted(f, w)
  ELSE IF Len(s) < ar[1] \/ Len(s) - ar[1] + ar[2] > 1024 THEN Faulted(f, w)
  ELSE
  CASE op = 0 -> [Base(f, w) EXCEPT !.halt = "stop"]
    (* --- arithmetic, comparison, bitwise --- *)
    [] op = 10 -> IF ~Known(b) THEN [Base(f, w) EXCEPT !.chk = FALSE]       \* EXP with unknown exponent size: not modelled
                  ELSE PushRes(f, w, 2, BinOp(op, a, b, ob), 10 + 50 * ByteLen(b))
    [] op \in BinOps -> PushRes(f, w, 2, BinOp(op, a, b, ob), SimpleGas(op))
    [] op \in TernOps -> PushRes(f, w, 3, AnyVal(ob), 8)
    [] op = 21 -> PushRes(f, w, 1, Bool(a = 0), 3)
    [] op = 25 -> PushRes(f, w, 1, IF Known(a) THEN BigTok(ob) ELSE AnyVal(ob), 3)
    [] op = 30 -> PushRes(f, w, 1, AnyVal(ob), 5)
    (* --- KECCAK256 --- *)
    [] op = 32 -> LET need == NeedW(a, b)
                      cost == AddCost(MemExp(f.mem, need), 30 + 6 * (IF Known(b) /\ b <= 16777216 THEN Words(b) ELSE 0)) IN
                  [PushRes(f, w, 2, BigTok(ob), cost) EXCEPT !.mem = Grow(f.mem, need),
                                                              !.chk = ob.top # UNK]
    (* --- environment --- *)
    [] op = 48 -> PushRes(f, w, 0, Exact(f.self), 2)
    [] op = 49 -> [PushRes(f, w, 1, Exact(Bal(w, a)), AccessCost(w, a, fork)) EXCEPT !.w = Warm(w, a)]
    [] op = 50 -> PushRes(f, w, 0, Exact(m.tx.from), 2)
    [] op = 51 -> PushRes(f, w, 0, Exact(f.caller), 2)
    [] op = 52 -> PushRes(f, w, 0, Exact(f.value), 2)
    [] op = 53 -> LET v == IF ~Known(a) \/ a >= f.inLen THEN 0
                           ELSE IF a % 32 = 0 /\ a + 32 <= 32 * Len(f.input) THEN f.input[a \div 32 + 1]
                           ELSE IF \A j \in DOMAIN f.input : f.input[j] = 0 THEN 0 ELSE UNK
                  IN PushRes(f, w, 1, FromMem(v, ob), 3)
    [] op = 54 -> PushRes(f, w, 0, Exact(f.inLen), 2)
    [] op = 56 -> PushRes(f, w, 0, Exact(Len(f.code)), 2)
    [] op = 58 -> PushRes(f, w, 0, Exact(m.tx.price), 2)
    [] op = 59 -> [PushRes(f, w, 1, Exact(Len(Acct(w, a).code)), AccessCost(w, a, fork)) EXCEPT !.w = Warm(w, a)]
    [] op = 61 -> PushRes(f, w, 0, Exact(f.rdLen), 2)
    [] op = 63 -> [PushRes(f, w, 1, IF Dead(w, a) THEN Exact(0) ELSE BigTok(ob), AccessCost(w, a, fork)) EXCEPT !.w = Warm(w, a)]
    [] op = 65 -> PushRes(f, w, 0, Exact(m.tx.coinbase), 2)
    [] op = 71 -> PushRes(f, w, 0, Exact(Bal(w, f.self)), 5)
    [] op = 72 -> PushRes(f, w, 0, Exact(m.tx.baseFee), 2)
    [] op = 74 -> PushRes(f, w, 0, Exact(m.tx.blobBaseFee), 2)
    [] op = 88 -> PushRes(f, w, 0, Exact(f.pc), 2)
    [] op = 89 -> PushRes(f, w, 0, Exact(32 * Len(f.mem)), 2)
    [] op = 90 -> PushRes(f, w, 0, Exact(f.gas - 2), 2)
    [] op = 95 -> PushRes(f, w, 0, Exact(0), 2)
    [] op \in EnvOps -> PushRes(f, w, 0, AnyVal(ob), 2)              \* block context: not modelled
    (* --- copies into memory: gas exact, contents unknown --- *)
    [] op \in {55, 57, 62, 94} ->
                  LET need == IF op = 94 THEN Max(NeedW(a, c), NeedW(b, c)) ELSE NeedW(a, c)
                      wc   == IF Known(c) /\ c <= 16777216 THEN 3 * Words(c) ELSE 0
                      cost == AddCost(MemExp(f.mem, need), 3 + wc)
                      oob  == op = 62 /\ (~Known(b) \/ ~Known(c) \/ b + c > f.rdLen)
                  IN IF oob THEN Faulted(f, w)
                     ELSE [Base(f, w) EXCEPT !.stack = PopN(s, 3), !.cost = cost,
                                             !.mem = IF c = 0 THEN Grow(f.mem, need) ELSE Havoc(Grow(f.mem, need))]
    (* --- stack, memory, storage --- *)
    [] op = 80 -> [Base(f, w) EXCEPT !.stack = PopN(s, 1), !.cost = 2]
    [] op = 81 -> LET need == NeedW(a, 32)
                      mem2 == Grow(f.mem, need) IN
                  [PushRes(f, w, 1, IF need > HugeWords THEN Exact(0) ELSE FromMem(ReadWordAt(mem2, a), ob),
                           AddCost(3, MemExp(f.mem, need))) EXCEPT !.mem = mem2]
    [] op = 82 -> LET need == NeedW(a, 32)
                      mem2 == Grow(f.mem, need) IN
                  [Base(f, w) EXCEPT !.stack = PopN(s, 2), !.cost = AddCost(3, MemExp(f.mem, need)),
                                     !.mem = IF need > HugeWords THEN f.mem ELSE WriteWords(mem2, a, 32, <<b>>)]
    [] op = 83 -> LET need == NeedW(a, 1)
                      mem2 == Grow(f.mem, need) IN
                  [Base(f, w) EXCEPT !.stack = PopN(s, 2), !.cost = AddCost(3, MemExp(f.mem, need)),
                                     !.mem = IF need > HugeWords THEN f.mem ELSE WriteWords(mem2, a, 1, <<IF b = 0 THEN 0 ELSE UNK>>)]
    [] op = 84 -> [PushRes(f, w, 1, Exact(SLoad(w, f.self, a)), IF <<f.self, a>> \in w.warmS THEN 100 ELSE 2100)
                     EXCEPT !.w = [w EXCEPT !.warmS = @ \cup {<<f.self, a>>}]]
    [] op = 85 -> IF f.static \/ f.gas <= 2300 THEN Faulted(f, w)
                  ELSE LET orig == Get(m.orig, <<f.self, a>>, 0) IN
                  [Base(f, w) EXCEPT !.stack = PopN(s, 2), !.cost = SStoreCost(w, orig, f.self, a, b),
                     !.w = [w EXCEPT !.stor = Put(@, <<f.self, a>>, b), !.warmS = @ \cup {<<f.self, a>>},
                                     !.refund = @ + SStoreRefund(w, orig, f.self, a, b)]]
    [] op = 86 -> IF Known(a) /\ a \in f.jd THEN [Base(f, w) EXCEPT !.stack = PopN(s, 1), !.cost = 8, !.pc = a]
                  ELSE [Faulted(f, w) EXCEPT !.cost = 8]
    [] op = 87 -> IF b = 0 THEN [Base(f, w) EXCEPT !.stack = PopN(s, 2), !.cost = 10]
                  ELSE IF Known(a) /\ a \in f.jd THEN [Base(f, w) EXCEPT !.stack = PopN(s, 2), !.cost = 10, !.pc = a]
                  ELSE [Faulted(f, w) EXCEPT !.cost = 10]
    [] op = 91 -> [Base(f, w) EXCEPT !.cost = 1]
    [] op = 92 -> PushRes(f, w, 1, Exact(TLoad(w, f.self, a)), 100)
    [] op = 93 -> IF f.static THEN Faulted(f, w)
                  ELSE [Base(f, w) EXCEPT !.stack = PopN(s, 2), !.cost = 100,
                                          !.w = [w EXCEPT !.tstor = Put(@, <<f.self, a>>, b)]]
    [] IsPush(op) -> LET n == op - 95
                         v == PushVal(f.code, f.pc, n) IN
                     [PushRes(f, w, 0, IF v = BIGV THEN BigTok(ob) ELSE Exact(v), 3) EXCEPT !.pc = f.pc + n + 1]
    [] op >= 128 /\ op <= 143 -> [Base(f, w) EXCEPT !.stack = Append(s, St(s, op - 127)), !.cost = 3]
    [] op >= 144 /\ op <= 159 -> LET n == op - 143
                                     L == Len(s) IN
                                 [Base(f, w) EXCEPT !.cost = 3,
                                     !.stack = [i \in 1..L |-> IF i = L THEN s[L - n] ELSE IF i = L - n THEN s[L] ELSE s[i]]]
    (* --- LOGn: a = offset, b = length, then n topics --- *)
    [] op >= 160 /\ op <= 164 ->
                  LET n == op - 160
                      need == NeedW(a, b)
                      cost == AddCost(MemExp(f.mem, need), 375 + 375 * n + 8 * (IF Known(b) /\ b <= 16777216 THEN b ELSE 0))
                      mem2 == Grow(f.mem, need) IN
                  IF f.static THEN Faulted(f, w)
                  ELSE [Base(f, w) EXCEPT !.stack = PopN(s, n + 2), !.cost = cost, !.mem = mem2,
                          !.w = IF need > HugeWords THEN w ELSE
                                [w EXCEPT !.logs = Append(@, [addr |-> f.self, topics |-> [i \in 1..n |-> St(s, 2 + i)],
                                                            data |-> Slice(mem2, a, b), dlen |-> b])]]
    (* --- RETURN / REVERT --- *)
    [] op = 243 \/ op = 253 ->
                  LET need == NeedW(a, b)
                      mem2 == Grow(f.mem, need) IN
                  [Base(f, w) EXCEPT !.stack = PopN(s, 2), !.cost = MemExp(f.mem, need), !.mem = mem2,
                                     !.halt = IF op = 243 THEN "return" ELSE "revert",
                                     !.out = IF need > HugeWords THEN << >> ELSE Slice(mem2, a, b), !.outLen = b]
    (* --- SELFDESTRUCT (EIP-6780) --- *)
    [] op = 255 ->
                  LET bal  == Bal(w, f.self)
                      cost == 5000 + (IF WarmA(w, a, fork) THEN 0 ELSE 2600) + (IF bal > 0 /\ Dead(w, a) THEN 25000 ELSE 0)
                      w1   == Warm(w, a)
                      w2   == IF f.self \in w.created
                                THEN LET z == SetAcct(w1, f.self, [Acct(w1, f.self) EXCEPT !.bal = 0]) IN
                                     [(IF a # f.self THEN AddBal(z, a, bal) ELSE z) EXCEPT !.destructed = @ \cup {f.self}]
                                ELSE IF a # f.self THEN AddBal(AddBal(w1, f.self, -bal), a, bal) ELSE w1
                  IN IF f.static THEN Faulted(f, w)
                     ELSE [Base(f, w) EXCEPT !.stack = PopN(s, 1), !.cost = cost, !.w = w2, !.halt = "selfdestruct"]
    (* --- CALL family: gas, addr, [value,] argsOff, argsLen, retOff, retLen --- *)
    [] op \in {241, 242, 244, 250} ->
                  LET hasV  == op \in {241, 242}
                      value == IF hasV THEN c ELSE 0
                      ao    == IF hasV THEN St(s, 4) ELSE St(s, 3)
                      al    == IF hasV THEN St(s, 5) ELSE St(s, 4)
                      ro    == IF hasV THEN St(s, 6) ELSE St(s, 5)
                      rl    == IF hasV THEN St(s, 7) ELSE St(s, 6)
                      need  == Max(NeedW(ao, al), NeedW(ro, rl))
                      tcode == Acct(w, b).code
                      deleg == IsDeleg(tcode, fork)
                      tgt   == DelegTarget(tcode)
                      base  == AddCost(MemExp(f.mem, need),
                                       AccessCost(w, b, fork) + (IF value # 0 THEN 9000 ELSE 0)
                                       + (IF op = 241 /\ value # 0 /\ Dead(w, b) THEN 25000 ELSE 0)
                                       + (IF deleg THEN AccessCost(Warm(w, b), tgt, fork) ELSE 0))
                      avail == f.gas - base
                      cap   == avail - avail \div 64
                      fwd   == IF Known(a) THEN Min(a, cap) ELSE cap
                      mem2  == Grow(f.mem, need)
                      kind  == CASE op = 241 -> "CALL" [] op = 242 -> "CALLCODE" [] op = 244 -> "DELEGATECALL" [] OTHER -> "STATICCALL"
                      child == NewFrame(kind,
                                        IF op \in {242, 244} THEN f.self ELSE b,           \* storage / balance context
                                        b,                                                  \* code
                                        IF op = 244 THEN f.caller ELSE f.self,              \* msg.sender
                                        IF op = 244 THEN f.value ELSE value,                \* msg.value
                                        fwd + (IF value # 0 THEN 2300 ELSE 0),
                                        f.static \/ op = 250,
                                        Slice(mem2, ao, al), al, ro, rl, f.depth + 1)
                  IN IF f.static /\ op = 241 /\ value # 0 THEN Faulted(f, w)
                     ELSE IF deleg /\ tgt = BIGT THEN [Base(f, w) EXCEPT !.chk = FALSE]          \* delegation to a large address: not modelled
                     ELSE IF base = INF \/ base > f.gas THEN [Faulted(f, w) EXCEPT !.cost = base]
                     ELSE [Base(f, w) EXCEPT !.stack = PopN(s, ar[1]), !.cost = base + fwd, !.fwd = 0, !.mem = mem2,
                                             !.w = IF deleg THEN Warm(Warm(w, b), tgt) ELSE Warm(w, b),
                                             !.hasChild = TRUE, !.child = child]
    (* --- CREATE: value, off, len ; CREATE2: value, off, len, salt --- *)
    [] op \in {240, 245} ->
                  LET need == NeedW(b, c)
                      wc   == IF Known(c) /\ c <= 49152 THEN Words(c) ELSE 0
                      base == AddCost(MemExp(f.mem, need), 32000 + 2 * wc + (IF op = 245 THEN 6 * wc ELSE 0))
                      avail == f.gas - base
                      fwd   == avail - avail \div 64
                      mem2  == Grow(f.mem, need)
                      child == NewFrame(IF op = 240 THEN "CREATE" ELSE "CREATE2", UNK, UNK, f.self, a, fwd, FALSE,
                                        << >>, 0, 0, 0, f.depth + 1)
                  IN IF f.static \/ ~Known(c) \/ c > 49152 THEN Faulted(f, w)
                     ELSE IF base = INF \/ base > f.gas THEN [Faulted(f, w) EXCEPT !.cost = base]
                     ELSE [Base(f, w) EXCEPT !.stack = PopN(s, ar[1]), !.cost = base, !.fwd = fwd, !.mem = mem2,
                                             !.hasChild = TRUE, !.child = child]
    [] OTHER -> [Base(f, w) EXCEPT !.chk = FALSE]

(* ------------------------------- machine ------------------------------------------------ *)
Top(m) == m.fr[Len(m.fr)]
SetTop(m, f) == [m EXCEPT !.fr = [@ EXCEPT ![Len(@)] = f]]
FailRes == NoRes
Finish(f, ok, rev, gasLeft, out, outLen) ==
  [f EXCEPT !.st = "done", !.res = [ok |-> ok, rev |-> rev, gasLeft |-> gasLeft, out |-> out, outLen |-> outLen]]

(* Exec: one instruction of the running top frame; r = OpResult(m, Top(m), ob).              *)
ExecR(m, r) ==
  LET f == Top(m) IN
  IF r.fault \/ r.cost = INF \/ r.cost + r.fwd > f.gas
    THEN SetTop(m, Finish(f, FALSE, FALSE, 0, << >>, 0))                  \* exceptional halt: all gas gone
  ELSE IF ~r.chk THEN [m EXCEPT !.ph = "stuck"]                           \* (what is known about a result only matters if there is one)
  ELSE LET f1 == [f EXCEPT !.gas = f.gas - r.cost - r.fwd, !.stack = r.stack, !.mem = r.mem, !.pc = r.pc]
           m1 == [m EXCEPT !.w = r.w] IN
       IF r.halt # "" THEN SetTop(m1, Finish(f1, r.halt # "revert", r.halt = "revert", f1.gas, r.out, r.outLen))
       ELSE IF r.hasChild THEN [SetTop(m1, f1) EXCEPT !.fr = Append(@, r.child)]
       ELSE SetTop(m1, f1)
Exec(m, ob) == ExecR(m, OpResult(m, Top(m), ob))

(* Enter: initialise the pending top frame.  ob = [to, code]: address and init code of a     *)
(* creation (not derivable: hash), ignored for calls.                                         *)
Enter(m, ob) ==
  LET f    == Top(m)
      w    == m.w
      fork == m.tx.fork
  IN
  IF ~IsCreateKind(f.kind) THEN
     LET xfer   == f.kind \in {"CALL", "CALLCODE"}
         payer  == f.caller
         tooDeep == f.depth > DepthLimit
         poor   == xfer /\ f.value # 0 /\ (~Known(f.value) \/ Bal(w, payer) < f.value)
         w1     == IF f.kind = "CALL" /\ f.value # 0 THEN AddBal(AddBal(w, payer, -f.value), f.self, f.value) ELSE w
         code   == Resolved(w, f.codeAddr, fork)
         f1     == [f EXCEPT !.snap = w, !.code = code, !.jd = JumpDests(code), !.st = "run"]
     IN IF tooDeep \/ poor THEN SetTop(m, Finish([f EXCEPT !.snap = w], FALSE, FALSE, f.gas, << >>, 0))
        ELSE IF IsPrecompile(f.codeAddr, fork) THEN [SetTop(m, [f1 EXCEPT !.st = "precompile"]) EXCEPT !.w = w1]
        ELSE IF Len(code) = 0 THEN [SetTop(m, Finish(f1, TRUE, FALSE, f.gas, << >>, 0)) EXCEPT !.w = w1]
        ELSE [SetTop(m, f1) EXCEPT !.w = w1]
  ELSE
     LET creator == f.caller
         addr    == ob.to
         tooDeep == f.depth > DepthLimit
         poor    == ~Known(f.value) \/ Bal(w, creator) < f.value
         w1      == Warm(SetAcct(w, creator, [Acct(w, creator) EXCEPT !.nonce = @ + 1]), addr)
         old     == Acct(w1, addr)
         collide == old.nonce # 0 \/ Len(old.code) # 0 \/ HasStorage(w1, addr)
         w2      == LET z == SetAcct(w1, addr, [old EXCEPT !.nonce = 1]) IN
                    [AddBal(AddBal(z, creator, -f.value), addr, f.value) EXCEPT !.created = @ \cup {addr}]
         f0      == [f EXCEPT !.self = addr, !.codeAddr = addr]
         f1      == [f0 EXCEPT !.snap = w1, !.code = ob.code, !.jd = JumpDests(ob.code), !.st = "run"]
     IN IF tooDeep \/ poor THEN SetTop(m, Finish([f0 EXCEPT !.snap = w], FALSE, FALSE, f.gas, << >>, 0))
        ELSE IF collide THEN [SetTop(m, Finish([f0 EXCEPT !.snap = w1], FALSE, FALSE, 0, << >>, 0)) EXCEPT !.w = w1]
        ELSE IF Len(ob.code) = 0 THEN [SetTop(m, Finish(f1, TRUE, FALSE, f.gas, << >>, 0)) EXCEPT !.w = w2]
        ELSE [SetTop(m, f1) EXCEPT !.w = w2]

(* final result of a finished frame: creations pay the code deposit (200 gas per byte) and   *)
(* fail on oversized code or code starting with 0xEF (EIP-3541).  ob = [ok, code] is used    *)
(* only where the first byte of the returned code is unknown, and for the deployed bytes.     *)
FinalRes(f, ob) ==
  LET r == f.res IN
  IF ~IsCreateKind(f.kind) \/ ~r.ok THEN [r |-> r, chk |-> TRUE]
  ELSE LET dep == 200 * r.outLen
           firstKnown == r.outLen = 0 \/ (Len(r.out) > 0 /\ Known(r.out[1]))     \* a known word is < 2^30: first byte 0
           bad == r.outLen > 24576 \/ dep > r.gasLeft
       IN IF bad THEN [r |-> FailRes, chk |-> TRUE]
          ELSE IF firstKnown THEN [r |-> [r EXCEPT !.gasLeft = @ - dep], chk |-> TRUE]
          ELSE IF ob.ok THEN [r |-> [r EXCEPT !.gasLeft = @ - dep], chk |-> TRUE]
          ELSE [r |-> FailRes, chk |-> Len(ob.code) > 0 /\ ob.code[1] = 239]

(* Exit: the finished top frame returns.  ob = [ok, code, gasUsed, out, outLen] (exit event;  *)
(* gasUsed / out / outLen are needed for precompiles only).                                   *)
Exit(m, ob) ==
  LET c  == Top(m)
      pre == c.st = "precompile"
      fr == IF pre THEN [r |-> [ok |-> ob.ok, rev |-> FALSE, gasLeft |-> IF ob.ok THEN c.gas0 - ob.gasUsed ELSE 0,
                                out |-> ob.out, outLen |-> ob.outLen],
                         chk |-> ob.gasUsed <= c.gas0 /\ ob.gasUsed >= 0]
            ELSE FinalRes(c, ob)
      r  == fr.r
      w1 == IF r.ok THEN (IF IsCreateKind(c.kind)
                            THEN SetAcct(m.w, c.self, [Acct(m.w, c.self) EXCEPT !.code = IF r.outLen = 0 THEN << >> ELSE ob.code])
                            ELSE m.w)
            ELSE c.snap
      c1 == [c EXCEPT !.res = r]
  IN
  IF ~fr.chk THEN [m EXCEPT !.ph = "stuck"]
  ELSE IF Len(m.fr) = 1 THEN [m EXCEPT !.fr = << c1 >>, !.w = w1, !.ph = "settle"]
  ELSE LET p  == m.fr[Len(m.fr) - 1]
           n  == IF ~Known(c.retLen) THEN r.outLen ELSE Min(c.retLen, r.outLen)
           mem2 == IF IsCreateKind(c.kind) \/ n = 0 THEN p.mem ELSE WriteWords(p.mem, c.retOff, n, r.out)
           flag == IF IsCreateKind(c.kind) THEN (IF r.ok THEN c.self ELSE 0) ELSE (IF r.ok THEN 1 ELSE 0)
           keepRd == ~IsCreateKind(c.kind) \/ r.rev
           p1 == [p EXCEPT !.gas = @ + r.gasLeft, !.stack = Append(@, flag), !.mem = mem2,
                           !.rd = IF keepRd THEN r.out ELSE << >>, !.rdLen = IF keepRd THEN r.outLen ELSE 0]
       IN [m EXCEPT !.fr = Append(SubSeq(@, 1, Len(@) - 2), p1), !.w = w1]

(* ------------------------------- transaction envelope ----------------------------------- *)
CountZ(data)  == Cardinality({i \in DOMAIN data : data[i] = 0})
Intrinsic(tx) ==
  LET z == CountZ(tx.data)
      nz == Len(tx.data) - z IN
  21000 + (IF tx.isCreate THEN 32000 + 2 * Words(Len(tx.data)) ELSE 0) + 4 * z + 16 * nz
        + 2400 * Len(tx.alAddrs) + 1900 * Len(tx.alKeys) + 25000 * Len(tx.auths)
BlobGas(tx) == 131072 * Len(tx.blobVers)
FloorGas(tx) ==
  LET z == CountZ(tx.data)
      nz == Len(tx.data) - z IN
  IF tx.fork = "cancun" THEN 0 ELSE 21000 + 10 * (z + 4 * nz)

(* why a transaction is invalid (never included), "" if valid *)
Invalid(tx, w) ==
  LET s == Acct(w, tx.from) IN
  CASE ~tx.skipNonce /\ s.nonce # tx.nonce -> "nonce"
    [] tx.fork = "osaka" /\ tx.gas > 16777216 -> "gascap"
    [] Len(s.code) # 0 /\ ~IsDeleg(s.code, tx.fork) -> "eoa"
    [] tx.feeCap < tx.tip -> "tip"
    [] tx.feeCap < tx.baseFee -> "feecap"
    [] tx.isCreate /\ Len(tx.data) > 49152 -> "initsize"
    [] tx.gas > tx.blockGas -> "blockgas"
    [] tx.blobTx /\ (tx.isCreate \/ Len(tx.blobVers) = 0) -> "blobshape"
    [] tx.blobTx /\ tx.fork = "osaka" /\ Len(tx.blobVers) > 6 -> "blobcount"
    [] \E i \in DOMAIN tx.blobVers : tx.blobVers[i] # 1 -> "blobversion"
    [] tx.blobTx /\ tx.blobFeeCap < tx.blobBaseFee -> "blobfee"
    [] tx.setCode /\ (tx.isCreate \/ Len(tx.auths) = 0 \/ tx.fork = "cancun") -> "setcodeshape"
    [] s.bal < tx.gas * tx.feeCap + tx.value + BlobGas(tx) * tx.blobFeeCap -> "funds"
    [] tx.gas < Intrinsic(tx) -> "intrinsic"
    [] tx.gas < FloorGas(tx) -> "floor"
    [] OTHER -> ""

(* EIP-7702 authorisation list (Prague): each tuple [chainOk, nonce, target, authority] -      *)
(* authority = UNK when the signature does not recover - is applied in order: skipped unless    *)
(* the chain id is 0 or ours, the authority's code is empty or a delegation and its nonce       *)
(* matches; the authority becomes warm as soon as it is recovered; an existing authority        *)
(* refunds 12500 of the 25000 charged intrinsically; the code becomes the designator of the    *)
(* target (cleared for target 0) and the nonce is bumped.                                       *)
Designator(t) == <<239, 1, 0>> \o [i \in 1..16 |-> 0] \o <<(t \div 16777216) % 256, (t \div 65536) % 256, (t \div 256) % 256, t % 256>>
RECURSIVE ApplyAuths(_, _, _)
ApplyAuths(w, tx, i) ==
  IF i > Len(tx.auths) THEN w
  ELSE LET au == tx.auths[i]
           a  == au.authority
           ac == Acct(w, a)
           w1 == Warm(w, a)
           okCode == Len(ac.code) = 0 \/ IsDeleg(ac.code, tx.fork)
       IN IF ~au.chainOk \/ a = UNK THEN ApplyAuths(w, tx, i + 1)
          ELSE IF ~okCode \/ ac.nonce # au.nonce THEN ApplyAuths(w1, tx, i + 1)
          ELSE LET w2 == [w1 EXCEPT !.refund = @ + (IF Dead(w1, a) THEN 0 ELSE 12500)]
                   w3 == SetAcct(w2, a, [ac EXCEPT !.nonce = @ + 1,
                                                   !.code = IF au.target = 0 THEN << >> ELSE Designator(au.target)])
               IN ApplyAuths(w3, tx, i + 1)

MkWorld(accts) ==
  [acct  |-> [a \in {accts[i].addr : i \in DOMAIN accts} |->
                LET r == accts[CHOOSE i \in DOMAIN accts : accts[i].addr = a] IN
                [bal |-> r.bal, nonce |-> r.nonce, code |-> r.code]],
   stor  |-> [k \in UNION {{<<accts[i].addr, accts[i].stor[j][1]>> : j \in DOMAIN accts[i].stor} : i \in DOMAIN accts} |->
                LET i == CHOOSE i \in DOMAIN accts : accts[i].addr = k[1]
                    j == CHOOSE j \in DOMAIN accts[i].stor : accts[i].stor[j][1] = k[2] IN accts[i].stor[j][2]],
   tstor |-> EmptyMap, warmA |-> {}, warmS |-> {}, refund |-> 0, logs |-> << >>, created |-> {}, destructed |-> {}]

Idle == [ph |-> "idle", fr |-> << >>, w |-> MkWorld(<< >>), orig |-> EmptyMap, tx |-> [fork |-> "cancun"],
         out |-> [valid |-> FALSE, ok |-> FALSE, gasUsed |-> 0]]

(* TxStart: tx = the transaction and its block context, accts = the pre-state               *)
TxStart(tx, accts) ==
  LET w0  == MkWorld(accts)
      why == Invalid(tx, w0)
      price == tx.price
      w1  == SetAcct(w0, tx.from, [Acct(w0, tx.from) EXCEPT !.bal = @ - tx.gas * price - BlobGas(tx) * tx.blobBaseFee,
                                                              !.nonce = IF tx.isCreate THEN @ ELSE @ + 1])
      wa  == ApplyAuths(w1, tx, 1)
      toCode == IF tx.isCreate THEN << >> ELSE Acct(wa, tx.to).code
      w2  == [wa EXCEPT !.warmA = @ \cup {tx.from, tx.coinbase} \cup (IF tx.isCreate THEN {} ELSE {tx.to})
                                    \cup (IF IsDeleg(toCode, tx.fork) THEN {DelegTarget(toCode)} ELSE {})
                                    \cup {tx.alAddrs[i] : i \in DOMAIN tx.alAddrs},
                        !.warmS = {<<tx.alKeys[i][1], tx.alKeys[i][2]>> : i \in DOMAIN tx.alKeys}]
      gas == tx.gas - Intrinsic(tx)
      top == IF tx.isCreate
               THEN NewFrame("CREATE", UNK, UNK, tx.from, tx.value, gas, FALSE, << >>, 0, 0, 0, 0)
               ELSE NewFrame("CALL", tx.to, tx.to, tx.from, tx.value, gas, FALSE, tx.dataw, Len(tx.data), 0, 0, 0)
  IN IF tx.gas > MaxTxGasModel /\ why = "" THEN [Idle EXCEPT !.ph = "stuck"]
     ELSE IF why # "" THEN [Idle EXCEPT !.ph = "rejected", !.w = w0, !.tx = tx]
     ELSE [ph |-> "run", fr |-> << top >>, w |-> w2, orig |-> w0.stor, tx |-> tx,
           out |-> [valid |-> TRUE, ok |-> FALSE, gasUsed |-> 0]]

(* TxEnd: refund (EIP-3529: at most a fifth of the gas used), calldata floor (EIP-7623),     *)
(* unused gas back to the sender, tip to the coinbase, deletion of self-destructed accounts.  *)
TxEnd(m) ==
  LET r     == m.fr[1].res
      tx    == m.tx
      used0 == tx.gas - r.gasLeft
      refund == Min(m.w.refund, used0 \div 5)
      used1 == used0 - refund
      used  == Max(used1, FloorGas(tx))
      w1    == AddBal(m.w, tx.from, (tx.gas - used) * tx.price)
      w2    == AddBal(w1, tx.coinbase, used * (tx.price - tx.baseFee))
      w3    == [w2 EXCEPT !.acct = [a \in DOMAIN @ |-> IF a \in w2.destructed THEN EmptyAcct ELSE @[a]],
                          !.stor = [k \in DOMAIN @ |-> IF k[1] \in w2.destructed THEN 0 ELSE @[k]]]
  IN [m EXCEPT !.ph = "end", !.w = w3, !.fr = << >>,
               !.out = [valid |-> TRUE, ok |-> r.ok, gasUsed |-> used]]

(* ------------------------------- autonomous run (model checking) ------------------------ *)
NoObs == [top |-> UNK, to |-> UNK, code |-> << >>, ok |-> TRUE, gasUsed |-> 0, out |-> << >>, outLen |-> 0]
(* Without observations creations and precompiles cannot be executed: the machine stops.     *)
(* RunStepObs takes a fixed observation instead: with ob.to given, creations run (their init  *)
(* code is ob.code and every value the specification cannot compute is the token ob.top).      *)
RunStepObs(m, ob) ==
  IF m.ph = "settle" THEN TxEnd(m)
  ELSE LET f == Top(m) IN
       CASE f.st = "pending" -> IF IsCreateKind(f.kind) /\ ob.to = UNK THEN [m EXCEPT !.ph = "stuck"] ELSE Enter(m, ob)
         [] f.st = "run"     -> Exec(m, ob)
         [] f.st = "done"    -> Exit(m, ob)
         [] OTHER            -> [m EXCEPT !.ph = "stuck"]
RunStep(m) == RunStepObs(m, NoObs)
Running(m) == m.ph \in {"run", "settle"}

(* total gas held by the frames: never grows (call stipends are the only gas created)        *)
GasHeld(m) == LET S[i \in 0..Len(m.fr)] == IF i = 0 THEN 0 ELSE S[i - 1] +
                     (IF m.fr[i].st = "done" THEN m.fr[i].res.gasLeft ELSE m.fr[i].gas) IN S[Len(m.fr)]
=============================================================================
