---------------------------- MODULE GasBudget ----------------------------
(* Two-dimensional gas budget of a call-frame stack (EIP-8037 state-gas reservoir).      *)
(* Property C31, first half.  One action per exported method of core/vm.GasBudget; the   *)
(* rules are written from the reservoir description (charge state gas from the           *)
(* reservoir first, spill the rest into execution gas; refunds repay spilled execution   *)
(* gas first (LIFO); a child frame receives the whole reservoir; a reverted or halted    *)
(* frame hands the reservoir back as it received it).                                    *)
EXTENDS Integers, Sequences, TLC

CONSTANTS MaxGas,      \* largest initial budget / single charge explored by TLC
          MaxDepth     \* largest frame-stack depth explored by TLC

VARIABLE stack         \* Seq(Frame); the running frame is the last one

(* e0/s0 are ghost fields: the budget the frame was entered with. *)
Frame(e, s) == [exec |-> e, state |-> s, usedExec |-> 0, usedState |-> 0, spilled |-> 0,
                e0 |-> e, s0 |-> s]

Top       == stack[Len(stack)]
SetTop(f) == [stack EXCEPT ![Len(stack)] = f]
Min(a, b) == IF a < b THEN a ELSE b

CanAfford(f, ce, cs) ==
  /\ f.exec >= ce
  /\ (cs > f.state => cs - f.state <= f.exec - ce)

Init == \E e \in 0..MaxGas, s \in 0..MaxGas : stack = << Frame(e, s) >>

Charged(f, ce, cs) ==
  LET spill == IF cs > f.state THEN cs - f.state ELSE 0 IN
  [f EXCEPT !.exec = f.exec - ce - spill,
            !.state = IF cs > f.state THEN 0 ELSE f.state - cs,
            !.usedExec = f.usedExec + ce,
            !.usedState = f.usedState + cs,
            !.spilled = f.spilled + spill]

(* Charge succeeds exactly when affordability is reported; a failed charge changes nothing. *)
Charge(ce, cs)     == CanAfford(Top, ce, cs) /\ stack' = SetTop(Charged(Top, ce, cs))
ChargeFail(ce, cs) == ~CanAfford(Top, ce, cs) /\ UNCHANGED stack

ChargeExecOnly(r)     == Top.exec >= r /\ stack' = SetTop(Charged(Top, r, 0))
ChargeExecOnlyFail(r) == Top.exec < r /\ UNCHANGED stack

(* Inline state-gas refund: repays borrowed execution gas first, the rest refills the     *)
(* reservoir.  The net-used counter is signed (a frame may clear a slot set by an ancestor). *)
Refunded(f, s) ==
  LET repay == Min(s, f.spilled) IN
  [f EXCEPT !.exec = f.exec + repay, !.spilled = f.spilled - repay,
            !.state = f.state + (s - repay), !.usedState = f.usedState - s]
RefundState(s) == stack' = SetTop(Refunded(Top, s))

DrainExecution == stack' = SetTop([Top EXCEPT !.usedExec = Top.usedExec + Top.exec, !.exec = 0])

(* Forward x execution gas and the whole reservoir to a child frame. *)
Forward(x) ==
  LET f == Top IN
  /\ x <= f.exec
  /\ stack' = Append(SetTop([f EXCEPT !.exec = f.exec - x, !.usedExec = f.usedExec + x, !.state = 0]),
                     Frame(x, f.state))

(* Leftover a finished frame hands to its caller. *)
Leftover(c, kind) ==
  LET r == c.state + c.usedState - c.spilled IN
  CASE kind = "ok"     -> c
    [] kind = "revert" -> [c EXCEPT !.exec = c.exec + c.spilled, !.state = r, !.usedState = 0, !.spilled = 0]
    [] kind = "halt"   -> [c EXCEPT !.exec = 0, !.state = r, !.usedState = 0, !.spilled = 0,
                                    !.usedExec = c.usedExec + c.exec + c.spilled]

Absorbed(p, res) ==
  [p EXCEPT !.usedExec = p.usedExec - res.exec - res.spilled,
            !.exec = p.exec + res.exec,
            !.state = res.state,
            !.usedState = p.usedState + res.usedState,
            !.spilled = p.spilled + res.spilled]

Exit(kind) ==
  /\ Len(stack) > 1
  /\ stack' = SubSeq(stack, 1, Len(stack) - 2) \o
              << Absorbed(stack[Len(stack) - 1], Leftover(Top, kind)) >>

Kinds == {"ok", "revert", "halt"}

Next == \/ \E ce, cs \in 0..MaxGas : Charge(ce, cs) \/ ChargeFail(ce, cs)
        \/ \E r \in 0..MaxGas : ChargeExecOnly(r) \/ ChargeExecOnlyFail(r)
        \/ \E s \in 1..MaxGas : RefundState(s)
        \/ DrainExecution
        \/ (Len(stack) < MaxDepth /\ \E x \in 0..MaxGas : Forward(x))
        \/ \E k \in Kinds : Exit(k)

Spec == Init /\ [][Next]_stack

(* ------------------------------ properties ------------------------------ *)
NonNeg == \A i \in 1..Len(stack) : LET f == stack[i] IN
            f.exec >= 0 /\ f.state >= 0 /\ f.usedExec >= 0 /\ f.spilled >= 0

(* remaining + consumed + spilled execution gas = what the frame was given *)
ExecConserved == \A i \in 1..Len(stack) : LET f == stack[i] IN
            f.exec + f.usedExec + f.spilled = f.e0

(* reservoir: remaining + net used - spilled = what the frame was given; a suspended      *)
(* frame has lent its whole reservoir to its child                                         *)
StateConserved == \A i \in 1..Len(stack) : LET f == stack[i] IN
            IF i = Len(stack) THEN f.state + f.usedState - f.spilled = f.s0
            ELSE f.state = 0 /\ f.usedState - f.spilled + stack[i+1].s0 = f.s0

(* a reverted or halted frame hands back exactly the reservoir it started with *)
ReservoirReturned == \A i \in 1..Len(stack) : i = Len(stack) =>
            /\ Leftover(stack[i], "revert").state = stack[i].s0
            /\ Leftover(stack[i], "halt").state   = stack[i].s0
            /\ Leftover(stack[i], "halt").exec    = 0

(* whatever happens, the total handed back never exceeds the total given *)
NoGasCreated == \A i \in 1..Len(stack) : \A k \in Kinds :
            i = Len(stack) => LET r == Leftover(stack[i], k) IN
               r.exec + r.state <= stack[i].e0 + stack[i].s0 + (IF r.usedState < 0 THEN -r.usedState ELSE 0)

(* MC-only bound: refunds may grow the reservoir without limit; explore a finite part *)
Bounded == \A i \in 1..Len(stack) : stack[i].state <= 2 * MaxGas /\ stack[i].usedState >= -MaxGas
=============================================================================
