SPECIFICATION TraceSpec
CONSTANTS MaxTxGas = 16777216
          MaxLimit = 0
INVARIANTS UsedWithinLimit RefundCapped BlockWithinLimit LegacyPoolExact
POSTCONDITION TraceAccepted
CHECK_DEADLOCK FALSE
