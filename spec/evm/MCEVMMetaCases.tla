-------------------------- MODULE MCEVMMetaCases --------------------------
(* Test plan derived from the opcode table of EVMMeta (R leg of C27): for every rule set,  *)
(* every opcode byte and every operand-stack height at the boundaries of its arity, the   *)
(* outcome class the table implies.  TLC enumerates the plan (one initial state per case) *)
(* and prints it; harness/cmd/c27 -mode cases executes every case on the interpreter.     *)
EXTENDS EVMMeta, Json

CONSTANTS CaseForks

VARIABLE c

Max(a, b) == IF a > b THEN a ELSE b

(* heights around "just too few operands", "just enough", "result just fits", "result overflows" *)
Heights(i) == { h \in { 0, Max(i.pops - 1, 0), i.pops, i.pops + 1,
                        StackLimit + i.pops - i.pushes - 1, StackLimit + i.pops - i.pushes,
                        StackLimit + i.pops - i.pushes + 1, StackLimit - 1, StackLimit } : h >= 0 /\ h <= StackLimit }

Expect(f, b, h) == LET i == OpInfo(f, b) IN
  IF ~i.def THEN "invalid"
  ELSE IF h < i.pops THEN "underflow"
  ELSE IF h - i.pops + i.pushes > StackLimit THEN "overflow"
  ELSE "run"

CInit == /\ \E f \in CaseForks, b \in 0..255 : \E h \in Heights(OpInfo(f, b)) : c = [fork |-> f, o |-> b, sl |-> h]
         /\ fork = Frontier /\ fs = << >> /\ res = NoRes
CNext == UNCHANGED <<c, vars>>
CSpec == CInit /\ [][CNext]_<<c, vars>>

Emit == PrintT(<<"CASE", ToJson([fork |-> c.fork, o |-> c.o, sl |-> c.sl, expect |-> Expect(c.fork, c.o, c.sl)])>>)
=============================================================================
