--------------------------- MODULE MCParallelExec ---------------------------
(* Model-checking wrapper of ParallelExec.tla.                                              *)
(*  - generator steps compose a scenario (base state, N transactions) one choice per step   *)
(*    (cheap sampling by simulation, exhaustive by BFS);                                     *)
(*  - Sched = FALSE: the scenario is judged in one step: parallel = sequential on the true   *)
(*    access list, and EVERY single mutation of the access list is rejected, whatever the    *)
(*    header claims (honest outputs/post state, or the ones consistent with the forgery);    *)
(*  - Sched = TRUE: the parallel processor is run as W workers pulling transaction indices   *)
(*    from an atomic cursor (executeTransactionsParallel), with the shared base-state cache; *)
(*    every interleaving of fetches, starts and completions is explored and printed (SCHED lines)     *)
(*    for replay through the gate hook in the worker loop.                                   *)
EXTENDS ParallelExec, Json, TLC

CONSTANTS N,          \* transactions per block
          BaseMax,    \* base values 0..BaseMax
          Workers,    \* set of worker counts (Sched)
          Sched,      \* BOOLEAN
          SchedMuts,  \* BOOLEAN: scheduled runs also on blocks with a mutated access list
          EmitCases   \* BOOLEAN: print scenarios (CASE) / schedules (SCHED)

VARIABLES gen, base, txs, blk, w, cursor, fetched, running, res, cache, hist, verdict

vars == <<gen, base, txs, blk, w, cursor, fetched, running, res, cache, hist, verdict>>

NoRes == [acc |-> {}, wr |-> <<>>, out |-> <<>>]
Honest == HonestBlock(txs, base)
Forged(m) == LET r == ParResults(txs, base, m)
             IN [bal |-> m, outs |-> Outs(r, N), post |-> ApplyBAL(base, m, N)]
Muts == Mutations(TrueBAL(txs, base), N) \ {TrueBAL(txs, base)}

Init == /\ gen = 0 /\ base = [k \in Keys |-> 0] /\ txs = <<>> /\ blk = [bal |-> EmptyBAL, outs |-> <<>>, post |-> base]
        /\ w = 0 /\ cursor = 1 /\ fetched = {} /\ running = {} /\ res = <<>> /\ cache = <<>> /\ hist = <<>> /\ verdict = "none"

GenBase == /\ gen = 0
           /\ base' \in [Keys -> 0..BaseMax]
           /\ gen' = 1
           /\ UNCHANGED <<txs, blk, w, cursor, fetched, running, res, cache, hist, verdict>>

GenTx == /\ gen \in 1..N
         /\ \E p \in Progs : txs' = Append(txs, p)
         /\ gen' = gen + 1
         /\ UNCHANGED <<base, blk, w, cursor, fetched, running, res, cache, hist, verdict>>

(* Sched = FALSE: judge the scenario in one step *)
Judge == /\ ~Sched /\ gen = N + 1
         /\ blk' = Honest
         /\ res' = ParResults(txs, base, Honest.bal)
         /\ verdict' = IF Validate(txs, base, Honest) THEN "accepted" ELSE "rejected"
         /\ gen' = N + 3
         /\ UNCHANGED <<base, txs, w, cursor, fetched, running, cache, hist>>

(* Sched = TRUE: pick the block (honest, or its access list mutated) and the worker count *)
GenBlock == /\ Sched /\ gen = N + 1
            /\ blk' \in {Honest} \cup (IF SchedMuts THEN {[Honest EXCEPT !.bal = m] : m \in Muts} ELSE {})
            /\ w' \in Workers
            /\ res' = [i \in 1..N |-> NoRes]
            /\ gen' = N + 2
            /\ UNCHANGED <<base, txs, cursor, fetched, running, cache, hist, verdict>>

(* a free worker takes the next index from the cursor (not observable) *)
Pool == [cursor |-> cursor, fetched |-> fetched, running |-> running]
FetchTx == /\ gen = N + 2 /\ MayFetch(Pool, N, w)
           /\ cursor' = Fetched(Pool).cursor /\ fetched' = Fetched(Pool).fetched
           /\ UNCHANGED <<gen, base, txs, blk, w, running, res, cache, hist, verdict>>

(* the worker holding index i begins executing it (hook event par.start) *)
StartTx(i) == /\ gen = N + 2 /\ MayBegin(Pool, i)
              /\ fetched' = Begun(Pool, i).fetched /\ running' = Begun(Pool, i).running
              /\ hist' = Append(hist, <<"s", i>>)
              /\ UNCHANGED <<gen, base, txs, blk, w, cursor, res, cache, verdict>>

(* base reads of transaction i go through the shared cache *)
Uncovered(i) == {k \in Keys : Latest(blk.bal, k, i) = <<>>}
CachedBase(k) == IF k \in DOMAIN cache THEN cache[k] ELSE base[k]
ViewVia(i) == [k \in Keys |-> LET l == Latest(blk.bal, k, i) IN IF l = <<>> THEN CachedBase(k) ELSE l[1]]

FinishTx(i) == /\ gen = N + 2 /\ i \in running
               /\ LET r == Exec(txs[i], ViewVia(i)) IN
                    /\ res' = [res EXCEPT ![i] = r]
                    /\ cache' = [k \in (DOMAIN cache) \cup (r.acc \cap Uncovered(i)) |-> base[k]]
               /\ running' = Finished(Pool, i).running
               /\ hist' = Append(hist, <<"d", i>>)
               /\ UNCHANGED <<gen, base, txs, blk, w, cursor, fetched, verdict>>

Settle == /\ gen = N + 2 /\ AllDone(Pool, N)
          /\ verdict' = IF /\ WellFormed(blk.bal, N) /\ BuildBAL(res, N) = blk.bal /\ Outs(res, N) = blk.outs
                           /\ ApplyBAL(base, blk.bal, N) = blk.post
                        THEN "accepted" ELSE "rejected"
          /\ gen' = N + 3
          /\ UNCHANGED <<base, txs, blk, w, cursor, fetched, running, res, cache, hist>>

Next == GenBase \/ GenTx \/ Judge \/ GenBlock \/ FetchTx \/ Settle \/ \E i \in 1..N : StartTx(i) \/ FinishTx(i)

Spec == Init /\ [][Next]_vars

----------------------------------------------------------------------------
Done == gen = N + 3

(* the true access list: accepted, and parallel results = sequential results *)
HonestAccepted == (Done /\ blk = Honest) => verdict = "accepted"
ParallelEqualsSequential ==
  (Done /\ blk = Honest) => /\ res = SeqResults(txs, base)
                            /\ ApplyBAL(base, blk.bal, N) = SeqFinal(txs, base)
                            /\ BuildBAL(res, N) = TrueBAL(txs, base)
(* any other access list: rejected (scheduled run: the chosen block; one-step run: every single *)
(* mutation under honest and under forged header claims)                                       *)
WrongBALRejected ==
  Done => /\ (blk.bal # TrueBAL(txs, base) => verdict = "rejected")
          /\ (~Sched => \A m \in Muts : /\ ~Validate(txs, base, [Honest EXCEPT !.bal = m])
                                       /\ ~Validate(txs, base, Forged(m)))
(* the result of a transaction does not depend on the schedule *)
ScheduleIndependent ==
  (Sched /\ gen >= N + 2) => \A i \in 1..N : (i < cursor /\ i \notin running /\ i \notin fetched) => res[i] = Exec(txs[i], View(base, blk.bal, i))
CacheIsBase == \A k \in DOMAIN cache : cache[k] = base[k]
WorkerBound == Cardinality(fetched \cup running) <= IF gen >= N + 2 THEN w ELSE 0
HistLegal == (Sched /\ Done) => LegalSchedule(hist, N, w)

SetToSeq(S) == LET RECURSIVE F(_) F(T) == IF T = {} THEN <<>> ELSE LET x == CHOOSE y \in T : TRUE IN <<x>> \o F(T \ {x}) IN F(S)
BalJson(b) == [w |-> SetToSeq(b.w), r |-> SetToSeq(b.r)]

Emit == IF EmitCases /\ Done
        THEN IF Sched
             THEN IF blk = Honest /\ \A i \in 1..N : txs[i].op = "read" /\ (\A k \in Keys : base[k] = 0)
                  THEN PrintT(<<"SCHED", ToJson([n |-> N, w |-> w, order |-> hist])>>) ELSE TRUE
             ELSE PrintT(<<"CASE", ToJson([base |-> [k \in Keys |-> base[k]], txs |-> txs, bal |-> BalJson(blk.bal),
                                           outs |-> blk.outs, post |-> [k \in Keys |-> blk.post[k]],
                                           muts |-> [j \in 1..Cardinality(Muts) |-> BalJson(SetToSeq(Muts)[j])]])>>)
        ELSE TRUE
=============================================================================
