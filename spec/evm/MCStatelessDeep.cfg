SPECIFICATION Spec
CONSTANTS D = 3
          MaxTouch = 2
INVARIANTS TypeOK NoWrongResult FailIffMissing Reproduces NeededRemoved WitnessSufficient RemovalExact SameFinalTrie
CHECK_DEADLOCK FALSE
