--------------------------- MODULE StatelessRun ---------------------------
(* C34, run level.  A witness is a set of opaque items (trie nodes, codes, ancestor        *)
(* headers).  The execution with full state COLLECTS items; a stateless execution reads    *)
(* items from a database that holds `avail` (the witness, possibly with items removed).    *)
(* Shape of the code: core/stateless.Witness (AddState/AddCode/AddBlockHash = Collect),    *)
(* Witness.MakeHashDB (= Begin), every Get of the hash database (= Read) and the return of *)
(* core.ExecuteStateless (= End).                                                          *)
(*                                                                                         *)
(* Design decision stated by the property: a read that is not served by the witness makes  *)
(* the run FAIL; a run never yields a result different from the one of the full execution. *)
EXTENDS Naturals, FiniteSets

VARIABLES
  witness,   \* items collected by the execution with full state
  avail,     \* items present in the stateless database of the current run
  running,   \* a stateless run is in progress
  missed,    \* some read of the current run was not served
  readset,   \* items read by the current run
  outcome    \* "none" | "same" | "fail"   ("different" must be unreachable)

runVars == <<witness, avail, running, missed, readset, outcome>>

RunInit == /\ witness = {} /\ avail = {} /\ running = FALSE /\ missed = FALSE
           /\ readset = {} /\ outcome = "none"

(* the full execution touches the items S: they enter the witness *)
Collect(S) == /\ ~running
              /\ witness' = witness \cup S
              /\ UNCHANGED <<avail, running, missed, readset, outcome>>

(* a stateless run starts on the witness without the items rm *)
Begin(rm) == /\ ~running
             /\ avail' = witness \ rm
             /\ running' = TRUE /\ missed' = FALSE /\ readset' = {} /\ outcome' = "none"
             /\ UNCHANGED witness

(* the run reads the items S (one database Get each) *)
ReadSet(S) == /\ running
              /\ missed' = (missed \/ ~(S \subseteq avail))
              /\ readset' = readset \cup S
              /\ UNCHANGED <<witness, avail, running, outcome>>

Read(n) == ReadSet({n})

Served(n) == n \in avail

(* the run returns: it fails iff something it needed was missing *)
End == /\ running
       /\ outcome' = IF missed THEN "fail" ELSE "same"
       /\ running' = FALSE
       /\ UNCHANGED <<witness, avail, missed, readset>>

----------------------------------------------------------------------------
(* properties *)
NoWrongResult  == outcome \in {"none", "same", "fail"}
FailIffMissing == (outcome = "fail") <=> (~running /\ missed)
Reproduces     == (~running /\ outcome # "none" /\ avail = witness) => outcome = "same"
NeededRemoved  == (~running /\ outcome # "none") =>
                     ((outcome = "fail") <=> ~(readset \subseteq avail))
=============================================================================
