---------------------------- MODULE MCGasBudget ----------------------------
(* Model-checking wrapper: adds the label of the last action so that every edge of the     *)
(* reachable graph can be printed and replayed on the Go implementation (DESIGN 2.1, R).   *)
EXTENDS GasBudget, Json

VARIABLE act

Proj(f) == [exec |-> f.exec, state |-> f.state, usedExec |-> f.usedExec,
            usedState |-> f.usedState, spilled |-> f.spilled]
ProjStack(st) == [i \in 1..Len(st) |-> Proj(st[i])]

MCInit == Init /\ act = [op |-> "init"]

MCNext ==
  \/ \E ce, cs \in 0..MaxGas :
        \/ Charge(ce, cs)     /\ act' = [op |-> "Charge", e |-> ce, s |-> cs, ok |-> TRUE]
        \/ ChargeFail(ce, cs) /\ act' = [op |-> "Charge", e |-> ce, s |-> cs, ok |-> FALSE]
  \/ \E r \in 0..MaxGas :
        \/ ChargeExecOnly(r)     /\ act' = [op |-> "ChargeExecOnly", r |-> r, ok |-> TRUE]
        \/ ChargeExecOnlyFail(r) /\ act' = [op |-> "ChargeExecOnly", r |-> r, ok |-> FALSE]
  \/ \E s \in 1..MaxGas : RefundState(s) /\ act' = [op |-> "RefundState", s |-> s]
  \/ DrainExecution /\ act' = [op |-> "Drain"]
  \/ (Len(stack) < MaxDepth /\ \E x \in 0..MaxGas : Forward(x) /\ act' = [op |-> "Forward", x |-> x])
  \/ \E k \in Kinds : Exit(k) /\ act' = [op |-> "Exit", kind |-> k]

MCSpec == MCInit /\ [][MCNext]_<<stack, act>>

View == stack

(* printed for every explored transition when used as ACTION_CONSTRAINT *)
Edge == PrintT(<<"EDGE", ToJson([from |-> ProjStack(stack), act |-> act', to |-> ProjStack(stack')])>>)
=============================================================================
