SPECIFICATION TraceSpec
CONSTANTS StackLimit = 1024
          DepthLimit = 1024
INVARIANTS StackWithinLimit GasWithinGiven NoGasCreated DepthWithinLimit StaticInherited OnlyTopRuns ResultWithinGiven
POSTCONDITION TraceAccepted
CHECK_DEADLOCK FALSE
