------------------------------ MODULE EVMPool ------------------------------
(* Resource reuse inside the EVM (property C28): stack arenas, pooled memory buffers, the    *)
(* jump-destination analysis cache and the precompile result cache.                          *)
(*                                                                                           *)
(* Ideal: the result of executing a message is a function of the message and the state.      *)
(* The implementation reuses resources that carry data from earlier executions:              *)
(*   - a stack arena per EVM instance, taken from / returned to a process-wide pool; every    *)
(*     frame's stack is a window [bottom, bottom+size) of the arena, a child frame starts at  *)
(*     the parent's top, leaving a frame resets top to its bottom (cells are not cleared);    *)
(*   - memory buffers from a process-wide pool; a buffer is cleared up to its length and     *)
(*     truncated when freed, buffers above a size limit are not pooled; growing a buffer      *)
(*     within its capacity reveals bytes without zeroing them;                                *)
(*   - the analysis cache is keyed by code hash, init code (null hash) is never cached;       *)
(*   - the precompile cache is keyed by the normalised input, failures are not cached.        *)
(* The specification models these disciplines (one action per critical operation of          *)
(* core/vm/stack.go, memory.go, contract.go, precompile_cache.go, interpreter.Run) with      *)
(* several EVM instances interleaving, and states history independence as an invariant:      *)
(* everything a running frame can observe was written by that frame itself, is zero, or is   *)
(* the ideal function value.                                                                  *)
EXTENDS Integers, Sequences, FiniteSets, TLC

CONSTANTS EVMs,        \* EVM instances (goroutines)
          ArenaSize,   \* cells per arena
          MaxFrames,   \* nesting bound
          MaxCap,      \* largest memory buffer (words)
          PoolLimit,   \* buffers with capacity above this are not returned to the pool
          Codes,       \* deployed codes (cached by hash)
          InitCodes,   \* init codes (null hash)
          Inputs,      \* precompile inputs
          MaxPool      \* bound on pooled items (model only)

Cells == 1..ArenaSize
(* an arena: cells are never cleared, so any cell may hold data of an earlier execution;     *)
(* own[i] is the ghost bit "written by the frame whose window currently contains i" (a cell   *)
(* with own[i] = FALSE must be assumed to hold stale data), dirty = some push ever happened   *)
FreshArena == [own |-> [i \in Cells |-> FALSE], top |-> 0, dirty |-> FALSE]
(* a buffer: cap words of backing store, len visible; w[i] = 1 if non-zero; mine = ghost set *)
(* of words written by the current owner frame                                                *)
FreshBuf == [cap |-> 0, len |-> 0, w |-> [i \in 1..MaxCap |-> 0], mine |-> {}]

(* ideal functions *)
Analysis(c)  == c            \* the analysis of a code is determined by the code
NormOf(inp)  == inp[1]       \* inputs are <<normalised part, ignored part>>
F(inp)       == inp[1]       \* the precompile result depends on the normalised part only
Fails(inp)   == inp[1] = "bad"

VARIABLES
  arenaPool,   \* set of pooled arenas (stale data included)
  memPool,     \* set of pooled buffers
  jcache,      \* function: hash -> analysis, for the cached hashes
  pcache,      \* function: normalised input -> output
  evm          \* [EVMs -> [st, arena, frames]]; frame = [bottom, size, mem]

vars == <<arenaPool, memPool, jcache, pcache, evm>>

NoEVM == [st |-> "none", arena |-> FreshArena, frames |-> << >>]

Init ==
  /\ arenaPool = {} /\ memPool = {}
  /\ jcache = [h \in {} |-> 0] /\ pcache = [k \in {} |-> 0]
  /\ evm = [e \in EVMs |-> NoEVM]

TopFrame(e) == evm[e].frames[Len(evm[e].frames)]
SetTopFrame(e, f) == [evm EXCEPT ![e].frames = [@ EXCEPT ![Len(@)] = f]]

(* vm.NewEVM: newArena() takes any pooled arena or allocates a zeroed one *)
NewEVM(e) ==
  /\ evm[e].st = "none"
  /\ \/ \E a \in arenaPool : /\ arenaPool' = arenaPool \ {a}
                             /\ evm' = [evm EXCEPT ![e] = [st |-> "idle", arena |-> a, frames |-> << >>]]
     \/ /\ evm' = [evm EXCEPT ![e] = [st |-> "idle", arena |-> FreshArena, frames |-> << >>]]
        /\ UNCHANGED arenaPool
  /\ UNCHANGED <<memPool, jcache, pcache>>

(* evm.Release: returnStack resets top and pools the arena (cells keep their data) *)
Release(e) ==
  /\ evm[e].st = "idle" /\ evm[e].frames = << >>
  /\ arenaPool' = IF Cardinality(arenaPool) < MaxPool
                    THEN arenaPool \cup {[evm[e].arena EXCEPT !.top = 0, !.own = [i \in Cells |-> FALSE]]}
                    ELSE arenaPool
  /\ evm' = [evm EXCEPT ![e] = NoEVM]
  /\ UNCHANGED <<memPool, jcache, pcache>>

(* interpreter.Run entry: NewMemory() from the pool or new, arena.stack() at the current top *)
EnterFrame(e) ==
  /\ evm[e].st = "idle" \/ evm[e].st = "run"
  /\ Len(evm[e].frames) < MaxFrames
  /\ \E b \in memPool \cup {FreshBuf} :
       /\ memPool' = memPool \ {b}
       /\ evm' = [evm EXCEPT ![e].st = "run",
                             ![e].frames = Append(@, [bottom |-> evm[e].arena.top, size |-> 0, mem |-> [b EXCEPT !.mine = {}]])]
  /\ UNCHANGED <<arenaPool, jcache, pcache>>

Running(e) == evm[e].st = "run" /\ Len(evm[e].frames) > 0

(* Stack.push: writes the cell at top *)
Push(e) ==
  /\ Running(e)
  /\ evm[e].arena.top < ArenaSize
  /\ LET f == TopFrame(e)
         t == evm[e].arena.top + 1 IN
     evm' = [SetTopFrame(e, [f EXCEPT !.size = @ + 1]) EXCEPT
               ![e].arena = [@ EXCEPT !.top = t, !.dirty = TRUE, !.own = [@ EXCEPT ![t] = TRUE]]]
  /\ UNCHANGED <<arenaPool, memPool, jcache, pcache>>

(* Stack.pop: reads the cell below top (the interpreter checks size >= required first) *)
Pop(e) ==
  /\ Running(e)
  /\ TopFrame(e).size > 0
  /\ LET f == TopFrame(e) IN
     evm' = [SetTopFrame(e, [f EXCEPT !.size = @ - 1]) EXCEPT ![e].arena = [@ EXCEPT !.top = @ - 1]]
  /\ UNCHANGED <<arenaPool, memPool, jcache, pcache>>

(* Memory.Resize(n): within capacity the slice is re-extended (contents as they are),       *)
(* beyond it a zeroed tail is appended                                                        *)
Grow(e, n) ==
  /\ Running(e)
  /\ LET f == TopFrame(e)
         b == f.mem IN
     /\ n > b.len /\ n <= MaxCap
     /\ evm' = SetTopFrame(e, [f EXCEPT !.mem =
                 IF n <= b.cap THEN [b EXCEPT !.len = n]
                 ELSE [b EXCEPT !.len = n, !.cap = n, !.w = [i \in 1..MaxCap |-> IF i <= b.len THEN b.w[i] ELSE 0]]])
  /\ UNCHANGED <<arenaPool, memPool, jcache, pcache>>

(* Memory.Set: a write inside the visible part *)
Write(e, i) ==
  /\ Running(e)
  /\ LET f == TopFrame(e) IN
     /\ i <= f.mem.len
     /\ evm' = SetTopFrame(e, [f EXCEPT !.mem = [@ EXCEPT !.w = [@ EXCEPT ![i] = 1], !.mine = @ \cup {i}]])
  /\ UNCHANGED <<arenaPool, memPool, jcache, pcache>>

(* Contract.isCode: deployed code is looked up / stored under its hash; init code is        *)
(* analysed locally and never cached                                                          *)
JumpCheck(e, c) ==
  /\ Running(e)
  /\ IF c \in Codes /\ c \notin DOMAIN jcache
       THEN jcache' = [h \in DOMAIN jcache \cup {c} |-> IF h = c THEN Analysis(c) ELSE jcache[h]]
       ELSE UNCHANGED jcache
  /\ UNCHANGED <<arenaPool, memPool, pcache, evm>>

(* RunPrecompiledContract with a cache: hit returns the stored output; miss runs and stores  *)
(* only successful runs                                                                       *)
Precompile(e, inp) ==
  /\ Running(e)
  /\ IF NormOf(inp) \notin DOMAIN pcache /\ ~Fails(inp)
       THEN pcache' = [k \in DOMAIN pcache \cup {NormOf(inp)} |-> IF k = NormOf(inp) THEN F(inp) ELSE pcache[k]]
       ELSE UNCHANGED pcache
  /\ UNCHANGED <<arenaPool, memPool, jcache, evm>>

(* leaving a frame, normally or by a fault with items still on the stack: stack.release()   *)
(* resets top to the frame's bottom; mem.Free() clears and pools small buffers               *)
ExitFrame(e) ==
  /\ Running(e)
  /\ LET f == TopFrame(e)
         b == f.mem
         cleared == [b EXCEPT !.w = [i \in 1..MaxCap |-> IF i <= b.len THEN 0 ELSE b.w[i]], !.len = 0, !.mine = {}]
         rest == SubSeq(evm[e].frames, 1, Len(evm[e].frames) - 1) IN
     /\ memPool' = IF b.cap <= PoolLimit /\ Cardinality(memPool) < MaxPool THEN memPool \cup {cleared} ELSE memPool
     /\ evm' = [evm EXCEPT ![e].frames = rest,
                           ![e].st = IF rest = << >> THEN "idle" ELSE "run",
                           ![e].arena = [@ EXCEPT !.top = f.bottom,
                                                  !.own = [i \in Cells |-> IF i > f.bottom THEN FALSE ELSE @[i]]]]
  /\ UNCHANGED <<arenaPool, jcache, pcache>>

Next ==
  \E e \in EVMs :
    \/ NewEVM(e) \/ Release(e) \/ EnterFrame(e) \/ Push(e) \/ Pop(e) \/ ExitFrame(e)
    \/ \E n \in 1..MaxCap : Grow(e, n)
    \/ \E i \in 1..MaxCap : Write(e, i)
    \/ \E c \in Codes \cup InitCodes : JumpCheck(e, c)
    \/ \E inp \in Inputs : Precompile(e, inp)

Spec == Init /\ [][Next]_vars

(* ------------------------------- properties ------------------------------------------- *)
Live == {e \in EVMs : evm[e].st # "none"}

(* frames of one EVM tile the arena from cell 1 up to top *)
ArenaTiled == \A e \in Live :
  LET fs == evm[e].frames IN
  /\ (fs = << >> => evm[e].arena.top = 0)
  /\ \A i \in DOMAIN fs : fs[i].bottom = (IF i = 1 THEN 0 ELSE fs[i - 1].bottom + fs[i - 1].size)
  /\ (fs # << >> => evm[e].arena.top = fs[Len(fs)].bottom + fs[Len(fs)].size)

(* every cell a frame can read (its window) was written by that frame *)
StackOwned == \A e \in Live : \A k \in DOMAIN evm[e].frames :
  LET f == evm[e].frames[k] IN \A i \in (f.bottom + 1)..(f.bottom + f.size) : evm[e].arena.own[i]

(* visible memory a frame has not written reads zero ("unwritten memory reads as zero") *)
FreshMemoryZero == \A e \in Live : \A k \in DOMAIN evm[e].frames :
  LET b == evm[e].frames[k].mem IN \A i \in 1..b.len : i \notin b.mine => b.w[i] = 0

(* what makes that true: nothing non-zero hides between len and cap, in use or pooled *)
BeyondLenZero ==
  /\ \A b \in memPool : b.len = 0 /\ \A i \in 1..MaxCap : b.w[i] = 0
  /\ \A e \in Live : \A k \in DOMAIN evm[e].frames :
       LET b == evm[e].frames[k].mem IN \A i \in (b.len + 1)..MaxCap : b.w[i] = 0
PoolBounded == \A b \in memPool : b.cap <= PoolLimit

(* cached answers are the ideal function values; init code is not in the cache *)
CacheSound ==
  /\ \A h \in DOMAIN jcache : h \in Codes /\ jcache[h] = Analysis(h)
  /\ \A k \in DOMAIN pcache : \A inp \in Inputs : NormOf(inp) = k => pcache[k] = F(inp) /\ k # "bad"

(* C28 as a state invariant: everything observable is own data, zero, or the ideal value *)
HistoryIndependent == StackOwned /\ FreshMemoryZero /\ CacheSound
=============================================================================
