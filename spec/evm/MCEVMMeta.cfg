SPECIFICATION MCSpec
CONSTANTS StackLimit = 3
          DepthLimit = 1
          MaxGas = 3
          MaxCost = 2
          MaxMem = 1
          MCForks = {0, 4, 15}
          MCOps = {0, 80, 96, 85, 240, 253, 254, 255}
INVARIANTS TypeOK StackWithinLimit GasWithinGiven NoGasCreated DepthWithinLimit StaticInherited OnlyTopRuns ResultWithinGiven LeftoverNonNegative
CHECK_DEADLOCK FALSE
