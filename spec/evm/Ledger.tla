------------------------------- MODULE Ledger -------------------------------
(* Ether ledger of block execution (property C32).  One action per reason for which the      *)
(* state transition changes a balance (the vocabulary of core/tracing.BalanceChangeReason),   *)
(* written from the Yellow Paper (sections 6, 7, 9, 11.3), EIP-1559, EIP-4844, EIP-4895,      *)
(* EIP-6780, EIP-8246 -- not from state_transition.go:                                        *)
(*   GasBuy      sender pre-pays gasLimit * price (+ blob fee)          -> escrow             *)
(*   GasReturn   unused gas is paid back to the sender                  <- escrow             *)
(*   Tip         fee recipient gets gasUsed * tip                       <- escrow             *)
(*   (tx end)    what is left in escrow = gasUsed * baseFee + blob fee  -> burned             *)
(*   Debit/Credit  value transfers and self-destruct sweeps move ether through `float`        *)
(*   self-destruct to self, ether left on a destroyed account at tx end -> burned (< Amsterdam) *)
(*   Withdrawal, Reward                                                 -> minted             *)
(*   a frame that reverts or halts restores the ledger it was entered with                    *)
(* Amounts are pairs (w, u): wei below 2^31 plus whole reward units (1/32 ether), which are   *)
(* only ever created by block rewards and never mix with the wei part in the scenarios run.   *)
EXTENDS Integers, Sequences, FiniteSets, TLC

CONSTANTS London, Cancun, Amsterdam      \* rule-set indexes (9, 12, 15)

VARIABLES fork,
          bal,      \* Seq(Int): wei part of every known account's balance (index = account)
          balu,     \* Seq(Int): reward-unit part
          burned,   \* wei destroyed so far (base fee, blob fee, self-destruct burns)
          minted,   \* wei created so far (withdrawals)
          mintedu,  \* reward units created so far
          total0,   \* [w, u] total supply at genesis
          blk,      \* running block: [basefee, coinbase, wd (withdrawals still to apply), rewards (still to apply)] or NoBlk
          tx,       \* running transaction or NoTx
          frames,   \* stack of ledger snapshots, one per open call frame
          float,    \* ether debited but not yet credited (inside one transfer / self-destruct sweep)
          escrow,   \* ether taken by GasBuy and not yet returned / tipped / burned
          sd,       \* accounts self-destructed in the running transaction
          created   \* accounts created in the running transaction

lvars == <<fork, bal, balu, burned, minted, mintedu, total0, blk, tx, frames, float, escrow, sd, created>>

NoTx == [from |-> 0]
NoBlk == [coinbase |-> 0]

RECURSIVE SumSeq(_, _)
SumSeq(s, i) == IF i = 0 THEN 0 ELSE s[i] + SumSeq(s, i - 1)
Sum(s) == SumSeq(s, Len(s))

(* accounts are numbered as they appear; an account not seen yet has balance 0 *)
Known(a) == a >= 1 /\ a <= Len(bal) + 1
BalOf(a) == IF a <= Len(bal) THEN bal[a] ELSE 0
BalUOf(a) == IF a <= Len(balu) THEN balu[a] ELSE 0
SetBal(b, a, v) == IF a <= Len(b) THEN [b EXCEPT ![a] = v] ELSE Append(b, v)
Ext(b, a) == IF a <= Len(b) THEN b ELSE Append(b, 0)

PadTo(b, n) == [i \in 1..n |-> IF i <= Len(b) THEN b[i] ELSE 0]

BaseFee == IF fork >= London THEN blk.basefee ELSE 0

Snapshot == [bal |-> bal, balu |-> balu, burned |-> burned, sd |-> sd, created |-> created]

InTx == tx # NoTx
InBlk == blk # NoBlk
Quiet == float = 0                     \* no transfer half-done

(* an account appears for the first time (it holds nothing) *)
NewAccount(a) ==
  /\ a = Len(bal) + 1
  /\ bal' = Append(bal, 0) /\ balu' = Append(balu, 0)
  /\ UNCHANGED <<fork, burned, minted, mintedu, total0, blk, tx, frames, float, escrow, sd, created>>

(* ------------------------------ block ------------------------------ *)
(* wd: sequence of [a, amt] withdrawals; rw: sequence of [a, units] consensus rewards *)
StartBlock(f, basefee, coinbase, wd, rw) ==
  /\ ~InBlk /\ ~InTx
  /\ fork' = f
  /\ blk' = [basefee |-> basefee, blobbasefee |-> 1, coinbase |-> coinbase, wd |-> wd, rw |-> rw]
  /\ UNCHANGED <<bal, balu, burned, minted, mintedu, total0, tx, frames, float, escrow, sd, created>>

Withdrawal(a, amt) ==
  /\ InBlk /\ ~InTx /\ Len(frames) = 0 /\ Known(a) /\ amt > 0
  /\ Len(blk.wd) > 0 /\ blk.wd[1] = [a |-> a, amt |-> amt]
  /\ bal' = SetBal(bal, a, BalOf(a) + amt) /\ balu' = Ext(balu, a)
  /\ minted' = minted + amt
  /\ blk' = [blk EXCEPT !.wd = Tail(@)]
  /\ UNCHANGED <<fork, burned, mintedu, total0, tx, frames, float, escrow, sd, created>>

(* a zero withdrawal changes nothing and is not reported *)
SkipZeroWithdrawal ==
  /\ InBlk /\ ~InTx /\ Len(blk.wd) > 0 /\ blk.wd[1].amt = 0
  /\ blk' = [blk EXCEPT !.wd = Tail(@)]
  /\ UNCHANGED <<fork, bal, balu, burned, minted, mintedu, total0, tx, frames, float, escrow, sd, created>>

(* a consensus reward listed for this block is paid (in any order) *)
RewardListed(a, units) == \E i \in 1..Len(blk.rw) : blk.rw[i] = [a |-> a, units |-> units]
RemoveFirst(s, x) == LET i == CHOOSE j \in 1..Len(s) : s[j] = x /\ \A k \in 1..(j - 1) : s[k] # x
                     IN  SubSeq(s, 1, i - 1) \o SubSeq(s, i + 1, Len(s))

Reward(a, units) ==
  /\ InBlk /\ ~InTx /\ Len(frames) = 0 /\ Known(a) /\ units > 0
  /\ RewardListed(a, units)
  /\ balu' = SetBal(balu, a, BalUOf(a) + units) /\ bal' = Ext(bal, a)
  /\ mintedu' = mintedu + units
  /\ blk' = [blk EXCEPT !.rw = RemoveFirst(@, [a |-> a, units |-> units])]
  /\ UNCHANGED <<fork, burned, minted, total0, tx, frames, float, escrow, sd, created>>

EndBlock ==
  /\ InBlk /\ ~InTx /\ Len(frames) = 0
  /\ Len(blk.wd) = 0 /\ Len(blk.rw) = 0           \* all withdrawals and rewards were applied
  /\ blk' = NoBlk
  /\ UNCHANGED <<fork, bal, balu, burned, minted, mintedu, total0, tx, frames, float, escrow, sd, created>>

(* ------------------------------ transaction ------------------------------ *)
(* EIP-1559: effective tip = min(tip cap, fee cap - base fee), effective price = base fee + tip; *)
(* a legacy transaction has fee cap = tip cap = its gas price; before London all of it is tip   *)
Min(x, y) == IF x < y THEN x ELSE y
EffTip(feecap, tipcap) == IF fork >= London THEN Min(tipcap, feecap - BaseFee) ELSE feecap

StartTx(from, gas, feecap, tipcap, blobfee) ==
  /\ InBlk /\ ~InTx /\ Len(frames) = 0 /\ Known(from)
  /\ gas >= 0 /\ blobfee >= 0 /\ tipcap >= 0 /\ feecap >= tipcap /\ feecap >= BaseFee
  /\ tx' = [from |-> from, gas |-> gas, price |-> BaseFee + EffTip(feecap, tipcap), tip |-> EffTip(feecap, tipcap),
            blobfee |-> blobfee, bought |-> 0, returned |-> 0, tipped |-> 0]
  /\ sd' = {} /\ created' = {}
  /\ UNCHANGED <<fork, bal, balu, burned, minted, mintedu, total0, blk, frames, float, escrow>>

GasBuy(a, amt) ==
  /\ InTx /\ Len(frames) = 0 /\ Quiet
  /\ a = tx.from /\ tx.bought = 0 /\ tx.returned = 0 /\ tx.tipped = 0
  /\ amt = tx.gas * tx.price + tx.blobfee /\ amt > 0
  /\ BalOf(a) >= amt
  /\ bal' = SetBal(bal, a, BalOf(a) - amt) /\ balu' = Ext(balu, a)
  /\ escrow' = escrow + amt
  /\ tx' = [tx EXCEPT !.bought = amt]
  /\ UNCHANGED <<fork, burned, minted, mintedu, total0, blk, frames, float, sd, created>>

GasReturn(a, amt) ==
  /\ InTx /\ Len(frames) = 0 /\ Quiet
  /\ a = tx.from /\ tx.returned = 0 /\ tx.tipped = 0
  /\ amt > 0 /\ amt <= escrow
  /\ bal' = SetBal(bal, a, BalOf(a) + amt) /\ balu' = Ext(balu, a)
  /\ escrow' = escrow - amt
  /\ tx' = [tx EXCEPT !.returned = amt]
  /\ UNCHANGED <<fork, burned, minted, mintedu, total0, blk, frames, float, sd, created>>

Tip(a, amt) ==
  /\ InTx /\ Len(frames) = 0 /\ Quiet
  /\ a = blk.coinbase /\ tx.tipped = 0
  /\ amt > 0 /\ amt <= escrow
  /\ bal' = SetBal(bal, a, BalOf(a) + amt) /\ balu' = Ext(balu, a)
  /\ escrow' = escrow - amt
  /\ tx' = [tx EXCEPT !.tipped = amt]
  /\ UNCHANGED <<fork, burned, minted, mintedu, total0, blk, frames, float, sd, created>>

(* ether leaves an account (first or second half of a transfer / self-destruct sweep) *)
Debit(a, amt) ==
  /\ InTx /\ Len(frames) > 0
  /\ Known(a) /\ amt > 0 /\ BalOf(a) >= amt
  /\ bal' = SetBal(bal, a, BalOf(a) - amt) /\ balu' = Ext(balu, a)
  /\ float' = float + amt
  /\ UNCHANGED <<fork, burned, minted, mintedu, total0, blk, tx, frames, escrow, sd, created>>

Credit(a, amt) ==
  /\ InTx /\ Len(frames) > 0
  /\ Known(a) /\ amt > 0
  /\ bal' = SetBal(bal, a, BalOf(a) + amt) /\ balu' = Ext(balu, a)
  /\ float' = float - amt
  /\ UNCHANGED <<fork, burned, minted, mintedu, total0, blk, tx, frames, escrow, sd, created>>

(* a call or creation frame is entered: remember the ledger *)
EnterFrame(isCreate, to) ==
  /\ Quiet
  /\ frames' = Append(frames, Snapshot)
  /\ created' = IF isCreate THEN created \cup {to} ELSE created
  /\ UNCHANGED <<fork, bal, balu, burned, minted, mintedu, total0, blk, tx, float, escrow, sd>>

(* SELFDESTRUCT executed by `from` in favour of `to` (reported after the sweep): a sweep to    *)
(* itself is a burn -- before Amsterdam (EIP-8246), and from Cancun on only for an account     *)
(* created in the same transaction (EIP-6780), otherwise nothing may have moved at all         *)
Destroys(from) == fork < Cancun \/ from \in created
SelfDestructed(from, to) ==
  /\ InTx /\ Len(frames) > 0
  /\ IF float = 0 THEN burned' = burned
     ELSE /\ float > 0 /\ from = to /\ fork < Amsterdam /\ Destroys(from)
          /\ burned' = burned + float
  /\ float' = 0
  /\ sd' = IF Destroys(from) THEN sd \cup {from} ELSE sd
  \* reported as a pseudo frame entered after the sweep: its snapshot is the state after it
  /\ frames' = Append(frames, [Snapshot EXCEPT !.burned = burned', !.sd = sd'])
  /\ UNCHANGED <<fork, bal, balu, minted, mintedu, total0, blk, tx, escrow, created>>

ExitFrame(reverted) ==
  /\ Len(frames) > 0 /\ Quiet
  /\ frames' = SubSeq(frames, 1, Len(frames) - 1)
  /\ IF reverted
     THEN LET s == frames[Len(frames)] IN
          \* accounts that first appeared inside the frame held nothing before it
          bal' = PadTo(s.bal, Len(bal)) /\ balu' = PadTo(s.balu, Len(balu))
          /\ burned' = s.burned /\ sd' = s.sd /\ created' = s.created
     ELSE UNCHANGED <<bal, balu, burned, sd, created>>
  /\ UNCHANGED <<fork, minted, mintedu, total0, blk, tx, float, escrow>>

(* ether found on a destroyed account when the transaction ends is destroyed with it (< Amsterdam) *)
SdBurn(a, amt) ==
  /\ InTx /\ Len(frames) = 0 /\ Quiet
  /\ a \in sd /\ fork < Amsterdam /\ amt > 0 /\ BalOf(a) = amt
  /\ bal' = SetBal(bal, a, 0)
  /\ burned' = burned + amt
  /\ UNCHANGED <<fork, balu, minted, mintedu, total0, blk, tx, frames, float, escrow, sd, created>>

RECURSIVE SweepBal(_, _), SweepSum(_, _)
SweepBal(b, S) == IF S = {} THEN b ELSE LET a == CHOOSE x \in S : TRUE IN SweepBal(SetBal(b, a, 0), S \ {a})
SweepSum(b, S) == IF S = {} THEN 0 ELSE LET a == CHOOSE x \in S : TRUE IN (IF a <= Len(b) THEN b[a] ELSE 0) + SweepSum(b, S \ {a})

(* end of the transaction: the receipt says `used`; the fee postconditions of the property *)
FeesExact(used) ==
  /\ tx.bought = tx.gas * tx.price + tx.blobfee                     \* pre-payment
  /\ tx.bought - tx.returned = used * tx.price + tx.blobfee         \* the sender pays exactly its gas fee + blob fee
  /\ tx.tipped = used * tx.tip                                      \* the fee recipient gets exactly gasUsed * tip
  /\ escrow = used * (tx.price - tx.tip) + tx.blobfee               \* the rest is the base fee + blob fee: burned

EndTx(used) ==
  /\ InTx /\ Len(frames) = 0 /\ Quiet
  /\ used >= 0 /\ used <= tx.gas
  /\ FeesExact(used)
  /\ LET leftover == IF fork < Amsterdam THEN sd ELSE {} IN
     /\ burned' = burned + escrow + SweepSum(bal, leftover)
     /\ bal' = SweepBal(bal, leftover)
  /\ escrow' = 0
  /\ tx' = NoTx /\ sd' = {} /\ created' = {}
  /\ UNCHANGED <<fork, balu, minted, mintedu, total0, blk, frames, float>>

(* ------------------------------ properties ------------------------------ *)
(* ether is conserved: accounts + burned + in escrow + in flight - minted = genesis supply *)
Conservation ==
  /\ Sum(bal) + burned + escrow + float - minted = total0.w
  /\ Sum(balu) - mintedu = total0.u

NonNegative == /\ \A i \in 1..Len(bal) : bal[i] >= 0
               /\ \A i \in 1..Len(balu) : balu[i] >= 0
               /\ burned >= 0 /\ escrow >= 0 /\ minted >= 0

(* outside transactions nothing is in escrow or in flight *)
SettledBetweenTxs == ~InTx => (escrow = 0 /\ (Len(frames) = 0 => float = 0))
=============================================================================
