SPECIFICATION MCSpec
CONSTANTS MaxGas = 4
          MaxDepth = 3
INVARIANTS NonNeg ExecConserved StateConserved ReservoirReturned NoGasCreated
CONSTRAINT Bounded
VIEW View
CHECK_DEADLOCK FALSE
