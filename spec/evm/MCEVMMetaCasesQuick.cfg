SPECIFICATION CSpec
CONSTANTS StackLimit = 1024
          DepthLimit = 1024
          CaseForks = {0, 3, 5, 9, 12, 14, 16}
INVARIANT Emit
CHECK_DEADLOCK FALSE
