SPECIFICATION MCSpec
CONSTANTS Berlin = 8
          MaxDepth = 4
          MaxFrames = 6
INVARIANTS StaticNoEffect StaticInherited LiveFramesNotDead MarksOnlyFromLiveFrames StaticFramesLeaveNoMarks
VIEW View
CHECK_DEADLOCK FALSE
