SPECIFICATION MCSpec
CONSTANTS Berlin = 8
          MaxDepth = 3
          MaxFrames = 5
INVARIANTS StaticNoEffect StaticInherited LiveFramesNotDead MarksOnlyFromLiveFrames StaticFramesLeaveNoMarks
VIEW View
CHECK_DEADLOCK FALSE
