SPECIFICATION MCSpec
CONSTANTS TxGas = 3
          Stipend = 2
          TxCap = 12
          ErrShift = 0
          Max = 14
          Holes = FALSE
INVARIANTS Sufficient Minimal WithinCap FailsCleanly ProbesWithinCap NoRepeat HiSucceeds Progress ProbeBound
PROPERTIES SearchRefines
CHECK_DEADLOCK FALSE
