SPECIFICATION TraceSpec
CONSTANTS DepthLimit = 1024
INVARIANTS GasNonNeg StackBound DepthOrdered GasBounded
POSTCONDITION TraceAccepted
CHECK_DEADLOCK FALSE
