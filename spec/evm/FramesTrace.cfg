SPECIFICATION TraceSpec
CONSTANTS Berlin = 8
INVARIANTS StaticNoEffect StaticInherited LiveFramesNotDead
POSTCONDITION TraceAccepted
CHECK_DEADLOCK FALSE
