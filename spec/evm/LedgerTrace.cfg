SPECIFICATION TraceSpec
CONSTANTS London = 9
          Cancun = 12
          Amsterdam = 15
INVARIANTS Conservation NonNegative SettledBetweenTxs
POSTCONDITION TraceAccepted
CHECK_DEADLOCK FALSE
