SPECIFICATION MCSpec
CONSTANTS EVMs = {e1, e2}
          ArenaSize = 2
          MaxFrames = 2
          MaxCap = 2
          PoolLimit = 1
          Codes = {}
          InitCodes = {}
          Inputs = {}
          MaxPool = 2
          D = 0
INVARIANTS ArenaTiled StackOwned FreshMemoryZero BeyondLenZero PoolBounded CacheSound HistoryIndependent
VIEW View
SYMMETRY Sym
CHECK_DEADLOCK FALSE
