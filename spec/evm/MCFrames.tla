------------------------------ MODULE MCFrames ------------------------------
(* Model-checking wrapper of Frames: a tiny observable state in which every effect is       *)
(* tagged with the id of the frame that made it (st = set of marks), so that TLC can check  *)
(* the global consequence of the snapshot discipline on every nesting shape up to MaxDepth  *)
(* and MaxFrames frames: marks of failed frames, of frames below failed frames and of       *)
(* static frames never survive.  The labelled behaviours are also the test plan of the      *)
(* R leg (harness/cmd/c29 -mode shapes).                                                    *)
EXTENDS Frames, Json

CONSTANTS MaxDepth, MaxFrames

VARIABLES hist,    \* labels of the actions taken (test plan); not part of the state (VIEW)
          fresh    \* a creation frame was just entered: the creator's part comes first

Obs0 == [bal |-> 0, nonce |-> <<0>>, code |-> 0, sd |-> 0, st |-> {}, ts |-> 0, logs |-> 0, refund |-> 0,
         wa |-> <<FALSE>>, ws |-> 0]

MCInit == /\ fork \in {0, Berlin} /\ fs = << >> /\ obs = Obs0 /\ dead = {} /\ nid = 1 /\ hist = << >> /\ fresh = FALSE

Mark   == Change([obs EXCEPT !.st = @ \cup {Top.id}])       \* a lasting effect (e.g. SSTORE) of the running frame
WarmUp == Change([obs EXCEPT !.ws = 1])                      \* a cold access: allowed in static frames too

MCNext ==
  \/ /\ ~fresh /\ Len(fs) < MaxDepth /\ nid <= MaxFrames
     /\ \E k \in Kinds : /\ (k = "create" => ~InStatic)       \* CREATE is refused in a static frame
                         /\ Enter(k, 1, 1)
                         /\ fresh' = (k = "create")
                         /\ hist' = Append(hist, [a |-> "enter", kind |-> k])
  \* the creator's part of a creation that is not refused: nonce increment, new address warm
  \/ /\ fresh /\ Change(CreatorPart(obs, 1, 1)) /\ fresh' = FALSE /\ hist' = Append(hist, [a |-> "creatorpart"])
  \* a creation refused before it starts (depth / balance): nothing happened
  \/ /\ fresh /\ ExitFail("depth") /\ fresh' = FALSE /\ hist' = Append(hist, [a |-> "fail", err |-> "depth"])
  \/ /\ ~fresh /\ Len(fs) > 0 /\ ~InStatic /\ Mark /\ UNCHANGED fresh /\ hist' = Append(hist, [a |-> "mark"])
  \/ /\ ~fresh /\ Len(fs) > 0 /\ WarmUp /\ UNCHANGED fresh /\ hist' = Append(hist, [a |-> "warm"])
  \/ /\ ~fresh /\ ExitOK /\ UNCHANGED fresh /\ hist' = Append(hist, [a |-> "ok"])
  \/ /\ ~fresh /\ \E e \in {"revert", "oog"} : ExitFail(e) /\ hist' = Append(hist, [a |-> "fail", err |-> e])
     /\ UNCHANGED fresh

MCSpec == MCInit /\ [][MCNext]_<<fvars, hist, fresh>>

View == <<fvars, fresh>>

(* global consequence: only live, non-static frames have marks in the state *)
MarksOnlyFromLiveFrames == obs.st \cap dead = {}
StaticFramesLeaveNoMarks == \A i \in 1..Len(fs) : fs[i].static => fs[i].id \notin obs.st
=============================================================================
