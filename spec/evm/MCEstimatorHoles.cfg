SPECIFICATION MCSpec
CONSTANTS TxGas = 3
          Stipend = 2
          TxCap = 6
          ErrShift = 0
          Max = 7
          Holes = TRUE
INVARIANTS Sufficient Minimal WithinCap FailsCleanly ProbesWithinCap NoRepeat HiSucceeds Progress ProbeBound
PROPERTIES SearchRefines
CHECK_DEADLOCK FALSE
