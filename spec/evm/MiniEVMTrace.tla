---------------------------- MODULE MiniEVMTrace ----------------------------
(* Trace validation for MiniEVM.tla (properties C26, C28).                                   *)
(* One ndjson file holds many transactions, each recorded from the real EVM                  *)
(* (core.ApplyMessage with core/tracing hooks) as                                            *)
(*    tx      the transaction, block context and complete pre-state                          *)
(*    enter   a frame is entered (OnEnter): kind, from, to, gas, value, init code            *)
(*    opc     an instruction is about to execute (OnOpcode): pc, opcode, gas, cost, stack,    *)
(*            memory size; err = it faulted; top = stack top after it (for results the         *)
(*            specification cannot compute: hashes, values >= 2^30)                           *)
(*    exit    a frame is left (OnExit): gas used, success / revert, output                    *)
(*    txend   receipt: validity, status, gas used; post-state of all touched accounts, logs   *)
(* The specification machine runs in lock-step: before every real instruction its frame      *)
(* must agree with the real one on pc, opcode, gas, stack, memory size and depth; it then     *)
(* computes the cost and the fault condition - which must be the logged ones - and its own    *)
(* successor state, which is compared at the next event.                                      *)
EXTENDS MiniEVM, Json, IOUtils

Trace == ndJsonDeserialize(IOEnv.TRACE)

VARIABLES m, l
Ev == Trace[l]
Step(A) == l <= Len(Trace) /\ A /\ l' = l + 1

Live(x) == x.ph # "stuck"

TTx == Step(
  /\ Ev.op = "tx"
  /\ m.ph \in {"idle", "end", "rejected"}
  /\ m' = TxStart([Ev.tx EXCEPT !.alKeys = [i \in DOMAIN @ |-> <<@[i][1], @[i][2]>>]], Ev.accts)
  /\ Live(m'))

TEnter == Step(
  /\ Ev.op = "enter" /\ m.ph = "run" /\ Len(m.fr) > 0
  /\ LET f == Top(m) IN
     /\ f.st = "pending"
     /\ Ev.depth = f.depth /\ Ev.typ = f.kind /\ Ev.gas = f.gas /\ Ev.value = f.value
     /\ Ev.from = (IF f.kind = "DELEGATECALL" THEN f.self ELSE f.caller)
     /\ (~IsCreateKind(f.kind) => Ev.to = f.codeAddr)
  /\ m' = Enter(m, [to |-> Ev.to, code |-> Ev.code])
  /\ Live(m'))

TOp == Step(
  /\ Ev.op = "opc" /\ m.ph = "run" /\ Len(m.fr) > 0
  /\ LET f == Top(m)
         r == OpResult(m, f, [top |-> Ev.top])
         faults == r.fault \/ r.cost = INF \/ r.cost + r.fwd > f.gas
     IN
     /\ f.st = "run"
     /\ Ev.depth = f.depth /\ Ev.pc = f.pc /\ Ev.opc = OpAt(f.code, f.pc)
     /\ Ev.gas = f.gas /\ Ev.stack = f.stack /\ Ev.msize = 32 * Len(f.mem)
     /\ (faults \/ r.chk)
     /\ Ev.err = faults
     /\ (~faults => Ev.cost = r.cost)
     /\ m' = ExecR(m, r)
  /\ Live(m'))

(* loose comparison of data the specification may not know (UNK matches anything) *)
WordsMatch(spec, real) == Len(spec) = Len(real) /\ \A i \in DOMAIN spec : spec[i] = UNK \/ spec[i] = real[i]

TExit == Step(
  /\ Ev.op = "exit" /\ m.ph = "run" /\ Len(m.fr) > 0
  /\ LET f  == Top(m)
         ob == [ok |-> Ev.ok, code |-> Ev.code, gasUsed |-> Ev.gasUsed, out |-> Ev.out, outLen |-> Ev.outLen]
     IN
     /\ f.st \in {"done", "precompile"}
     /\ Ev.depth = f.depth
     /\ f.st = "done" =>
          LET fr == FinalRes(f, ob) IN
          /\ fr.chk
          /\ Ev.ok = fr.r.ok /\ Ev.rev = fr.r.rev
          /\ Ev.gasUsed = f.gas0 - fr.r.gasLeft
          \* the output of an exceptionally halted frame is not observable by the caller
          /\ (fr.r.ok \/ fr.r.rev => Ev.outLen = fr.r.outLen /\ WordsMatch(fr.r.out, Ev.out))
     /\ m' = Exit(m, ob)
  /\ Live(m'))

PostMatches(w, post) ==
  \A i \in DOMAIN post :
    LET p == post[i]
        a == Acct(w, p.addr) IN
    /\ a.bal = p.bal /\ a.nonce = p.nonce /\ Len(a.code) = p.clen
    /\ \A j \in DOMAIN p.stor : SLoad(w, p.addr, p.stor[j][1]) = p.stor[j][2]
LogsMatch(logs, real) ==
  /\ Len(logs) = Len(real)
  /\ \A i \in DOMAIN logs : /\ logs[i].addr = real[i].addr /\ logs[i].topics = real[i].topics
                            /\ logs[i].dlen = real[i].dlen /\ WordsMatch(logs[i].data, real[i].data)

TTxEnd == Step(
  /\ Ev.op = "txend"
  /\ \/ /\ m.ph = "rejected" /\ ~Ev.valid /\ m' = [m EXCEPT !.ph = "end"]
     \/ /\ m.ph = "settle" /\ Ev.valid
        /\ m' = TxEnd(m)
        /\ Ev.ok = m'.out.ok
        /\ Ev.gasUsed = m'.out.gasUsed
        /\ PostMatches(m'.w, Ev.post)
        /\ LogsMatch(m'.w.logs, Ev.logs))

TraceInit == m = Idle /\ l = 1
TraceNext == TTx \/ TEnter \/ TOp \/ TExit \/ TTxEnd
TraceSpec == TraceInit /\ [][TraceNext]_<<m, l>>

(* evaluated after every real step *)
GasNonNeg == \A i \in DOMAIN m.fr : m.fr[i].gas >= 0 /\ (m.fr[i].st = "done" => m.fr[i].res.gasLeft >= 0)
StackBound == \A i \in DOMAIN m.fr : Len(m.fr[i].stack) <= 1024
DepthOrdered == \A i \in DOMAIN m.fr : m.fr[i].depth = i - 1
GasBounded == m.ph \in {"run", "settle"} => GasHeld(m) <= m.tx.gas + 2300 * Len(m.fr)

TraceAccepted == TLCGet("stats").diameter - 1 = Len(Trace)
=============================================================================
