--------------------------- MODULE EstimatorTrace ---------------------------
(* Trace validation for Estimator.tla (property C37).                                      *)
(* One ndjson trace = many estimations, each:                                              *)
(*   start   the request (caps, balance, ...), whether it is a plain transfer, ErrorRatio,  *)
(*           and whether the generator marked the program gas-monotone                      *)
(*   probe*  every trial execution performed by gasestimator.Estimate, observed by the      *)
(*           verif hook in gasestimator.run: gas limit and raw outcome class                *)
(*   result  what Estimate returned                                                         *)
(*   recheck independent re-execution by the driver at the returned limit and one below     *)
(* The probe at the cap must be at the specification's cap, every later probe must be a     *)
(* sound step of the search, the result must be the search's result, and the C37 statements are checked  *)
(* on the re-execution.                                                                     *)
EXTENDS Estimator, Json, IOUtils

Trace == ndJsonDeserialize(IOEnv.TRACE)

VARIABLES l,       \* next line of the trace to explain
          req,     \* the request of the estimation in progress
          mono     \* generator's monotonicity mark of the program

tvars == <<pc, lo, hi, cap, res, probes, env, l, req, mono>>

Ev == Trace[l]

Step(A) == l <= Len(Trace) /\ A /\ l' = l + 1

(* raw outcome class of a probe -> outcome seen by the search:                              *)
(*   "ok"         executed, no VM error                                                    *)
(*   "vmfail"     executed, VM error (revert, out of gas, ...)                              *)
(*   "intrinsic"  rejected: gas limit below the intrinsic gas      } treated as a failing   *)
(*   "toohigh"    rejected: gas limit above the per-transaction cap} limit                  *)
(*   "error"      rejected for any other reason: estimation aborts                          *)
Seen(o) == CASE o = "ok" -> "ok"
             [] o \in {"vmfail", "intrinsic", "toohigh"} -> "fail"
             [] OTHER -> "fatal"

Idle == [okset |-> {}, used |-> 0, peak |-> 0, plain |-> FALSE, fatal |-> FALSE, errShift |-> 0]

TStart == Step(
  /\ Ev.op = "start"
  /\ req' = Ev.req /\ mono' = Ev.mono
  /\ env' = [Idle EXCEPT !.plain = Ev.plain, !.errShift = Ev.errShift]
  /\ probes' = << >> /\ lo' = 0 /\ hi' = 0
  /\ IF FundsError(Ev.req)
       THEN pc' = "done" /\ res' = [ok |-> FALSE, gas |-> 0] /\ cap' = 0
       ELSE /\ cap' = Cap(Ev.req)
            /\ pc' = IF Ev.plain /\ Cap(Ev.req) >= TxGas THEN "transfer" ELSE "cap"      \* action Start composed
            /\ res' = [ok |-> FALSE, gas |-> 0])

TTransfer == Step(Ev.op = "probe" /\ pc = "transfer" /\ Ev.gas = TxGas
                  /\ TransferP(Seen(Ev.out)) /\ UNCHANGED <<req, mono>>)

TAtCap == Step(Ev.op = "probe" /\ pc = "cap" /\ Ev.gas = cap
               /\ AtCapP(Seen(Ev.out), Ev.used, Ev.peak)
               /\ env' = [env EXCEPT !.used = Ev.used, !.peak = Ev.peak]
               /\ UNCHANGED <<req, mono>>)

(* every later probe must be a sound search step (strictly inside the current interval);   *)
(* which one is chosen (optimistic limit, clamped midpoint) is the implementation's business *)
TSearch == Step(Ev.op = "probe" /\ SoundProbeP(Ev.gas, Seen(Ev.out)) /\ UNCHANGED <<req, mono>>)

(* the result event; the final (probe-less) step of the search is composed with it *)
TResult == Step(
  /\ Ev.op = "result"
  /\ \/ pc = "done" /\ UNCHANGED <<pc, res>>
     \/ pc \in {"optimistic", "bisect"} /\ ~Searching /\ Done(TRUE, hi)
  /\ Ev.ok = res'.ok
  /\ (res'.ok => Ev.gas = res'.gas)
  /\ UNCHANGED <<lo, hi, cap, probes, env, req, mono>>)

(* C37 on the independent re-execution of a returned estimate r:                            *)
(*   okAt    the call succeeds with gas limit r            (sufficient)                     *)
(*   okBelow the call succeeds with gas limit r - 1        (must not, if exact & monotone)  *)
(*   r within the cap computed from funds / gas cap / transaction cap                       *)
RecheckOK ==
  /\ Ev.gas = res.gas
  /\ Ev.okAt
  /\ (env.errShift = 0 /\ mono => ~Ev.okBelow)
  /\ res.gas <= cap
TRecheck == Step(Ev.op = "recheck" /\ pc = "done" /\ res.ok /\ RecheckOK /\ UNCHANGED <<pc, lo, hi, cap, res, probes, env, req, mono>>)

TraceInit == /\ pc = "done" /\ lo = 0 /\ hi = 0 /\ cap = 0 /\ res = [ok |-> FALSE, gas |-> 0]
             /\ probes = << >> /\ env = Idle /\ l = 1
             /\ req = [callGas |-> 0, blockGas |-> 0, osaka |-> FALSE, feeCap |-> 0, balance |-> 0, value |-> 0, gasCap |-> 0]
             /\ mono = FALSE
TraceNext == TStart \/ TTransfer \/ TAtCap \/ TSearch \/ TResult \/ TRecheck
TraceSpec == TraceInit /\ [][TraceNext]_tvars

(* invariants evaluated after every real step *)
ProbesWithinCapT == \A i \in 1..Len(probes) : probes[i] <= cap
NoRepeatT == \A i, j \in 1..Len(probes) : i < j /\ probes[i] = probes[j] => (probes[i] = TxGas /\ env.plain /\ i = 1)
IntervalT == pc \in {"optimistic", "bisect"} => lo < hi /\ hi <= cap

TraceAccepted == TLCGet("stats").diameter - 1 = Len(Trace)
=============================================================================
