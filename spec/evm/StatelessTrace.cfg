SPECIFICATION TraceSpec
INVARIANTS NoWrongResult
POSTCONDITION TraceAccepted
CHECK_DEADLOCK FALSE
