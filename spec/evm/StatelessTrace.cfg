SPECIFICATION TraceSpec
CONSTANTS AllowIgnoredDbError = TRUE
INVARIANTS NoWrongResult
POSTCONDITION TraceAccepted
CHECK_DEADLOCK FALSE
