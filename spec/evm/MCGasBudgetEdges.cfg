SPECIFICATION MCSpec
CONSTANTS MaxGas = 2
          MaxDepth = 2
INVARIANTS NonNeg ExecConserved StateConserved ReservoirReturned
CONSTRAINT Bounded
ACTION_CONSTRAINT Edge
VIEW View
CHECK_DEADLOCK FALSE
