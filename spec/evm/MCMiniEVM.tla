----------------------------- MODULE MCMiniEVM -----------------------------
(* Model-checking wrapper of MiniEVM.tla (property C26): TLC enumerates families of short    *)
(* programs, pre-states and transactions, runs the specification machine on each to          *)
(* completion, checks the semantics' own sanity on every reachable state, and prints every   *)
(* finished case with its expected receipt and post-state as a test plan that                *)
(* harness/cmd/c26 replays on core.ApplyMessage.                                              *)
EXTENDS MiniEVM, Json

CONSTANTS Family,     \* "sstore" | "seq" | "call" | "tx"
          Forks,      \* subset of {"cancun", "prague", "osaka"}
          SeqLen      \* length of the instruction sequences of family "seq"

VARIABLES m, c       \* machine, and the case it was started from (constant)

(* ------------------------------- assembling ----------------------------------------------- *)
P(v) == <<96, v>>                       \* PUSH1 v
RECURSIVE Cat(_)
Cat(ss) == IF ss = << >> THEN << >> ELSE Head(ss) \o Cat(Tail(ss))

C1 == 4097   C2 == 4098   Sender == 8193   Coinbase == 12289

BaseTx == [fork |-> "cancun", from |-> Sender, to |-> C1, isCreate |-> FALSE, value |-> 0, gas |-> 100000,
           price |-> 3, feeCap |-> 4, tip |-> 2, baseFee |-> 1, nonce |-> 0, data |-> << >>, dataw |-> << >>,
           alAddrs |-> << >>, alKeys |-> << >>, coinbase |-> Coinbase, blockGas |-> 30000000, skipNonce |-> FALSE,
           blobTx |-> FALSE, blobVers |-> << >>, blobFeeCap |-> 0, blobBaseFee |-> 1, setCode |-> FALSE, auths |-> << >>]
SenderAcct == [addr |-> Sender, bal |-> 50000000, nonce |-> 0, code |-> << >>, stor |-> << >>]
Contract(a, bal, code, stor) == [addr |-> a, bal |-> bal, nonce |-> 1, code |-> code, stor |-> stor]
StorOf(v) == IF v = 0 THEN << >> ELSE << <<0, v>> >>

(* --- family "sstore": every EIP-2200/2929/3529 branch: original x up to three writes to    *)
(* slot 0, warm or cold slot, ending normally, by REVERT or by a fault, gas generous or tight *)
Enders == {<<0>>, <<95, 95, 253>>, <<254>>}
SStoreCases ==
  { [tx |-> [BaseTx EXCEPT !.fork = f, !.gas = g,
                           !.alAddrs = IF warm THEN <<C1>> ELSE << >>, !.alKeys = IF warm THEN << <<C1, 0>> >> ELSE << >>],
     accts |-> << Contract(C1, 0, Cat([i \in 1..n |-> P(vs[i]) \o P(0) \o <<85>>]) \o e, StorOf(orig)), SenderAcct >>]
    : f \in Forks, g \in {100000, 43500, 26000, 23300}, warm \in BOOLEAN, orig \in 0..2, n \in 1..3,
      vs \in [1..3 -> 0..2], e \in Enders }

(* --- family "seq": every sequence of SeqLen atoms (most of them fault somewhere) ---------- *)
Atoms == {P(0), P(1), P(2), P(3), <<1>>, <<3>>, <<16>>, <<20>>, <<21>>, <<22>>, <<23>>, <<80>>, <<128>>, <<144>>,
          <<81>>, <<82>>, <<84>>, <<85>>, <<86>>, <<87>>, <<88>>, <<90>>, <<91>>, <<92>>, <<93>>, <<52>>, <<48>>, <<51>>,
          <<71>>, <<95>>, <<160>>, <<243>>, <<253>>, <<0>>, <<89>>, <<53>>}
SeqCases ==
  { [tx |-> [BaseTx EXCEPT !.fork = f, !.value = 1],
     accts |-> << Contract(C1, 7, <<96, 5, 96, 1>> \o Cat([i \in 1..SeqLen |-> s[i]]) \o <<96, 1, 85>>, StorOf(2)), SenderAcct >>]
    : f \in Forks, s \in [1..SeqLen -> Atoms] }

(* --- family "call": C1 calls C2 in every way; the success flag goes to slot 1 -------------- *)
Callees == { << >>, <<0>>, P(1) \o P(0) \o <<85>>, <<95, 95, 253>>, <<254>>,
             P(1) \o P(0) \o <<85, 95, 95, 253>>, <<52>> \o P(0) \o <<85>>, <<51>> \o P(0) \o <<85>>,
             <<48>> \o P(0) \o <<85>>, <<97, 32, 1, 255>>, P(2) \o P(0) \o <<93, 90, 80>>,
             P(7) \o P(0) \o <<82>> \o P(32) \o P(0) \o <<243>>,
             <<97, 16, 9, 255>>,                               \* SELFDESTRUCT to a non-existent account (25000 only if it carries ether)
             <<48, 255>>,                                      \* SELFDESTRUCT to itself
             P(9) \o P(0) \o <<161>>,                          \* LOG1
             <<97, 16, 9, 49, 80>> }                           \* BALANCE of a cold address
PushGas(g) == <<98, g \div 65536, (g \div 256) % 256, g % 256>>       \* PUSH3
Caller(kind, value, gasArg) ==
  P(32) \o P(0) \o P(0) \o P(0) \o (IF kind \in {241, 242} THEN P(value) ELSE << >>) \o <<97, 16, 2>> \o PushGas(gasArg)
  \o <<kind>> \o P(1) \o <<85>> \o P(0) \o <<81>> \o P(2) \o <<85, 0>>
CallCases ==
  { [tx |-> [BaseTx EXCEPT !.fork = f, !.gas = g, !.alAddrs = IF warm THEN <<C2>> ELSE << >>],
     accts |-> << Contract(C1, bal, Caller(kind, value, ga), StorOf(1)), Contract(C2, 0, callee, StorOf(1)), SenderAcct >>]
    : f \in Forks, g \in {200000, 60000, 35000}, warm \in BOOLEAN, bal \in {0, 5}, kind \in {241, 242, 244, 250},
      value \in {0, 1}, ga \in {0, 2300, 100000}, callee \in Callees }

(* --- family "tx": the envelope: validity conditions, intrinsic gas, floor, caps, fees ------ *)
TxCases ==
  { [tx |-> [BaseTx EXCEPT !.fork = f, !.gas = g, !.nonce = n, !.value = v, !.feeCap = fc, !.tip = 1, !.baseFee = 2,
                           !.price = IF fc < 3 THEN fc ELSE 3,
                           !.data = d, !.dataw = IF d = << >> THEN << >> ELSE <<0>>,
                           !.alAddrs = IF al THEN <<C2, C1>> ELSE << >>, !.alKeys = IF al THEN << <<C1, 1>> >> ELSE << >>],
     accts |-> << Contract(C1, 0, <<54>> \o P(0) \o <<85>> \o P(1) \o <<84, 80, 0>>, StorOf(0)),
                  [SenderAcct EXCEPT !.bal = sb] >>]
    : f \in Forks, g \in {20999, 21000, 21064, 21640, 25000, 27000, 50000, 16777216, 16777217}, n \in {0, 1}, v \in {0, 9},
      fc \in {1, 2, 4}, d \in {<< >>, [i \in 1..32 |-> 0], [i \in 1..32 |-> IF i < 17 THEN 1 ELSE 0]},
      al \in BOOLEAN, sb \in {60000, 50000000} }

(* --- family "auth": EIP-7702 authorisation lists: every validity condition of a tuple, one or *)
(* two tuples for the same authority A1 (token -2; -1 = signature does not recover), every      *)
(* kind of pre-existing authority account; the transaction calls the authority itself, so a    *)
(* successful delegation to C2 runs C2's code in the authority's storage                        *)
A1 == -2
Tuples == [chainOk : BOOLEAN, nonce : {0, 1}, target : {C2, 0}, authority : {A1, UNK}]
AuthAccts == { << >>,
               << [addr |-> A1, bal |-> 9, nonce |-> 0, code |-> << >>, stor |-> << >>] >>,
               << [addr |-> A1, bal |-> 0, nonce |-> 1, code |-> Designator(C1), stor |-> << >>] >>,
               << [addr |-> A1, bal |-> 0, nonce |-> 1, code |-> <<0>>, stor |-> << >>] >> }
AuthCases ==
  { [tx |-> [BaseTx EXCEPT !.fork = f, !.to = A1, !.gas = g, !.setCode = TRUE, !.auths = au],
     accts |-> << Contract(C1, 0, <<0>>, StorOf(0)), Contract(C2, 0, P(1) \o P(0) \o <<85, 0>>, StorOf(0)), SenderAcct >> \o aa]
    : f \in Forks \ {"cancun"}, g \in {120000, 46000}, aa \in AuthAccts,
      au \in { <<t>> : t \in Tuples } \cup { <<t1, t2>> : t1 \in Tuples, t2 \in {t \in Tuples : t.authority = A1 /\ t.chainOk} } }

(* --- family "blob": the EIP-4844 envelope ---------------------------------------------------- *)
BlobCases ==
  { [tx |-> [BaseTx EXCEPT !.fork = f, !.blobTx = TRUE, !.blobVers = [i \in 1..n |-> v], !.blobFeeCap = bf, !.gas = g],
     accts |-> << Contract(C1, 0, <<74, 80, 0>>, StorOf(0)), [SenderAcct EXCEPT !.bal = sb] >>]
    : f \in Forks, n \in {0, 1, 6, 7}, v \in {1, 2}, bf \in {0, 1, 3}, g \in {21000, 30000}, sb \in {2000000, 50000000} }

(* --- family "floor": EIP-7623 against EIP-3529: calldata-heavy calls into a contract that     *)
(* clears pre-set slots, so that the calldata floor lands below, between and above the gas used  *)
(* before and after the refund (the floor applies to the gas used AFTER the refund)               *)
FloorCases ==
  { [tx |-> [BaseTx EXCEPT !.fork = f, !.gas = 200000, !.data = [i \in 1..n |-> IF i <= nz THEN 1 ELSE 0],
                           !.dataw = [i \in 1..Words(n) |-> UNK]],
     accts |-> << Contract(C1, 0, Cat([i \in 1..k |-> <<95>> \o P(i - 1) \o <<85>>]) \o <<0>>, << <<0, 1>>, <<1, 2>>, <<2, 1>> >>), SenderAcct >>]
    : f \in Forks, k \in 0..3, n \in {0, 96, 192, 288, 384, 480, 576, 800}, nz \in {0, 96, 192, 288, 384, 480, 576, 800} }

(* --- family "create": a creation that fails (or succeeds with empty code) followed by an      *)
(* access to the address it was aimed at: EIP-2929 makes that address warm from the CREATE on,  *)
(* whatever the outcome.  The address is a hash: it is the token CT here, the replay driver     *)
(* patches the 20 placeholder bytes after PUSH20 with the real address.                          *)
CT == -5
Inits == { <<95, 95, 253>>, <<254>>, <<0>>, P(1) \o <<95, 85, 95, 95, 253>> }
Placeholder == <<115>> \o [i \in 1..20 |-> 170]
Touches == { [pre |-> << >>, post |-> <<49, 80>>], [pre |-> << >>, post |-> <<59, 80>>], [pre |-> << >>, post |-> <<63, 80>>],
             [pre |-> <<95, 95, 95, 95, 95>>, post |-> <<97, 195, 80, 241, 80>>] }
Creator(init, c2, salt, t) ==
  LET L == Len(init)
      crt == IF c2 THEN P(salt) \o P(L) \o <<95, 95, 245>> ELSE P(L) \o <<95, 95, 240>>
      rest == crt \o <<80>> \o t.pre \o Placeholder \o t.post \o <<0>>
      off == 6 + Len(rest)
  IN P(L) \o P(off) \o <<95, 57>> \o rest \o init
CreateCases ==
  { [tx |-> [BaseTx EXCEPT !.fork = f, !.gas = g],
     accts |-> << Contract(C1, 3, Creator(init, c2, salt, t), StorOf(0)), SenderAcct >>,
     init |-> init, c2 |-> c2, salt |-> salt]
    : f \in Forks, g \in {300000, 90000}, init \in Inits, c2 \in BOOLEAN, salt \in {0, 2}, t \in Touches }

Cases == CASE Family = "create" -> CreateCases [] Family = "floor" -> FloorCases [] Family = "auth" -> AuthCases [] Family = "blob" -> BlobCases [] Family = "sstore" -> SStoreCases [] Family = "seq" -> SeqCases [] Family = "call" -> CallCases [] OTHER -> TxCases

MCInit == c \in Cases /\ m = TxStart(c.tx, c.accts)
MCObs == IF Family = "create" THEN [NoObs EXCEPT !.top = CT, !.to = CT, !.code = c.init] ELSE NoObs
MCNext == Running(m) /\ m' = RunStepObs(m, MCObs) /\ UNCHANGED c
MCSpec == MCInit /\ [][MCNext]_<<m, c>>

(* ------------------------------- sanity of the semantics ----------------------------------- *)
Finished == m.ph \in {"end", "rejected"}
(* the fragment is total: these programs never need an observation (gas limits above the      *)
(* model's bound are the one exception, and they are invalid anyway unless huge)               *)
Total == m.ph = "stuck" =>
   \/ c.tx.gas > MaxTxGasModel
   \/ LET f == Top(m) IN \/ OpAt(f.code, f.pc) = 3 /\ St(f.stack, 1) < St(f.stack, 2)     \* SUB below zero: a value >= 2^30
                         \/ OpAt(f.code, f.pc) = 81                                       \* MLOAD of bytes written unaligned
FramesSane == m.ph = "run" => /\ \A i \in DOMAIN m.fr : m.fr[i].gas >= 0 /\ Len(m.fr[i].stack) <= 1024 /\ m.fr[i].depth = i - 1
                              /\ GasHeld(m) <= m.tx.gas + 2300 * Len(m.fr)
TotalBal(w) == LET S[k \in 0..Len(c.accts)] == IF k = 0 THEN 0 ELSE S[k - 1] + Bal(w, c.accts[k].addr) IN S[Len(c.accts)]
TotalPre    == LET S[k \in 0..Len(c.accts)] == IF k = 0 THEN 0 ELSE S[k - 1] + c.accts[k].bal IN S[Len(c.accts)]
(* ether is conserved up to the burnt base fee (the coinbase and the self-destruct beneficiary *)
(* 0x1009 are not pre-state accounts here)                                                    *)
EtherConserved == m.ph = "end" =>
   TotalBal(m.w) + Bal(m.w, Coinbase) + Bal(m.w, 4105) + m.out.gasUsed * m.tx.baseFee
     + BlobGas(m.tx) * m.tx.blobBaseFee = TotalPre
(* a failed transaction changes nothing but the sender's balance and nonce, the coinbase and  *)
(* the authorities of its authorisation list                                                  *)
FailedRestores == m.ph = "end" /\ ~m.out.ok =>
   \A i \in DOMAIN c.accts : LET a == c.accts[i].addr IN
      /\ (a # Sender /\ (\A k \in DOMAIN c.tx.auths : c.tx.auths[k].authority # a)     \* (authorisations outlive a failed call)
            => Bal(m.w, a) = c.accts[i].bal /\ Acct(m.w, a).nonce = c.accts[i].nonce)
      /\ \A s \in 0..2 : SLoad(m.w, a, s) = (IF \E j \in DOMAIN c.accts[i].stor : c.accts[i].stor[j][1] = s
                                             THEN (LET j == CHOOSE j \in DOMAIN c.accts[i].stor : c.accts[i].stor[j][1] = s IN c.accts[i].stor[j][2])
                                             ELSE 0)
(* gas used lies between the intrinsic gas (or the floor) and the limit; a rejected            *)
(* transaction leaves the world untouched                                                       *)
GasUsedBounds == m.ph = "end" => m.out.gasUsed <= m.tx.gas /\ m.out.gasUsed >= Max(Intrinsic(m.tx), FloorGas(m.tx)) - (Intrinsic(m.tx) \div 5)
RejectedUntouched == m.ph = "rejected" => TotalBal(m.w) = TotalPre

(* ------------------------------- the test plan --------------------------------------------- *)
PostOf(w) == [i \in DOMAIN c.accts |->
                LET a == c.accts[i].addr IN
                [addr |-> a, bal |-> Bal(w, a), nonce |-> Acct(w, a).nonce, clen |-> Len(Acct(w, a).code),
                 stor |-> [s \in 1..3 |-> <<s - 1, SLoad(w, a, s - 1)>>]]]
Extra == IF Family = "create" THEN [init |-> c.init, c2 |-> c.c2, salt |-> c.salt] ELSE [init |-> << >>, c2 |-> FALSE, salt |-> 0]
CaseOf == [tx |-> c.tx, accts |-> c.accts, extra |-> Extra,
           expect |-> [valid |-> m.ph = "end", ok |-> m.out.ok, gasUsed |-> m.out.gasUsed,
                       coinbase |-> Bal(m.w, Coinbase), post |-> PostOf(m.w), nlogs |-> Len(m.w.logs)]]
Emit == Finished => PrintT(<<"CASE", ToJson(CaseOf)>>)
=============================================================================
