----------------------------- MODULE Stateless -----------------------------
(* C34, trie level: why the collected witness is sufficient for the stateless run.         *)
(*                                                                                         *)
(* The state trie is a path-compressed binary trie over D-bit keys (the binary analogue of *)
(* the hexary Merkle-Patricia trie: leaf, branch and collapse-on-delete behave alike).  A   *)
(* node is identified by its position and the key set below it (content addressing: a      *)
(* subtree that changed is a different node).  A block touches a set of keys, each with a   *)
(* net effect read / write / delete.                                                        *)
(*                                                                                         *)
(* Execution with full state (core/state.StateDB with a witness): reads are served by flat *)
(* state, but every touched key is handed to the trie prefetcher, which walks the ORIGINAL  *)
(* trie; at IntermediateRoot the writes are applied before the deletions, each class in Go  *)
(* map iteration order (= arbitrary), and every original node resolved on the way -         *)
(* including the sibling resolved when a branch collapses - is traced into the witness.     *)
(*                                                                                         *)
(* Stateless execution (core.ExecuteStateless): no flat state, every touched key walks the *)
(* trie held in the witness database; IntermediateRoot again applies writes before          *)
(* deletions in an arbitrary - generally DIFFERENT - order.                                 *)
(*                                                                                         *)
(* TLC checks that for every trie, every effect assignment and every pair of orders the    *)
(* stateless run only reads collected items (Reproduces), and that removing one item makes *)
(* it fail exactly when that run reads the item (RemovalExact).                             *)
EXTENDS StatelessRun, Sequences

CONSTANTS D,        \* key length in bits
          MaxTouch  \* at most this many keys are touched by the block

Bits == {0, 1}
Keys == [1..D -> Bits]
Effects == {"read", "write", "delete"}

Prefix(p, k) == Len(p) <= Len(k) /\ SubSeq(k, 1, Len(p)) = p
Below(p, K)  == {x \in K : Prefix(p, x)}

(* longest common prefix of a non-empty key set *)
LCP(S) == LET k == CHOOSE x \in S : TRUE
              n == CHOOSE i \in 0..D :
                     /\ \A x \in S : SubSeq(x, 1, i) = SubSeq(k, 1, i)
                     /\ (i = D \/ ~(\A x \in S : SubSeq(x, 1, i+1) = SubSeq(k, 1, i+1)))
          IN SubSeq(k, 1, n)

NodeId(p, K) == [p |-> p, ks |-> Below(p, K)]

(* nodes resolved when walking towards key k in the trie over K; the node at which the    *)
(* path diverges from k (a short node with a different key) is resolved as well           *)
RECURSIVE WalkFrom(_, _, _)
WalkFrom(p, k, K) ==
  IF Len(p) = D \/ ~Prefix(p, k) THEN {NodeId(p, K)}
  ELSE LET S == Below(Append(p, k[Len(p) + 1]), K)
       IN  IF S = {} THEN {NodeId(p, K)} ELSE {NodeId(p, K)} \cup WalkFrom(LCP(S), k, K)
Walk(k, K) == IF K = {} THEN {} ELSE WalkFrom(LCP(K), k, K)

(* all nodes of the trie over K *)
AllNodes(K) == UNION {Walk(k, K) : k \in K}

(* the node resolved when deleting k collapses its parent branch: the sibling subtree's top *)
Sibling(k, K) ==
  IF Cardinality(K) < 2 THEN {}
  ELSE LET q  == CHOOSE p \in {SubSeq(k, 1, i) : i \in 0..(D-1)} :
                    /\ Cardinality(Below(p, K)) >= 2
                    /\ \A i \in (Len(p)+1)..(D-1) : Cardinality(Below(SubSeq(k, 1, i), K)) < 2
           S2 == Below(Append(q, 1 - k[Len(q) + 1]), K)
       IN  {NodeId(LCP(S2), K)}

VARIABLES
  K0,     \* key set of the pre-state trie
  eff,    \* touched key -> net effect
  Kc,     \* key set of the in-memory trie of the current run
  pend,   \* touched keys whose effect is not applied yet (current run)
  phase,  \* "prefetch" | "full" | "pick" | "exec" | "commit" | "done"
  n0,     \* the nodes of the pre-state trie (what the database holds); constant after Init
  rm      \* the item set removed from the witness for the stateless run

vars == <<witness, avail, running, missed, readset, outcome, K0, eff, Kc, pend, phase, n0, rm>>

N0 == n0
Touched == DOMAIN eff
Mutating == {k \in Touched : eff[k] # "read"}

(* nodes resolved by applying the effect of k to the in-memory trie Kc *)
ApplyLoads(k) ==
  CASE eff[k] = "write"  -> Walk(k, Kc)
    [] eff[k] = "delete" -> IF k \in Kc THEN Walk(k, Kc) \cup Sibling(k, Kc) ELSE Walk(k, Kc)
    [] OTHER             -> {}
ApplyKeys(k) ==
  CASE eff[k] = "write"  -> Kc \cup {k}
    [] eff[k] = "delete" -> Kc \ {k}
    [] OTHER             -> Kc

(* IntermediateRoot: updates before deletions, otherwise map order *)
MayApply(k) == /\ k \in pend
               /\ (eff[k] = "delete" => \A j \in pend : eff[j] # "write")

Init == /\ RunInit
        /\ K0 \in SUBSET Keys
        /\ \E T \in SUBSET Keys : /\ Cardinality(T) <= MaxTouch
                                  /\ eff \in [T -> Effects]
        /\ Kc = K0 /\ pend = {} /\ phase = "prefetch" /\ rm = {} /\ n0 = AllNodes(K0)

(* full execution, part 1: the prefetcher walks the original trie for every touched key *)
Prefetch == /\ phase = "prefetch"
            /\ Collect(UNION {Walk(k, K0) : k \in Touched})
            /\ phase' = "full" /\ pend' = Mutating /\ Kc' = K0
            /\ UNCHANGED <<K0, eff, n0, rm>>

(* full execution, part 2: IntermediateRoot applies one pending effect *)
FullApply(k) == /\ phase = "full" /\ MayApply(k)
                /\ Collect(ApplyLoads(k) \cap N0)
                /\ Kc' = ApplyKeys(k) /\ pend' = pend \ {k}
                /\ UNCHANGED <<K0, eff, phase, n0, rm>>

FullDone == /\ phase = "full" /\ pend = {}
            /\ phase' = "pick"
            /\ UNCHANGED <<witness, avail, running, missed, readset, outcome, K0, eff, Kc, pend, n0, rm>>

(* the verifier gets the witness, complete or with one item removed *)
Pick == /\ phase = "pick"
        /\ \E r \in {{}} \cup {{x} : x \in witness} :
              /\ rm' = r
              /\ Begin(r)
        /\ phase' = "exec" /\ Kc' = K0 /\ pend' = Mutating
        /\ UNCHANGED <<K0, eff, n0>>

(* stateless execution, part 1: every touched key is read through the trie *)
Exec == /\ phase = "exec"
        /\ ReadSet(UNION {Walk(k, K0) : k \in Touched})
        /\ phase' = "commit"
        /\ UNCHANGED <<K0, eff, Kc, pend, n0, rm>>

(* stateless execution, part 2: IntermediateRoot, in its own order *)
StatelessApply(k) == /\ phase = "commit" /\ MayApply(k)
                     /\ ReadSet(ApplyLoads(k) \cap N0)
                     /\ Kc' = ApplyKeys(k) /\ pend' = pend \ {k}
                     /\ UNCHANGED <<K0, eff, phase, n0, rm>>

Finish == /\ phase = "commit" /\ pend = {}
          /\ End
          /\ phase' = "done"
          /\ UNCHANGED <<K0, eff, Kc, pend, n0, rm>>

Next == \/ Prefetch \/ FullDone \/ Pick \/ Exec \/ Finish
        \/ \E k \in Keys : FullApply(k) \/ StatelessApply(k)

Spec == Init /\ [][Next]_vars

----------------------------------------------------------------------------
TypeOK == /\ K0 \subseteq Keys /\ Kc \subseteq Keys /\ pend \subseteq Touched
          /\ witness \subseteq N0 /\ readset \subseteq N0

(* the witness collected under ANY order serves the stateless run under ANY order *)
WitnessSufficient == (phase = "done" /\ rm = {}) => outcome = "same"
(* one item removed: the run fails exactly when it reads that item, otherwise same result *)
RemovalExact == (phase = "done" /\ rm # {}) =>
                   /\ (rm \subseteq readset => outcome = "fail")
                   /\ (~(rm \subseteq readset) => outcome = "same")
(* both tries end with the same key set *)
SameFinalTrie == phase = "done" => Kc = (K0 \cup {k \in Touched : eff[k] = "write"}) \ {k \in Touched : eff[k] = "delete"}
=============================================================================
