SPECIFICATION MCSpec
CONSTANTS StackLimit = 6
          DepthLimit = 1
          MaxGas = 2
          MaxCost = 1
          MaxMem = 1
          MCForks = {0, 4, 15}
          MCOps = {0, 96, 85, 240, 250, 253, 254, 255}
INVARIANTS TypeOK StackWithinLimit GasWithinGiven NoGasCreated DepthWithinLimit StaticInherited OnlyTopRuns ResultWithinGiven LeftoverNonNegative
CHECK_DEADLOCK FALSE
