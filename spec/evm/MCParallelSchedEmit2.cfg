SPECIFICATION Spec
CONSTANTS Keys = {1}
          MaxVal = 0
          N = 2
          BaseMax = 0
          Workers = {1, 2, 3, 4}
          SchedMuts = FALSE
          Sched = TRUE
          EmitCases = TRUE
INVARIANTS HonestAccepted ParallelEqualsSequential WrongBALRejected ScheduleIndependent CacheIsBase WorkerBound HistLegal
CONSTRAINT Emit
CHECK_DEADLOCK FALSE
