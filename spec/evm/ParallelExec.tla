---------------------------- MODULE ParallelExec ----------------------------
(* C33: block execution driven by a block-level access list (EIP-7928), as implemented by   *)
(* core/state_processor_parallel.go, core/state/reader_eip_7928.go,                          *)
(* core/state/statedb_eip_7928.go and core/block_validator.go.                               *)
(*                                                                                          *)
(* State: a few storage keys with small integer values (everything that holds for one key   *)
(* space - balances, nonces, code - holds alike; the real access list has one such section   *)
(* per account field).  A transaction is a deterministic program that reads and writes      *)
(* keys; its effect depends on the values it reads.                                          *)
(*                                                                                          *)
(* Block access list (BAL): for every key the writes <<index, post value>> of the            *)
(* transactions that CHANGED it (index = position in the block, 1..n), plus the set of keys  *)
(* that were accessed but never changed (reads).  A store of the value a key already has is  *)
(* not a write (it is demoted to a read).                                                    *)
(*                                                                                          *)
(* Sequential execution folds the transactions over the state and produces the true BAL.     *)
(* Parallel execution gives transaction i the view  base (+) given BAL restricted to         *)
(* indices < i  (ReaderWithBlockLevelAccessList), runs the transactions on W workers that    *)
(* pull indices from an atomic cursor, begin and finish in any order, rebuilds a BAL from the       *)
(* per-transaction results, computes the post state by applying the GIVEN BAL to the base    *)
(* (StateDB.ApplyBlockAccessList) and validates: rebuilt BAL = given BAL, outputs (receipts, *)
(* gas) = header, post state = header (BlockValidator.ValidateState).                        *)
EXTENDS Integers, Sequences, FiniteSets

CONSTANTS Keys, MaxVal

Vals == 0..MaxVal

(* ---- transactions ---- *)
(* op: "set" a c | "inc" a | "copy" a b | "cond" a b | "read" a                              *)
Progs == [op : {"set"}, a : Keys, b : Vals]
         \cup [op : {"inc", "read"}, a : Keys, b : {0}]
         \cup {p \in [op : {"copy", "cond"}, a : Keys, b : Keys] : p.a # p.b}

(* result of running program p on the view v (a function Keys -> value):                    *)
(*   acc: keys accessed, wr: the CHANGED keys with their new values, out: observable output *)
(*   (what receipts and gas depend on: the values read)                                      *)
Upd(v, k, x) == IF v[k] = x THEN <<>> ELSE <<<<k, x>>>>       \* sequence of at most one <<key, value>>
Exec(p, v) ==
  CASE p.op = "set"  -> [acc |-> {p.a},      wr |-> Upd(v, p.a, p.b),        out |-> <<v[p.a]>>]
    [] p.op = "inc"  -> [acc |-> {p.a},      wr |-> <<<<p.a, v[p.a] + 1>>>>, out |-> <<v[p.a]>>]
    [] p.op = "copy" -> [acc |-> {p.a, p.b}, wr |-> Upd(v, p.b, v[p.a]),     out |-> <<v[p.a], v[p.b]>>]
    [] p.op = "cond" -> IF v[p.a] = 0
                        THEN [acc |-> {p.a, p.b}, wr |-> Upd(v, p.b, 1), out |-> <<0, v[p.b]>>]
                        ELSE [acc |-> {p.a},      wr |-> <<>>,           out |-> <<v[p.a]>>]
    [] p.op = "read" -> [acc |-> {p.a},      wr |-> <<>>,                    out |-> <<v[p.a]>>]

WrKeys(r)    == {r.wr[j][1] : j \in DOMAIN r.wr}
Apply(v, r)  == IF r.wr = <<>> THEN v ELSE [v EXCEPT ![r.wr[1][1]] = r.wr[1][2]]

(* ---- access lists ---- *)
(* bal = [w |-> set of <<key, index, value>>, r |-> set of keys]                            *)
EmptyBAL == [w |-> {}, r |-> {}]
WellFormed(bal, n) ==
  /\ \A e \in bal.w : e[1] \in Keys /\ e[2] \in 1..n /\ e[3] \in Nat
  /\ \A e, f \in bal.w : (e[1] = f[1] /\ e[2] = f[2]) => e = f        \* one write per key and index
  /\ \A k \in bal.r : ~\E e \in bal.w : e[1] = k                      \* read set and write set disjoint

(* the BAL assembled from per-transaction results res (a function 1..n -> result)           *)
BuildBAL(res, n) ==
  LET w   == UNION {{<<res[i].wr[j][1], i, res[i].wr[j][2]>> : j \in DOMAIN res[i].wr} : i \in 1..n}
      acc == UNION {res[i].acc : i \in 1..n}
  IN  [w |-> w, r |-> {k \in acc : ~\E e \in w : e[1] = k}]

(* value of key k seen by the transaction with index i: latest write with a smaller index   *)
Latest(bal, k, i) ==
  LET es == {e \in bal.w : e[1] = k /\ e[2] < i}
  IN  IF es = {} THEN <<>> ELSE LET m == CHOOSE e \in es : \A f \in es : f[2] <= e[2] IN <<m[3]>>
View(base, bal, i) == [k \in Keys |-> LET l == Latest(bal, k, i) IN IF l = <<>> THEN base[k] ELSE l[1]]

(* post state: the final value of every mutated key installed over the base                 *)
ApplyBAL(base, bal, n) == View(base, bal, n + 1)

(* ---- sequential execution ---- *)
RECURSIVE SeqRun(_, _, _)
(* returns <<final state, results 1..Len(txs)>> *)
SeqRun(txs, v, i) ==
  IF i > Len(txs) THEN <<v, <<>>>>
  ELSE LET r == Exec(txs[i], v)
           rest == SeqRun(txs, Apply(v, r), i + 1)
       IN  <<rest[1], <<r>> \o rest[2]>>

SeqFinal(txs, base)   == SeqRun(txs, base, 1)[1]
SeqResults(txs, base) == SeqRun(txs, base, 1)[2]
TrueBAL(txs, base)    == BuildBAL(SeqResults(txs, base), Len(txs))
Outs(res, n)          == [i \in 1..n |-> res[i].out]

(* ---- parallel execution on a given BAL ---- *)
ParResults(txs, base, bal) == [i \in 1..Len(txs) |-> Exec(txs[i], View(base, bal, i))]

(* the block: transactions, given BAL, header claims (outputs, post state)                  *)
Validate(txs, base, blk) ==
  LET n   == Len(txs)
      res == ParResults(txs, base, blk.bal)
  IN  /\ WellFormed(blk.bal, n)                              \* BlockAccessList.Validate (ValidateBody)
      /\ BuildBAL(res, n) = blk.bal                          \* rebuilt access list hash = header hash
      /\ Outs(res, n) = blk.outs                             \* receipts, gas used, bloom
      /\ ApplyBAL(base, blk.bal, n) = blk.post               \* state root

HonestBlock(txs, base) ==
  [bal |-> TrueBAL(txs, base), outs |-> Outs(SeqResults(txs, base), Len(txs)), post |-> SeqFinal(txs, base)]

(* ---- the worker pool of executeTransactionsParallel ---- *)
(* pool = [cursor, fetched, running]: a worker FETCHES the next index from an atomic cursor *)
(* (indices are handed out in order), later BEGINS executing it - a worker may be preempted  *)
(* between the two, so executions begin in any order among the fetched indices - and         *)
(* FINISHES (publishes the result).  At most w indices are in flight (fetched or running).   *)
PoolInit == [cursor |-> 1, fetched |-> {}, running |-> {}]
InFlight(pool)       == pool.fetched \cup pool.running
MayFetch(pool, n, w) == pool.cursor <= n /\ Cardinality(InFlight(pool)) < w
Fetched(pool)        == [pool EXCEPT !.cursor = @ + 1, !.fetched = @ \cup {pool.cursor}]
MayBegin(pool, i)    == i \in pool.fetched
Begun(pool, i)       == [pool EXCEPT !.fetched = @ \ {i}, !.running = @ \cup {i}]
Finished(pool, i)    == [pool EXCEPT !.running = @ \ {i}]
AllDone(pool, n)     == pool.cursor = n + 1 /\ pool.fetched = {} /\ pool.running = {}

(* fetches are not observable; the fewest fetches that let index i begin *)
RECURSIVE FetchUpTo(_, _, _, _)
FetchUpTo(pool, i, n, w) ==
  IF i < pool.cursor THEN pool
  ELSE IF MayFetch(pool, n, w) THEN FetchUpTo(Fetched(pool), i, n, w)
  ELSE pool

(* order: sequence of <<"s", i>> (execution of i begins) / <<"d", i>> (i finished) events *)
RECURSIVE LegalFrom(_, _, _, _, _)
LegalFrom(order, k, pool, n, w) ==
  IF k > Len(order) THEN AllDone(pool, n)
  ELSE LET e == order[k] IN
       IF e[1] = "s"
       THEN LET p2 == FetchUpTo(pool, e[2], n, w)
            IN  MayBegin(p2, e[2]) /\ LegalFrom(order, k + 1, Begun(p2, e[2]), n, w)
       ELSE e[2] \in pool.running /\ LegalFrom(order, k + 1, Finished(pool, e[2]), n, w)
LegalSchedule(order, n, w) == LegalFrom(order, 1, PoolInit, n, w)

(* ---- single mutations of an access list ---- *)
Mutations(bal, n) ==
  LET vals == 0..(MaxVal + n) IN
     {[bal EXCEPT !.w = @ \ {e}] : e \in bal.w}                                             \* missing entry
  \cup {[bal EXCEPT !.w = (@ \ {e}) \cup {<<e[1], e[2], x>>}] : e \in bal.w, x \in vals}      \* wrong value
  \cup {[bal EXCEPT !.w = (@ \ {e}) \cup {<<e[1], i, e[3]>>}] : e \in bal.w, i \in 1..n}      \* wrong index
  \cup {[bal EXCEPT !.w = @ \cup {<<k, i, x>>}] : k \in Keys, i \in 1..n, x \in vals}         \* extra entry
  \cup {[bal EXCEPT !.w = @ \cup {<<k, i, x>>}, !.r = @ \ {k}] : k \in Keys, i \in 1..n, x \in vals} \* read turned into write
  \cup {[bal EXCEPT !.r = @ \cup {k}] : k \in Keys}                                          \* extra read
  \cup {[bal EXCEPT !.r = @ \ {k}] : k \in bal.r}                                            \* missing read
=============================================================================
