SPECIFICATION MCSpec
CONSTANTS EVMs = {e1, e2}
          ArenaSize = 1
          MaxFrames = 1
          MaxCap = 1
          PoolLimit = 1
          Codes = {"c1", "c2"}
          InitCodes = {"i1", "i2"}
          Inputs <- InputsSim
          MaxPool = 1
          D = 0
INVARIANTS ArenaTiled StackOwned FreshMemoryZero BeyondLenZero PoolBounded CacheSound HistoryIndependent
VIEW View
SYMMETRY Sym
CHECK_DEADLOCK FALSE
