----------------------------- MODULE MCEVMPool -----------------------------
(* Model-checking wrapper of EVMPool.tla: adds the history of action labels so that TLC      *)
(* behaviours (schedules of several EVM instances at the granularity of the model's actions) *)
(* can be printed and replayed on real EVMs by harness/cmd/c28.                               *)
EXTENDS EVMPool, Json

CONSTANT D        \* length of the behaviours printed in simulation mode

VARIABLE hist

(* precompile inputs <<normalised part, ignored part>> (cfg files cannot write tuples) *)
InputsSmall == {<<"a", "x">>, <<"a", "y">>, <<"bad", "x">>}
InputsTiny  == {<<"a", "x">>, <<"bad", "x">>}
InputsSim   == {<<"a", "x">>, <<"a", "y">>, <<"b", "x">>, <<"bad", "x">>}

L(e, a, x) == hist' = Append(hist, [e |-> e, a |-> a, x |-> x])

MCInit == Init /\ hist = << >>
MCNext ==
  \E e \in EVMs :
    \/ NewEVM(e) /\ L(e, "new", 0)
    \/ Release(e) /\ L(e, "release", 0)
    \/ EnterFrame(e) /\ L(e, "enter", 0)
    \/ Push(e) /\ L(e, "push", 0)
    \/ Pop(e) /\ L(e, "pop", 0)
    \/ ExitFrame(e) /\ L(e, "exit", 0)
    \/ \E n \in 1..MaxCap : Grow(e, n) /\ L(e, "grow", n)
    \/ \E i \in 1..MaxCap : Write(e, i) /\ L(e, "write", i)
    \/ \E c \in Codes \cup InitCodes : JumpCheck(e, c) /\ L(e, "jump", c)
    \/ \E inp \in Inputs : Precompile(e, inp) /\ L(e, "pre", inp)
MCSpec == MCInit /\ [][MCNext]_<<vars, hist>>

View == vars
Sym == Permutations(EVMs)
Emit == IF Len(hist) = D THEN PrintT(<<"MBT", ToJson(hist)>>) ELSE TRUE
Short == Len(hist) <= D
=============================================================================
