SPECIFICATION TraceSpec
CONSTANTS Keys = {1}
          MaxVal = 0
POSTCONDITION TraceAccepted
CHECK_DEADLOCK FALSE
