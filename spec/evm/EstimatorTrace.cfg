SPECIFICATION TraceSpec
CONSTANTS TxGas = 21000
          Stipend = 2300
          TxCap = 16777216
INVARIANTS ProbesWithinCapT NoRepeatT IntervalT
POSTCONDITION TraceAccepted
CHECK_DEADLOCK FALSE
