SPECIFICATION Spec
CONSTANTS Keys = {1, 2, 3}
          MaxVal = 2
          N = 3
          BaseMax = 2
          Workers = {1}
          SchedMuts = FALSE
          Sched = FALSE
          EmitCases = TRUE
INVARIANTS HonestAccepted ParallelEqualsSequential WrongBALRejected CacheIsBase
CONSTRAINT Emit
CHECK_DEADLOCK FALSE
