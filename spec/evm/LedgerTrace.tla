---------------------------- MODULE LedgerTrace ----------------------------
(* Trace validation for Ledger (C32).  The driver replays generated blocks through          *)
(* core.StateProcessor.Process with a tracer; every OnBalanceChange (address, previous and   *)
(* new balance as read from the real state, reason), every frame entry/exit, transaction and *)
(* block bracket becomes an event.  Besides the action of the reason, every balance change   *)
(* must start from the balance the ledger has for that account (no unreported change, no     *)
(* incomplete revert), and the real balances of all accounts are audited after every         *)
(* transaction and, as totals over a full dump of the state, around every block.             *)
EXTENDS Ledger, Json, IOUtils

Trace == ndJsonDeserialize(IOEnv.TRACE)

VARIABLE l
tvars == <<lvars, l>>
Ev == Trace[l]

Chk(name, c) == IF c THEN TRUE ELSE PrintT(<<"WHY", name, l>>) /\ FALSE
Step(A) == l <= Len(Trace) /\ A /\ l' = l + 1

TGenesis ==
  Step(/\ Ev.op = "genesis"
       /\ fork' = Ev.fork /\ bal' = Ev.bal /\ balu' = Ev.balu
       /\ burned' = 0 /\ minted' = 0 /\ mintedu' = 0
       /\ total0' = [w |-> Sum(Ev.bal), u |-> Sum(Ev.balu)]
       /\ blk' = NoBlk /\ tx' = NoTx /\ frames' = << >> /\ float' = 0 /\ escrow' = 0 /\ sd' = {} /\ created' = {})

TAcct == Step(Ev.op = "acct" /\ Chk("FreshAccountHoldsNothing", Ev.w = 0 /\ Ev.u = 0 /\ Ev.a = Len(bal) + 1) /\ NewAccount(Ev.a))

(* consensus rewards of a proof-of-work block (Yellow Paper 11.3, EIP-649, EIP-1234), in units of *)
(* 1/32 ether: block reward R = 5, 3, 2 ether; an uncle at distance k (1..6) earns (8-k)/8 R, the *)
(* block's miner earns R plus R/32 per included uncle; nothing after the merge (EIP-3675)         *)
BlockRewardUnits(f) == IF f < 4 THEN 160 ELSE IF f < 5 THEN 96 ELSE 64
UncleRewards(f, uncles) == [i \in 1..Len(uncles) |->
                             [a |-> uncles[i].a, units |-> ((8 - uncles[i].dist) * BlockRewardUnits(f)) \div 8]]
ExpectedRewards(f, coinbase, pow, uncles) ==
  IF pow THEN UncleRewards(f, uncles) \o
              << [a |-> coinbase, units |-> BlockRewardUnits(f) + Len(uncles) * (BlockRewardUnits(f) \div 32)] >>
         ELSE << >>

(* blob fee of a transaction: blobs * GAS_PER_BLOB (2^17) * blob base fee (EIP-4844) *)
BlobFee(n) == n * 131072 * blk.blobbasefee

TBlock ==
  Step(/\ Ev.op = "block"
       /\ Chk("DumpTotalBeforeBlock", Ev.tw = Sum(bal) /\ Ev.tu = Sum(balu))
       /\ ~InBlk /\ ~InTx
       /\ fork' = Ev.fork
       /\ blk' = [basefee |-> Ev.basefee, blobbasefee |-> Ev.blobbasefee, coinbase |-> Ev.coinbase, wd |-> Ev.wd,
                  rw |-> ExpectedRewards(Ev.fork, Ev.coinbase, Ev.pow, Ev.uncles)]
       /\ UNCHANGED <<bal, balu, burned, minted, mintedu, total0, tx, frames, float, escrow, sd, created>>)

TBlockEnd ==
  Step(/\ Ev.op = "blockend"
       /\ Chk("AllWithdrawalsAndRewardsApplied", InBlk /\ Len(blk.wd) = 0 /\ Len(blk.rw) = 0)
       /\ Chk("DumpTotalAfterBlock", Ev.tw = Sum(bal) /\ Ev.tu = Sum(balu))
       /\ Chk("AuditAfterBlock", Ev.bal = bal /\ Ev.balu = balu)
       /\ EndBlock)

TTx ==
  Step(/\ Ev.op = "tx"
       /\ Chk("TxWellFormed", InBlk /\ ~InTx /\ Ev.feecap >= Ev.tipcap /\ Ev.feecap >= BaseFee)
       /\ StartTx(Ev.from, Ev.gas, Ev.feecap, Ev.tipcap, BlobFee(Ev.blobs)))

TTxEnd ==
  Step(/\ Ev.op = "txend"
       /\ Chk("InTransaction", InTx /\ Len(frames) = 0 /\ Quiet)
       /\ Chk("GasPrepaid", tx.bought = tx.gas * tx.price + tx.blobfee)
       /\ Chk("SenderPaysExactly", tx.bought - tx.returned = Ev.used * tx.price + tx.blobfee)
       /\ Chk("FeeRecipientGetsTip", tx.tipped = Ev.used * tx.tip)
       /\ Chk("BaseFeeBurned", escrow = Ev.used * (tx.price - tx.tip) + tx.blobfee)
       /\ EndTx(Ev.used)
       /\ Chk("AuditAfterTx", Ev.bal = bal' /\ Ev.balu = balu))

Delta == Ev.nw - Ev.pw
Continuity == Chk("BalanceContinuity", Known(Ev.a) /\ Ev.pw = BalOf(Ev.a) /\ Ev.pu = BalUOf(Ev.a))
WeiOnly == Chk("NoRewardUnitsMoved", Ev.nu = Ev.pu)

TChange ==
  Step(/\ Ev.op = "bc" /\ Continuity
       /\ CASE Ev.r = "GasBuy"     -> /\ WeiOnly
                                      /\ Chk("GasBuyAmount", InTx /\ Ev.a = tx.from /\ -Delta = tx.gas * tx.price + tx.blobfee)
                                      /\ Chk("GasBuyFirst", Len(frames) = 0 /\ Quiet /\ tx.bought = 0 /\ tx.returned = 0 /\ tx.tipped = 0)
                                      /\ GasBuy(Ev.a, -Delta)
            [] Ev.r = "GasReturn"  -> /\ WeiOnly
                                      /\ Chk("GasReturnToSender", InTx /\ Ev.a = tx.from /\ Delta > 0 /\ Delta <= escrow /\ tx.returned = 0)
                                      /\ GasReturn(Ev.a, Delta)
            [] Ev.r = "Tip"        -> /\ WeiOnly
                                      /\ Chk("TipToFeeRecipient", InTx /\ Ev.a = blk.coinbase /\ Delta > 0 /\ Delta <= escrow /\ tx.tipped = 0)
                                      /\ Tip(Ev.a, Delta)
            [] Ev.r \in {"Transfer", "SdDec", "SdInc"} ->
                                      /\ WeiOnly
                                      /\ Chk("MoveInsideFrame", InTx /\ Len(frames) > 0 /\ Delta # 0)
                                      /\ IF Delta < 0 THEN Debit(Ev.a, -Delta) ELSE Credit(Ev.a, Delta)
            [] Ev.r = "SdBurn"     -> /\ WeiOnly
                                      /\ Chk("BurnOnlyDestroyedAccounts", InTx /\ Ev.a \in sd /\ fork < Amsterdam /\ Ev.nw = 0)
                                      /\ SdBurn(Ev.a, Ev.pw)
            [] Ev.r = "Withdrawal" -> /\ WeiOnly
                                      /\ Chk("WithdrawalAsListed", InBlk /\ ~InTx /\ Len(blk.wd) > 0 /\ blk.wd[1] = [a |-> Ev.a, amt |-> Delta])
                                      /\ Withdrawal(Ev.a, Delta)
            [] Ev.r = "Reward"     -> /\ Chk("RewardAsSpecified", InBlk /\ ~InTx /\ Ev.nw = Ev.pw /\ Ev.nu > Ev.pu
                                                                   /\ RewardListed(Ev.a, Ev.nu - Ev.pu))
                                      /\ Reward(Ev.a, Ev.nu - Ev.pu)
            [] OTHER               -> Chk("UnknownReason", FALSE) /\ UNCHANGED lvars)

TEnter ==
  Step(/\ Ev.op = "enter"
       /\ Chk("EnterDepth", Ev.d = Len(frames))
       /\ IF Ev.typ = 255
          THEN /\ Chk("SelfDestructBurnsOnlyOwnSweep",
                      float = 0 \/ (float > 0 /\ Ev.from = Ev.to /\ fork < Amsterdam /\ Destroys(Ev.from)))
               /\ SelfDestructed(Ev.from, Ev.to)
          ELSE Chk("NoTransferHalfDone", Quiet) /\ EnterFrame(Ev.typ \in {240, 245}, Ev.to))

TExit ==
  Step(/\ Ev.op = "exit"
       /\ Chk("ExitDepth", Len(frames) > 0 /\ Ev.d = Len(frames) - 1)
       /\ Chk("NoTransferHalfDone", Quiet)
       /\ ExitFrame(Ev.rev))

TraceInit == /\ fork = 0 /\ bal = << >> /\ balu = << >> /\ burned = 0 /\ minted = 0 /\ mintedu = 0
             /\ total0 = [w |-> 0, u |-> 0] /\ blk = NoBlk /\ tx = NoTx /\ frames = << >> /\ float = 0 /\ escrow = 0
             /\ sd = {} /\ created = {} /\ l = 1
TraceNext == TGenesis \/ TAcct \/ TBlock \/ TBlockEnd \/ TTx \/ TTxEnd \/ TChange \/ TEnter \/ TExit
TraceSpec == TraceInit /\ [][TraceNext]_tvars

TraceAccepted == TLCGet("stats").diameter - 1 = Len(Trace)
=============================================================================
