SPECIFICATION MCSpec
CONSTANTS DepthLimit = 1024
          Family = "auth"
          Forks = {"cancun", "prague", "osaka"}
          SeqLen = 2
INVARIANTS Total FramesSane EtherConserved FailedRestores GasUsedBounds RejectedUntouched Emit
CHECK_DEADLOCK FALSE
