SPECIFICATION TraceSpec
CONSTANTS MaxGas = 0
          MaxDepth = 0
INVARIANTS NonNeg ExecConserved StateConserved ReservoirReturned NoGasCreated
POSTCONDITION TraceAccepted
CHECK_DEADLOCK FALSE
