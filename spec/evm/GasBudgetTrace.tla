-------------------------- MODULE GasBudgetTrace --------------------------
(* Trace validation for GasBudget: every line of the ndjson trace recorded from the real    *)
(* core/vm.GasBudget must be explained by the corresponding action of GasBudget.tla, and   *)
(* the logged struct fields must equal the specification's successor state.                *)
EXTENDS GasBudget, Json, IOUtils

Trace == ndJsonDeserialize(IOEnv.TRACE)

VARIABLE l      \* next line of the trace to explain

Ev == Trace[l]

Proj(f) == [exec |-> f.exec, state |-> f.state, usedExec |-> f.usedExec,
            usedState |-> f.usedState, spilled |-> f.spilled]
ProjStack(st) == [i \in 1..Len(st) |-> Proj(st[i])]
Logged == ProjStack(stack') = Ev.stack

Step(A) == l <= Len(Trace) /\ A /\ l' = l + 1

TReset   == Step(Ev.op = "reset" /\ stack' = << Frame(Ev.e, Ev.s) >>)
TCanAff  == Step(Ev.op = "CanAfford" /\ Ev.ok = CanAfford(Top, Ev.e, Ev.s) /\ UNCHANGED stack)
TCharge  == Step(Ev.op = "Charge" /\ Ev.ok  /\ Charge(Ev.e, Ev.s) /\ Logged)
TChargeF == Step(Ev.op = "Charge" /\ ~Ev.ok /\ ChargeFail(Ev.e, Ev.s) /\ Logged)
TCEO     == Step(Ev.op = "ChargeExecOnly" /\ Ev.ok  /\ ChargeExecOnly(Ev.r) /\ Logged)
TCEOF    == Step(Ev.op = "ChargeExecOnly" /\ ~Ev.ok /\ ChargeExecOnlyFail(Ev.r) /\ Logged)
TRefund  == Step(Ev.op = "RefundState" /\ RefundState(Ev.s) /\ Logged)
TDrain   == Step(Ev.op = "Drain" /\ DrainExecution /\ Logged)
TForward == Step(Ev.op = "Forward" /\ Forward(Ev.x) /\ Logged)
TExit    == Step(Ev.op = "Exit" /\ Exit(Ev.kind) /\ Proj(Leftover(Top, Ev.kind)) = Ev.left /\ Logged)

TraceInit == stack = << Frame(0, 0) >> /\ l = 1
TraceNext == TReset \/ TCanAff \/ TCharge \/ TChargeF \/ TCEO \/ TCEOF \/ TRefund \/ TDrain \/ TForward \/ TExit
TraceSpec == TraceInit /\ [][TraceNext]_<<stack, l>>

TraceAccepted == TLCGet("stats").diameter - 1 = Len(Trace)
=============================================================================
