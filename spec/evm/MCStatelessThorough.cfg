SPECIFICATION Spec
CONSTANTS D = 2
          MaxTouch = 4
INVARIANTS TypeOK NoWrongResult FailIffMissing Reproduces NeededRemoved WitnessSufficient RemovalExact SameFinalTrie
CHECK_DEADLOCK FALSE
