SPECIFICATION MCSpec
CONSTANTS London = 9
          Cancun = 12
          Amsterdam = 15
          MCForks = {0, 9, 12, 15}
          MaxAmt = 2
          MaxDepth = 2
          MaxTxs = 1
INVARIANTS Conservation NonNegative SettledBetweenTxs
CONSTRAINT Bounded
CHECK_DEADLOCK FALSE
