SPECIFICATION CSpec
CONSTANTS StackLimit = 1024
          DepthLimit = 1024
          CaseForks = {0,1,2,3,4,5,6,7,8,9,10,11,12,13,14,15,16}
INVARIANT Emit
CHECK_DEADLOCK FALSE
