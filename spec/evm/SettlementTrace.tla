-------------------------- MODULE SettlementTrace --------------------------
(* Trace validation: every transaction applied by the real core.ApplyMessage against a real *)
(* core.GasPool must be an Included/Rejected step of Settlement.tla with the logged          *)
(* observable figures (receipt gas, refund, leftover returned, pool counters).               *)
EXTENDS Settlement, Json, IOUtils

Trace == ndJsonDeserialize(IOEnv.TRACE)
VARIABLE l
Ev == Trace[l]
Step(A) == l <= Len(Trace) /\ A /\ l' = l + 1

PoolUsed(p) == IF p.fork = "amsterdam" THEN Max(p.cumExec, p.cumState) ELSE p.initial - p.remaining

PoolLogged == /\ pool'.remaining = Ev.pool.remaining /\ pool'.cumUsed = Ev.pool.cumUsed
              /\ pool'.cumExec = Ev.pool.cumExec /\ pool'.cumState = Ev.pool.cumState
              /\ PoolUsed(pool') = Ev.pool.used

TBlock == Step(Ev.op = "block" /\ NewBlock(Ev.initial, Ev.fork))

TIncluded == Step(
  /\ Ev.op = "tx" /\ Ev.err = "none"
  /\ Ev.limit >= Ev.intrinsic /\ Ev.limit >= Ev.floor
  /\ Ev.left <= Ev.limit - Ev.intrinsic
  /\ Included(Ev.fork, Ev.limit, Ev.left, Ev.counter, Ev.floor, Ev.pool.cumState - pool.cumState)
  /\ last'.used = Ev.used /\ last'.refund = Ev.refund /\ last'.peak = Ev.peak /\ last'.returned = Ev.returned
  /\ PoolLogged)

(* a refused transaction: the reported reason must be the true one, nothing changes *)
TRejected == Step(
  /\ Ev.op = "tx" /\ Ev.err # "none"
  /\ Ev.fork = pool.fork
  /\ CASE Ev.err = "gaslimit"  -> ~PoolAdmits(Ev.fork, Ev.limit)
       [] Ev.err = "intrinsic" -> PoolAdmits(Ev.fork, Ev.limit) /\ Ev.limit < Ev.intrinsic
       [] Ev.err = "floor"     -> PoolAdmits(Ev.fork, Ev.limit) /\ Ev.limit >= Ev.intrinsic
                                  /\ (Ev.limit < Ev.floor \/ Max(Ev.intrinsic, Ev.floor) > MaxTxGas)
       [] Ev.err = "txcap"     -> Ev.limit > MaxTxGas
       [] OTHER                -> FALSE
  /\ Rejected
  /\ PoolLogged)

TraceInit == pool = NewPool(0, "london") /\ last = NoTx /\ l = 1
TraceNext == TBlock \/ TIncluded \/ TRejected
TraceSpec == TraceInit /\ [][TraceNext]_<<vars, l>>
TraceAccepted == TLCGet("stats").diameter - 1 = Len(Trace)
=============================================================================
