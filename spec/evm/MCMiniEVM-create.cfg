SPECIFICATION MCSpec
CONSTANTS DepthLimit = 1024
          Family = "create"
          Forks = {"cancun", "prague", "osaka"}
          SeqLen = 2
INVARIANTS Total FramesSane EtherConserved FailedRestores GasUsedBounds RejectedUntouched Emit
CHECK_DEADLOCK FALSE
