SPECIFICATION Spec
CONSTANTS Keys = {1}
          MaxVal = 1
          N = 3
          BaseMax = 1
          Workers = {1, 2, 3}
          SchedMuts = FALSE
          Sched = TRUE
          EmitCases = FALSE
INVARIANTS HonestAccepted ParallelEqualsSequential WrongBALRejected ScheduleIndependent CacheIsBase WorkerBound HistLegal
CHECK_DEADLOCK FALSE
