------------------------------- MODULE Frames -------------------------------
(* Call-frame isolation (property C29): what a frame may leave behind in the observable     *)
(* state.  The observable state `obs` is a record over a small universe of accounts:         *)
(*   bal, nonce, code, sd (self-destructed flag)   sequences indexed by account             *)
(*   st, ts                                        storage / transient storage [account][slot] *)
(*   logs, refund                                  number of logs, refund counter            *)
(*   wa, ws                                        warm accounts / warm storage slots (EIP-2929) *)
(* Rules (Yellow Paper section 8 and 9.4.x, EIP-140, EIP-214, EIP-1153, EIP-2929, EIP-684):  *)
(*   - every frame remembers the state it was entered with;                                  *)
(*   - a frame that reverts or halts exceptionally restores exactly that state (gas aside).  *)
(*     A creation frame is entered after the creator's nonce was incremented and the new     *)
(*     address was marked warm; both survive the failure of the creation (the creator did    *)
(*     them), unless the creation was refused before it started (depth, balance, nonce);     *)
(*   - while a static frame (STATICCALL and everything below it) is on the stack nothing     *)
(*     but the warm sets may change.                                                         *)
(* Ghost bookkeeping (frame ids, dead) lets TLC show (MCFrames) that these local rules give   *)
(* the global statement: no effect of a failed frame, or of any frame below a failed frame,  *)
(* or of a static frame, is ever part of the state.                                          *)
EXTENDS Integers, Sequences, FiniteSets, TLC

CONSTANT Berlin       \* index of the first rule set with warm/cold access sets (EIP-2929)

VARIABLES fork,   \* rule set
          fs,     \* frame stack: [id, kind, static, snap, creator, created]
          obs,    \* observable state now
          dead,   \* ghost: ids of frames that failed, or were below a frame that failed
          nid     \* next frame id

fvars == <<fork, fs, obs, dead, nid>>

Kinds == {"call", "static", "create"}     \* CALL/CALLCODE/DELEGATECALL | STATICCALL | CREATE/CREATE2
PreCheckErr == {"depth", "balance", "nonce"}

NoWarm(o) == [bal |-> o.bal, nonce |-> o.nonce, code |-> o.code, sd |-> o.sd, st |-> o.st, ts |-> o.ts,
              logs |-> o.logs, refund |-> o.refund]

Top == fs[Len(fs)]
InStatic == Len(fs) > 0 /\ Top.static

(* what the creator itself did on behalf of a creation that was started *)
CreatorPart(o, creator, created) ==
  [o EXCEPT !.nonce[creator] = @ + 1,
            !.wa = IF fork >= Berlin /\ created > 0 THEN [o.wa EXCEPT ![created] = TRUE] ELSE o.wa]

(* the state a failing frame f must leave *)
Restored(f, err) ==
  IF f.kind = "create" /\ err \notin PreCheckErr THEN CreatorPart(f.snap, f.creator, f.created) ELSE f.snap

NewFrame(kind, creator, created) ==
  [id |-> nid, kind |-> kind, static |-> (kind = "static" \/ InStatic), snap |-> obs, creator |-> creator, created |-> created]

(* ------------------------------ actions ------------------------------ *)
(* a frame is entered; obs is the state at that moment (the callee is already warm) *)
Enter(kind, creator, created) ==
  /\ fs' = Append(fs, NewFrame(kind, creator, created))
  /\ nid' = nid + 1
  /\ UNCHANGED <<fork, obs, dead>>

(* the running frame changes the state to o2 (anything but the warm sets needs a non-static frame); *)
(* a creation frame's first change includes what its creator did                                  *)
Change(o2) ==
  /\ Len(fs) > 0
  /\ InStatic => NoWarm(o2) = NoWarm(obs)
  /\ obs' = o2
  /\ UNCHANGED <<fork, fs, dead, nid>>

ExitOK ==
  /\ Len(fs) > 0
  /\ fs' = SubSeq(fs, 1, Len(fs) - 1)
  /\ UNCHANGED <<fork, obs, dead, nid>>

(* ids of the frames entered at or after f was (f and all finished or live frames below it) *)
Since(f) == f.id .. (nid - 1)

ExitFail(err) ==
  /\ Len(fs) > 0
  /\ obs' = Restored(Top, err)
  /\ dead' = dead \cup Since(Top)
  /\ fs' = SubSeq(fs, 1, Len(fs) - 1)
  /\ UNCHANGED <<fork, nid>>

(* ------------------------------ properties ------------------------------ *)
(* static context: whatever runs below a STATICCALL, nothing but warmth differs from its entry state *)
StaticNoEffect == \A i \in 1..Len(fs) : fs[i].static => NoWarm(obs) = NoWarm(fs[i].snap)

StaticInherited == \A i \in 2..Len(fs) : fs[i-1].static => fs[i].static

(* the frames on the stack are alive *)
LiveFramesNotDead == \A i \in 1..Len(fs) : fs[i].id \notin dead
=============================================================================
