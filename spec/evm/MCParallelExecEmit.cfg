SPECIFICATION Spec
CONSTANTS Keys = {1, 2}
          MaxVal = 2
          N = 2
          BaseMax = 1
          Workers = {1}
          SchedMuts = FALSE
          Sched = FALSE
          EmitCases = TRUE
INVARIANTS HonestAccepted ParallelEqualsSequential WrongBALRejected CacheIsBase
CONSTRAINT Emit
CHECK_DEADLOCK FALSE
