-------------------------- MODULE ParallelExecTrace --------------------------
(* Trace validation for C33.  Events recorded by harness/cmd/c33:                            *)
(*   run     n w order equal matchesHeader   one execution of StateProcessor.processParallel *)
(*           on a block with n transactions and w workers: the order of par.start/par.done   *)
(*           events seen by the hook in the worker loop, whether every output (receipts,     *)
(*           logs, gas, requests, rebuilt access list, post-state root) equals the           *)
(*           sequential processor's, and whether it reproduces the committed header          *)
(*   honest  accepted      import (parallel path) of the block with the true access list     *)
(*   mutant  rejected      import of the block with one mutation of the access list          *)
(* The worker loop must behave like the pool of ParallelExec.tla (every index started once,  *)
(* in cursor order, at most w in flight, every started transaction finished), and the        *)
(* verdicts must be the specified ones for EVERY schedule.                                   *)
EXTENDS ParallelExec, Json, IOUtils, TLC

Trace == ndJsonDeserialize(IOEnv.TRACE)

VARIABLES l, runs, mutants

Ev == Trace[l]

Step(A) == l <= Len(Trace) /\ A /\ l' = l + 1

TRun == Step(/\ Ev.op = "run"
             /\ LegalSchedule(Ev.order, Ev.n, Ev.w)
             /\ Ev.equal /\ Ev.matchesHeader          \* ParallelEqualsSequential, HonestAccepted
             /\ runs' = runs + 1 /\ UNCHANGED mutants)

THonest == Step(/\ Ev.op = "honest" /\ Ev.accepted /\ UNCHANGED <<runs, mutants>>)

TMutant == Step(/\ Ev.op = "mutant" /\ Ev.rejected   \* WrongBALRejected
                /\ mutants' = mutants + 1 /\ UNCHANGED runs)

TraceInit == l = 1 /\ runs = 0 /\ mutants = 0
TraceNext == TRun \/ THonest \/ TMutant
TraceSpec == TraceInit /\ [][TraceNext]_<<l, runs, mutants>>

TraceAccepted == TLCGet("stats").diameter - 1 = Len(Trace)
=============================================================================
