\* adversarial environment: C53 (Genuine, HdrSafe) plus structure
SPECIFICATION MCSpec
CONSTANTS Threshold = 300
          Super = 342
          MaxP = 2
          Counts = {299, 300, 342}
          Bads = {"none", "branch"}
          Adversarial = TRUE
          FinOnlySuper = FALSE
          HistLen = 0
INVARIANTS Ranges ChainConsistent Genuine HdrSafe HdrLive
VIEW View
CHECK_DEADLOCK FALSE
