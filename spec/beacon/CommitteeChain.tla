--------------------------- MODULE CommitteeChain ---------------------------
(* Beacon light client committee chain (go-ethereum beacon/light/committee_chain.go).     *)
(*                                                                                         *)
(* Three "canonical stores" keyed by sync period, each a contiguous range:                 *)
(*   fixed : period -> committee root     externally trusted roots (checkpoints)           *)
(*   comm  : period -> committee          serialized sync committees                       *)
(*   upd   : period -> best update        [next, count, fin, signer]                       *)
(* Hashes are opaque and injective: the root of committee c is c itself, NoRoot is the     *)
(* zero hash.  A signature is abstracted to (signer committee, signer count): the dummy    *)
(* scheme of the code verifies iff the signing committee is the one stored for the period. *)
(*                                                                                         *)
(* One operator per Go function (same order of checks, same early returns), composed       *)
(* sequentially over a state record S = [f, c, u]; the actions are the public entry points *)
(* of the receive pipeline:                                                                *)
(*   Checkpoint(b)     CommitteeChain.CheckpointInit  (incl. bootstrap.Validate)           *)
(*   Receive(u, nc)    update.Validate (api/light_api.go) ; CommitteeChain.InsertUpdate    *)
(*   Reset, Reopen     CommitteeChain.Reset, newCommitteeChain on the same database        *)
(* and the observation Accept(h) = HeadTracker.validate: signer count >= threshold and     *)
(* CommitteeChain.VerifySignedHeader.                                                      *)
EXTENDS Integers, FiniteSets, Sequences

CONSTANTS Threshold,     \* signerThreshold of the chain and minSignerCount of the head tracker
          Super          \* params.SyncCommitteeSupermajority
ASSUME Threshold <= Super

NoRoot == -1             \* common.Hash{}
NoComm == -1             \* nil *SerializedSyncCommittee
Root(c) == c
G(p) == p                \* the genuine committee of period p; every other id is a forgery

VARIABLES fixed, comm, upd
vars == <<fixed, comm, upd>>

Max2(a, b) == IF a > b THEN a ELSE b
SMin(S) == CHOOSE x \in S : \A y \in S : x <= y
SMax(S) == CHOOSE x \in S : \A y \in S : x >= y

(* ------------------------------ periodRange / canonicalStore ------------------------- *)
IsEmpty(f)     == DOMAIN f = {}
Start(f)       == IF IsEmpty(f) THEN 0 ELSE SMin(DOMAIN f)
End(f)         == IF IsEmpty(f) THEN 0 ELSE SMax(DOMAIN f) + 1
Contains(f, p) == p \in DOMAIN f
CanExpand(f, p) == IsEmpty(f) \/ (p + 1 >= Start(f) /\ p <= End(f))
Add(f, p, v)   == [q \in DOMAIN f \cup {p} |-> IF q = p THEN v ELSE f[q]]
DeleteFrom(f, p) == [q \in {x \in DOMAIN f : x < p} |-> f[q]]
EmptyFn == [q \in {} |-> 0]
Contiguous(f) == \A p \in Start(f)..(End(f) - 1) : p \in DOMAIN f

St(f, c, u) == [f |-> f, c |-> c, u |-> u]
EmptySt == St(EmptyFn, EmptyFn, EmptyFn)
Ok(S) == [err |-> "ok", s |-> S]
Err(e, S) == [err |-> e, s |-> S]

(* ------------------------------ scores ------------------------------------------------ *)
Finalized(sc) == sc.fin /\ sc.count >= Super
Better(a, b) == IF Finalized(a) # Finalized(b) THEN Finalized(a) ELSE a.count > b.count
MinScore == [count |-> Threshold, fin |-> FALSE]
Score(u) == [count |-> u.count, fin |-> u.fin]

(* ------------------------------ internal functions ------------------------------------ *)
GetRoot(S, p) ==                                   \* getCommitteeRoot
  IF p \in DOMAIN S.f THEN S.f[p]
  ELSE IF p = 0 THEN NoRoot
  ELSE IF (p - 1) \in DOMAIN S.u THEN S.u[p - 1].next
  ELSE NoRoot

Rollback(S, p) ==                                  \* rollback: committees and fixed roots from p, updates from p-1
  St(DeleteFrom(S.f, p), DeleteFrom(S.c, p), DeleteFrom(S.u, p - 1))

AddFixed(S, p, r) ==                               \* addFixedCommitteeRoot
  IF r = NoRoot THEN Err("WrongRoot", S)
  ELSE LET old == GetRoot(S, p) IN
    IF ~CanExpand(S.f, p)
    THEN IF r # old THEN Err("InvalidPeriod", S)
         ELSE \* the root is already proven by the update chain: fix everything in between
           LET gap == End(S.f)..(p - 1)
               f1  == [q \in DOMAIN S.f \cup gap |-> IF q \in DOMAIN S.f THEN S.f[q] ELSE GetRoot(S, q)]
           IN Ok(St(Add(f1, p, r), S.c, S.u))
    ELSE LET S1 == IF old # NoRoot /\ old # r THEN Rollback(S, p) ELSE S
         IN Ok(St(Add(S1.f, p, r), S1.c, S1.u))

DelFixedFrom(S, p) ==                              \* deleteFixedCommitteeRootsFrom
  IF p >= End(S.f) THEN S
  ELSE LET f1 == DeleteFrom(S.f, p) IN
    IF IsEmpty(S.u) \/ p <= Start(S.u)
    THEN St(f1, DeleteFrom(S.c, p), DeleteFrom(S.u, p))
    ELSE St(f1, DeleteFrom(S.c, Max2(End(S.u) + 1, p)), S.u)

AddComm(S, p, c) ==                                \* addCommittee
  IF ~CanExpand(S.c, p) THEN Err("InvalidPeriod", S)
  ELSE LET root == GetRoot(S, p) IN
    IF root = NoRoot THEN Err("InvalidPeriod", S)
    ELSE IF root # Root(c) THEN Err("WrongRoot", S)
    ELSE IF p \in DOMAIN S.c THEN Ok(S)
    ELSE Ok(St(S.f, Add(S.c, p, c), S.u))

(* bootstrap b = [period, comm, next, valid]: committee `comm` with a (valid or invalid)    *)
(* Merkle branch whose first sibling `next` is the root of the next committee              *)
CheckpointInit(S, b) ==
  IF ~b.valid THEN Err("Invalid", S)
  ELSE LET p  == b.period
           S1 == DelFixedFrom(S, p + 2)
           a1 == AddFixed(S1, p, Root(b.comm))
           a2 == IF a1.err = "ok" THEN a1 ELSE AddFixed(EmptySt, p, Root(b.comm))
       IN IF a2.err # "ok" THEN Err(a2.err, EmptySt)
          ELSE LET a3 == AddFixed(a2.s, p + 1, b.next) IN
            IF a3.err # "ok" THEN Err(a3.err, EmptySt)
            ELSE LET a4 == AddComm(a3.s, p, b.comm) IN
              IF a4.err # "ok" THEN Err(a4.err, EmptySt) ELSE a4

(* update u = [period, signer, count, next, fin, bad]; bad # "none" names the Merkle/period  *)
(* defect that LightClientUpdate.Validate rejects.  nc = committee passed along, or NoComm. *)
SigOK(S, period, signer) == period \in DOMAIN S.c /\ S.c[period] = signer   \* verifySignedHeader, dummy scheme

InsertUpdate(S, u, nc) ==
  LET p == u.period IN
  IF ~CanExpand(S.u, p) \/ ~Contains(S.c, p) THEN Err("InvalidPeriod", S)
  ELSE IF Better(MinScore, Score(u)) THEN Err("InvalidUpdate", S)
  ELSE LET oldRoot == GetRoot(S, p + 1)
           reorg   == oldRoot # NoRoot /\ oldRoot # u.next
       IN
    IF p \in DOMAIN S.u /\ ~Better(Score(u), [count |-> S.u[p].count, fin |-> S.u[p].fin])
    THEN (IF reorg THEN Err("CannotReorg", S) ELSE Ok(S))
    ELSE IF Contains(S.f, p + 1) /\ reorg THEN Err("CannotReorg", S)
    ELSE IF ~SigOK(S, p, u.signer) THEN Err("InvalidUpdate", S)
    ELSE LET addC == ~Contains(S.c, p + 1) \/ reorg IN
      IF addC /\ nc = NoComm THEN Err("NeedCommittee", S)
      ELSE IF addC /\ Root(nc) # u.next THEN Err("WrongRoot", S)
      ELSE LET S1 == IF reorg THEN Rollback(S, p + 1) ELSE S
               c2 == IF addC THEN Add(S1.c, p + 1, nc) ELSE S1.c
               rec == [next |-> u.next, count |-> u.count, fin |-> u.fin, signer |-> u.signer]
           IN Ok(St(S1.f, c2, Add(S1.u, p, rec)))

Receive(S, u, nc) == IF u.bad # "none" THEN Err("Invalid", S) ELSE InsertUpdate(S, u, nc)

(* header h = [period (of the signature slot), signer, count] *)
VerifySig(S, h) == SigOK(S, h.period, h.signer)
Accept(S, h) == h.count >= Threshold /\ VerifySig(S, h)

(* NextSyncPeriod: where the next update can be added, and whether the chain is initialised *)
NextSyncPeriod(S) == IF IsEmpty(S.c) THEN [p |-> 0, ok |-> FALSE]
                     ELSE IF ~IsEmpty(S.u) THEN [p |-> End(S.u), ok |-> TRUE]
                     ELSE [p |-> End(S.c) - 1, ok |-> TRUE]

(* checkConstraints of newCommitteeChain (a failed check resets the chain on reopen) *)
NotInFixed(S, f) == IsEmpty(S.f) \/ Start(f) < Start(S.f) \/ Start(f) >= End(S.f)
CheckConstraints(S) ==
  /\ ~IsEmpty(S.u) => /\ ~NotInFixed(S, S.u)
                      /\ ~(Start(S.c) > Start(S.u) \/ End(S.c) <= End(S.u))
  /\ ~IsEmpty(S.c) => /\ ~NotInFixed(S, S.c)
                      /\ ~(End(S.c) > End(S.f) /\ End(S.c) > End(S.u) + 1)
(* ... followed by the loop that rolls back trailing updates whose signature no longer verifies *)
RECURSIVE RollInvalid(_)
RollInvalid(S) ==
  IF IsEmpty(S.u) THEN S
  ELSE LET p == End(S.u) - 1 IN
    IF SigOK(S, p, S.u[p].signer) THEN S ELSE RollInvalid(Rollback(S, End(S.u)))
Reopen(S) == RollInvalid(IF CheckConstraints(S) THEN S ELSE EmptySt)

(* ------------------------------ state machine ----------------------------------------- *)
Cur == St(fixed, comm, upd)
Set(S) == fixed' = S.f /\ comm' = S.c /\ upd' = S.u

Init == fixed = EmptyFn /\ comm = EmptyFn /\ upd = EmptyFn
DoCheckpoint(b) == Set(CheckpointInit(Cur, b).s)
DoReceive(u, nc) == Set(Receive(Cur, u, nc).s)
DoReset == Set(EmptySt)
DoReopen == Set(Reopen(Cur))

(* ------------------------------ adversary ---------------------------------------------- *)
(* What the environment can produce: at least Threshold members of the genuine committee   *)
(* only sign headers of the genuine chain, whose state commits to the genuine next         *)
(* committee; everything else (other signers, fewer signers, claims not covered by the     *)
(* signed header, any period, any order, any score) is free.  Checkpoints are trusted.     *)
Unforgeable(u) == (u.signer = G(u.period) /\ u.count >= Threshold /\ u.bad = "none") => u.next = Root(G(u.period + 1))
Trusted(b) == b.valid => (b.comm = G(b.period) /\ b.next = Root(G(b.period + 1)))

(* ------------------------------ invariants --------------------------------------------- *)
Ranges == Contiguous(fixed) /\ Contiguous(comm) /\ Contiguous(upd)

(* the consistency constraints promised by the doc comment of CommitteeChain *)
ChainConsistent ==
  /\ \A p \in DOMAIN fixed : fixed[p] # NoRoot
  /\ \A p \in DOMAIN comm :
        \/ (p \in DOMAIN fixed /\ fixed[p] = Root(comm[p]))
        \/ (p > 0 /\ (p - 1) \in DOMAIN upd /\ upd[p - 1].next = Root(comm[p]))
  /\ \A p \in DOMAIN upd :
        /\ p \in DOMAIN comm /\ upd[p].signer = comm[p]
        /\ ~Better(MinScore, [count |-> upd[p].count, fin |-> upd[p].fin])
        /\ (p + 1) \in DOMAIN comm /\ Root(comm[p + 1]) = upd[p].next
        /\ ((p + 1) \in DOMAIN fixed => fixed[p + 1] = upd[p].next)
  /\ CheckConstraints(Cur)

(* C53, first half: only genuine committees (requires the adversary assumption) *)
Genuine ==
  /\ \A p \in DOMAIN comm : comm[p] = G(p)
  /\ \A p \in DOMAIN fixed : fixed[p] = Root(G(p))
  /\ \A p \in DOMAIN upd : upd[p].next = Root(G(p + 1)) /\ upd[p].signer = G(p) /\ upd[p].count >= Threshold

(* C53, second half, for a universe H of headers *)
HeaderSafety(H) == \A h \in H : Accept(Cur, h) => (h.count >= Threshold /\ h.signer = G(h.period))
(* and completeness of the signature check w.r.t. the stored committee *)
HeaderLive(H) == \A h \in H : (h.period \in DOMAIN comm /\ h.signer = comm[h.period] /\ h.count >= Threshold) => Accept(Cur, h)
=============================================================================
