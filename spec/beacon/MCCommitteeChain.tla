------------------------- MODULE MCCommitteeChain -------------------------
(* Model-checking wrapper of CommitteeChain: bounded universe of checkpoints, updates and  *)
(* headers, action labels for replay on the Go code (R), optional history for sampled      *)
(* behaviours.                                                                             *)
EXTENDS CommitteeChain, Json, TLC

CONSTANTS MaxP,          \* update periods 0..MaxP, committees for 0..MaxP+1
          Counts,        \* signer counts tried
          Bads,          \* Validate defects tried ("none" = valid)
          Adversarial,   \* TRUE: inputs restricted to what the adversary assumption allows
          FinOnlySuper,  \* TRUE: drop finalized updates below the supermajority (fin has no effect there)
          HistLen        \* 0: no history; D: print behaviours of length D (simulation)

VARIABLES act, hist

Periods == 0..MaxP
Comms(p) == {G(p), 100 + p}

UpdU == UNION {{[period |-> p, signer |-> s, count |-> n, next |-> x, fin |-> f, bad |-> b] :
                  s \in Comms(p), n \in Counts, x \in Comms(p + 1), f \in BOOLEAN, b \in Bads} : p \in Periods}
Updates == {u \in UpdU : /\ (u.bad \in {"finbranch", "finperiod"} => u.fin)
                         /\ (FinOnlySuper => (u.fin => u.count >= Super))
                         /\ (Adversarial => Unforgeable(u))}
NextComms(u) == {NoComm} \cup Comms(u.period + 1)
CpU == UNION {{[period |-> p, comm |-> c, next |-> x, valid |-> v] :
                  c \in Comms(p), x \in Comms(p + 1) \cup {NoRoot}, v \in BOOLEAN} : p \in Periods}
Checkpoints == {b \in CpU : Adversarial => Trusted(b)}
Headers == UNION {{[period |-> p, signer |-> s, count |-> n] : s \in Comms(p), n \in {Threshold - 1, Threshold}} : p \in 0..(MaxP + 1)}

SeqOf(f) == [i \in 1..(End(f) - Start(f)) |-> [p |-> Start(f) + i - 1, v |-> f[Start(f) + i - 1]]]
Proj(S) == [fixed |-> SeqOf(S.f), comm |-> SeqOf(S.c), upd |-> SeqOf(S.u), nsp |-> NextSyncPeriod(S),
            sig |-> {h \in Headers : VerifySig(S, h)}, acc |-> {h \in Headers : Accept(S, h)}]

Log(a) == /\ act' = a
          /\ hist' = IF HistLen > 0 THEN Append(hist, [act |-> a, to |-> Proj(St(fixed', comm', upd'))]) ELSE hist

MCInit == Init /\ act = [op |-> "init"] /\ hist = <<>>

MCNext ==
  \/ \E b \in Checkpoints : LET r == CheckpointInit(Cur, b) IN
        Set(r.s) /\ Log([op |-> "checkpoint", b |-> b, err |-> r.err])
  \/ \E u \in Updates : \E nc \in NextComms(u) : LET r == Receive(Cur, u, nc) IN
        Set(r.s) /\ Log([op |-> "update", u |-> u, nc |-> nc, err |-> r.err])
  \/ DoReset /\ Log([op |-> "reset"])
  \/ DoReopen /\ Log([op |-> "reopen"])

MCSpec == MCInit /\ [][MCNext]_<<vars, act, hist>>

View == vars

HdrSafe == HeaderSafety(Headers)
HdrLive == HeaderLive(Headers)

ProjS(S) == [fixed |-> SeqOf(S.f), comm |-> SeqOf(S.c), upd |-> SeqOf(S.u), nsp |-> NextSyncPeriod(S)]
Edge == PrintT(<<"EDGE", ToJson([from |-> ProjS(Cur), act |-> act', to |-> Proj(St(fixed', comm', upd'))])>>)
Emit == IF HistLen > 0 /\ Len(hist) = HistLen THEN PrintT(<<"MBT", ToJson(hist)>>) ELSE TRUE
=============================================================================
