\* thorough tier: three update periods, valid-form inputs only, every transition printed
SPECIFICATION MCSpec
CONSTANTS Threshold = 300
          Super = 342
          MaxP = 2
          Counts = {300, 342}
          Bads = {"none"}
          Adversarial = FALSE
          FinOnlySuper = TRUE
          HistLen = 0
INVARIANTS Ranges ChainConsistent HdrLive
ACTION_CONSTRAINT Edge
VIEW View
CHECK_DEADLOCK FALSE
