\* complete graph of a smaller universe, every transition printed for replay on the Go code
SPECIFICATION MCSpec
CONSTANTS Threshold = 300
          Super = 342
          MaxP = 1
          Counts = {299, 300, 342}
          Bads = {"none"}
          Adversarial = FALSE
          FinOnlySuper = TRUE
          HistLen = 0
INVARIANTS Ranges ChainConsistent HdrLive
ACTION_CONSTRAINT Edge
VIEW View
CHECK_DEADLOCK FALSE
