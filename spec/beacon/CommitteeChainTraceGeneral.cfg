\* traces with untrusted checkpoints / forged chains: data-structure invariants only
SPECIFICATION TraceSpec
CONSTANTS Threshold = 300
          Super = 342
INVARIANTS Ranges ChainConsistent HdrLive
POSTCONDITION TraceAccepted
CHECK_DEADLOCK FALSE
