\* adversarial environment, four update periods
SPECIFICATION MCSpec
CONSTANTS Threshold = 300
          Super = 342
          MaxP = 3
          Counts = {299, 300, 342, 400}
          Bads = {"none", "branch"}
          Adversarial = TRUE
          FinOnlySuper = FALSE
          HistLen = 0
INVARIANTS Ranges ChainConsistent Genuine HdrSafe HdrLive
VIEW View
CHECK_DEADLOCK FALSE
