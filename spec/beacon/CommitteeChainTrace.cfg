\* traces recorded under the adversary assumption: C53 invariants evaluated after every real step
SPECIFICATION TraceSpec
CONSTANTS Threshold = 300
          Super = 342
INVARIANTS Ranges ChainConsistent Genuine HdrSafe HdrLive
POSTCONDITION TraceAccepted
CHECK_DEADLOCK FALSE
