----------------------- MODULE CommitteeChainTrace -----------------------
(* Trace validation for CommitteeChain: every call recorded from a real                    *)
(* beacon/light.CommitteeChain (checkpoint, update receive, header verification, reopen,   *)
(* reset) must be explained by the corresponding operator of CommitteeChain.tla: same      *)
(* result class and the same database contents / NextSyncPeriod afterwards.  All           *)
(* invariants of the cfg are evaluated after every real step.                              *)
EXTENDS CommitteeChain, Json, IOUtils, TLC

Trace == ndJsonDeserialize(IOEnv.TRACE)

VARIABLE l
Ev == Trace[l]

SeqOf(f) == [i \in 1..(End(f) - Start(f)) |-> [p |-> Start(f) + i - 1, v |-> f[Start(f) + i - 1]]]
ProjS(S) == [fixed |-> SeqOf(S.f), comm |-> SeqOf(S.c), upd |-> SeqOf(S.u), nsp |-> NextSyncPeriod(S)]
Logged(S) == ProjS(S) = Ev.st

Step(A) == l <= Len(Trace) /\ A /\ l' = l + 1

TNew    == Step(Ev.op = "reset" /\ Set(EmptySt))
TCp     == Step(Ev.op = "checkpoint" /\ LET r == CheckpointInit(Cur, Ev.b) IN r.err = Ev.err /\ Logged(r.s) /\ Set(r.s))
TUpd    == Step(Ev.op = "update" /\ LET r == Receive(Cur, Ev.u, Ev.nc) IN r.err = Ev.err /\ Logged(r.s) /\ Set(r.s))
THdr    == Step(Ev.op = "header" /\ Ev.sig = VerifySig(Cur, Ev.h) /\ Ev.acc = Accept(Cur, Ev.h) /\ Logged(Cur) /\ UNCHANGED vars)
TReopen == Step(Ev.op = "reopen" /\ Logged(Reopen(Cur)) /\ Set(Reopen(Cur)))
TReset  == Step(Ev.op = "apireset" /\ Logged(EmptySt) /\ Set(EmptySt))

TraceInit == Init /\ l = 1
TraceNext == TNew \/ TCp \/ TUpd \/ THdr \/ TReopen \/ TReset
TraceSpec == TraceInit /\ [][TraceNext]_<<vars, l>>

(* header universe for the safety invariant: every period the driver uses, three committees each *)
TraceHeaders == UNION {{[period |-> p, signer |-> s, count |-> n] : s \in {p, 100 + p, 200 + p}, n \in {Threshold - 1, Threshold}} : p \in 0..8}
HdrSafe == HeaderSafety(TraceHeaders)
HdrLive == HeaderLive(TraceHeaders)

TraceAccepted == TLCGet("stats").diameter - 1 = Len(Trace)
=============================================================================
