\* unrestricted environment (forgeries may succeed, e.g. an untrusted checkpoint): structure and
\* consistency invariants of the data structure, reorg paths
SPECIFICATION MCSpec
CONSTANTS Threshold = 300
          Super = 342
          MaxP = 2
          Counts = {299, 300, 342}
          Bads = {"none", "branch"}
          Adversarial = FALSE
          FinOnlySuper = FALSE
          HistLen = 0
INVARIANTS Ranges ChainConsistent HdrLive
VIEW View
CHECK_DEADLOCK FALSE
