\* the real constants of p2p/discover (checked by the driver against the export file)
SPECIFICATION TraceSpec
CONSTANTS B = 16
          R = 10
          BIPL = 2
          TIPL = 10
          MaxFails = 5
          NB = 17
          LowBits = 3
INVARIANTS BucketCap DistinctIds RightBucket NoSelf HasIP IPLimits CountersExact ReplOnlyWhenFull PendingSound
POSTCONDITION TraceAccepted
CHECK_DEADLOCK FALSE
