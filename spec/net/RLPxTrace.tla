------------------------------ MODULE RLPxTrace ------------------------------
(* Trace validation for RLPx.tla (property C44).                                            *)
(*                                                                                          *)
(* harness/cmd/c44 -mode fuzz runs random sessions between two real rlpx.Conn endpoints     *)
(* through the tampering proxy: random message counts (0..5 per direction), codes, sizes,   *)
(* compression, chunking, any number of modified frames at random positions, modified or    *)
(* malformed handshake packets.  It logs what was done to the wire and what every           *)
(* Handshake / Read call returned; each logged step must be the corresponding action of     *)
(* RLPx.tla with the same result (deterministic validation, no silent steps).               *)
EXTENDS RLPx, Json, IOUtils

Trace == ndJsonDeserialize(IOEnv.TRACE)
VARIABLE l
Ev == Trace[l]
Step(A) == l <= Len(Trace) /\ A /\ l' = l + 1

ResOK(res, v) == res = "n/a" \/ res = v      \* "n/a": that side was played by the harness (malicious peer)

TReset == Step(Ev.op = "reset" /\
  /\ hsA' = "start" /\ hsB' = "start" /\ auth' = NoPkt /\ ack' = NoPkt
  /\ learnedA' = "none" /\ learnedB' = "none"
  /\ sent' = [d \in Dirs |-> <<>>] /\ wire' = [d \in Dirs |-> <<>>] /\ sctr' = [d \in Dirs |-> 0]
  /\ rd' = [d \in Dirs |-> 0] /\ dlv' = [d \in Dirs |-> <<>>] /\ errs' = [d \in Dirs |-> 0]
  /\ rchain' = [d \in Dirs |-> <<>>] /\ rctr' = [d \in Dirs |-> 0] /\ aligned' = [d \in Dirs |-> TRUE]
  /\ nflips' = 0)

TSendAuth   == Step(Ev.op = "SendAuth" /\ SendAuth(Ev.bad))
TTamperAuth == Step(Ev.op = "TamperAuth" /\ TamperAuth(Ev.r))
TRecvAuth   == Step(Ev.op = "RecvAuth" /\ RecvAuth(Ev.bad) /\ ResOK(Ev.res, hsB') /\ (Ev.res = "done" => Ev.keyok))
TTamperAck  == Step(Ev.op = "TamperAck" /\ TamperAck(Ev.r))
TRecvAck    == Step(Ev.op = "RecvAck" /\ RecvAck /\ ResOK(Ev.res, hsA') /\ (Ev.res = "done" => Ev.keyok))
TPeerGone   == Step(Ev.op = "PeerGone" /\ PeerGone /\ ResOK(Ev.res, hsA'))
TWrite      == Step(Ev.op = "Write" /\ Write(Ev.d))
TFlip       == Step(Ev.op = "Flip" /\ Flip(Ev.d, Ev.i, Ev.r))
(* a Read call of the real connection: ok with the index of the written message whose code and payload it
   returned (0 = equals none of them), or an error (eof: the error was a clean end of stream) *)
TRead       == Step(Ev.op = "Read" /\ Read(Ev.d) /\
                    IF Ev.ok THEN dlv'[Ev.d] = Append(dlv[Ev.d], Ev.id)
                             ELSE dlv'[Ev.d] = dlv[Ev.d] /\ ~Ev.eof)
(* the stream ended cleanly after all frames had been read without error *)
TEnd        == Step(Ev.op = "End" /\ Receiver(Ev.d) = "done" /\ rd[Ev.d] = Len(wire[Ev.d]) /\ errs[Ev.d] = 0
                    /\ Ev.eof /\ UNCHANGED vars)

TraceInit == Init /\ l = 1
TraceNext == TReset \/ TSendAuth \/ TTamperAuth \/ TRecvAuth \/ TTamperAck \/ TRecvAck \/ TPeerGone
             \/ TWrite \/ TFlip \/ TRead \/ TEnd
TraceSpec == TraceInit /\ [][TraceNext]_<<vars, l>>

TraceAccepted == TLCGet("stats").diameter - 1 = Len(Trace)
Invs == Prefix /\ NothingAfterTamper /\ NoResync /\ ErrorReported /\ KeysTrue /\ SessionNeedsCleanHandshake
=============================================================================
