----------------------------- MODULE SnapServe -----------------------------
(* Serving side of the snap protocol (go-ethereum eth/protocols/snap/handlers.go):         *)
(* ServiceGetAccountRangeQuery, ServiceGetStorageRangesQuery, ServiceGetByteCodesQuery,    *)
(* ServiceGetTrieNodesQuery as functions of an abstract world and a request.               *)
(*                                                                                         *)
(* World W = [acc |-> <<[sz, st, code]...>>, codes |-> <<len...>>]: accounts in hash order *)
(* (rank 1..N); sz = wire size of the account item (32 + slim body); st = wire sizes of its *)
(* storage slots in hash order; code = index into codes or 0.                               *)
(* Hashes are rank-compressed positions: 0 = the zero hash, 2i = the i-th key, 2i+1 = any  *)
(* hash strictly between key i and key i+1 (1 = below the first key), Top(n) = 2n+1 also   *)
(* stands for the maximal hash.                                                            *)
EXTENDS Integers, Sequences, FiniteSets

SoftLimit == 2 * 1024 * 1024          \* softResponseLimit
MaxLookups == 1024                    \* maxCodeLookups

Min2(a, b) == IF a < b THEN a ELSE b
Max2(a, b) == IF a > b THEN a ELSE b
Cap(b) == Min2(b, SoftLimit)
FirstAtOrAfter(pos) == Max2(1, (pos + 1) \div 2)     \* rank of the first key at a position >= pos
Top(n) == 2 * n + 1

RECURSIVE SumSz(_, _, _)
SumSz(s, a, b) == IF a > b THEN 0 ELSE s[a] + SumSz(s, a + 1, b)

(* ------------------------------ account ranges ---------------------------------------- *)
(* request [known, origin, limit, bytes]; response [keys: ranks, proof: BOOLEAN]          *)
RECURSIVE AccRun(_, _, _, _, _)
AccRun(szs, i, limit, bytes, size) ==
  IF i > Len(szs) THEN << >>
  ELSE LET size2 == size + szs[i] IN
       <<i>> \o (IF 2 * i >= limit \/ size2 > bytes THEN << >> ELSE AccRun(szs, i + 1, limit, bytes, size2))

AccSizes(W) == [i \in 1..Len(W.acc) |-> W.acc[i].sz]
AccountRange(W, req) ==
  IF ~req.known THEN [keys |-> << >>, proof |-> FALSE]
  ELSE [keys |-> AccRun(AccSizes(W), FirstAtOrAfter(req.origin), req.limit, Cap(req.bytes), 0), proof |-> TRUE]

(* declarative statement of C48 for a run over keys with sizes szs *)
RunOK(szs, keys, origin, limit, bytes) ==
  LET n == Len(szs)
      s == FirstAtOrAfter(origin)
  IN /\ (s > n) = (keys = << >>)                                        \* something is served iff something is there
     /\ \A j \in 1..Len(keys) : keys[j] = s + j - 1                     \* contiguous from the first key >= origin
     /\ \A j \in 1..(Len(keys) - 1) : 2 * keys[j] < limit               \* only the last item may reach the limit
     /\ Len(keys) > 0 => SumSz(szs, s, keys[Len(keys)] - 1) <= bytes    \* within budget beyond the last item
     /\ (Len(keys) > 0 /\ keys[Len(keys)] < n) =>                       \* not cut short without a reason
           (2 * keys[Len(keys)] >= limit \/ SumSz(szs, s, keys[Len(keys)]) > bytes)
AccountRangeOK(W, req) ==
  LET r == AccountRange(W, req) IN
  IF ~req.known THEN r.keys = << >> /\ ~r.proof
  ELSE r.proof /\ RunOK(AccSizes(W), r.keys, req.origin, req.limit, Cap(req.bytes))

(* ------------------------------ storage ranges ----------------------------------------- *)
(* request [known, accounts: seq of ranks (0 = no such account), origin, limit, bytes];    *)
(* origin/limit = -1 when absent (empty byte string).                                      *)
(* response [slots: seq of [acct (index into req.accounts), keys], proof, dropped]         *)
Slots(W, a) == IF a = 0 THEN << >> ELSE W.acc[a].st

RECURSIVE SlotRun(_, _, _, _, _)
(* returns [keys, size, abort] *)
SlotRun(szs, j, limit, hard, size) ==
  IF j > Len(szs) THEN [keys |-> << >>, size |-> size, abort |-> FALSE]
  ELSE IF size >= hard THEN [keys |-> << >>, size |-> size, abort |-> TRUE]
  ELSE LET size2 == size + szs[j] IN
       IF 2 * j >= limit THEN [keys |-> <<j>>, size |-> size2, abort |-> j < Len(szs)]   \* more slots beyond the limit: capped, must be proven
       ELSE LET rest == SlotRun(szs, j + 1, limit, hard, size2) IN
            [keys |-> <<j>> \o rest.keys, size |-> rest.size, abort |-> rest.abort]

RECURSIVE StorLoop(_, _, _, _, _, _)
StorLoop(W, req, k, bytes, size, out) ==
  IF k > Len(req.accounts) \/ size >= bytes THEN [slots |-> out, proof |-> FALSE, dropped |-> FALSE]
  ELSE LET a      == req.accounts[k]
           szs    == Slots(W, a)
           origin == IF k = 1 /\ req.origin >= 0 THEN req.origin ELSE 0
           limit  == IF k = 1 /\ req.limit >= 0 THEN req.limit ELSE Top(Len(szs)) + 1   \* MaxHash: beyond every key
           run    == SlotRun(szs, FirstAtOrAfter(origin), limit, (bytes * 11) \div 10, size)
           out2   == IF run.keys # << >> THEN Append(out, [acct |-> k, keys |-> run.keys]) ELSE out
       IN IF origin # 0 \/ (run.abort /\ run.keys # << >>)
          THEN (IF a = 0 THEN [slots |-> << >>, proof |-> FALSE, dropped |-> TRUE]     \* account lookup fails: nothing served
                         ELSE [slots |-> out2, proof |-> TRUE, dropped |-> FALSE])
          ELSE StorLoop(W, req, k + 1, bytes, run.size, out2)

StorageRanges(W, req) ==
  IF ~req.known THEN [slots |-> << >>, proof |-> FALSE, dropped |-> TRUE]
  ELSE StorLoop(W, req, 1, Cap(req.bytes), 0, << >>)

(* total wire size of the first x lists of a response *)
RECURSIVE SumKeys(_, _, _)
SumKeys(szs, keys, j) == IF j > Len(keys) THEN 0 ELSE szs[keys[j]] + SumKeys(szs, keys, j + 1)
RECURSIVE SumAll(_, _, _, _)
SumAll(W, req, r, x) == IF x = 0 THEN 0 ELSE SumKeys(Slots(W, req.accounts[r.slots[x].acct]), r.slots[x].keys, 1) + SumAll(W, req, r, x - 1)

(* what a client can verify: a list without proof must be a complete storage trie, the     *)
(* list with the proof a contiguous run from the origin (edge proofs do the rest)          *)
Complete(W, req, l) == l.keys = [j \in 1..Len(Slots(W, req.accounts[l.acct])) |-> j]
Verifiable(W, req, r) ==
  \A x \in 1..Len(r.slots) :
     LET l == r.slots[x] IN
     IF r.proof /\ x = Len(r.slots)
     THEN \A j \in 1..Len(l.keys) : l.keys[j] = FirstAtOrAfter(IF l.acct = 1 /\ req.origin >= 0 THEN req.origin ELSE 0) + j - 1
     ELSE Complete(W, req, l)
StorageRangesOK(W, req) ==
  LET r == StorageRanges(W, req) IN
  /\ r.dropped => (r.slots = << >> /\ ~r.proof)
  /\ \A x \in 1..Len(r.slots) : r.slots[x].keys # << >>
  /\ \A x, y \in 1..Len(r.slots) : x < y => r.slots[x].acct < r.slots[y].acct
  /\ Verifiable(W, req, r)
  \* budget: an account is only opened while below the soft limit, a slot only added while below the hard one
  /\ \A x \in 1..Len(r.slots) :
        LET before == SumAll(W, req, r, x - 1) IN before < Cap(req.bytes)
  /\ Len(r.slots) > 0 =>
        LET l == r.slots[Len(r.slots)]
            allbutlast == SumAll(W, req, r, Len(r.slots)) - Slots(W, req.accounts[l.acct])[l.keys[Len(l.keys)]]
        IN allbutlast < (Cap(req.bytes) * 11) \div 10

(* ------------------------------ byte codes ---------------------------------------------- *)
(* request [hashes: seq of code refs (k >= 1 = code k, 0 = unknown hash, -1 = empty code hash), bytes] *)
RECURSIVE CodeLoop(_, _, _, _, _)
CodeLoop(W, hs, i, bytes, size) ==
  IF i > Len(hs) THEN << >>
  ELSE LET h     == hs[i]
           found == h = -1 \/ h >= 1
           size2 == IF h >= 1 THEN size + W.codes[h] ELSE size
           rest  == IF size2 > bytes THEN << >> ELSE CodeLoop(W, hs, i + 1, bytes, size2)
       IN IF found THEN <<i>> \o rest ELSE rest
(* response: indices (into the request) of the hashes answered, in order *)
ByteCodes(W, req) == CodeLoop(W, SubSeq(req.hashes, 1, Min2(Len(req.hashes), MaxLookups)), 1, Cap(req.bytes), 0)
CodeSize(W, h) == IF h >= 1 THEN W.codes[h] ELSE 0
ByteCodesOK(W, req) ==
  LET r == ByteCodes(W, req)
      n == Len(r)
  IN /\ \A j \in 1..n : req.hashes[r[j]] # 0 /\ r[j] <= MaxLookups               \* only known codes
     /\ \A j \in 1..(n - 1) : r[j] < r[j + 1]                                      \* in request order
     /\ n > 0 => \A i \in 1..r[n] : (req.hashes[i] # 0) => \E j \in 1..n : r[j] = i  \* a prefix of the request, unknown ones skipped
     /\ n > 1 => SumSz([j \in 1..n |-> CodeSize(W, req.hashes[r[j]])], 1, n - 1) <= Cap(req.bytes)
     /\ (\E i \in 1..Min2(Len(req.hashes), MaxLookups) : req.hashes[i] # 0 /\ (n = 0 \/ i > r[n])) =>    \* not cut short without a reason
           (n > 0 /\ SumSz([j \in 1..n |-> CodeSize(W, req.hashes[r[j]])], 1, n) > Cap(req.bytes))
=============================================================================
