SPECIFICATION Spec
CONSTANT LimitProof = TRUE
INVARIANTS ServeOK
CHECK_DEADLOCK FALSE
