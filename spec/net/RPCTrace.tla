------------------------------ MODULE RPCTrace ------------------------------
(* Trace validation for RPC.tla (property C49), HTTP transport.                             *)
(*                                                                                          *)
(* harness/cmd/c49 -mode stress sends random messages of the model's grammar to a real      *)
(* rpc.Server over ServeHTTP from many goroutines, with real (short) request timeouts and    *)
(* methods that sleep for a random time around the timeout or wait for the cancellation of  *)
(* their context.  For every request it logs the message and the parsed response body.      *)
(* When exactly the timer fired and when the blocking methods returned is not logged: TLC   *)
(* searches for an interleaving of Release / TimerFire / internal steps of RPC.tla that     *)
(* ends with all call processes finished and exactly the observed output.  Since RPC.tla    *)
(* (AsCoded = FALSE) satisfies C49 on every behaviour, an output that violates C49 has no   *)
(* explanation.  RPCTraceAsCoded.cfg validates against the as-coded variant: a trace that   *)
(* only it accepts deviates exactly by the known findings C49-F1/F2.                        *)
(*                                                                                          *)
(* Line 1: [op |-> "config", hasTimeout, batchLimit, sizeLimit];                            *)
(* per request: "reset", [op |-> "req", m], [op |-> "end", out].                            *)
EXTENDS RPC, Json, IOUtils

Trace == ndJsonDeserialize(IOEnv.TRACE)

THasTimeout == Trace[1].hasTimeout
TBatchLimit == Trace[1].batchLimit
TSizeLimit  == Trace[1].sizeLimit
NoMessages  == {}

VARIABLE l
Ev == Trace[l]

Logged(A) == l <= Len(Trace) /\ A /\ l' = l + 1
Silent(A) == l <= Len(Trace) /\ A /\ l' = l

OutObs == [x \in 1..Len(out) |-> [t |-> out[x].t, rs |-> out[x].rs, sub |-> out[x].sub, k |-> out[x].k]]

TReset == Logged(Ev.op = "reset" /\
  /\ nrecv' = 0 /\ msg' = [p \in Procs |-> [batch |-> FALSE, items |-> <<>>]]
  /\ pc' = [p \in Procs |-> "none"] /\ calls' = [p \in Procs |-> <<>>] /\ cur' = [p \in Procs |-> NoEntry]
  /\ resp' = [p \in Procs |-> <<>>] /\ wrote' = [p \in Procs |-> FALSE]
  /\ cancelled' = [p \in Procs |-> FALSE] /\ timer' = [p \in Procs |-> "off"]
  /\ bytes' = [p \in Procs |-> 0] /\ ans' = [p \in Procs |-> NoResp]
  /\ subs' = <<>> /\ out' = <<>>)
TReq == Logged(Ev.op = "req" /\ Recv(Ev.m))
TEnd == Logged(Ev.op = "end" /\ AllDone /\ OutObs = Ev.out /\ UNCHANGED vars)

TraceInit == Init /\ l = 2
TraceNext == TReset \/ TReq \/ TEnd
             \/ Silent(Internal \/ \E p \in Procs : Release(p) \/ TimerFire(p) \/ TimerCancel(p))
TraceSpec == TraceInit /\ [][TraceNext]_<<vars, l>>

ASSUME TLCSet(1, 1)
HWM == IF l - 1 > TLCGet(1) THEN TLCSet(1, l - 1) /\ PrintT(<<"HWM", ToJson(l - 1)>>) ELSE TRUE
HWMExit == HWM /\ (l = Len(Trace) + 1 => TLCSet("exit", TRUE))
TInvs == AtMostOnce /\ BatchOnce /\ NotesAfterResponse
=============================================================================
