SPECIFICATION TraceSpec
CONSTANT LimitProof = TRUE
POSTCONDITION TraceAccepted
CHECK_DEADLOCK FALSE
