SPECIFICATION MCSpec
CONSTANTS Node = {"A", "B"}
          Msgs = {"ping"}
          MaxWire = 4
          Senders = {"A", "B"}
          Guided = FALSE
          Spoof = FALSE
          Depth = 0
INVARIANTS Authentic CurrentSession ResponderKeys KeysPrivate ChallengeOwn
VIEW View
CHECK_DEADLOCK FALSE
