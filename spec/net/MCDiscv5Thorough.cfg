SPECIFICATION MCSpec
CONSTANTS Node = {"A", "B"}
          Msgs = {"ping"}
          MaxWire = 5
          Senders = {"A", "B"}
          Guided = FALSE
          Depth = 0
INVARIANTS Authentic CurrentSession ResponderKeys KeysPrivate ChallengeOwn
VIEW View
CHECK_DEADLOCK FALSE
