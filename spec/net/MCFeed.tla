------------------------------- MODULE MCFeed -------------------------------
(* Model-checking wrapper of Feed.tla: concrete constants and a partial-order reduction.    *)
EXTENDS Feed

CONSTANTS NS, NC, CapMod     \* senders 1..NS, channels 1..NC, Cap[c] = (c-1) % CapMod

MCSenders == 1..NS
MCChans   == 1..NC
MCCap     == [c \in 1..NC |-> (c - 1) % CapMod]

(* Reduced next-state relation.  RecvEnd(c), SendEnd(s) and Release(s) are local steps that   *)
(* (i) no other action can disable, (ii) commute with every other action (Room(c) has the    *)
(* same value before and after RecvEnd(c); Handshake needs nact >= 1 while Release needs     *)
(* nact = 0), (iii) do not change the truth of any invariant below (the "ret" state that     *)
(* ExactlyOnce/CountReturned look at is still visited).  Executing them as soon as they are  *)
(* enabled is therefore a sound ample-set reduction; MCFeed.cfg (unreduced Spec) and         *)
(* MCFeedReduced.cfg check the same invariants on the same bounds as a cross-check.          *)
Eager == \/ \E c \in Chans : RecvEnd(c)
         \/ \E s \in Senders : SendEnd(s) \/ Release(s)
RNext == Eager \/ (~ENABLED Eager /\ Next)
RSpec == Init /\ [][RNext]_vars

(* Liveness of Unsubscribe: under fair scheduling of the internal steps it always returns,   *)
(* whatever senders and receivers do (it never waits for a receiver).                        *)
FairSpec == Spec /\ WF_vars(Internal \/ Returns)
UnsubReturns == \A c \in Chans : (cst[c] = "unsubCheck") ~> (cst[c] = "unsubbed")
=============================================================================
