SPECIFICATION SchedSpec
CONSTANTS Messages <- MCMessages
          AsCoded = FALSE
          Fixed = FALSE
          Gated = FALSE
          Mode = "http"
          MaxMsgs = 1
          HasTimeout = TRUE
          BatchLimit = 0
          SizeLimit = 100
          MaxNotes = 0
          SzRet = 10
          SzBig = 60
          SzErr = 40
          SzInv = 43
          CallMethods = {"ret", "blk", "big", "err", "nsub"}
          NotifMethods = {"ret", "blk", "nsub"}
          InvIds = {0, 1}
          WithResp = TRUE
          MaxBatch = 2
          Ids = {1, 2}
INVARIANTS StateOut Invs
ACTION_CONSTRAINT Edge
CHECK_DEADLOCK FALSE
