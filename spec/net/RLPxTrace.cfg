SPECIFICATION TraceSpec
CONSTANTS MaxMsgs = 100
          MaxFlips = 1000
          MaxErrReads = 100
INVARIANT Invs
POSTCONDITION TraceAccepted
CHECK_DEADLOCK FALSE
