----------------------------- MODULE MCSnapSync -----------------------------
EXTENDS SnapSync, TLC
MCN == [acc |-> 4, s1 |-> 3]
MCTaskSpace == [t \in {1, 2, 3} |-> IF t = 3 THEN "s1" ELSE "acc"]
MCTaskFirst == [t \in {1, 2, 3} |-> IF t = 2 THEN 3 ELSE 1]
MCTaskLast == [t \in {1, 2, 3} |-> IF t = 1 THEN 2 ELSE IF t = 2 THEN 4 ELSE 3]
MCHashItems == {<<"code", 1>>, <<"node", 1>>}
View == <<next, {[task |-> r.task, origin |-> r.origin, peer |-> r.peer] : r \in inflight}, verified, stored, refused, done>>
=============================================================================
