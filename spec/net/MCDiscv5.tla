------------------------------ MODULE MCDiscv5 ------------------------------
(* Model-checking wrapper for Discv5.tla: the history of actions with the specification's *)
(* predicted Decode outcomes is kept in `hist` (hidden from the state by VIEW) so that     *)
(* sampled behaviours can be printed and replayed on real v5wire codecs.                   *)
EXTENDS Discv5, Json

CONSTANTS Depth,        \* length of the printed behaviours (simulation mode)
          Senders,      \* nodes that originate packets (the others only receive redirected packets)
          Guided,       \* TRUE: prune uninformative branching (sampling); FALSE: everything (exhaustive MC)
          Spoof         \* TRUE: the network also forges source addresses

VARIABLES hist,         \* actions so far, with the predicted outcomes
          seen          \* wire indices delivered at least once (guides sampling only)

A(op, n, p, m, i, t, out) == [op |-> op, n |-> n, p |-> p, m |-> m, i |-> i, t |-> t, out |-> out]

MCInit == Init /\ hist = << [op |-> "init", knows |-> knows] >> /\ seen = {}

MsgOrder == CHOOSE f \in [1..Cardinality(Msgs) -> Msgs] : \A i, j \in 1..Cardinality(Msgs) : i # j => f[i] # f[j]
(* guided sampling: runs look like protocol runs under attack.  The message kind is a     *)
(* function of the packet number; a new packet is created only when every packet has been *)
(* delivered once; packets go to their destination, only the newest may be redirected;    *)
(* only the three latest packets are tampered with or replayed; restarts only when there  *)
(* is something to lose.                                                                  *)
MsgOK(m)      == ~Guided \/ m = MsgOrder[(Len(wire) % Cardinality(Msgs)) + 1]
Recent(i)     == ~Guided \/ i > Len(wire) - 3
(* attacks are interspersed, not dominant; the newest packet can be attacked in flight, i.e.  *)
(* before it was delivered (its tampered copy may then reach the destination first)          *)
MayTamper(i)  == ~Guided \/ (3 * Cardinality({j \in 1..Len(wire) : wire[j].t # ""}) < Len(wire)
                             /\ (seen = 1..Len(wire) \/ (i = Len(wire) /\ seen = 1..(Len(wire) - 1))))
MaySend       == ~Guided \/ seen = 1..Len(wire)
MayDeliver(i, to) == ~Guided \/ (i \notin seen /\ (to = wire[i].dst \/ i = Len(wire))) \/ (Recent(i) /\ to = wire[i].dst)
HasState(n)   == ~Guided \/ (Len(wire) % 6 = 5 /\ \E p \in Node : sess[n][p].sid # 0 \/ chal[n][p].cid # 0 \/ got[n][p].cid # 0)
TalksTo(n, p) == ~Guided \/ knows[n][p]          \* a node only addresses nodes whose record it has

MCNext ==
  \/ \E n, p \in Senders, m \in Msgs : Len(wire) < MaxWire /\ MsgOK(m) /\ MaySend /\ TalksTo(n, p) /\ SendMsg(n, p, m)
        /\ hist' = Append(hist, A("msg", n, p, m, Len(wire) + 1, "", IF sess[n][p].sid = 0 THEN "rand" ELSE "msg")) /\ UNCHANGED seen
  \/ \E n, p \in Senders, m \in Msgs : Len(wire) < MaxWire /\ MsgOK(m) /\ MaySend /\ SendHandshake(n, p, m)
        /\ hist' = Append(hist, A("hs", n, p, m, Len(wire) + 1, "", IF got[n][p].rs THEN "norecord" ELSE "record")) /\ UNCHANGED seen
  \/ \E n, p \in Senders : Len(wire) < MaxWire /\ MaySend /\ SendWhoareyou(n, p)
        /\ hist' = Append(hist, A("way", n, p, "", Len(wire) + 1, "", IF knows[n][p] THEN "known" ELSE "unknownnode")) /\ UNCHANGED seen
  \/ \E i \in 1..Len(wire), t \in {"iv", "ver", "nonce", "src", "idn", "sig", "ct"} : Len(wire) < MaxWire /\ Recent(i) /\ MayTamper(i) /\ Tamper(i, t)
        /\ hist' = Append(hist, A("tamper", "", "", "", i, t, "")) /\ UNCHANGED seen
  \/ \E i \in 1..Len(wire), m \in Msgs : Len(wire) < MaxWire /\ Recent(i) /\ MsgOK(m) /\ MayTamper(i) /\ Forge(i, m)
        /\ hist' = Append(hist, A("forge", wire[i].dst, wire[i].src, m, i, "forged", "")) /\ UNCHANGED seen
  \/ \E i \in 1..Len(wire), to, from \in Node :
        /\ MayDeliver(i, to) /\ (from = wire[i].src \/ (Spoof /\ (~Guided \/ (i = Len(wire) /\ i % 4 = 0))))   \* guided: only the newest is spoofed
        /\ Deliver(i, to, from) /\ seen' = seen \cup {i}
        /\ hist' = Append(hist, A("deliver", to, from, wire[i].m, i, "", Outcome(to, wire[i], from)))
  \/ \E n \in Senders : HasState(n) /\ Reset(n) /\ hist' = Append(hist, A("reset", n, "", "", 0, "", "")) /\ UNCHANGED seen
  \/ \E n \in Senders : HasState(n) /\ Expire(n) /\ hist' = Append(hist, A("expire", n, "", "", 0, "", "")) /\ UNCHANGED seen

MCSpec == MCInit /\ [][MCNext]_<<vars, hist, seen>>

View == vars
Emit == IF Len(hist) = Depth + 1 THEN PrintT(<<"MBT", ToJson(hist)>>) ELSE TRUE
Bound == Len(hist) <= Depth + 1
=============================================================================
