---------------------------- MODULE MCSnapServe ----------------------------
(* Enumerates every request of a bounded universe over a concrete small world (read from   *)
(* the JSON file named by the environment variable WORLD, written by harness/cmd/c48 or    *)
(* checked in), checks the C48 statement on the specification's response and prints one    *)
(* CASE per request for execution on the real handlers.                                    *)
EXTENDS SnapServe, Json, IOUtils, TLC

W == JsonDeserialize(IOEnv.WORLD)
N == Len(W.acc)

VARIABLE c

RECURSIVE Cum(_, _)
Cum(szs, i) == IF i = 0 THEN 0 ELSE szs[i] + Cum(szs, i - 1)
BudgetsRaw(szs) == {0, 1, SoftLimit + 7} \cup UNION {{Cum(szs, i) - 1, Cum(szs, i), (Cum(szs, i) * 10) \div 11, (Cum(szs, i) * 10) \div 11 + 1} : i \in 1..Len(szs)}
Budgets(szs) == {b \in BudgetsRaw(szs) : b >= 0}

AccReqs == {[known |-> FALSE, origin |-> 0, limit |-> Top(N), bytes |-> 1000]}
           \cup {[known |-> TRUE, origin |-> o, limit |-> l, bytes |-> b] : o \in 0..Top(N), l \in 0..Top(N), b \in Budgets(AccSizes(W))}

WithSt == {a \in 1..N : Len(W.acc[a].st) > 0}
NoSt == {a \in 0..N : a = 0 \/ Len(W.acc[a].st) = 0}
AcctLists == {<<a>> : a \in 0..N} \cup {<<a, b>> : a, b \in WithSt}
             \cup {<<a, b>> : a \in WithSt, b \in NoSt} \cup {<<b, a>> : a \in WithSt, b \in NoSt}
             \cup {<<a, b, a>> : a, b \in WithSt} \cup {<< >>}
Concat(as) == IF Len(as) = 0 THEN << >> ELSE IF Len(as) = 1 THEN Slots(W, as[1])
              ELSE IF Len(as) = 2 THEN Slots(W, as[1]) \o Slots(W, as[2])
              ELSE Slots(W, as[1]) \o Slots(W, as[2]) \o Slots(W, as[3])
FirstN(as) == IF Len(as) = 0 THEN 0 ELSE Len(Slots(W, as[1]))
(* origin/limit positions: all of them for single-account requests, a few otherwise *)
Marks(as) == IF Len(as) <= 1 THEN (-1)..Top(FirstN(as)) ELSE {-1, 0, 2, 3, Top(FirstN(as))}
StorReqs == {[known |-> FALSE, accounts |-> <<1>>, origin |-> -1, limit |-> -1, bytes |-> 1000]}
            \cup UNION {{[known |-> TRUE, accounts |-> as, origin |-> o, limit |-> l, bytes |-> b] :
                          o \in Marks(as), l \in Marks(as), b \in Budgets(Concat(as))} : as \in AcctLists}

NC == Len(W.codes)
CodeRefs == (-1)..NC
HashLists == {<<a>> : a \in CodeRefs} \cup {<<a, b>> : a, b \in CodeRefs} \cup {<<1, 0, 2>>, <<2, -1, 1>>, <<0, 0, 1>>, <<2, 1, 2>>, << >>}
CodeSizes(hs) == [i \in 1..Len(hs) |-> CodeSize(W, hs[i])]
CodeReqs == UNION {{[hashes |-> hs, bytes |-> b] : b \in Budgets(CodeSizes(hs))} : hs \in HashLists}

Cases == {[kind |-> "account", req |-> r] : r \in AccReqs}
         \cup {[kind |-> "storage", req |-> r] : r \in StorReqs}
         \cup {[kind |-> "code", req |-> r] : r \in CodeReqs}

Resp(x) == CASE x.kind = "account" -> AccountRange(W, x.req)
             [] x.kind = "storage" -> StorageRanges(W, x.req)
             [] x.kind = "code" -> [codes |-> ByteCodes(W, x.req)]

Init == c \in Cases
Next == UNCHANGED c
Spec == Init /\ [][Next]_c

ServeOK == CASE c.kind = "account" -> AccountRangeOK(W, c.req)
             [] c.kind = "storage" -> StorageRangesOK(W, c.req)
             [] c.kind = "code" -> ByteCodesOK(W, c.req)
Emit == PrintT(<<"CASE", ToJson([kind |-> c.kind, req |-> c.req, resp |-> Resp(c)])>>)
=============================================================================
