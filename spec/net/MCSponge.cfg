SPECIFICATION MCSpec
CONSTANTS Rate = 4
          OutLen = 2
          WSizes = {0, 1, 2, 3, 4, 5, 6, 7, 8, 9}
          RSizes = {0, 1, 2, 3, 4, 5, 9}
          MaxMsg = 13
          MaxOut = 13
          HistLen = 1000
INVARIANTS TypeOK AbsorbedRight SqueezingRight SumIsDigest ReadIsStream NoCollision
VIEW View
CHECK_DEADLOCK FALSE
