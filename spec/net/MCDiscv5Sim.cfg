SPECIFICATION MCSpec
CONSTANTS Node = {"A", "B", "C"}
          Msgs = {"ping", "pong", "findnode", "nodes", "talkreq", "talkresp"}
          MaxWire = 14
          Senders = {"A", "B"}
          Guided = TRUE
          Spoof = TRUE
          Depth = 34
INVARIANTS Authentic CurrentSession ResponderKeys KeysPrivate ChallengeOwn
CONSTRAINT Emit
CHECK_DEADLOCK FALSE
