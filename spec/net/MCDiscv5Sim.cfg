SPECIFICATION MCSpec
CONSTANTS Node = {"A", "B", "C"}
          Msgs = {"ping", "pong", "findnode", "nodes", "talkreq", "talkresp"}
          MaxWire = 12
          Senders = {"A", "B"}
          Guided = TRUE
          Spoof = TRUE
          Depth = 30
INVARIANTS Authentic CurrentSession ResponderKeys KeysPrivate ChallengeOwn
CONSTRAINT Emit
CHECK_DEADLOCK FALSE
