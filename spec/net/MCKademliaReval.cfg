SPECIFICATION MCSpec
CONSTANTS B = 2
          R = 1
          BIPL = 1
          TIPL = 2
          MaxFails = 2
          NB = 3
          LowBits = 1
          Ids = {4, 5, 6}
          MaxChecks = 1
          MaxFound = 1
          WithReval = TRUE
          WithTrack = FALSE
INVARIANTS BucketCap DistinctIds RightBucket NoSelf HasIP IPLimits CountersExact ReplOnlyWhenFull PendingSound ClosestOK
CONSTRAINT Bounded
CHECK_DEADLOCK FALSE
