SPECIFICATION RSpec
CONSTANTS NS = 1
          NC = 2
          CapMod = 2
          MaxSends = 2
          MaxSubs = 1
          NCallers = 2
          Senders <- MCSenders
          Chans <- MCChans
          Cap <- MCCap
INVARIANTS TypeOK NoPanic LockOwner NoDuplicates Registered InactiveDone AtMostOnce ExactlyOnce CountReturned InSendOrder NoLateDelivery OnlySubscribed
CHECK_DEADLOCK FALSE
