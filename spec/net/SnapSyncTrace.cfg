SPECIFICATION TraceSpec
INVARIANTS StoredVerified StoredInWorld
POSTCONDITION TraceAccepted
CHECK_DEADLOCK FALSE
