----------------------------- MODULE MCFeedSched -----------------------------
(* Schedules of Feed.tla at blocking-point granularity, for replay on the real code (R).    *)
(*                                                                                          *)
(* The harness runs the real feed inside a testing/synctest bubble: it performs one         *)
(* environment step (call Subscribe, start Unsubscribe / Send in a goroutine, let the       *)
(* receiver of a channel start one receive) and then waits until every goroutine is         *)
(* durably blocked.  The matching model semantics: internal steps and returns have priority *)
(* over calls ("run to quiescence").  TLC prints every transition of this graph; the driver *)
(* folds the internal steps into macro steps (quiescent state, call) -> set of quiescent    *)
(* states and executes call sequences covering every macro step, comparing the observable   *)
(* part of the state (Obs) after each of them.                                              *)
EXTENDS MCFeed, Json

VARIABLE act

Progress == Internal \/ Returns

SchedNext ==
  \/ ENABLED Progress /\ Progress /\ act' = [op |-> "tau", p |-> 0]
  \/ ~ENABLED Progress /\
       \/ \E c \in Chans :
            \/ nsubs[c] < MaxSubs /\ SubBegin(c) /\ act' = [op |-> "Sub", p |-> c]
            \/ UnsubBegin(c, 1) /\ act' = [op |-> "Unsub", p |-> c]
            \/ RecvBegin(c) /\ act' = [op |-> "Recv", p |-> c]
       \/ \E s \in Senders : scount[s] < MaxSends /\ SendBegin(s, Val(s, scount[s] + 1)) /\ act' = [op |-> "Send", p |-> s]

SchedInit == Init /\ act = [op |-> "init", p |-> 0]
SchedSpec == SchedInit /\ [][SchedNext]_<<vars, act>>

Received(c) == SubSeq(dlog[c], 1, Len(dlog[c]) - Len(buf[c]))

(* what the harness can observe of the real feed at a quiescent point *)
Obs == [ inbox  |-> Len(inbox),
         cases  |-> Len(cases),
         sender |-> [s \in Senders |-> [busy |-> spc[s] # "idle", count |-> scount[s], n |-> IF spc[s] = "idle" THEN nsent[s] ELSE -1]],
         chan   |-> [c \in Chans |-> [sub |-> cst[c], waiting |-> rst[c] = "waiting", got |-> Received(c)]] ]

(* identity of a model state for the edge list: everything the guards depend on *)
Key == <<inbox, cases, lock, spc, sval, nact, nsent, scount, cst, nsubs, ucall, buf, rst, dlog>>

SchedView == <<Key, late, panic, whole, order>>

(* ACTION_CONSTRAINT: prints every transition once; INVARIANT StateOut: prints every state once *)
Edge == PrintT(<<"EDGE", ToJson([from |-> Key, act |-> act', to |-> Key'])>>)
StateOut == PrintT(<<"STATE", ToJson([key |-> Key, obs |-> Obs, quiet |-> ~ENABLED Progress])>>)
=============================================================================
