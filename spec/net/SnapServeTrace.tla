-------------------------- MODULE SnapServeTrace --------------------------
(* Trace validation for SnapServe.tla: requests executed on the real snap Service*Query    *)
(* functions, recorded in rank-compressed form (harness/cmd/c48 -mode record).  A "world"  *)
(* event sets the abstract world; every following request event must carry exactly the     *)
(* response the specification computes, and the specification's C48 predicates must hold   *)
(* for it.                                                                                 *)
EXTENDS SnapServe, Json, IOUtils, TLC

Trace == ndJsonDeserialize(IOEnv.TRACE)
VARIABLES l, w
Ev == Trace[l]

Step(A) == l <= Len(Trace) /\ A /\ l' = l + 1

TWorld   == Step(Ev.op = "world" /\ w' = Ev.w)
TAccount == Step(Ev.op = "account" /\ AccountRange(w, Ev.req) = Ev.resp /\ AccountRangeOK(w, Ev.req) /\ UNCHANGED w)
TStorage == Step(Ev.op = "storage" /\ LET r == StorageRanges(w, Ev.req) IN
                  /\ r.slots = Ev.resp.slots
                  /\ Ev.resp.proof = (r.proof /\ ~(r.slots = << >> /\ Ev.first = 0))   \* a proof over an empty trie has no nodes
                  /\ StorageRangesOK(w, Ev.req) /\ UNCHANGED w)
TCode    == Step(Ev.op = "code" /\ ByteCodes(w, Ev.req) = Ev.resp /\ ByteCodesOK(w, Ev.req) /\ UNCHANGED w)

TraceInit == l = 1 /\ w = [acc |-> << >>, codes |-> << >>]
TraceNext == TWorld \/ TAccount \/ TStorage \/ TCode
TraceSpec == TraceInit /\ [][TraceNext]_<<l, w>>

TraceAccepted == TLCGet("stats").diameter - 1 = Len(Trace)
=============================================================================
