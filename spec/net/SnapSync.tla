------------------------------ MODULE SnapSync ------------------------------
(* Snap sync, client side (go-ethereum eth/protocols/snap/sync.go): reconstruction of a    *)
(* target state from range responses of untrusted peers.                                   *)
(*                                                                                         *)
(* The target world is a set of key spaces: "acc" (accounts, ranks 1..N["acc"]) and one    *)
(* storage space per contract; items are <<space, rank>>.  Code blobs and healed trie      *)
(* nodes are items of the hash-addressed spaces "code" and "node" (self-verifying).        *)
(* An account space is split into range tasks [next, last]; a task issues requests         *)
(* [task, origin = next]; a peer answers with any behaviour:                               *)
(*    honest / truncate   a genuine contiguous run from the origin with valid edge proofs  *)
(*    badproof / baddata  something that is not such a run                                 *)
(*    empty               refusal (the peer is not asked again in this cycle)              *)
(*    drop / delay        no answer before the timeout (a late answer is ignored)          *)
(* A response is accepted iff it verifies (trie.VerifyRangeProof), i.e. iff it is genuine; *)
(* accepted items become `verified`, the task's `next` moves past the last accepted key,   *)
(* and verified items are persisted (`stored`) at some later point.  A restart forgets     *)
(* requests in flight and verified-but-unflushed items, and resumes from the persisted     *)
(* progress.                                                                               *)
EXTENDS SnapSyncOps, Sequences

CONSTANTS Spaces,     \* range spaces, e.g. {"acc", "s1"}
          N,          \* space -> number of keys
          Tasks,      \* task ids
          TaskSpace,  \* task -> space
          TaskFirst,  \* task -> first rank of its range
          TaskLast,   \* task -> last rank of its range
          HashItems,  \* self-verifying items (codes, trie nodes to heal)
          Peers

Items == UNION {{<<s, k>> : k \in 1..N[s]} : s \in Spaces} \cup HashItems

VARIABLES next,      \* task -> next rank to fetch (persisted progress)
          inflight,  \* set of [id, task, origin, peer]
          verified,  \* items accepted from a verifying response, not yet flushed
          stored,    \* items persisted in the local database
          refused,   \* peers that answered empty in this cycle
          nid,       \* request id counter
          done
vars == <<next, inflight, verified, stored, refused, nid, done>>

Init == /\ next = [t \in Tasks |-> TaskFirst[t]]
        /\ inflight = {} /\ verified = {} /\ stored = {} /\ refused = {} /\ nid = 1 /\ done = FALSE

TaskOpen(t) == next[t] <= TaskLast[t]
Busy(p) == \E r \in inflight : r.peer = p

(* assignAccountTasks / assignStorageTasks: one request per idle peer and open task *)
Request(t, p) ==
  /\ ~done /\ TaskOpen(t) /\ p \notin refused /\ ~Busy(p)
  /\ ~\E r \in inflight : r.task = t
  /\ inflight' = inflight \cup {[id |-> nid, task |-> t, space |-> TaskSpace[t], origin |-> next[t], last |-> TaskLast[t], peer |-> p]}
  /\ nid' = nid + 1
  /\ UNCHANGED <<next, verified, stored, refused, done>>

(* a genuine response to r: the run origin..upto (upto >= origin - 1; empty run only when   *)
(* nothing is left in the space, proven by the edge proof)                                  *)
Genuine(r, upto) == GenuineN(r, upto, N[r.space])

(* OnAccounts / OnStorage with a verifying response: processed, task forwarded.  Keys       *)
(* beyond the task's last rank are verified too (the response may overshoot) but ignored.   *)
Accept(r, upto) ==
  /\ r \in inflight /\ Genuine(r, upto)
  /\ verified' = verified \cup Run(r, upto)
  /\ next' = [next EXCEPT ![r.task] = NextAfter(r, upto, N[r.space])]
  /\ inflight' = inflight \ {r}
  /\ UNCHANGED <<stored, refused, nid, done>>

(* a response that does not verify (bad proof, bad data, gap, wrong order): request reverted *)
Reject(r) == /\ r \in inflight /\ inflight' = inflight \ {r}
             /\ UNCHANGED <<next, verified, stored, refused, nid, done>>
(* refusal: peer marked stateless for this cycle *)
Refuse(r) == /\ r \in inflight /\ inflight' = inflight \ {r} /\ refused' = refused \cup {r.peer}
             /\ UNCHANGED <<next, verified, stored, nid, done>>
(* timeout or peer drop: request reverted; a late answer finds no request and is ignored *)
Timeout(r) == Reject(r)

(* hash-addressed items: accepted iff the blob hashes to the requested hash *)
AcceptHash(h) == /\ h \in HashItems /\ ~done /\ verified' = verified \cup {h}
                 /\ UNCHANGED <<next, inflight, stored, refused, nid, done>>

(* batch flushes: verified items reach the database in any order *)
Flush(i) == /\ i \in verified \ stored /\ stored' = stored \cup {i}
            /\ UNCHANGED <<next, inflight, verified, refused, nid, done>>

(* restart (process exit, cancel + new syncer on the same database): progress and flat      *)
(* state written so far survive (Sync's deferred save flushes them); requests do not         *)
Restart == /\ ~done /\ stored' = stored \cup verified /\ inflight' = {} /\ refused' = {}
           /\ UNCHANGED <<next, verified, nid, done>>

Finish == /\ ~done /\ \A t \in Tasks : ~TaskOpen(t) /\ HashItems \subseteq verified
          /\ stored' = stored \cup verified /\ done' = TRUE
          /\ UNCHANGED <<next, inflight, verified, refused, nid>>

Next == \/ \E t \in Tasks, p \in Peers : Request(t, p)
        \/ \E r \in inflight : (\E u \in 0..N[r.space] : Accept(r, u)) \/ Reject(r) \/ Refuse(r)
        \/ \E h \in HashItems : AcceptHash(h)
        \/ \E i \in verified : Flush(i)
        \/ Restart \/ Finish
Spec == Init /\ [][Next]_vars

(* ------------------------------ C47 ----------------------------------------------------- *)
(* nothing unverified is ever stored *)
StoredVerified == stored \subseteq verified
(* progress never runs ahead of what has been verified: everything below next is verified *)
ProgressSound == \A t \in Tasks : \A k \in TaskFirst[t]..(next[t] - 1) :
                    k <= TaskLast[t] => <<TaskSpace[t], k>> \in verified
(* on completion the local state is exactly the target *)
Complete == done => stored = Items
=============================================================================
