SPECIFICATION Spec
INVARIANTS ServeOK
CHECK_DEADLOCK FALSE
