SPECIFICATION TraceSpec
CONSTANTS Rate = 136
          OutLen = 32
          WSizes = {}
          RSizes = {}
          MaxMsg = 1000000
          MaxOut = 1000000
INVARIANTS TypeOK AbsorbedRight SqueezingRight SumIsDigest ReadIsStream NoCollision
POSTCONDITION TraceAccepted
CHECK_DEADLOCK FALSE
