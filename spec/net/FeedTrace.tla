------------------------------ MODULE FeedTrace ------------------------------
(* Trace validation for Feed.tla (property C50).                                            *)
(*                                                                                          *)
(* The harness (harness/cmd/c50 -mode record) runs goroutines against a real event.Feed /   *)
(* event.FeedOf[int] and logs the CALL and the RETURN of every public operation and of      *)
(* every channel receive, each stamped with a global atomic sequence number (the trace is   *)
(* the events sorted by that number).  The internal steps of feed.go (InboxAdd, UnsubInbox, *)
(* UnsubMiss, UnsubLocked, Handshake, Acquire, Merge, Deliver, Release) are not logged:     *)
(* they happen somewhere between the call and the return of their operation.  TLC searches  *)
(* for an interleaving of these silent steps that explains the logged history              *)
(* (linearizability-style check).  Since Feed.tla satisfies C50 on every behaviour, a       *)
(* history that violates C50 (value delivered twice / not at all to a subscription active   *)
(* for the whole send, wrong Send result, different orders on two channels, delivery after  *)
(* Unsubscribe returned) has no explanation and is rejected.                                *)
(*                                                                                          *)
(* Line 1 of the trace: [op |-> "config", ns, nc, caps]; "reset" separates runs.            *)
EXTENDS Feed, Json, IOUtils

Trace == ndJsonDeserialize(IOEnv.TRACE)

TSenders == 1..Trace[1].ns
TChans   == 1..Trace[1].nc
TCap     == [c \in TChans |-> Trace[1].caps[c]]

VARIABLE l      \* next line of the trace to explain

Ev == Trace[l]

Logged(A) == l <= Len(Trace) /\ A /\ l' = l + 1
Silent(A) == l <= Len(Trace) /\ A /\ l' = l

AllQuiet ==
  /\ lock = 0
  /\ \A s \in Senders : spc[s] = "idle"
  /\ \A c \in Chans : cst[c] \in {"idle", "active", "unsubbed"} /\ rst[c] = "idle" /\ buf[c] = <<>>
  /\ \A c \in Chans : \A x \in Callers : ucall[c][x] # "called"

TReset == Logged(Ev.op = "reset" /\ AllQuiet /\
  /\ inbox' = <<>> /\ cases' = <<>> /\ lock' = 0
  /\ spc' = [s \in Senders |-> "idle"] /\ sval' = [s \in Senders |-> 0]
  /\ nact' = [s \in Senders |-> 0] /\ nsent' = [s \in Senders |-> 0]
  /\ scount' = [s \in Senders |-> 0]
  /\ cst' = [c \in Chans |-> "idle"] /\ nsubs' = [c \in Chans |-> 0]
  /\ ucall' = [c \in Chans |-> [x \in Callers |-> "idle"]]
  /\ buf' = [c \in Chans |-> <<>>] /\ rst' = [c \in Chans |-> "idle"]
  /\ dlog' = [c \in Chans |-> <<>>] /\ order' = <<>>
  /\ whole' = [s \in Senders |-> {}] /\ late' = FALSE /\ panic' = FALSE)

TLogged ==
  \/ Logged(Ev.op = "SubBegin"   /\ SubBegin(Ev.p))
  \/ Logged(Ev.op = "SubEnd"     /\ SubEnd(Ev.p))
  \/ Logged(Ev.op = "UnsubBegin" /\ UnsubBegin(Ev.p, Ev.n))     \* n = which of the callers of this subscription
  \/ Logged(Ev.op = "UnsubEnd"   /\ UnsubEnd(Ev.p, Ev.n))
  \/ Logged(Ev.op = "SendBegin"  /\ SendBegin(Ev.p, Ev.v))
  \/ Logged(Ev.op = "SendEnd"    /\ sval[Ev.p] = Ev.v /\ nsent[Ev.p] = Ev.n /\ SendEnd(Ev.p))
  \/ Logged(Ev.op = "RecvBegin"  /\ RecvBegin(Ev.p))
  \/ Logged(Ev.op = "RecvEnd"    /\ buf[Ev.p] # <<>> /\ Head(buf[Ev.p]) = Ev.v /\ RecvEnd(Ev.p))
  \/ Logged(Ev.op = "RecvAbort"  /\ RecvAbort(Ev.p))
  \/ TReset

TraceInit == Init /\ l = 2

(* Unreduced search: every internal step of Feed.tla is a possible silent step.             *)
TraceNextFull == TLogged \/ Silent(Internal)
TraceSpecFull == TraceInit /\ [][TraceNextFull]_<<vars, l>>

(* Reduced search (same set of explainable histories, fewer interleavings):                 *)
(*  - UnsubMiss(c) is a right mover (once c is not in the inbox it never re-enters it       *)
(*    before its Unsubscribe returns), so it is fused with the select outcome that follows; *)
(*  - Acquire(s) is a right mover up to Merge(s) (nothing can need the lock to be free or   *)
(*    held by s in between), so Acquire and Merge are fused;                                *)
(*  - Release(s) is a left mover that nothing can disable, so it is taken as soon as it is  *)
(*    enabled.                                                                              *)
(* FeedTraceFull.cfg validates with the unreduced relation as a cross-check.                *)
AcquireMerge(s) == spc[s] = "lock" /\ lock = 0 /\ lock' = s /\ MergeBody(s, "lock")
RInternal ==
  \/ \E c \in Chans : InboxAdd(c) \/ BodyStart(c) \/ UnsubInbox(c)
  \/ \E c \in Chans : Find(inbox, c) = 0 /\ UnsubLockedAt(c, "unsubCheck")
  \/ \E s \in Senders, c \in Chans : Find(inbox, c) = 0 /\ HandshakeAt(s, c, "unsubCheck")
  \/ \E s \in Senders : AcquireMerge(s)
  \/ \E s \in Senders : \E i \in 1..nact[s] : Deliver(s, i)
ReleaseNow == \E s \in Senders : Release(s)
TraceNext == IF ENABLED ReleaseNow THEN Silent(ReleaseNow) ELSE (TLogged \/ Silent(RInternal))
TraceSpec == TraceInit /\ [][TraceNext]_<<vars, l>>

(* high-water mark = number of trace lines explained on some branch of the search           *)
ASSUME TLCSet(1, 1)
HWM == IF l - 1 > TLCGet(1) THEN TLCSet(1, l - 1) /\ PrintT(<<"HWM", ToJson(l - 1)>>) ELSE TRUE
(* depth-first validation (StateDeque queue): stop as soon as one complete explanation exists *)
HWMExit == HWM /\ (l = Len(Trace) + 1 => TLCSet("exit", TRUE))
=============================================================================
