------------------------------ MODULE MCSponge ------------------------------
(* Model-checking wrapper of Sponge.                                                       *)
(*  MCSponge.cfg          Rate = 4: every interleaving of Write/Sum/Read/Reset over all     *)
(*                        message lengths 0..3*Rate+1 and all splittings (exhaustive).      *)
(*  MCSpongeHist.cfg      Rate = 136: every call sequence of bounded length over the write  *)
(*                        sizes around the block boundaries, printed as behaviours (MBT)    *)
(*                        for replay on the real sponge; invariants checked on the way.     *)
(*  MCSpongeSim.cfg       Rate = 136: longer random behaviours (TLC -simulate).             *)
EXTENDS Sponge, Json

CONSTANT HistLen

VARIABLE hist

Obs(op, k) == [op |-> op, k |-> k, mlen |-> msgLen', n |-> n', squeezing |-> phase' = "squeezing", from |-> squeezed' - (IF op = "Read" THEN k ELSE 0)]

MCInit == Init /\ hist = << >>
MCNext ==
  /\ Len(hist) < HistLen
  /\ \/ \E k \in WSizes : Write(k) /\ hist' = Append(hist, Obs("Write", k))
     \/ \E k \in RSizes : Read(k)  /\ hist' = Append(hist, Obs("Read", k))
     \/ Sum   /\ hist' = Append(hist, Obs("Sum", 0))
     \/ Reset /\ hist' = Append(hist, Obs("Reset", 0))
     \/ Clobber /\ hist' = Append(hist, Obs("Clobber", 0))
MCSpec == MCInit /\ [][MCNext]_<< vars, hist >>

(* exhaustive configuration: the history is not part of the state *)
View == vars

(* behaviours: printed when complete *)
EmitHist == IF Len(hist) = HistLen THEN PrintT(<< "MBT", ToJson(hist) >>) ELSE TRUE

(* write/read sizes around the block boundaries of Keccak-256 *)
W136 == {0, 1, 31, 32, 135, 136, 137, 271, 272, 273, 408, 687}
R136 == {0, 1, 32, 136, 137, 300}
W136Sim == {0, 1, 2, 31, 32, 33, 64, 100, 134, 135, 136, 137, 138, 200, 271, 272, 273, 407, 408, 409, 544, 687}
R136Sim == {0, 1, 31, 32, 33, 104, 135, 136, 137, 272, 300}
=============================================================================
