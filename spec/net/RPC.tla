-------------------------------- MODULE RPC --------------------------------
(***************************************************************************)
(* Server side of go-ethereum's JSON-RPC message handling (rpc/handler.go, *)
(* rpc/subscription.go) for ONE connection, as a state machine shaped like *)
(* the code.                                                               *)
(*                                                                         *)
(* Every top-level message read from the connection gets its own call      *)
(* process p (handler.startCallProc).  A batch is processed by             *)
(* handleBatch: batchCallBuffer {calls, resp, wrote}, the loop             *)
(* nextCall -> handleCallMsg -> pushResponse (+ response size limit), the  *)
(* timeout timer (time.AfterFunc: cancel, respondWithError) racing with    *)
(* the loop, timer.Stop, the single write, Notifier.activate.  A single    *)
(* message is processed by handleNonBatchCall with its sync.Once           *)
(* ("responded").  Methods of the test service are harness code: "blk"     *)
(* blocks until the environment releases it (Release), which is how        *)
(* "returns late" / "is running when the timer fires" schedules arise.     *)
(*                                                                         *)
(* Mode "conn": persistent connection (ServeCodec): several messages, call *)
(* processes run concurrently, subscriptions allowed, no timeout.          *)
(* Mode "http": one message per handler, timeout possible, subscriptions   *)
(* refused.                                                                *)
(*                                                                         *)
(* Property C49 = invariants AtMostOnce, BatchOnce, NotesAfterResponse     *)
(* (always) and ExactlyOnce (when everything has finished).                *)
(*                                                                         *)
(* Variants (constants AsCoded, Fixed):                                    *)
(*  AsCoded = FALSE          idealisation: the timeout cancels and         *)
(*                           responds in one atomic step;                  *)
(*  AsCoded /\ Fixed         handler.go as it is now: the timer function   *)
(*                           first calls cancel() and then (separately)    *)
(*                           respondWithError; the tail of handleBatch     *)
(*                           calls respondWithError(timeout) instead of    *)
(*                           write when the batch context is done; the     *)
(*                           timer of a single NOTIFICATION writes nothing.*)
(*                           TLC checks all invariants on it; it is the    *)
(*                           oracle for the gated schedule replay and V.   *)
(*  AsCoded /\ ~Fixed        handler.go before the fixes of findings       *)
(*                           C49-F1 (timed-out single notification was     *)
(*                           answered) and C49-F2 (loop noticed the        *)
(*                           cancellation before the timer took the buffer *)
(*                           lock and wrote the partial batch: remaining   *)
(*                           calls never answered).  Kept because TLC's    *)
(*                           counterexamples document the findings         *)
(*                           (MCRPCAsCoded.cfg, NOTES.md).                 *)
(***************************************************************************)
EXTENDS Integers, Sequences, FiniteSets, TLC

CONSTANTS AsCoded,       \* BOOLEAN, see above
          Fixed,         \* BOOLEAN (only with AsCoded): handler.go with the repairs of F1 and F2 -- the timer
                         \* function skips the write for a notification, and the tail of handleBatch calls
                         \* respondWithError(timeout) instead of write when the batch context is done
          Mode,          \* "conn" | "http"
          Messages,      \* the set of top-level messages the environment may send
          MaxMsgs,       \* number of messages on the connection
          HasTimeout,    \* BOOLEAN: request context carries a timeout (http only)
          BatchLimit,    \* max entries per batch, 0 = unlimited
          SizeLimit,     \* max accumulated response bytes per batch, 0 = unlimited
          MaxNotes,      \* notifications sent by the service after the subscribe call returned
          SzRet, SzBig, SzErr, SzInv   \* len(Result)+len(Error) of the responses of the test service

(* entry  = [k |-> "call"|"notif"|"inv"|"resp", id |-> 0.., m |-> "ret"|"err"|"big"|"blk"|"cblk"|"sub"|"nsub"|"-"] *)
(* "blk" blocks until the environment releases it and ignores its context, "cblk" blocks until its       *)
(* context is cancelled.                                                                                 *)
(* message = [batch |-> BOOLEAN, items |-> Seq(entry)]   (non-batch: exactly one item)                 *)

VARIABLES nrecv, msg,            \* messages read so far
          pc, calls, cur, resp, wrote, cancelled, timer, bytes, ans,   \* per call process
          subs,                  \* notifiers in creation order: [p, activated, buf, sent]
          out                    \* everything written to the connection, in order

vars == <<nrecv, msg, pc, calls, cur, resp, wrote, cancelled, timer, bytes, ans, subs, out>>

Procs == 1..MaxMsgs
NoEntry == [k |-> "-", id |-> 0, m |-> "-"]
NoResp  == [id |-> 0, kind |-> "-", sub |-> 0]

R(id, kind)        == [id |-> id, kind |-> kind, sub |-> 0]
OSingle(p, r)      == [t |-> "single", p |-> p, rs |-> <<r>>, sub |-> 0, k |-> 0]
OBatch(p, rs)      == [t |-> "batch",  p |-> p, rs |-> rs,    sub |-> 0, k |-> 0]
ONote(j, k)        == [t |-> "note",   p |-> 0, rs |-> <<>>,  sub |-> j, k |-> k]

IsNotif(e)  == e.k = "notif"
Answered(e) == e.k \in {"call", "inv"}     \* entries that get a response object

SeqMap(f(_), s) == [i \in 1..Len(s) |-> f(s[i])]

Init ==
  /\ nrecv = 0 /\ msg = [p \in Procs |-> [batch |-> FALSE, items |-> <<>>]]
  /\ pc = [p \in Procs |-> "none"] /\ calls = [p \in Procs |-> <<>>] /\ cur = [p \in Procs |-> NoEntry]
  /\ resp = [p \in Procs |-> <<>>] /\ wrote = [p \in Procs |-> FALSE]
  /\ cancelled = [p \in Procs |-> FALSE] /\ timer = [p \in Procs |-> "off"]
  /\ bytes = [p \in Procs |-> 0] /\ ans = [p \in Procs |-> NoResp]
  /\ subs = <<>> /\ out = <<>>

-----------------------------------------------------------------------------
(* dispatch loop: handleBatch / handleMsg up to startCallProc (runs in the read loop) *)
(* handleResponses drops responses to requests this side never sent, and notifications whose method name ends in
   "_subscription" (results of client-side subscriptions; none is registered here).  A CALL with such a name
   ("nsub") is an ordinary call. *)
NotResp(e) == ~(e.k = "resp" \/ (e.k = "notif" /\ e.m = "nsub"))
Recv(m) ==
  /\ nrecv < MaxMsgs
  /\ LET p == nrecv + 1
         valid == Len(m.items) > 0 /\ (BatchLimit = 0 \/ Len(m.items) <= BatchLimit)
         cs == SelectSeq(m.items, NotResp)      \* handleResponses: unsolicited responses are dropped
     IN /\ nrecv' = p
        /\ msg' = [msg EXCEPT ![p] = m]
        /\ IF m.batch
             THEN IF valid /\ cs = <<>>
                    THEN pc' = [pc EXCEPT ![p] = "done"] /\ calls' = calls          \* nothing to dispatch
                    ELSE pc' = [pc EXCEPT ![p] = "start"] /\ calls' = [calls EXCEPT ![p] = IF valid THEN cs ELSE <<>>]
             ELSE IF cs = <<>>
                    THEN pc' = [pc EXCEPT ![p] = "done"] /\ calls' = calls
                    ELSE pc' = [pc EXCEPT ![p] = "start"] /\ calls' = [calls EXCEPT ![p] = cs]
  /\ UNCHANGED <<cur, resp, wrote, cancelled, timer, bytes, ans, subs, out>>

(* first statements of the call process *)
FirstCallId(items) == LET cs == SelectSeq(items, LAMBDA e : e.k = "call") IN IF cs = <<>> THEN 0 ELSE cs[1].id
Start(p) ==
  /\ pc[p] = "start"
  /\ LET m == msg[p] IN
     IF m.batch /\ Len(m.items) = 0 THEN            \* "empty batch"
          /\ out' = Append(out, OSingle(p, R(0, "invalid"))) /\ pc' = [pc EXCEPT ![p] = "done"] /\ timer' = timer
     ELSE IF m.batch /\ BatchLimit # 0 /\ Len(m.items) > BatchLimit THEN   \* respondWithBatchTooLarge
          /\ out' = Append(out, OBatch(p, <<R(FirstCallId(m.items), "invalid")>>))
          /\ pc' = [pc EXCEPT ![p] = "done"] /\ timer' = timer
     ELSE /\ out' = out /\ pc' = [pc EXCEPT ![p] = "loop"]
          /\ timer' = [timer EXCEPT ![p] = IF HasTimeout THEN "armed" ELSE "off"]
  /\ UNCHANGED <<nrecv, msg, calls, cur, resp, wrote, cancelled, bytes, ans, subs>>

(* handleCallMsg for an entry that does not block: the response object (NoResp never happens) *)
Immediate(e, j) ==
  CASE e.k = "inv"                  -> R(e.id, "invalid")
    [] e.m = "ret"                  -> R(e.id, "ok")
    [] e.m = "nsub"                 -> R(e.id, "ok")
    [] e.m = "big"                  -> R(e.id, "ok")
    [] e.m \in {"blk", "cblk"}       -> R(e.id, "ok")
    [] e.m = "err"                  -> R(e.id, "err")
    [] e.m = "sub" /\ Mode = "http" -> R(e.id, "err")            \* ErrNotificationsUnsupported
    [] e.m = "sub"                  -> [id |-> e.id, kind |-> "ok", sub |-> j]
    [] OTHER                        -> R(e.id, "err")
SizeOf(e, a) ==
  CASE a.kind = "invalid" -> SzInv
    [] a.kind = "err"     -> SzErr
    [] e.m = "big"        -> SzBig
    [] OTHER              -> SzRet

(* batchCallBuffer.pushResponse followed by the response size check of handleBatch *)
TooLargeFill(cs) == SeqMap(LAMBDA e : R(e.id, "toolarge"), SelectSeq(cs, Answered))
PushBatch(p, e, a) ==
  LET r1   == IF IsNotif(e) THEN resp[p] ELSE Append(resp[p], a)
      rest == Tail(calls[p])
      b1   == IF IsNotif(e) \/ SizeLimit = 0 THEN bytes[p] ELSE bytes[p] + SizeOf(e, a)
      over == ~IsNotif(e) /\ SizeLimit # 0 /\ b1 > SizeLimit
      r2   == IF over THEN r1 \o TooLargeFill(rest) ELSE r1
  IN /\ calls' = [calls EXCEPT ![p] = rest]
     /\ bytes' = [bytes EXCEPT ![p] = b1]
     /\ resp' = [resp EXCEPT ![p] = r2]
     /\ IF over
          THEN /\ pc' = [pc EXCEPT ![p] = "fin1"]                       \* break
               /\ wrote' = [wrote EXCEPT ![p] = TRUE]                   \* respondWithError -> doWrite
               /\ out' = IF ~wrote[p] /\ r2 # <<>> THEN Append(out, OBatch(p, r2)) ELSE out
          ELSE /\ pc' = [pc EXCEPT ![p] = "loop"] /\ wrote' = wrote /\ out' = out
     /\ ans' = ans

Finish(p, e, a, newsubs) ==     \* the entry e of process p has been handled with answer a
  /\ subs' = newsubs
  /\ cur' = [cur EXCEPT ![p] = NoEntry]
  /\ IF msg[p].batch THEN PushBatch(p, e, a)
     ELSE /\ ans' = [ans EXCEPT ![p] = a] /\ pc' = [pc EXCEPT ![p] = "fin1"]
          /\ UNCHANGED <<calls, bytes, resp, wrote, out>>

(* the loop of handleBatch (once for a single message): take the next entry and run it *)
Loop(p) ==
  /\ pc[p] = "loop"
  /\ IF msg[p].batch /\ (cancelled[p] \/ calls[p] = <<>>)
       THEN /\ pc' = [pc EXCEPT ![p] = "fin1"]
            /\ UNCHANGED <<calls, cur, resp, wrote, bytes, ans, subs, out>>
       ELSE LET e == calls[p][1] IN
            IF e.k # "inv" /\ e.m \in {"blk", "cblk"}
              THEN /\ pc' = [pc EXCEPT ![p] = IF e.m = "blk" THEN "blocked" ELSE "cblocked"] /\ cur' = [cur EXCEPT ![p] = e]
                   /\ UNCHANGED <<calls, resp, wrote, bytes, ans, subs, out>>
              ELSE LET mksub == e.k # "inv" /\ e.m = "sub" /\ Mode # "http"
                       j == Len(subs) + 1
                       ns == IF mksub THEN Append(subs, [p |-> p, activated |-> FALSE, buf |-> <<1>>, sent |-> 1]) ELSE subs
                   IN Finish(p, e, Immediate(e, j), ns)
  /\ UNCHANGED <<nrecv, msg, cancelled, timer>>

Release(p) ==         \* environment: the blocking method of p is allowed to return
  /\ pc[p] = "blocked"
  /\ pc' = [pc EXCEPT ![p] = "ret"]
  /\ UNCHANGED <<nrecv, msg, calls, cur, resp, wrote, cancelled, timer, bytes, ans, subs, out>>

CtxReturn(p) ==       \* a cancellation-aware method ("cblk": <-ctx.Done()) returns once its context is cancelled
  /\ pc[p] = "cblocked" /\ cancelled[p]
  /\ pc' = [pc EXCEPT ![p] = "ret"]
  /\ UNCHANGED <<nrecv, msg, calls, cur, resp, wrote, cancelled, timer, bytes, ans, subs, out>>

Return(p) ==          \* the method returned: build the answer and push it
  /\ pc[p] = "ret"
  /\ Finish(p, cur[p], Immediate(cur[p], 0), subs)
  /\ UNCHANGED <<nrecv, msg, cancelled, timer>>

TimeoutFill(cs) == SeqMap(LAMBDA e : R(e.id, "timeout"), SelectSeq(cs, Answered))

(* tail of handleBatch / handleNonBatchCall *)
Fin1(p) ==            \* timer.Stop(); h.addSubscriptions(cp.notifiers)
  /\ pc[p] = "fin1"
  /\ timer' = [timer EXCEPT ![p] = IF @ = "armed" THEN "stopped" ELSE @]
  /\ pc' = [pc EXCEPT ![p] = "fin2"]
  /\ UNCHANGED <<nrecv, msg, calls, cur, resp, wrote, cancelled, bytes, ans, subs, out>>

Fin2(p) ==            \* callBuffer.write (Fixed: respondWithError if batchCtx is done) / responded.Do(write answer)
  /\ pc[p] = "fin2"
  /\ wrote' = [wrote EXCEPT ![p] = TRUE]
  /\ LET r2 == IF Fixed /\ msg[p].batch /\ cancelled[p] THEN resp[p] \o TimeoutFill(calls[p]) ELSE resp[p] IN
       /\ resp' = [resp EXCEPT ![p] = r2]
       /\ out' = IF wrote[p] THEN out
                 ELSE IF msg[p].batch THEN (IF r2 # <<>> THEN Append(out, OBatch(p, r2)) ELSE out)
                 ELSE (IF IsNotif(msg[p].items[1]) THEN out ELSE Append(out, OSingle(p, ans[p])))
  /\ pc' = [pc EXCEPT ![p] = "fin3"]
  /\ UNCHANGED <<nrecv, msg, calls, cur, cancelled, timer, bytes, ans, subs>>

Flush(j)  == SeqMap(LAMBDA k : ONote(j, k), subs[j].buf)
RECURSIVE FlushAll(_, _)
FlushAll(p, j) == IF j > Len(subs) THEN <<>>
                  ELSE (IF subs[j].p = p /\ ~subs[j].activated THEN Flush(j) ELSE <<>>) \o FlushAll(p, j + 1)
Fin3(p) ==            \* for n in cp.notifiers: n.activate()
  /\ pc[p] = "fin3"
  /\ out' = out \o FlushAll(p, 1)
  /\ subs' = [j \in 1..Len(subs) |-> IF subs[j].p = p THEN [subs[j] EXCEPT !.activated = TRUE, !.buf = <<>>] ELSE subs[j]]
  /\ pc' = [pc EXCEPT ![p] = "done"]
  /\ UNCHANGED <<nrecv, msg, calls, cur, resp, wrote, cancelled, timer, bytes, ans>>

(* the timeout timer *)
TimerCancel(p) ==     \* time.AfterFunc body starts: cancel()          (AsCoded only: separate step)
  /\ AsCoded /\ timer[p] = "armed"
  /\ timer' = [timer EXCEPT ![p] = "fired"]
  /\ cancelled' = [cancelled EXCEPT ![p] = TRUE]
  /\ UNCHANGED <<nrecv, msg, pc, calls, cur, resp, wrote, bytes, ans, subs, out>>

TimerBody(p, from) == \* callBuffer.respondWithError(timeout) / responded.Do(write timeout error)
  /\ timer[p] = from
  /\ timer' = [timer EXCEPT ![p] = "responded"]
  /\ cancelled' = [cancelled EXCEPT ![p] = TRUE]
  /\ wrote' = [wrote EXCEPT ![p] = TRUE]
  /\ IF msg[p].batch
       THEN LET r2 == resp[p] \o TimeoutFill(calls[p]) IN
            /\ resp' = [resp EXCEPT ![p] = r2]
            /\ out' = IF ~wrote[p] /\ r2 # <<>> THEN Append(out, OBatch(p, r2)) ELSE out
       ELSE /\ resp' = resp
            /\ out' = IF ~wrote[p] /\ ((AsCoded /\ ~Fixed) \/ ~IsNotif(msg[p].items[1]))
                        THEN Append(out, OSingle(p, R(msg[p].items[1].id, "timeout"))) ELSE out
  /\ UNCHANGED <<nrecv, msg, pc, calls, cur, bytes, ans, subs>>

TimerRespond(p) == AsCoded /\ TimerBody(p, "fired")       \* second step of the timer function as coded
TimerFire(p)    == ~AsCoded /\ TimerBody(p, "armed")      \* the timeout as one atomic step

(* the service sends another notification on subscription j (Notifier.Notify) *)
Notify(j) ==
  /\ j \in 1..Len(subs) /\ subs[j].sent < 1 + MaxNotes
  /\ LET k == subs[j].sent + 1 IN
       IF subs[j].activated
         THEN /\ out' = Append(out, ONote(j, k))
              /\ subs' = [subs EXCEPT ![j].sent = k]
         ELSE /\ out' = out
              /\ subs' = [subs EXCEPT ![j].sent = k, ![j].buf = Append(@, k)]
  /\ UNCHANGED <<nrecv, msg, pc, calls, cur, resp, wrote, cancelled, timer, bytes, ans>>

-----------------------------------------------------------------------------
Internal == \E p \in Procs : Start(p) \/ Loop(p) \/ Return(p) \/ CtxReturn(p) \/ Fin1(p) \/ Fin2(p) \/ Fin3(p) \/ TimerRespond(p)
Env == \/ \E m \in Messages : Recv(m)
       \/ \E p \in Procs : Release(p) \/ TimerFire(p) \/ TimerCancel(p)
       \/ \E j \in 1..Len(subs) : Notify(j)
Next == Internal \/ Env
Spec == Init /\ [][Next]_vars

-----------------------------------------------------------------------------
(* Observation helpers *)
RespsOf(o) == IF o.t = "note" THEN <<>> ELSE o.rs
RECURSIVE AllResps(_)
AllResps(s) == IF s = <<>> THEN <<>> ELSE RespsOf(Head(s)) \o AllResps(Tail(s))
CountId(s, i) == Cardinality({x \in 1..Len(s) : s[x].id = i})
AllIds == {0} \cup UNION {{msg[p].items[x].id : x \in 1..Len(msg[p].items)} : p \in Procs}

Rejected(p) == msg[p].batch /\ (Len(msg[p].items) = 0 \/ (BatchLimit # 0 /\ Len(msg[p].items) > BatchLimit))
(* response objects the property requires for message p, as a sequence of ids *)
Expected(p) ==
  IF p > nrecv THEN <<>>
  ELSE IF Rejected(p) THEN (IF Len(msg[p].items) = 0 THEN <<0>> ELSE <<FirstCallId(msg[p].items)>>)
  ELSE SeqMap(LAMBDA e : e.id, SelectSeq(msg[p].items, Answered))
RECURSIVE ExpectedAll(_)
ExpectedAll(p) == IF p > MaxMsgs THEN <<>> ELSE Expected(p) \o ExpectedAll(p + 1)
CountVal(s, i) == Cardinality({x \in 1..Len(s) : s[x] = i})

(* C49: never more than one response per call id occurrence, nothing for notifications *)
AtMostOnce == \A i \in AllIds : CountId(AllResps(out), i) <= CountVal(ExpectedAll(1), i)
(* ... and exactly one when all call processes and timer bodies have finished *)
AllDone == \A p \in Procs : pc[p] \in {"none", "done"} /\ timer[p] # "fired"
ExactlyOnce == AllDone => \A i \in AllIds : CountId(AllResps(out), i) = CountVal(ExpectedAll(1), i)
(* a batch reply is written at most once and holds only responses to entries of that batch *)
BatchOnce == \A p \in Procs : Cardinality({x \in 1..Len(out) : out[x].t # "note" /\ out[x].p = p}) <= 1
BatchShape == \A x \in 1..Len(out) : out[x].t # "note" =>
                 /\ (out[x].t = "batch") = (msg[out[x].p].batch /\ Len(msg[out[x].p].items) > 0)
                 /\ Len(out[x].rs) <= Len(Expected(out[x].p))
(* subscription notifications only after the response that carries the subscription id, in order *)
NotesAfterResponse ==
  \A x \in 1..Len(out) : out[x].t = "note" =>
     \E y \in 1..(x-1) : out[y].t # "note" /\ \E z \in 1..Len(out[y].rs) : out[y].rs[z].sub = out[x].sub
NotesInOrder ==
  \A x, y \in 1..Len(out) : (x < y /\ out[x].t = "note" /\ out[y].t = "note" /\ out[x].sub = out[y].sub) => out[x].k < out[y].k
(* a timeout or size overflow fills in an error for every unanswered call, never for answered ones *)
TimeoutOnlyIfFired ==
  \A x \in 1..Len(out) : \A z \in 1..Len(RespsOf(out[x])) :
     out[x].rs[z].kind = "timeout" => timer[out[x].p] \in {"fired", "responded"}
=============================================================================
