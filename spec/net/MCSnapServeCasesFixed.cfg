SPECIFICATION Spec
CONSTANT LimitProof = TRUE
INVARIANTS ServeOK Emit
CHECK_DEADLOCK FALSE
