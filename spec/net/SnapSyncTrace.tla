--------------------------- MODULE SnapSyncTrace ---------------------------
(* Trace validation for snap sync: events recorded by harness/cmd/c47 from real syncs        *)
(* (requests issued by the syncer, responses delivered by harness peers with the oracle's     *)
(* verdict whether they are genuine ranges, every flat-state/code write seen by the wrapping  *)
(* database, restarts, completion).                                                           *)
(*   - a write is only allowed for an item covered by a genuine response delivered earlier    *)
(*     and must carry the target's value (nothing unverified is stored);                      *)
(*   - on completion the stored items are exactly the target's and the harness' comparison   *)
(*     of flat state and full trie with the target succeeded.                                 *)
(* Ranges use the definitions of SnapSyncOps (shared with SnapSync.tla).  A genuine response  *)
(* that arrives after its request timed out is ignored by the syncer; it still counts as      *)
(* verified here (over-approximation of what may be written).                                 *)
EXTENDS SnapSyncOps, Sequences, Json, IOUtils, TLC

Trace == ndJsonDeserialize(IOEnv.TRACE)
VARIABLES l, world, inflight, verified, stored, finished
vars == <<world, inflight, verified, stored, finished>>
Ev == Trace[l]

Step(A) == l <= Len(Trace) /\ A /\ l' = l + 1
EmptyF == [x \in {} |-> 0]
Key == <<Ev.id, Ev.sub>>
AllItems(w) == UNION {{<<s, k>> : k \in 1..w.n[s]} : s \in DOMAIN w.n} \cup {<<"code", w.codes[i]>> : i \in 1..Len(w.codes)}
Item == <<Ev.item[1], Ev.item[2]>>

TWorld == Step(Ev.op = "world" /\ world' = [n |-> Ev.n, codes |-> Ev.codes] /\ inflight' = EmptyF
               /\ verified' = {} /\ stored' = {} /\ finished' = FALSE)
TReq == Step(/\ Ev.op = "req" /\ ~finished
             /\ inflight' = [k \in DOMAIN inflight \cup {Key} |->
                                IF k = Key THEN [id |-> Ev.id, space |-> Ev.space, origin |-> Ev.origin, last |-> Ev.last, n |-> Ev.n, peer |-> Ev.peer]
                                ELSE inflight[k]]
             /\ UNCHANGED <<world, verified, stored, finished>>)
TResp == Step(/\ Ev.op = "resp"
              /\ IF Key \in DOMAIN inflight /\ Ev.genuine
                 THEN LET r == inflight[Key] IN
                      /\ GenuineN(r, Ev.upto, r.n)
                      /\ verified' = verified \cup {<<r.space, k>> : k \in r.origin..Ev.upto}
                 ELSE verified' = verified
              /\ inflight' = [k \in DOMAIN inflight \ {Key} |-> inflight[k]]
              /\ UNCHANGED <<world, stored, finished>>)
TCode == Step(/\ Ev.op = "coderesp"
              /\ verified' = IF Ev.genuine THEN verified \cup {<<"code", Ev.items[i]>> : i \in 1..Len(Ev.items)} ELSE verified
              /\ UNCHANGED <<world, inflight, stored, finished>>)
TWrite == Step(Ev.op = "write" /\ Ev.ok /\ Item \in verified /\ stored' = stored \cup {Item}
               /\ UNCHANGED <<world, inflight, verified, finished>>)
TRestart == Step(Ev.op = "restart" /\ inflight' = EmptyF /\ UNCHANGED <<world, verified, stored, finished>>)
TDone == Step(Ev.op = "done" /\ Ev.flat /\ Ev.trie /\ stored = AllItems(world) /\ finished' = TRUE
              /\ UNCHANGED <<world, inflight, verified, stored>>)

(* snap/1 run with a pivot move (two target states, no per-item events): the harness compared the  *)
(* completely iterated trie with the state of the final pivot                                     *)
TPivotDone == Step(Ev.op = "pivotdone" /\ Ev.trie /\ UNCHANGED vars)

TraceInit == l = 1 /\ world = [n |-> EmptyF, codes |-> << >>] /\ inflight = EmptyF /\ verified = {} /\ stored = {} /\ finished = FALSE
TraceNext == TWorld \/ TReq \/ TResp \/ TCode \/ TWrite \/ TRestart \/ TDone \/ TPivotDone
TraceSpec == TraceInit /\ [][TraceNext]_<<l, vars>>

StoredVerified == stored \subseteq verified
StoredInWorld == stored \subseteq AllItems(world)
TraceAccepted == TLCGet("stats").diameter - 1 = Len(Trace)
=============================================================================
