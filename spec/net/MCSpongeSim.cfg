SPECIFICATION MCSpec
CONSTANTS Rate = 136
          OutLen = 32
          WSizes <- W136Sim
          RSizes <- R136Sim
          MaxMsg = 1500
          MaxOut = 900
          HistLen = 10
INVARIANTS TypeOK AbsorbedRight SqueezingRight SumIsDigest ReadIsStream NoCollision
CONSTRAINT EmitHist
CHECK_DEADLOCK FALSE
