----------------------------- MODULE MCRPCSched -----------------------------
(* Schedules of RPC.tla at quiescence granularity for replay on the real rpc.Server (R).    *)
EXTENDS MCRPC

(* R: the harness performs one environment step (send a message, release a blocked method,  *)
(* let the timeout elapse, make the service notify) and waits until the server is quiescent *)
(* (testing/synctest).  Internal steps therefore have priority over environment steps.      *)
CONSTANT Gated    \* TRUE: the harness holds the timer function between cancel() and the error response
                  \* (verif hook in rpc/handler.go), so TimerRespond is an environment step

VARIABLE act

SInternal == \E p \in Procs : Start(p) \/ Loop(p) \/ Return(p) \/ CtxReturn(p) \/ Fin1(p) \/ Fin2(p) \/ Fin3(p)
                                \/ (~Gated /\ TimerRespond(p))

SchedNext ==
  \/ ENABLED SInternal /\ SInternal /\ act' = [op |-> "tau", p |-> 0, m |-> [batch |-> FALSE, items |-> <<>>]]
  \/ ~ENABLED SInternal /\
       \/ \E m \in Messages : Recv(m) /\ act' = [op |-> "Recv", p |-> nrecv + 1, m |-> m]
       \/ \E p \in Procs :
            \/ Release(p) /\ act' = [op |-> "Release", p |-> p, m |-> [batch |-> FALSE, items |-> <<>>]]
            \/ Gated /\ TimerRespond(p) /\ act' = [op |-> "TimerBody", p |-> p, m |-> [batch |-> FALSE, items |-> <<>>]]
            \/ (TimerFire(p) \/ TimerCancel(p)) /\ act' = [op |-> "Timer", p |-> p, m |-> [batch |-> FALSE, items |-> <<>>]]
       \/ \E j \in 1..Len(subs) : Notify(j) /\ act' = [op |-> "Notify", p |-> j, m |-> [batch |-> FALSE, items |-> <<>>]]
SchedInit == Init /\ act = [op |-> "init", p |-> 0, m |-> [batch |-> FALSE, items |-> <<>>]]
SchedSpec == SchedInit /\ [][SchedNext]_<<vars, act>>

(* what the harness observes at a quiescent point: the parsed output, which methods are blocked *)
OutObs == [x \in 1..Len(out) |-> [t |-> out[x].t, rs |-> out[x].rs, sub |-> out[x].sub, k |-> out[x].k]]
Obs == [out |-> OutObs, blocked |-> [p \in Procs |-> pc[p] \in {"blocked", "cblocked"}],
        gate |-> [p \in Procs |-> timer[p] = "fired"],
        served |-> (Mode = "http" /\ nrecv >= 1 /\ \A p \in 1..nrecv : pc[p] = "done")]
Key == vars
Edge == PrintT(<<"EDGE", ToJson([from |-> Key, act |-> act', to |-> Key'])>>)
StateOut == PrintT(<<"STATE", ToJson([key |-> Key, obs |-> Obs, quiet |-> ~ENABLED SInternal, ok |-> (AtMostOnce /\ ExactlyOnce)])>>)
=============================================================================
