SPECIFICATION TraceSpec
CONSTANTS Node = {"A", "B", "C"}
          Msgs = {"ping", "pong", "findnode", "nodes", "talkreq", "talkresp"}
          MaxWire = 0
INVARIANTS Authentic CurrentSession ResponderKeys KeysPrivate ChallengeOwn
POSTCONDITION TraceAccepted
CHECK_DEADLOCK FALSE
