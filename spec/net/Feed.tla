-------------------------------- MODULE Feed --------------------------------
(***************************************************************************)
(* event.Feed / event.FeedOf[T] of go-ethereum (event/feed.go, feedof.go) *)
(* as a state machine shaped like the code:                                *)
(*                                                                         *)
(*   inbox      newly subscribed channels (protected by f.mu)              *)
(*   cases      f.sendCases without the removeSub case at index 0; the     *)
(*              running Send keeps the still-active cases as a PREFIX of   *)
(*              length nact (deactivate = swap with last active + shrink)  *)
(*   lock       f.sendLock: 0 free, s>0 held by sender s                   *)
(*   removeSub  rendezvous between Unsubscribe and the Send in progress    *)
(*              (action Handshake)                                         *)
(*                                                                         *)
(* Every public operation is split into call / internal steps / return so  *)
(* that TLC interleaves them: SubBegin InboxAdd SubEnd, UnsubBegin         *)
(* (UnsubInbox | UnsubMiss (Handshake | UnsubLocked)) UnsubEnd, SendBegin  *)
(* Acquire Merge (Deliver | Handshake)* Release SendEnd, and the receivers *)
(* of the subscribed channels RecvBegin RecvEnd (RecvAbort).               *)
(*                                                                         *)
(* Property C50 = invariants ExactlyOnce, CountReturned, InSendOrder,      *)
(* NoLateDelivery (plus structural invariants of the data structure).      *)
(***************************************************************************)
EXTENDS Integers, Sequences, FiniteSets, TLC

CONSTANTS Senders,      \* set of positive integers
          Chans,        \* set of positive integers (one subscriber channel each)
          Cap,          \* [Chans -> Nat] channel buffer capacity (0 = unbuffered)
          MaxSends,     \* sends per sender   (bounds for model checking only)
          MaxSubs,      \* subscriptions per channel (re-subscribe after unsubscribe)
          NCallers      \* goroutines that call Unsubscribe on the same subscription (sync.Once in feedSub)

VARIABLES inbox, cases, lock,
          spc, sval, nact, nsent, scount,      \* senders
          cst, nsubs, ucall,                   \* subscription life cycle per channel, Unsubscribe callers
          buf, rst,                            \* channel contents, receiver state
          dlog, order, whole, late, panic      \* history (observation only)

Callers == 1..NCallers

vars == <<inbox, cases, lock, spc, sval, nact, nsent, scount, cst, nsubs, ucall, buf, rst,
          dlog, order, whole, late, panic>>

Val(s, k) == s * 1000 + k

Find(q, c)   == IF \E i \in 1..Len(q) : q[i] = c
                THEN CHOOSE i \in 1..Len(q) : q[i] = c /\ \A j \in 1..(i-1) : q[j] # c
                ELSE 0
Delete(q, i) == SubSeq(q, 1, i-1) \o SubSeq(q, i+1, Len(q))
Swap(q, i, j) == [q EXCEPT ![i] = q[j], ![j] = q[i]]
Range(q)     == {q[i] : i \in 1..Len(q)}
Count(q, x)  == Cardinality({i \in 1..Len(q) : q[i] = x})

RECURSIVE IsSubseq(_, _)
IsSubseq(a, b) == IF a = <<>> THEN TRUE
                  ELSE IF b = <<>> THEN FALSE
                  ELSE IF Head(a) = Head(b) THEN IsSubseq(Tail(a), Tail(b))
                  ELSE IsSubseq(a, Tail(b))

Init ==
  /\ inbox = <<>> /\ cases = <<>> /\ lock = 0
  /\ spc = [s \in Senders |-> "idle"] /\ sval = [s \in Senders |-> 0]
  /\ nact = [s \in Senders |-> 0] /\ nsent = [s \in Senders |-> 0]
  /\ scount = [s \in Senders |-> 0]
  /\ cst = [c \in Chans |-> "idle"] /\ nsubs = [c \in Chans |-> 0]
  /\ ucall = [c \in Chans |-> [x \in Callers |-> "idle"]]
  /\ buf = [c \in Chans |-> <<>>] /\ rst = [c \in Chans |-> "idle"]
  /\ dlog = [c \in Chans |-> <<>>] /\ order = <<>>
  /\ whole = [s \in Senders |-> {}] /\ late = FALSE /\ panic = FALSE

-----------------------------------------------------------------------------
(* Subscribe(ch) *)
SubBegin(c) ==
  /\ cst[c] \in {"idle", "unsubbed"} /\ \A x \in Callers : ucall[c][x] # "called"
  /\ cst' = [cst EXCEPT ![c] = "subbing"]
  /\ nsubs' = [nsubs EXCEPT ![c] = @ + 1]
  /\ ucall' = [ucall EXCEPT ![c] = [x \in Callers |-> "idle"]]
  /\ UNCHANGED <<inbox, cases, lock, spc, sval, nact, nsent, scount, buf, rst, dlog, order, whole, late, panic>>

InboxAdd(c) ==         \* f.mu critical section of Subscribe
  /\ cst[c] = "subbing"
  /\ inbox' = Append(inbox, c)
  /\ cst' = [cst EXCEPT ![c] = "added"]
  /\ UNCHANGED <<cases, lock, spc, sval, nact, nsent, scount, nsubs, buf, rst, dlog, order, whole, late, panic, ucall>>

SubEnd(c) ==
  /\ cst[c] = "added"
  /\ cst' = [cst EXCEPT ![c] = "active"]
  /\ UNCHANGED <<inbox, cases, lock, spc, sval, nact, nsent, scount, nsubs, buf, rst, dlog, order, whole, late, panic, ucall>>

(* sub.Unsubscribe(): sync.Once -- any number of callers; the first one to arrive runs f.remove(sub), *)
(* every caller returns only after the removal has completed.                                        *)
UnsubBegin(c, x) ==
  /\ ucall[c][x] = "idle" /\ cst[c] \in {"active", "unsubCheck", "unsubSel", "unsubRet", "unsubbed"}
  /\ ucall' = [ucall EXCEPT ![c][x] = "called"]
  /\ whole' = [s \in Senders |-> whole[s] \ {c}]   \* c is no longer active for the whole of any running send
  /\ UNCHANGED <<inbox, cases, lock, spc, sval, nact, nsent, scount, cst, nsubs, buf, rst, dlog, order, late, panic>>

BodyStart(c) ==        \* errOnce.Do: the first caller enters f.remove
  /\ cst[c] = "active" /\ \E x \in Callers : ucall[c][x] = "called"
  /\ cst' = [cst EXCEPT ![c] = "unsubCheck"]
  /\ UNCHANGED <<inbox, cases, lock, spc, sval, nact, nsent, scount, nsubs, ucall, buf, rst, dlog, order, whole, late, panic>>

UnsubInbox(c) ==       \* found in inbox: delete there and return
  /\ cst[c] = "unsubCheck" /\ Find(inbox, c) # 0
  /\ inbox' = Delete(inbox, Find(inbox, c))
  /\ cst' = [cst EXCEPT ![c] = "unsubRet"]
  /\ UNCHANGED <<cases, lock, spc, sval, nact, nsent, scount, nsubs, buf, rst, dlog, order, whole, late, panic, ucall>>

UnsubMiss(c) ==        \* not in inbox: go to the select { removeSub <- ch ; <-sendLock }
  /\ cst[c] = "unsubCheck" /\ Find(inbox, c) = 0
  /\ cst' = [cst EXCEPT ![c] = "unsubSel"]
  /\ UNCHANGED <<inbox, cases, lock, spc, sval, nact, nsent, scount, nsubs, buf, rst, dlog, order, whole, late, panic, ucall>>

UnsubLockedAt(c, pre) ==
  /\ cst[c] = pre /\ lock = 0
  /\ LET i == Find(cases, c) IN
       IF i = 0 THEN panic' = TRUE /\ cases' = cases     \* delete(-1) panics in Go
                ELSE panic' = panic /\ cases' = Delete(cases, i)
  /\ cst' = [cst EXCEPT ![c] = "unsubRet"]
  /\ UNCHANGED <<inbox, lock, spc, sval, nact, nsent, scount, nsubs, buf, rst, dlog, order, whole, late, ucall>>

UnsubLocked(c) ==      \* case <-f.sendLock: delete under the send lock, give the lock back
  UnsubLockedAt(c, "unsubSel")

(* case f.removeSub <- ch, received by the select of the Send in progress *)
HandshakeAt(s, c, pre) ==
  /\ spc[s] = "send" /\ nact[s] >= 1 /\ cst[c] = pre
  /\ LET i == Find(cases, c) IN
       IF i = 0 THEN /\ panic' = TRUE /\ cases' = cases /\ nact' = nact
       ELSE /\ panic' = panic
            /\ cases' = Delete(cases, i)
            /\ nact' = [nact EXCEPT ![s] = IF i <= nact[s] THEN @ - 1 ELSE @]
  /\ cst' = [cst EXCEPT ![c] = "unsubRet"]
  /\ UNCHANGED <<inbox, lock, spc, sval, nsent, scount, nsubs, buf, rst, dlog, order, whole, late, ucall>>

Handshake(s, c) == HandshakeAt(s, c, "unsubSel")

UnsubEnd(c, x) ==      \* a caller returns: only after the removal is complete
  /\ ucall[c][x] = "called" /\ cst[c] \in {"unsubRet", "unsubbed"}
  /\ ucall' = [ucall EXCEPT ![c][x] = "ret"]
  /\ cst' = [cst EXCEPT ![c] = "unsubbed"]
  /\ UNCHANGED <<inbox, cases, lock, spc, sval, nact, nsent, scount, nsubs, buf, rst, dlog, order, whole, late, panic>>

-----------------------------------------------------------------------------
(* Send(v) *)
SendBegin(s, v) ==
  /\ spc[s] = "idle"
  /\ spc' = [spc EXCEPT ![s] = "lock"]
  /\ sval' = [sval EXCEPT ![s] = v]
  /\ scount' = [scount EXCEPT ![s] = @ + 1]
  /\ nsent' = [nsent EXCEPT ![s] = 0]
  /\ whole' = [whole EXCEPT ![s] = {c \in Chans : cst[c] = "active" /\ \A x \in Callers : ucall[c][x] = "idle"}]
  /\ UNCHANGED <<inbox, cases, lock, nact, cst, nsubs, buf, rst, dlog, order, late, panic, ucall>>

Acquire(s) ==          \* <-f.sendLock
  /\ spc[s] = "lock" /\ lock = 0
  /\ lock' = s
  /\ spc' = [spc EXCEPT ![s] = "merge"]
  /\ UNCHANGED <<inbox, cases, sval, nact, nsent, scount, cst, nsubs, buf, rst, dlog, order, whole, late, panic, ucall>>

MergeBody(s, pre) ==
  /\ spc[s] = pre
  /\ cases' = cases \o inbox
  /\ inbox' = <<>>
  /\ nact' = [nact EXCEPT ![s] = Len(cases) + Len(inbox)]
  /\ order' = Append(order, sval[s])
  /\ spc' = [spc EXCEPT ![s] = "send"]
  /\ UNCHANGED <<sval, nsent, scount, cst, nsubs, buf, rst, dlog, whole, late, panic, ucall>>

Merge(s) ==            \* f.mu critical section of Send: sendCases += inbox
  MergeBody(s, "merge") /\ UNCHANGED lock

Room(c) == Len(buf[c]) < Cap[c] + (IF rst[c] = "waiting" THEN 1 ELSE 0)

Deliver(s, i) ==       \* TrySend / select send case on the i-th active case succeeded
  /\ spc[s] = "send" /\ i \in 1..nact[s]
  /\ LET c == cases[i] IN
       /\ Room(c)
       /\ buf' = [buf EXCEPT ![c] = Append(@, sval[s])]
       /\ dlog' = [dlog EXCEPT ![c] = Append(@, sval[s])]
       /\ late' = (late \/ cst[c] \in {"idle", "subbing", "unsubbed"})
  /\ cases' = Swap(cases, i, nact[s])           \* deactivate(i)
  /\ nact' = [nact EXCEPT ![s] = @ - 1]
  /\ nsent' = [nsent EXCEPT ![s] = @ + 1]
  /\ UNCHANGED <<inbox, lock, spc, sval, scount, cst, nsubs, rst, order, whole, panic, ucall>>

Release(s) ==          \* all cases chosen: f.sendLock <- struct{}{}
  /\ spc[s] = "send" /\ nact[s] = 0
  /\ lock' = 0
  /\ spc' = [spc EXCEPT ![s] = "ret"]
  /\ UNCHANGED <<inbox, cases, sval, nact, nsent, scount, cst, nsubs, buf, rst, dlog, order, whole, late, panic, ucall>>

SendEnd(s) ==          \* returns nsent[s]
  /\ spc[s] = "ret"
  /\ spc' = [spc EXCEPT ![s] = "idle"]
  /\ whole' = [whole EXCEPT ![s] = {}]
  /\ UNCHANGED <<inbox, cases, lock, sval, nact, nsent, scount, cst, nsubs, buf, rst, dlog, order, late, panic, ucall>>

-----------------------------------------------------------------------------
(* the receiving side of a subscribed channel *)
RecvBegin(c) ==
  /\ rst[c] = "idle"
  /\ rst' = [rst EXCEPT ![c] = "waiting"]
  /\ UNCHANGED <<inbox, cases, lock, spc, sval, nact, nsent, scount, cst, nsubs, buf, dlog, order, whole, late, panic, ucall>>

RecvEnd(c) ==          \* returns Head(buf[c])
  /\ rst[c] = "waiting" /\ buf[c] # <<>>
  /\ buf' = [buf EXCEPT ![c] = Tail(@)]
  /\ rst' = [rst EXCEPT ![c] = "idle"]
  /\ UNCHANGED <<inbox, cases, lock, spc, sval, nact, nsent, scount, cst, nsubs, dlog, order, whole, late, panic, ucall>>

RecvAbort(c) ==        \* the receiver gives up waiting (select with a quit channel)
  /\ rst[c] = "waiting" /\ Len(buf[c]) <= Cap[c]
  /\ rst' = [rst EXCEPT ![c] = "idle"]
  /\ UNCHANGED <<inbox, cases, lock, spc, sval, nact, nsent, scount, cst, nsubs, buf, dlog, order, whole, late, panic, ucall>>

-----------------------------------------------------------------------------
Internal ==
  \/ \E c \in Chans : InboxAdd(c) \/ BodyStart(c) \/ UnsubInbox(c) \/ UnsubMiss(c) \/ UnsubLocked(c)
  \/ \E s \in Senders : Acquire(s) \/ Merge(s) \/ Release(s)
  \/ \E s \in Senders : \E i \in 1..nact[s] : Deliver(s, i)
  \/ \E s \in Senders, c \in Chans : Handshake(s, c)

Returns ==
  \/ \E c \in Chans : SubEnd(c) \/ RecvEnd(c) \/ \E x \in Callers : UnsubEnd(c, x)
  \/ \E s \in Senders : SendEnd(s)

Calls ==
  \/ \E c \in Chans : (nsubs[c] < MaxSubs /\ SubBegin(c)) \/ RecvBegin(c) \/ \E x \in Callers : UnsubBegin(c, x)
  \* RecvAbort(c) is not part of Next: it only occurs in recorded traces (FeedTrace.tla), where the
  \* harness receivers stop at the end of a run; it does not touch the feed.
  \/ \E s \in Senders : scount[s] < MaxSends /\ SendBegin(s, Val(s, scount[s] + 1))

Next == Internal \/ Returns \/ Calls

Spec == Init /\ [][Next]_vars

-----------------------------------------------------------------------------
(* Structure of the data (what feed.go relies on) *)
TypeOK ==
  /\ lock \in {0} \cup Senders
  /\ \A s \in Senders : nact[s] \in 0..Len(cases) /\ nsent[s] >= 0
  /\ \A c \in Chans : Len(buf[c]) <= Cap[c] + 1

NoPanic == ~panic

LockOwner ==     \* exactly the sender between Acquire and Release holds the lock
  /\ \A s \in Senders : (spc[s] \in {"merge", "send"}) <=> (lock = s)

NoDuplicates ==  \* a channel has at most one select case
  \A c \in Chans : Count(inbox, c) + Count(cases, c) <= 1

Registered ==    \* subscribed channels are registered, unsubscribed ones are gone
  /\ \A c \in Chans : cst[c] \in {"added", "active", "unsubCheck", "unsubSel"} => Count(inbox, c) + Count(cases, c) = 1
  /\ \A c \in Chans : cst[c] \in {"idle", "subbing", "unsubRet", "unsubbed"} => Count(inbox, c) + Count(cases, c) = 0

InactiveDone ==  \* the deactivated suffix of a running send already has the value
  \A s \in Senders : spc[s] = "send" =>
     \A i \in (nact[s]+1)..Len(cases) : Count(dlog[cases[i]], sval[s]) = 1

(* C50 clause 1: each send delivers its value exactly once to every subscription that was   *)
(* active for the whole send ...                                                            *)
AtMostOnce == \A c \in Chans : \A i, j \in 1..Len(dlog[c]) : dlog[c][i] = dlog[c][j] => i = j
ExactlyOnce ==
  \A s \in Senders : spc[s] = "ret" => \A c \in whole[s] : Count(dlog[c], sval[s]) = 1
(* ... and returns that number *)
CountReturned ==
  \A s \in Senders : spc[s] = "ret" => nsent[s] = Cardinality({c \in Chans : Count(dlog[c], sval[s]) >= 1})
(* clause 2: each subscriber sees values in send order (one order for all subscribers;      *)
(* channels are FIFO so receive order = delivery order)                                     *)
InSendOrder == \A c \in Chans : IsSubseq(dlog[c], order)
(* clause 3: nothing is delivered to a channel after its unsubscribe (any call of it) has returned *)
NoLateDelivery == ~late

(* Only subscribers get values at all *)
OnlySubscribed == \A c \in Chans : nsubs[c] = 0 => dlog[c] = <<>>
=============================================================================
