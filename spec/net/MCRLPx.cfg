SPECIFICATION Spec
CONSTANTS MaxMsgs = 2
          MaxFlips = 2
          MaxErrReads = 1
INVARIANTS Invs EmitCase
CHECK_DEADLOCK FALSE
