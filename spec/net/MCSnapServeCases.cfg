SPECIFICATION Spec
INVARIANTS ServeOK Emit
CHECK_DEADLOCK FALSE
