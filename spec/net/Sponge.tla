------------------------------- MODULE Sponge -------------------------------
(* Property C04: the client's Keccak-256 (crypto/keccak/sha3.go: state.Write, Sum, Read,   *)
(* Reset; crypto.Keccak256 / NewKeccakState on top of it) returns Digest(message) for every *)
(* message and every way of splitting it across writes, interleaved with Sum, Reset, Read.  *)
(*                                                                                         *)
(* The sponge is modelled symbolically.  Message bytes are identified by their position     *)
(* 1,2,3,.. in the message written since the last Reset; the padding bytes of legacy       *)
(* Keccak (pad10*1 with domain byte 0x01: M || 01 00..00 80, or M || 81 when one byte is    *)
(* free) are the symbols P01, P80, P81; Z is an untouched byte.  The value of the sponge    *)
(* is determined by the sequence of rate-sized blocks that were xor-ed in and permuted, so  *)
(*       Digest(M) is "squeeze after absorbing Partition(M || pad)"                        *)
(* and the implementation is right iff it hands exactly those blocks to the permutation,    *)
(* whatever the write history.  The buffer arithmetic (fill offset n, xor at a[n:rate],    *)
(* permute when n = rate, pad at a[n] and a[rate-1], squeeze from a[n:rate], permute when  *)
(* squeezed dry) is modelled as the code runs it.  The Keccak-f permutation itself is not  *)
(* modelled (covered by digest equality with the reference on the explored inputs).        *)
EXTENDS Integers, Sequences, TLC

CONSTANTS Rate,      \* bytes per block (136 for Keccak-256; 4 in the exhaustive configuration)
          OutLen,    \* digest length (32; 2 in the exhaustive configuration)
          WSizes,    \* lengths of a single Write
          RSizes,    \* lengths of a single Read
          MaxMsg,    \* bound on the message length
          MaxOut     \* bound on the number of squeezed bytes

Z   == 0
P01 == -1
P80 == -2
P81 == -3
Bad == -99            \* a byte xor-ed over another message byte: never produced by the right algorithm

VARIABLES phase,     \* "absorbing" | "squeezing"                          (d.state)
          n,         \* fill / read offset into the rate part of the state  (d.n)
          blocks,    \* blocks permuted so far (symbolic value of d.a)
          cur,       \* what has been xor-ed into the current block: [0..Rate-1 -> symbol]
          msgLen,    \* ghost: bytes written since Reset
          perms,     \* squeezing: permutations applied after the padded block
          squeezed,  \* ghost: bytes read so far
          res        \* result of the last call: what Sum/Read returned, symbolically

vars == << phase, n, blocks, cur, msgLen, perms, squeezed, res >>

Min(a, b) == IF a < b THEN a ELSE b
Zeros     == [o \in 0..(Rate - 1) |-> Z]
NoRes     == [op |-> "none", in |-> << >>, out |-> << >>]

Xor(a, b) == IF a = Z THEN b ELSE IF b = Z THEN a
             ELSE IF {a, b} = {P01, P80} THEN P81 ELSE Bad

Init ==
  /\ phase = "absorbing" /\ n = 0 /\ blocks = << >> /\ cur = Zeros
  /\ msgLen = 0 /\ perms = 0 /\ squeezed = 0 /\ res = NoRes

---------------------------------------------------------------------------
(* Write(p): for len(p) > 0 { x = XORBytes(a[n:rate], p); n += x; p = p[x:]; if n == rate { permute } } *)

RECURSIVE WriteLoop(_, _, _)
(* st = [n, blocks, cur], next = id of the next message byte, k = bytes left *)
WriteLoop(st, nxt, k) ==
  IF k = 0 THEN st
  ELSE LET x  == Min(k, Rate - st.n)
           c1 == [o \in 0..(Rate - 1) |->
                    IF o >= st.n /\ o < st.n + x THEN Xor(st.cur[o], nxt + (o - st.n)) ELSE st.cur[o]]
           n1 == st.n + x
       IN IF n1 = Rate
            THEN WriteLoop([n |-> 0, blocks |-> Append(st.blocks, c1), cur |-> Zeros], nxt + x, k - x)
            ELSE WriteLoop([n |-> n1, blocks |-> st.blocks, cur |-> c1], nxt + x, k - x)

Write(k) ==
  /\ phase = "absorbing"                       \* Write after Read panics
  /\ msgLen + k <= MaxMsg
  /\ LET st == WriteLoop([n |-> n, blocks |-> blocks, cur |-> cur], msgLen + 1, k) IN
     /\ n' = st.n /\ blocks' = st.blocks /\ cur' = st.cur
  /\ msgLen' = msgLen + k
  /\ res' = [op |-> "Write", in |-> << >>, out |-> << >>]
  /\ UNCHANGED << phase, perms, squeezed >>

(* padAndPermute: a[n] ^= dsbyte; a[rate-1] ^= 0x80; permute; state = squeezing *)
Padded(c, fill) == [c EXCEPT ![fill] = Xor(c[fill], P01), ![Rate - 1] = Xor(IF fill = Rate - 1 THEN Xor(c[fill], P01) ELSE c[Rate - 1], P80)]

(* the squeezing loop: for len(out) > 0 { if n == rate { permute }; x = copy(out, a[n:rate]); n += x } *)
RECURSIVE ReadLoop(_, _, _, _)
(* returns [n, perms, out]; an output byte is <<number of permutations after padding, offset>> *)
ReadLoop(fill, pm, k, acc) ==
  IF k = 0 THEN [n |-> fill, perms |-> pm, out |-> acc]
  ELSE LET f1 == IF fill = Rate THEN 0 ELSE fill
           p1 == IF fill = Rate THEN pm + 1 ELSE pm
           x  == Min(k, Rate - f1)
       IN ReadLoop(f1 + x, p1, k - x, acc \o [j \in 1..x |-> << p1, f1 + j - 1 >>])

(* Read(out): pads first if still absorbing *)
Read(k) ==
  /\ squeezed + k <= MaxOut
  /\ LET bl == IF phase = "absorbing" THEN Append(blocks, Padded(cur, n)) ELSE blocks
         f0 == IF phase = "absorbing" THEN 0 ELSE n
         r  == ReadLoop(f0, perms, k, << >>)
     IN /\ blocks' = bl
        /\ n' = r.n /\ perms' = r.perms
        /\ res' = [op |-> "Read", in |-> bl, out |-> r.out]
  /\ cur' = Zeros
  /\ phase' = "squeezing"
  /\ squeezed' = squeezed + k
  /\ UNCHANGED msgLen

(* Sum(in): clone, Read(outputLen) on the clone; the state itself is unchanged *)
Sum ==
  /\ phase = "absorbing"                       \* Sum after Read panics
  /\ res' = [op |-> "Sum", in |-> Append(blocks, Padded(cur, n)), out |-> ReadLoop(0, 0, OutLen, << >>).out]
  /\ UNCHANGED << phase, n, blocks, cur, msgLen, perms, squeezed >>

Reset ==
  /\ phase' = "absorbing" /\ n' = 0 /\ blocks' = << >> /\ cur' = Zeros
  /\ msgLen' = 0 /\ perms' = 0 /\ squeezed' = 0
  /\ res' = [op |-> "Reset", in |-> << >>, out |-> << >>]

(* The caller owns what Sum and Read returned (and what it passed to Write): overwriting those   *)
(* buffers is no operation of the sponge -- its state and every later output are unaffected.    *)
Clobber ==
  /\ res.op \in {"Sum", "Read", "Write"}
  /\ res' = [res EXCEPT !.op = "Clobber"]
  /\ UNCHANGED << phase, n, blocks, cur, msgLen, perms, squeezed >>

Next == (\E k \in WSizes : Write(k)) \/ (\E k \in RSizes : Read(k)) \/ Sum \/ Reset \/ Clobber
Spec == Init /\ [][Next]_vars

---------------------------------------------------------------------------
(* The definition: Partition(M || pad10*1) for the message 1..m *)

PadMsg(m) ==
  LET q == Rate - (m % Rate) IN          \* free bytes in the last block, 1..Rate
  [i \in 1..m |-> i] \o (IF q = 1 THEN << P81 >> ELSE << P01 >> \o [i \in 1..(q - 2) |-> Z] \o << P80 >>)

Partition(s) == [b \in 1..(Len(s) \div Rate) |-> [o \in 0..(Rate - 1) |-> s[(b - 1) * Rate + o + 1]]]
DigestInput(m) == Partition(PadMsg(m))

(* the j-th squeezed byte (j = 0,1,..) is byte j % Rate of the state after j \div Rate extra permutations *)
Stream(from, k) == [j \in 1..k |-> << (from + j - 1) \div Rate, (from + j - 1) % Rate >>]

---------------------------------------------------------------------------
(* The property *)

TypeOK ==
  /\ phase \in {"absorbing", "squeezing"}
  /\ n \in 0..Rate
  /\ phase = "absorbing" => n < Rate         \* there is always room for the padding byte

(* while absorbing: exactly the full blocks of the message were permuted, the partial block is *)
(* the rest of the message at offsets 0..n-1 and nothing else, whatever the chunking was        *)
AbsorbedRight ==
  phase = "absorbing" =>
    /\ n = msgLen % Rate
    /\ blocks = [b \in 1..(msgLen \div Rate) |-> [o \in 0..(Rate - 1) |-> (b - 1) * Rate + o + 1]]
    /\ cur = [o \in 0..(Rate - 1) |-> IF o < n THEN (msgLen \div Rate) * Rate + o + 1 ELSE Z]

(* while squeezing: the permuted blocks are Partition(M || pad) *)
SqueezingRight ==
  phase = "squeezing" =>
    /\ blocks = DigestInput(msgLen)
    /\ n = (IF squeezed = 0 THEN 0 ELSE ((squeezed - 1) % Rate) + 1)
    /\ perms = (IF squeezed = 0 THEN 0 ELSE (squeezed - 1) \div Rate)

(* Sum returns Digest(M): the first OutLen bytes squeezed after absorbing Partition(M || pad) *)
SumIsDigest == res.op = "Sum" => res.in = DigestInput(msgLen) /\ res.out = Stream(0, OutLen)

(* Read continues the output stream of Digest(M) where the previous Read stopped *)
ReadIsStream == res.op = "Read" => res.in = DigestInput(msgLen)
                                   /\ res.out = Stream(squeezed - Len(res.out), Len(res.out))

NoCollision == \A b \in 1..Len(blocks) : \A o \in 0..(Rate - 1) : blocks[b][o] # Bad
=============================================================================
