SPECIFICATION Spec
CONSTANTS Messages <- MCMessages
          AsCoded = TRUE
          Fixed = TRUE
          Mode = "http"
          MaxMsgs = 1
          HasTimeout = TRUE
          BatchLimit = 0
          SizeLimit = 100
          MaxNotes = 0
          SzRet = 10
          SzBig = 60
          SzErr = 40
          SzInv = 43
          CallMethods = {"ret", "blk", "cblk", "big", "err", "nsub"}
          NotifMethods = {"ret", "blk", "cblk", "nsub"}
          InvIds = {0, 1}
          WithResp = TRUE
          MaxBatch = 3
          Ids = {1, 2}
INVARIANT Invs
CHECK_DEADLOCK FALSE
