SPECIFICATION MCSpec
CONSTANTS Rate = 136
          OutLen = 32
          WSizes <- W136
          RSizes <- R136
          MaxMsg = 1100
          MaxOut = 700
          HistLen = 3
INVARIANTS TypeOK AbsorbedRight SqueezingRight SumIsDigest ReadIsStream NoCollision
CONSTRAINT EmitHist
CHECK_DEADLOCK FALSE
