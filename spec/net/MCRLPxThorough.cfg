SPECIFICATION Spec
CONSTANTS MaxMsgs = 3
          MaxFlips = 2
          MaxErrReads = 1
INVARIANTS Invs EmitCase
CHECK_DEADLOCK FALSE
