-------------------------------- MODULE RLPx --------------------------------
(***************************************************************************)
(* The RLPx transport (p2p/rlpx/rlpx.go) between an initiator A and a      *)
(* recipient B with an active adversary on the wire.                       *)
(*                                                                         *)
(* Handshake: A sends the EIP-8 auth packet (2-byte size prefix, ECIES:    *)
(* ephemeral key, IV, ciphertext, MAC), B answers with the ack packet.     *)
(* ECIES is abstract: a packet decrypts iff no region of it was modified   *)
(* and every curve point it carries is valid; the size prefix is part of   *)
(* the authenticated data.  A packet whose plaintext carries an invalid    *)
(* curve point (initiator key in auth, random key in ack) or whose ECIES   *)
(* ephemeral key is invalid is produced by a malicious peer (BadAuth,      *)
(* BadAck).                                                                *)
(*                                                                         *)
(* Frames: per direction the sender keeps an egress MAC (a running hash    *)
(* over everything it sent: chain) and an AES-CTR position (ctr); the      *)
(* receiver keeps the mirror images.  readFrame accepts a frame iff        *)
(*   - it is still aligned with the frame boundaries of the stream,        *)
(*   - header ciphertext and header MAC are unmodified and its running     *)
(*     hash equals the sender's at that frame (header MAC),                *)
(*   - its CTR position equals the sender's (otherwise the decrypted size  *)
(*     is garbage and the frame MAC is checked over the wrong bytes),      *)
(*   - body, padding and frame MAC are unmodified (frame MAC).             *)
(* What a rejected frame does to the receiver state follows the code:      *)
(* header rejected -> body not consumed (alignment lost), CTR not advanced;*)
(* frame MAC rejected -> received ciphertext already hashed (chain         *)
(* diverges iff body/padding was modified), CTR not advanced.              *)
(*                                                                         *)
(* Property C44 = invariants Prefix, NothingAfterTamper, NoResync,         *)
(* ErrorReported, KeysTrue, SessionNeedsCleanHandshake.                    *)
(***************************************************************************)
EXTENDS Integers, Sequences, FiniteSets, TLC

CONSTANTS MaxMsgs,       \* messages written per direction
          MaxFlips,      \* modifications by the adversary in total
          MaxErrReads    \* reads attempted after the first error in a direction

Dirs         == {"AB", "BA"}
HsRegions    == {"prefix", "ephem", "iv", "ct", "mac"}
FrameRegions == {"hsize", "hrest", "hmac", "body", "pad", "fmac"}
BadAuth      == {"initkey", "ephem"}     \* invalid curve point in the auth plaintext / ECIES ephemeral key
BadAck       == {"randkey", "ephem"}

VARIABLES hsA, hsB,            \* "start" | "wait" | "done" | "fail"
          auth, ack,           \* packets on the wire: [present, flip, bad]
          learnedA, learnedB,  \* "none" | "true" | "wrong": remote key returned by Handshake
          sent,                \* [Dirs -> Seq(Nat)]   message ids written
          wire,                \* [Dirs -> Seq(frame)] frames in flight / consumed
          sctr,                \* sender CTR position per direction
          rd, dlv, errs,       \* receiver: frames consumed, messages delivered, errors returned
          rchain, rctr, aligned, \* receiver MAC chain, CTR position, frame alignment
          nflips

vars == <<hsA, hsB, auth, ack, learnedA, learnedB, sent, wire, sctr, rd, dlv, errs, rchain, rctr, aligned, nflips>>

NoPkt == [present |-> FALSE, flip |-> "none", bad |-> "none"]
Frame(id, ctr) == [id |-> id, ctr |-> ctr, h |-> "ok", hm |-> "ok", b |-> "ok", fm |-> "ok", flip |-> "none"]

Sender(d)   == IF d = "AB" THEN hsA ELSE hsB
Receiver(d) == IF d = "AB" THEN hsB ELSE hsA

Init ==
  /\ hsA = "start" /\ hsB = "start" /\ auth = NoPkt /\ ack = NoPkt
  /\ learnedA = "none" /\ learnedB = "none"
  /\ sent = [d \in Dirs |-> <<>>] /\ wire = [d \in Dirs |-> <<>>] /\ sctr = [d \in Dirs |-> 0]
  /\ rd = [d \in Dirs |-> 0] /\ dlv = [d \in Dirs |-> <<>>] /\ errs = [d \in Dirs |-> 0]
  /\ rchain = [d \in Dirs |-> <<>>] /\ rctr = [d \in Dirs |-> 0] /\ aligned = [d \in Dirs |-> TRUE]
  /\ nflips = 0

-----------------------------------------------------------------------------
(* handshake *)
SendAuth(bad) ==          \* runInitiator: makeAuthMsg, sealEIP8, conn.Write  (bad # "none": malicious initiator)
  /\ hsA = "start"
  /\ hsA' = "wait" /\ auth' = [present |-> TRUE, flip |-> "none", bad |-> bad]
  /\ UNCHANGED <<hsB, ack, learnedA, learnedB, sent, wire, sctr, rd, dlv, errs, rchain, rctr, aligned, nflips>>

TamperAuth(r) ==
  /\ auth.present /\ hsB = "start" /\ auth.flip = "none" /\ nflips < MaxFlips
  /\ auth' = [auth EXCEPT !.flip = r] /\ nflips' = nflips + 1
  /\ UNCHANGED <<hsA, hsB, ack, learnedA, learnedB, sent, wire, sctr, rd, dlv, errs, rchain, rctr, aligned>>

RecvAuth(bad) ==          \* runRecipient: readMsg (ECIES decrypt), handleAuthMsg, write ack (bad # "none": malicious recipient)
  /\ hsB = "start" /\ auth.present
  /\ IF auth.flip # "none" \/ auth.bad # "none"
       THEN hsB' = "fail" /\ ack' = ack /\ learnedB' = learnedB
       ELSE /\ hsB' = "done" /\ learnedB' = "true"
            /\ ack' = [present |-> TRUE, flip |-> "none", bad |-> bad]
  /\ UNCHANGED <<hsA, auth, learnedA, sent, wire, sctr, rd, dlv, errs, rchain, rctr, aligned, nflips>>

TamperAck(r) ==
  /\ ack.present /\ hsA = "wait" /\ ack.flip = "none" /\ nflips < MaxFlips
  /\ ack' = [ack EXCEPT !.flip = r] /\ nflips' = nflips + 1
  /\ UNCHANGED <<hsA, hsB, auth, learnedA, learnedB, sent, wire, sctr, rd, dlv, errs, rchain, rctr, aligned>>

RecvAck ==                \* runInitiator: readMsg, handleAuthResp, secrets
  /\ hsA = "wait" /\ ack.present
  /\ IF ack.flip # "none" \/ ack.bad # "none"
       THEN hsA' = "fail" /\ learnedA' = learnedA
       ELSE hsA' = "done" /\ learnedA' = "true"
  /\ UNCHANGED <<hsB, auth, ack, learnedB, sent, wire, sctr, rd, dlv, errs, rchain, rctr, aligned, nflips>>

PeerGone ==               \* B failed and closed the connection: A's read of the ack fails
  /\ hsA = "wait" /\ hsB = "fail"
  /\ hsA' = "fail"
  /\ UNCHANGED <<hsB, auth, ack, learnedA, learnedB, sent, wire, sctr, rd, dlv, errs, rchain, rctr, aligned, nflips>>

-----------------------------------------------------------------------------
(* frames *)
Write(d) ==               \* Conn.Write -> writeFrame
  /\ Sender(d) = "done" /\ Len(sent[d]) < MaxMsgs
  /\ LET id == Len(sent[d]) + 1 IN
       /\ sent' = [sent EXCEPT ![d] = Append(@, id)]
       /\ wire' = [wire EXCEPT ![d] = Append(@, Frame(id, sctr[d]))]
       /\ sctr' = [sctr EXCEPT ![d] = @ + 1]
  /\ UNCHANGED <<hsA, hsB, auth, ack, learnedA, learnedB, rd, dlv, errs, rchain, rctr, aligned, nflips>>

Flip(d, i, r) ==          \* the adversary modifies a byte of frame i that is still in flight
  /\ i \in (rd[d] + 1)..Len(wire[d]) /\ wire[d][i].flip = "none" /\ nflips < MaxFlips
  /\ wire' = [wire EXCEPT ![d][i] =
        [@ EXCEPT !.flip = r,
                  !.h  = IF r \in {"hsize", "hrest"} THEN "bad" ELSE @,
                  !.hm = IF r = "hmac" THEN "bad" ELSE @,
                  !.b  = IF r \in {"body", "pad"} THEN "bad" ELSE @,
                  !.fm = IF r = "fmac" THEN "bad" ELSE @]]
  /\ nflips' = nflips + 1
  /\ UNCHANGED <<hsA, hsB, auth, ack, learnedA, learnedB, sent, sctr, rd, dlv, errs, rchain, rctr, aligned>>

(* the sender's running hash before frame i: it hashed frames 1..i-1 as sent *)
SChain(i) == [j \in 1..(i-1) |-> j]

HeaderOK(d, f) == aligned[d] /\ f.h = "ok" /\ f.hm = "ok" /\ rchain[d] = SChain(f.id)
FrameOK(d, f)  == HeaderOK(d, f) /\ rctr[d] = f.ctr /\ f.b = "ok" /\ f.fm = "ok"

Read(d) ==                \* Conn.Read -> readFrame on the next bytes of the stream
  /\ Receiver(d) = "done" /\ rd[d] < Len(wire[d])
  /\ errs[d] <= MaxErrReads
  /\ LET f == wire[d][rd[d] + 1] IN
       IF FrameOK(d, f)
         THEN /\ dlv' = [dlv EXCEPT ![d] = Append(@, f.id)]
              /\ rchain' = [rchain EXCEPT ![d] = Append(@, f.id)]
              /\ rctr' = [rctr EXCEPT ![d] = @ + 1]
              /\ UNCHANGED <<errs, aligned>>
         ELSE /\ errs' = [errs EXCEPT ![d] = @ + 1]
              /\ dlv' = dlv /\ rctr' = rctr
              /\ IF HeaderOK(d, f)
                   THEN \* frame MAC (or garbage size) failure: ciphertext was hashed before the comparison
                        /\ rchain' = [rchain EXCEPT ![d] = Append(@, IF f.b = "ok" /\ rctr[d] = f.ctr THEN f.id ELSE 0 - f.id)]
                        /\ aligned' = [aligned EXCEPT ![d] = (rctr[d] = f.ctr)]
                   ELSE \* header MAC failure: body not consumed
                        /\ rchain' = [rchain EXCEPT ![d] = IF aligned[d] /\ f.h = "ok" THEN @ ELSE Append(@, 0 - f.id)]
                        /\ aligned' = [aligned EXCEPT ![d] = FALSE]
  /\ rd' = [rd EXCEPT ![d] = @ + 1]
  /\ UNCHANGED <<hsA, hsB, auth, ack, learnedA, learnedB, sent, wire, sctr, nflips>>

-----------------------------------------------------------------------------
Next ==
  \/ \E b \in {"none"} \cup BadAuth : SendAuth(b)
  \/ \E b \in {"none"} \cup BadAck : RecvAuth(b)
  \/ \E r \in HsRegions : TamperAuth(r) \/ TamperAck(r)
  \/ RecvAck \/ PeerGone
  \/ \E d \in Dirs : Write(d) \/ Read(d)
  \/ \E d \in Dirs : \E i \in 1..MaxMsgs : \E r \in FrameRegions : Flip(d, i, r)

Spec == Init /\ [][Next]_vars

-----------------------------------------------------------------------------
Tampered(d, i) == wire[d][i].flip # "none"
FirstBad(d) == IF \E i \in 1..rd[d] : Tampered(d, i)
               THEN CHOOSE i \in 1..rd[d] : Tampered(d, i) /\ \A j \in 1..(i-1) : ~Tampered(d, j)
               ELSE 0

(* every message is read in order with identical content: what was delivered is a prefix of what was written *)
Prefix == \A d \in Dirs : Len(dlv[d]) <= Len(sent[d]) /\ dlv[d] = SubSeq(sent[d], 1, Len(dlv[d]))
(* untampered frames before the first modification are all delivered; the modified frame and everything
   after it are not *)
NothingAfterTamper == \A d \in Dirs :
   IF FirstBad(d) = 0 THEN Len(dlv[d]) = rd[d] ELSE Len(dlv[d]) = FirstBad(d) - 1
(* once a read failed, no later read succeeds (no resynchronisation) *)
NoResync == \A d \in Dirs : errs[d] > 0 => Len(dlv[d]) + errs[d] = rd[d]
(* the modification is reported: reading a modified frame returns an error *)
ErrorReported == \A d \in Dirs : FirstBad(d) # 0 => errs[d] >= 1
(* each side learns the other's true key *)
KeysTrue == (hsA = "done" => learnedA = "true") /\ (hsB = "done" => learnedB = "true")
(* a modified or malformed handshake packet is never used *)
SessionNeedsCleanHandshake ==
  /\ (hsB = "done" => auth.flip = "none" /\ auth.bad = "none")
  /\ (hsA = "done" => ack.flip = "none" /\ ack.bad = "none" /\ hsB = "done")
  /\ \A d \in Dirs : dlv[d] # <<>> => hsA = "done" /\ hsB = "done"
=============================================================================
