----------------------------- MODULE MCKademlia -----------------------------
(* Bounded universe for TLC: a handful of node records (several per id: newer sequence     *)
(* numbers with a changed address or port), any interleaving of table operations.          *)
EXTENDS Kademlia, TLC

CONSTANTS Ids,        \* node ids in play (0 = the local node may be included)
          MaxChecks,  \* bound on livenessChecks (state constraint)
          MaxFound,   \* length of foundNodes lists in track requests
          WithReval,  \* include revalidation start/response actions
          WithTrack   \* include findnode-result tracking

(* address plan: the /24 class of an id's first and second record *)
Net0(id) == CASE id = 0 -> 1 [] id = 1 -> 1 [] id = 2 -> 1 [] id = 3 -> 2 [] id = 4 -> 1
              [] id = 5 -> 1 [] id = 6 -> 2 [] id = 7 -> LAN [] OTHER -> 1
Net1(id) == CASE id = 4 -> 2 [] id = 5 -> LAN [] id = 6 -> 1 [] id = 7 -> 1 [] id = 3 -> NoIP [] id = 1 -> Unspec [] OTHER -> Net0(id)
Rec0(id) == [id |-> id, net |-> Net0(id), host |-> id, port |-> 1, seq |-> 0]
Rec1(id) == [id |-> id, net |-> Net1(id), host |-> id + 8, port |-> 1, seq |-> 1]
Rec2(id) == [id |-> id, net |-> Net0(id), host |-> id, port |-> 2, seq |-> 2]
NodeU == {Rec0(id) : id \in Ids} \cup {Rec1(id) : id \in Ids} \cup {Rec2(id) : id \in Ids \cap {4, 5}}
FoundU == {<< >>} \cup {<<n>> : n \in NodeU} \cup (IF MaxFound >= 2 THEN {<<Rec0(6), Rec0(7)>>, <<Rec0(5), Rec1(5)>>} ELSE {})

TrackU == {Rec0(id) : id \in Ids \cap {4, 5}} \cup {[id |-> 6, net |-> NoIP, host |-> 0, port |-> 1, seq |-> 0]}   \* nodes whose findnode failures are tracked

MCNext ==
  \/ InitDone
  \/ \E n \in NodeU, inb \in BOOLEAN : Add(n, inb)
  \/ \E id \in Ids, r \in 1..R : Delete(id, r)
  \/ WithReval /\ \E id \in Ids : StartReval(id)
  \/ WithReval /\ \E id \in Ids, ok \in BOOLEAN, r \in 1..R : \E nr \in {<< >>} \cup {<<n>> : n \in {m \in NodeU : m.id = id}} : Response(id, ok, nr, r)
  \/ WithTrack /\ \E n \in TrackU, s \in BOOLEAN, f \in FoundU, r \in 1..R : Track(n, s, f, r)

MCSpec == Init /\ [][MCNext]_vars

Bounded == /\ \A b \in Buckets : \A i \in 1..Len(ent[b]) : ent[b][i].checks <= MaxChecks
           /\ \A k \in DOMAIN fails : fails[k] <= MaxFails

ClosestOK == ClosestAgrees(0..7, 3)
=============================================================================
