SPECIFICATION Spec
CONSTANTS Spaces = {"acc", "s1"}
          N <- MCN
          Tasks = {1, 2, 3}
          TaskSpace <- MCTaskSpace
          TaskFirst <- MCTaskFirst
          TaskLast <- MCTaskLast
          HashItems <- MCHashItems
          Peers = {"p1", "p2"}
INVARIANTS StoredVerified ProgressSound Complete
VIEW View
CHECK_DEADLOCK FALSE
