SPECIFICATION RSpec
CONSTANTS NS = 2
          NC = 3
          CapMod = 2
          MaxSends = 1
          MaxSubs = 1
          NCallers = 1
          Senders <- MCSenders
          Chans <- MCChans
          Cap <- MCCap
INVARIANTS TypeOK NoPanic LockOwner NoDuplicates Registered InactiveDone AtMostOnce ExactlyOnce CountReturned InSendOrder NoLateDelivery OnlySubscribed
CHECK_DEADLOCK FALSE
