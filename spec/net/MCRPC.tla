------------------------------- MODULE MCRPC -------------------------------
(* Model-checking wrapper of RPC.tla: the message grammar, and the run-to-quiescence         *)
(* scheduling used for replay on the real rpc.Server (R).                                   *)
EXTENDS RPC, Json

CONSTANTS CallMethods, NotifMethods, InvIds, WithResp, MaxBatch, Ids

Entries ==
  {[k |-> "call", id |-> i, m |-> m] : i \in Ids, m \in CallMethods}
    \cup {[k |-> "notif", id |-> 0, m |-> m] : m \in NotifMethods}
    \cup {[k |-> "inv", id |-> i, m |-> "-"] : i \in InvIds}
    \cup (IF WithResp THEN {[k |-> "resp", id |-> 1, m |-> "-"]} ELSE {})
Batches == UNION {[1..n -> Entries] : n \in 0..MaxBatch}
MCMessages == {[batch |-> FALSE, items |-> <<e>>] : e \in Entries} \cup {[batch |-> TRUE, items |-> b] : b \in Batches}

Invs == /\ AtMostOnce /\ ExactlyOnce /\ BatchOnce /\ BatchShape
        /\ NotesAfterResponse /\ NotesInOrder /\ TimeoutOnlyIfFired

=============================================================================
