SPECIFICATION TraceSpec
CONSTANTS AsCoded = TRUE
          Fixed = FALSE
          Mode = "http"
          Messages <- NoMessages
          MaxMsgs = 1
          HasTimeout <- THasTimeout
          BatchLimit <- TBatchLimit
          SizeLimit <- TSizeLimit
          MaxNotes = 0
          SzRet = 10
          SzBig = 60
          SzErr = 40
          SzInv = 43
CONSTRAINT HWMExit
CHECK_DEADLOCK FALSE
