----------------------------- MODULE SpongeTrace -----------------------------
(* Trace validation for C04: every line is one call on a real crypto.KeccakState           *)
(*   [op, k, mlen, n, squeezing, from, match]                                              *)
(* with the fill offset n and the direction read from the real sponge after the call, the  *)
(* message length and output offset the driver's reference digest was computed for, and     *)
(* match = the output equalled the reference (x/crypto legacy Keccak-256, one-shot).       *)
(* Accepted iff the call is the corresponding action of Sponge at Rate=136, n/direction/   *)
(* message length/output offset are the specification's and the output matched; all        *)
(* invariants of Sponge are evaluated after every call.                                    *)
EXTENDS Sponge, Json, IOUtils

Trace == ndJsonDeserialize(IOEnv.TRACE)

VARIABLE l
Ev == Trace[l]

Observed ==
  /\ Ev.n = n' /\ Ev.squeezing = (phase' = "squeezing") /\ Ev.mlen = msgLen'
  /\ Ev.match

Step(A) == l <= Len(Trace) /\ A /\ l' = l + 1

TWrite == Step(Ev.op = "Write" /\ Write(Ev.k) /\ Observed)
TRead  == Step(Ev.op = "Read" /\ Ev.from = squeezed /\ Read(Ev.k) /\ Observed)
TSum   == Step(Ev.op = "Sum" /\ Sum /\ Observed)
TReset == Step(Ev.op = "Reset" /\ Reset /\ Observed)
TClob  == Step(Ev.op = "Clobber" /\ Clobber /\ Observed)

TraceInit == Init /\ l = 1
TraceNext == TWrite \/ TRead \/ TSum \/ TReset \/ TClob
TraceSpec == TraceInit /\ [][TraceNext]_<< vars, l >>

TraceAccepted == TLCGet("stats").diameter - 1 = Len(Trace)
=============================================================================
