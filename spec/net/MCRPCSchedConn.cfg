SPECIFICATION SchedSpec
CONSTANTS Messages <- MCMessages
          AsCoded = FALSE
          Fixed = FALSE
          Gated = FALSE
          Mode = "conn"
          MaxMsgs = 2
          HasTimeout = FALSE
          BatchLimit = 0
          SizeLimit = 0
          MaxNotes = 1
          SzRet = 10
          SzBig = 60
          SzErr = 40
          SzInv = 43
          CallMethods = {"blk", "sub", "nsub"}
          NotifMethods = {"blk", "nsub"}
          InvIds = {}
          WithResp = FALSE
          MaxBatch = 1
          Ids = {1}
INVARIANTS StateOut Invs
ACTION_CONSTRAINT Edge
CHECK_DEADLOCK FALSE
