SPECIFICATION FairSpec
CONSTANTS NS = 1
          NC = 2
          CapMod = 2
          MaxSends = 2
          MaxSubs = 1
          NCallers = 1
          Senders <- MCSenders
          Chans <- MCChans
          Cap <- MCCap
INVARIANTS TypeOK NoPanic
PROPERTY UnsubReturns
CHECK_DEADLOCK FALSE
