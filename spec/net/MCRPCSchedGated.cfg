SPECIFICATION SchedSpec
CONSTANTS Messages <- MCMessages
          AsCoded = TRUE
          Fixed = FALSE
          Gated = TRUE
          Mode = "http"
          MaxMsgs = 1
          HasTimeout = TRUE
          BatchLimit = 0
          SizeLimit = 100
          MaxNotes = 0
          SzRet = 10
          SzBig = 60
          SzErr = 40
          SzInv = 43
          CallMethods = {"ret", "blk", "cblk"}
          NotifMethods = {"blk", "cblk"}
          InvIds = {}
          WithResp = FALSE
          MaxBatch = 2
          Ids = {1, 2}
INVARIANTS StateOut
ACTION_CONSTRAINT Edge
CHECK_DEADLOCK FALSE
