------------------------------- MODULE MCRLPx -------------------------------
(* Model-checking wrapper of RLPx.tla.  Besides checking the invariants on every interleaving *)
(* of writes, reads and modifications, TLC emits one test case per complete run: the          *)
(* adversary's choices (which packet/frame, which position class) and the outcome the         *)
(* specification prescribes.  harness/cmd/c44 executes each case on real rlpx.Conn pairs.     *)
EXTENDS RLPx, Json

Complete ==
  /\ hsA \in {"done", "fail"} /\ hsB \in {"done", "fail"}
  /\ \A d \in Dirs : Sender(d) = "done" => Len(sent[d]) = MaxMsgs
  /\ \A d \in Dirs : (Sender(d) = "done" /\ Receiver(d) = "done") => rd[d] = Len(wire[d])

FlipsOf(d) == [i \in 1..Len(wire[d]) |-> wire[d][i].flip]

CaseOf == [ auth |-> [flip |-> auth.flip, bad |-> auth.bad],
            ack  |-> [present |-> ack.present, flip |-> ack.flip, bad |-> ack.bad],
            flipsAB |-> FlipsOf("AB"), flipsBA |-> FlipsOf("BA"),
            expect |-> [hsA |-> hsA, hsB |-> hsB, learnedA |-> learnedA, learnedB |-> learnedB,
                        dlvAB |-> Len(dlv["AB"]), dlvBA |-> Len(dlv["BA"]),
                        errAB |-> errs["AB"] > 0, errBA |-> errs["BA"] > 0] ]

EmitCase == Complete => PrintT(<<"CASE", ToJson(CaseOf)>>)

Invs == Prefix /\ NothingAfterTamper /\ NoResync /\ ErrorReported /\ KeysTrue /\ SessionNeedsCleanHandshake
=============================================================================
