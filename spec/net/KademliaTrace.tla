--------------------------- MODULE KademliaTrace ---------------------------
(* Trace validation for Kademlia.tla: every handler call recorded from a real              *)
(* p2p/discover.Table (real constants) must be a step of the specification whose successor *)
(* state equals the complete logged table state (entries with liveness bookkeeping,        *)
(* replacements, per-bucket and table address counters).  The random choice of the         *)
(* replacement to promote is existentially quantified.  The C46 invariants are evaluated   *)
(* after every real step.                                                                  *)
EXTENDS Kademlia, Json, IOUtils, TLC

Trace == ndJsonDeserialize(IOEnv.TRACE)
VARIABLE l
Ev == Trace[l]

N(t) == [id |-> t[1], net |-> t[2], host |-> t[3], port |-> t[4], seq |-> t[5]]
NT(n) == <<n.id, n.net, n.host, n.port, n.seq>>
ET(e) == NT(e.n) \o <<e.checks, e.live, e.list>>
CntSeq(c) == LET ks == SetToSortSeq(DOMAIN c, LAMBDA a, b : a < b) IN [i \in 1..Len(ks) |-> <<ks[i], c[ks[i]]>>]
Proj(T) == [ent  |-> [b \in 1..NB |-> [i \in 1..Len(T.ent[b - 1]) |-> ET(T.ent[b - 1][i])]],
            rep  |-> [b \in 1..NB |-> [i \in 1..Len(T.rep[b - 1]) |-> NT(T.rep[b - 1][i])]],
            bips |-> [b \in 1..NB |-> CntSeq(T.bips[b - 1])],
            tips |-> CntSeq(T.tips)]
Logged(T) == Proj(T) = Ev.st
Nodes(s) == [i \in 1..Len(s) |-> N(s[i])]

Step(A) == l <= Len(Trace) /\ A /\ l' = l + 1

TNew   == Step(Ev.op = "reset" /\ ent' = [b \in Buckets |-> << >>] /\ rep' = [b \in Buckets |-> << >>]
               /\ bips' = [b \in Buckets |-> EmptyFn] /\ tips' = EmptyFn /\ initDone' = FALSE
               /\ fails' = EmptyFn /\ pend' = EmptyFn)
TInit  == Step(Ev.op = "initdone" /\ InitDone /\ Logged(Cur))
TAdd   == Step(Ev.op = "add" /\ LET r == HandleAdd(Cur, N(Ev.n), Ev.inb, initDone) IN
               r.ok = Ev.ok /\ Logged(r.t) /\ Set(r.t) /\ UNCHANGED initDone)
TDel   == Step(Ev.op = "delete" /\ \E r \in RepChoices(Cur, BucketOf(Ev.id)) :
               LET T == DeleteIn(Cur, BucketOf(Ev.id), Ev.id, r) IN Logged(T) /\ Set(T) /\ UNCHANGED initDone)
TStart == Step(Ev.op = "start" /\ StartReval(Ev.id) /\ Logged(Cur))
TResp  == Step(Ev.op = "resp" /\ Ev.id \in DOMAIN pend /\ \E r \in RepChoices(Cur, BucketOf(Ev.id)) :
               LET T == RevalResponse(Cur, Ev.id, Ev.ok, Nodes(Ev.nr), r) IN Logged(T) /\ Set(T) /\ UNCHANGED initDone)
TTrack == Step(Ev.op = "track" /\ \E r \in RepChoices(Cur, BucketOf(N(Ev.n).id)) :
               LET T == TrackRequest(Cur, N(Ev.n), Ev.succ, Nodes(Ev.found), r, initDone) IN
               Logged(T) /\ GetFails(T, N(Ev.n)) = Ev.f /\ Set(T) /\ UNCHANGED initDone)
TFind  == Step(Ev.op = "find" /\ Closest(Cur, Ev.t, Ev.k, Ev.pl) = Ev.res /\ Logged(Cur) /\ UNCHANGED vars)

TraceInit == Init /\ l = 1
TraceNext == TNew \/ TInit \/ TAdd \/ TDel \/ TStart \/ TResp \/ TTrack \/ TFind
TraceSpec == TraceInit /\ [][TraceNext]_<<vars, l>>

TraceAccepted == TLCGet("stats").diameter - 1 = Len(Trace)
=============================================================================
