SPECIFICATION SchedSpec
CONSTANTS NS = 3
          NC = 2
          CapMod = 2
          MaxSends = 1
          MaxSubs = 1
          NCallers = 1
          Senders <- MCSenders
          Chans <- MCChans
          Cap <- MCCap
INVARIANTS StateOut TypeOK NoPanic LockOwner NoDuplicates Registered InactiveDone AtMostOnce ExactlyOnce CountReturned InSendOrder NoLateDelivery OnlySubscribed
ACTION_CONSTRAINT Edge
VIEW SchedView
CHECK_DEADLOCK FALSE
