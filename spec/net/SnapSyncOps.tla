---------------------------- MODULE SnapSyncOps ----------------------------
(* Variable-free definitions shared by SnapSync.tla and SnapSyncTrace.tla.                 *)
(* A range request is [id, space, origin, last, peer]: ranks origin..last of a key space   *)
(* with n keys (last may exceed n: "up to the maximal hash").                               *)
EXTENDS Integers, FiniteSets

Min2(a, b) == IF a < b THEN a ELSE b

(* a genuine response to r delivers the contiguous run origin..upto with valid edge proofs; *)
(* the run may be empty only if nothing is left at or after the origin                      *)
GenuineN(r, upto, n) == /\ upto <= n /\ upto >= r.origin - 1
                        /\ (upto = r.origin - 1) => r.origin > n
(* the part of the run the client uses (a response may overshoot the requested last key)    *)
Run(r, upto) == {<<r.space, k>> : k \in r.origin..Min2(upto, r.last)}
(* where the task continues; n+1.. means the space is exhausted                             *)
NextAfter(r, upto, n) == IF upto >= n THEN r.last + 1 ELSE upto + 1
=============================================================================
