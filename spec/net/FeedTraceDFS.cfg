SPECIFICATION TraceSpec
CONSTANTS MaxSends = 0
          MaxSubs = 0
          NCallers = 2
          Senders <- TSenders
          Chans <- TChans
          Cap <- TCap
INVARIANTS TypeOK NoPanic LockOwner NoDuplicates Registered AtMostOnce ExactlyOnce CountReturned InSendOrder NoLateDelivery
CONSTRAINT HWMExit
CHECK_DEADLOCK FALSE
