----------------------------- MODULE Kademlia -----------------------------
(* The discovery node table (go-ethereum p2p/discover/table.go, table_reval.go).           *)
(*                                                                                         *)
(* Node ids are natural numbers: the XOR distance to the local node (the local node is 0). *)
(* The harness spreads the bits of a model id over chosen bit positions of a real 256-bit  *)
(* id, so log-distance and XOR order are preserved; the lowest LowBits bit positions map   *)
(* to distances that all fall into bucket 0 (bucketMinDistance collapse).                  *)
(* A node record is [id, net, host, port, seq]: net is the /24 class of its address        *)
(* (LAN = exempt from limits, NoIP = no address, Unspec = 0.0.0.0), host tells addresses of the   *)
(* same /24 apart.                                                                         *)
(*                                                                                         *)
(* One operator per Go function, composed over a state record T; actions are the cases of  *)
(* Table.loop: add node (found / inbound), delete node, revalidation start / response,     *)
(* track request, plus the findnode query.                                                 *)
EXTENDS Integers, Sequences, FiniteSets, Bitwise, SequencesExt

CONSTANTS B,        \* bucketSize
          R,        \* maxReplacements
          BIPL,     \* bucketIPLimit   (addresses per /24 in one bucket)
          TIPL,     \* tableIPLimit    (addresses per /24 in the table)
          MaxFails, \* maxFindnodeFailures
          NB,       \* number of buckets
          LowBits   \* model bit positions 1..LowBits lie at or below bucketMinDistance+1 (bucket 0)

LAN == 0
NoIP == -1        \* record without an address
Unspec == -2      \* the unspecified address 0.0.0.0

VARIABLES ent,      \* bucket -> sequence of entries [n, checks, live, list]
          rep,      \* bucket -> sequence of replacement node records (most recent first)
          bips,     \* bucket -> (net -> count)   bucket.ips
          tips,     \* net -> count               Table.ips
          initDone, \* initial refresh completed
          fails,    \* <<id, net, host>> -> consecutive findnode failures (node database)
          pend      \* id -> stale?  revalidation requests in flight
vars == <<ent, rep, bips, tips, initDone, fails, pend>>

Buckets == 0..(NB - 1)

RECURSIVE BitLen(_)
BitLen(x) == IF x = 0 THEN 0 ELSE 1 + BitLen(x \div 2)
LogDist(id) == BitLen(id)
BucketOf(id) == LET d == LogDist(id) IN IF d <= LowBits THEN 0 ELSE d - LowBits
Dist(a, t) == a ^^ t

(* ------------------------------ counters (netutil.DistinctNetSet) ---------------------- *)
Cnt(c, k) == IF k \in DOMAIN c THEN c[k] ELSE 0
Inc(c, k) == [x \in DOMAIN c \cup {k} |-> IF x = k THEN Cnt(c, k) + 1 ELSE c[x]]
Dec(c, k) == IF k \notin DOMAIN c THEN c
             ELSE IF c[k] = 1 THEN [x \in DOMAIN c \ {k} |-> c[x]]
             ELSE [c EXCEPT ![k] = @ - 1]
EmptyFn == [x \in {} |-> 0]

(* ------------------------------ state record ------------------------------------------- *)
Cur == [ent |-> ent, rep |-> rep, bips |-> bips, tips |-> tips, fails |-> fails, pend |-> pend]
Set(T) == /\ ent' = T.ent /\ rep' = T.rep /\ bips' = T.bips /\ tips' = T.tips
          /\ fails' = T.fails /\ pend' = T.pend

IndexOf(s, id) == IF \E i \in 1..Len(s) : s[i].n.id = id THEN CHOOSE i \in 1..Len(s) : s[i].n.id = id ELSE 0
RIndexOf(s, id) == IF \E i \in 1..Len(s) : s[i].id = id THEN CHOOSE i \in 1..Len(s) : s[i].id = id ELSE 0
RemoveAt1(s, i) == SubSeq(s, 1, i - 1) \o SubSeq(s, i + 1, Len(s))
Addr(n) == <<n.net, n.host>>

(* addIP / removeIP *)
AddIP(T, b, net) ==
  IF net = NoIP \/ net = Unspec THEN [ok |-> FALSE, t |-> T]
  ELSE IF net = LAN THEN [ok |-> TRUE, t |-> T]
  ELSE IF Cnt(T.tips, net) >= TIPL THEN [ok |-> FALSE, t |-> T]
  ELSE IF Cnt(T.bips[b], net) >= BIPL THEN [ok |-> FALSE, t |-> T]
  ELSE [ok |-> TRUE, t |-> [T EXCEPT !.tips = Inc(@, net), !.bips[b] = Inc(@, net)]]
RemoveIP(T, b, net) ==
  IF net = LAN THEN T ELSE [T EXCEPT !.tips = Dec(@, net), !.bips[b] = Dec(@, net)]

(* bumpInBucket: [found, changed, t] *)
Bump(T, b, n, inbound) ==
  LET i == IndexOf(T.ent[b], n.id) IN
  IF i = 0 THEN [found |-> FALSE, changed |-> FALSE, t |-> T]
  ELSE LET e == T.ent[b][i] IN
    IF n.seq <= e.n.seq /\ ~inbound THEN [found |-> TRUE, changed |-> FALSE, t |-> T]
    ELSE LET ipch == Addr(n) # Addr(e.n)
             poch == n.port # e.n.port
             T1   == IF ipch THEN RemoveIP(T, b, e.n.net) ELSE T
             a    == IF ipch THEN AddIP(T1, b, n.net) ELSE [ok |-> TRUE, t |-> T1]
         IN IF ~a.ok THEN [found |-> TRUE, changed |-> FALSE, t |-> AddIP(T1, b, e.n.net).t]
            ELSE LET e2 == IF ipch \/ poch THEN [e EXCEPT !.n = n, !.live = FALSE, !.list = "fast"]
                                          ELSE [e EXCEPT !.n = n]
                 IN [found |-> TRUE, changed |-> ipch \/ poch, t |-> [a.t EXCEPT !.ent[b][i] = e2]]

(* addReplacement *)
AddReplacement(T, b, n) ==
  IF RIndexOf(T.rep[b], n.id) # 0 THEN T
  ELSE LET a == AddIP(T, b, n.net) IN
    IF ~a.ok THEN T
    ELSE LET l == <<n>> \o a.t.rep[b] IN
      IF Len(l) <= R THEN [a.t EXCEPT !.rep[b] = l]
      ELSE RemoveIP([a.t EXCEPT !.rep[b] = SubSeq(l, 1, R)], b, l[Len(l)].net)

(* handleAddNode: [ok, t] *)
HandleAdd(T, n, inbound, init) ==
  IF n.id = 0 THEN [ok |-> FALSE, t |-> T]
  ELSE IF inbound /\ ~init THEN [ok |-> FALSE, t |-> T]
  ELSE LET b == BucketOf(n.id)
           bu == Bump(T, b, n, inbound)
       IN IF bu.found THEN [ok |-> FALSE, t |-> bu.t]
          ELSE IF Len(T.ent[b]) >= B THEN [ok |-> FALSE, t |-> AddReplacement(T, b, n)]
          ELSE LET a == AddIP(T, b, n.net) IN
            IF ~a.ok THEN [ok |-> FALSE, t |-> T]
            ELSE LET e == [n |-> n, checks |-> 0, live |-> FALSE, list |-> "fast"]
                     ri == RIndexOf(a.t.rep[b], n.id)
                 IN [ok |-> TRUE, t |-> [a.t EXCEPT !.ent[b] = Append(@, e),
                                                    !.rep[b] = IF ri = 0 THEN @ ELSE RemoveAt1(@, ri)]]

(* deleteInBucket; r = index of the (randomly chosen) replacement to promote *)
DeleteIn(T, b, id, r) ==
  LET i == IndexOf(T.ent[b], id) IN
  IF i = 0 THEN T
  ELSE LET e  == T.ent[b][i]
           T1 == RemoveIP([T EXCEPT !.ent[b] = RemoveAt1(@, i),
                                    !.pend = IF id \in DOMAIN @ THEN [@ EXCEPT ![id] = TRUE] ELSE @], b, e.n.net)
       IN IF Len(T1.rep[b]) = 0 THEN T1
          ELSE LET p == T1.rep[b][r] IN
            [T1 EXCEPT !.rep[b] = RemoveAt1(@, r),
                       !.ent[b] = Append(@, [n |-> p, checks |-> 0, live |-> FALSE, list |-> "fast"])]
RepChoices(T, b) == IF Len(T.rep[b]) = 0 THEN {1} ELSE 1..Len(T.rep[b])

(* tableRevalidation.handleResponse for a request started on the entry with this id *)
RevalResponse(T, id, didRespond, newRec, r) ==
  LET T0 == [T EXCEPT !.pend = [x \in DOMAIN @ \ {id} |-> @[x]]]
      b  == BucketOf(id)
      i  == IndexOf(T.ent[b], id)
  IN IF T.pend[id] THEN T0            \* the entry was removed meanwhile: n.revalList == nil
     ELSE LET e == T.ent[b][i] IN
       IF ~didRespond
       THEN LET c == e.checks \div 3 IN
            IF c <= 0 THEN DeleteIn([T0 EXCEPT !.ent[b][i].checks = c], b, id, r)
            ELSE [T0 EXCEPT !.ent[b][i].checks = c, !.ent[b][i].list = "fast"]
       ELSE LET T1 == [T0 EXCEPT !.ent[b][i].checks = @ + 1, !.ent[b][i].live = TRUE]
                bu == IF newRec = << >> THEN [found |-> TRUE, changed |-> FALSE, t |-> T1]
                                       ELSE Bump(T1, b, newRec[1], FALSE)
            IN IF bu.changed THEN bu.t ELSE [bu.t EXCEPT !.ent[b][i].list = "slow"]

(* handleTrackRequest *)
RECURSIVE AddAll(_, _, _)
AddAll(T, ns, init) == IF ns = << >> THEN T ELSE AddAll(HandleAdd(T, Head(ns), FALSE, init).t, Tail(ns), init)
FKey(n) == <<n.id, n.net, n.host>>
(* the node database keeps no counters for records without a valid address *)
GetFails(T, n) == IF n.net # NoIP /\ FKey(n) \in DOMAIN T.fails THEN T.fails[FKey(n)] ELSE 0
SetFails(T, n, v) == IF n.net = NoIP THEN T ELSE [T EXCEPT !.fails = [k \in DOMAIN @ \cup {FKey(n)} |-> IF k = FKey(n) THEN v ELSE @[k]]]
TrackRequest(T, n, success, found, r, init) ==
  LET f  == IF success THEN 0 ELSE GetFails(T, n) + 1
      T1 == SetFails(T, n, f)
      b  == BucketOf(n.id)
      T2 == IF f >= MaxFails /\ Len(T1.ent[b]) >= B \div 4 THEN DeleteIn(T1, b, n.id, r) ELSE T1
  IN AddAll(T2, found, init)

(* findnodeByID: declarative result ... *)
AllEntries(T) == UNION {{T.ent[b][i] : i \in 1..Len(T.ent[b])} : b \in Buckets}
Pool(T, preferLive) ==
  LET all == AllEntries(T)
      lv  == {e \in all : e.live}
  IN IF preferLive /\ lv # {} THEN lv ELSE all
Closest(T, target, k, preferLive) ==
  LET ids == {e.n.id : e \in Pool(T, preferLive)}
      s   == SetToSortSeq(ids, LAMBDA x, y : Dist(x, target) < Dist(y, target))
  IN SubSeq(s, 1, IF Len(s) < k THEN Len(s) ELSE k)
(* ... and as the code computes it: nodesByDistance.push over all buckets in order *)
Push(l, x, m, target) ==
  LET ix  == Cardinality({i \in 1..Len(l) : Dist(l[i], target) <= Dist(x, target)}) + 1
      ins == SubSeq(l, 1, ix - 1) \o <<x>> \o SubSeq(l, ix, Len(l))
  IN IF Len(l) < m THEN ins ELSE IF ix <= Len(l) THEN SubSeq(ins, 1, m) ELSE l
RECURSIVE PushAll(_, _, _, _)
PushAll(l, s, m, target) == IF s = << >> THEN l ELSE PushAll(Push(l, Head(s), m, target), Tail(s), m, target)
RECURSIVE Flat(_, _, _)
Flat(T, b, onlyLive) ==
  IF b = NB THEN << >>
  ELSE SelectSeq([i \in 1..Len(T.ent[b]) |-> T.ent[b][i]], LAMBDA e : ~onlyLive \/ e.live) \o Flat(T, b + 1, onlyLive)
ClosestImpl(T, target, k, preferLive) ==
  LET ids(s) == [i \in 1..Len(s) |-> s[i].n.id]
      lv == PushAll(<< >>, ids(Flat(T, 0, TRUE)), k, target)
  IN IF preferLive /\ Len(lv) > 0 THEN lv ELSE PushAll(<< >>, ids(Flat(T, 0, FALSE)), k, target)

(* ------------------------------ actions ------------------------------------------------ *)
Init == /\ ent = [b \in Buckets |-> << >>] /\ rep = [b \in Buckets |-> << >>]
        /\ bips = [b \in Buckets |-> EmptyFn] /\ tips = EmptyFn
        /\ initDone = FALSE /\ fails = EmptyFn /\ pend = EmptyFn

InitDone == ~initDone /\ initDone' = TRUE /\ UNCHANGED <<ent, rep, bips, tips, fails, pend>>
Add(n, inbound) == Set(HandleAdd(Cur, n, inbound, initDone).t) /\ UNCHANGED initDone
Delete(id, r) == r \in RepChoices(Cur, BucketOf(id)) /\ Set(DeleteIn(Cur, BucketOf(id), id, r)) /\ UNCHANGED initDone
StartReval(id) == /\ id \notin DOMAIN pend /\ IndexOf(ent[BucketOf(id)], id) # 0
                  /\ pend' = [x \in DOMAIN pend \cup {id} |-> IF x = id THEN FALSE ELSE pend[x]]
                  /\ UNCHANGED <<ent, rep, bips, tips, initDone, fails>>
Response(id, ok, newRec, r) == /\ id \in DOMAIN pend /\ r \in RepChoices(Cur, BucketOf(id))
                               /\ Set(RevalResponse(Cur, id, ok, newRec, r)) /\ UNCHANGED initDone
Track(n, success, found, r) == /\ r \in RepChoices(Cur, BucketOf(n.id))
                               /\ Set(TrackRequest(Cur, n, success, found, r, initDone)) /\ UNCHANGED initDone

(* ------------------------------ invariants (C46) --------------------------------------- *)
NodesOf(b) == {ent[b][i].n : i \in 1..Len(ent[b])} \cup {rep[b][i] : i \in 1..Len(rep[b])}
BucketCap == \A b \in Buckets : Len(ent[b]) <= B /\ Len(rep[b]) <= R
DistinctIds == \A b \in Buckets :
   LET ids == [i \in 1..(Len(ent[b]) + Len(rep[b])) |-> IF i <= Len(ent[b]) THEN ent[b][i].n.id ELSE rep[b][i - Len(ent[b])].id]
   IN \A i, j \in DOMAIN ids : i # j => ids[i] # ids[j]
RightBucket == \A b \in Buckets : \A n \in NodesOf(b) : BucketOf(n.id) = b
NoSelf == \A b \in Buckets : \A n \in NodesOf(b) : n.id # 0
HasIP == \A b \in Buckets : \A n \in NodesOf(b) : n.net \notin {NoIP, Unspec}
(* recount of the addresses actually present (a sequence position is an address use) *)
Uses(b, net) == Cardinality({i \in 1..Len(ent[b]) : ent[b][i].n.net = net}) + Cardinality({i \in 1..Len(rep[b]) : rep[b][i].net = net})
NetsIn(b) == {n.net : n \in NodesOf(b)} \ {LAN}
AllNets == UNION {NetsIn(b) : b \in Buckets}
RECURSIVE SumUses(_, _)
SumUses(b, net) == IF b = NB THEN 0 ELSE Uses(b, net) + SumUses(b + 1, net)
IPLimits == /\ \A b \in Buckets : \A net \in NetsIn(b) : Uses(b, net) <= BIPL
            /\ \A net \in AllNets : SumUses(0, net) <= TIPL
CountersExact == /\ \A b \in Buckets : DOMAIN bips[b] = NetsIn(b) /\ \A net \in NetsIn(b) : bips[b][net] = Uses(b, net)
                 /\ DOMAIN tips = AllNets /\ \A net \in AllNets : tips[net] = SumUses(0, net)
(* replacements exist only for full buckets (deleteInBucket always promotes) *)
ReplOnlyWhenFull == \A b \in Buckets : Len(rep[b]) > 0 => Len(ent[b]) = B
PendingSound == \A id \in DOMAIN pend : ~pend[id] => IndexOf(ent[BucketOf(id)], id) # 0
ClosestAgrees(Targets, K) == \A t \in Targets : \A k \in 1..K : \A pl \in BOOLEAN :
                               ClosestImpl(Cur, t, k, pl) = Closest(Cur, t, k, pl)
=============================================================================
