----------------------------- MODULE Discv5Trace -----------------------------
(* Trace validation for Discv5.tla: every line of the trace is one call made on a real     *)
(* v5wire.Codec (or a network action of the harness); it must be the corresponding action  *)
(* of the specification, and for Decode calls the reported class must be the one the       *)
(* specification computes in the current state.  All invariants of Discv5.tla are          *)
(* evaluated after every real step.                                                        *)
EXTENDS Discv5, Json, IOUtils

Trace == ndJsonDeserialize(IOEnv.TRACE)
VARIABLE l
Ev == Trace[l]
Step(A) == l <= Len(Trace) /\ A /\ l' = l + 1

(* a new network: fresh nodes and keys *)
TInit == Step(/\ Ev.op = "init"
              /\ sess' = All(NoSess) /\ chal' = All(NoChal) /\ unk' = All(0) /\ got' = All(NoChal)
              /\ knows' = [n \in Node |-> [p \in Node |-> Ev.knows[n][p]]]
              /\ wire' = <<>> /\ fresh' = 1
              /\ sids' = [x \in {} |-> 0] /\ cids' = [x \in {} |-> 0] /\ log' = {})
TMsg    == Step(Ev.op = "msg" /\ SendMsg(Ev.n, Ev.p, Ev.m) /\ Len(wire') = Ev.i)
TWay    == Step(Ev.op = "way" /\ SendWhoareyou(Ev.n, Ev.p) /\ Len(wire') = Ev.i
                /\ (Ev.out = "known") = knows[Ev.n][Ev.p])
THs     == Step(Ev.op = "hs" /\ SendHandshake(Ev.n, Ev.p, Ev.m) /\ Len(wire') = Ev.i
                /\ (Ev.out = "record") = wire'[Ev.i].rs)
TTamper == Step(Ev.op = "tamper" /\ Tamper(Ev.i, Ev.t))
TForge  == Step(Ev.op = "forge" /\ Forge(Ev.i, Ev.m))
(* Decode of packet i at node n, arriving from the address of node p *)
TDeliver == Step(/\ Ev.op = "deliver" /\ Ev.i \in 1..Len(wire)
                 /\ Ev.out = Outcome(Ev.n, wire[Ev.i], Ev.p)
                 /\ Deliver(Ev.i, Ev.n, Ev.p))
TReset  == Step(Ev.op = "reset" /\ Reset(Ev.n))
(* the clock of one node passes the handshake timeout (whether or not a challenge is pending) *)
TExpire == Step(/\ Ev.op = "expireall"
                /\ chal' = [chal EXCEPT ![Ev.n] = [p \in Node |-> NoChal]]
                /\ UNCHANGED <<sess, unk, got, knows, wire, fresh, sids, cids, log>>)

TraceInit == /\ sess = All(NoSess) /\ chal = All(NoChal) /\ unk = All(0) /\ got = All(NoChal) /\ knows = All(FALSE)
             /\ wire = <<>> /\ fresh = 1 /\ sids = [x \in {} |-> 0] /\ cids = [x \in {} |-> 0] /\ log = {} /\ l = 1
TraceNext == TInit \/ TMsg \/ TWay \/ THs \/ TTamper \/ TForge \/ TDeliver \/ TReset \/ TExpire
TraceSpec == TraceInit /\ [][TraceNext]_<<vars, l>>

TraceAccepted == TLCGet("stats").diameter - 1 = Len(Trace)
=============================================================================
