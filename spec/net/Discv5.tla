------------------------------- MODULE Discv5 -------------------------------
(***************************************************************************)
(* Discovery v5 wire protocol, session part of property C45: the packet    *)
(* codec of two (or more) nodes as a state machine, written from the       *)
(* discv5 wire specification (discv5-wire.md: packet encoding, masking,    *)
(* WHOAREYOU challenge, handshake with id-signature, session keys, AES-GCM *)
(* with the header as associated data).  Cryptography is symbolic:         *)
(*   - a session is an identifier sid created by the node that sends the   *)
(*     handshake packet; the two directions of a session use two keys,     *)
(*     told apart by the `init` flag of the writer;                        *)
(*   - a challenge is an identifier cid standing for the challenge-data    *)
(*     (the whole WHOAREYOU header as sent); a tampered copy of a          *)
(*     WHOAREYOU packet carries a different cid;                           *)
(*   - the header mask is keyed with the destination's node id, so a       *)
(*     packet unmasks to garbage at any other node;                        *)
(*   - a packet modified in flight carries a tamper class t:               *)
(*     "iv" masking IV, "ver" the (high byte of the) version field, which  *)
(*     only the authentication of the header protects, "nonce" the nonce   *)
(*     in the static header, "src" the source id in the authdata, "idn"    *)
(*     the id-nonce of a WHOAREYOU, "sig" the id-signature of a handshake, *)
(*     "ct" message ciphertext/tag.                                        *)
(*                                                                         *)
(* One action per codec call: SendMsg/SendWhoareyou/SendHandshake are      *)
(* Codec.Encode in its three modes, Deliver is Codec.Decode, Reset is a    *)
(* node restart (all sessions and challenges lost), Expire is the          *)
(* handshake timeout.  The network (adversary) may deliver any packet ever *)
(* created, any number of times, to any node, and create tampered copies.  *)
(*                                                                         *)
(* What Decode reports: "msg" an authenticated message, "hsmsg" a message  *)
(* in an accepted handshake packet (a new session starts), "way" a         *)
(* WHOAREYOU (never authenticated by itself), "unknown" a message packet   *)
(* that cannot be read (the caller answers with WHOAREYOU), "err" reject.  *)
(***************************************************************************)
EXTENDS Integers, Sequences, FiniteSets, TLC

CONSTANTS Node,       \* the nodes
          Msgs,       \* message kinds (PING, PONG, FINDNODE, NODES, TALKREQ, TALKRESP)
          MaxWire     \* bound on the number of packets created (model checking only)

VARIABLES sess,       \* sess[n][p]  : [sid, init], sid = 0: none;  the session n holds for peer p
          chal,       \* chal[n][p]  : [cid, rs], cid = 0: none;   challenge n sent to p, still pending; rs: n knew p's record
          unk,        \* unk[n][p]   : 0 or wire index   last unreadable message packet n got from p
          got,        \* got[n][p]   : [cid, rs], cid = 0: none;   last WHOAREYOU n decoded from p, kept by the caller
          knows,      \* knows[n][p] : n has p's node record
          wire,       \* every packet ever created (the adversary's knowledge)
          fresh,      \* next unused identifier
          sids,       \* ghost: sid -> [by, for, cid]    who created the session keys, for whom, over which challenge
          cids,       \* ghost: cid -> [by, for, genuine]
          log         \* ghost: accepted deliveries [to, i, cur] (cur = receiver's session id after the step)

vars == <<sess, chal, unk, got, knows, wire, fresh, sids, cids, log>>

Pkt(k, src, dst, sid, init, cid, rs, m) ==
  [k |-> k, src |-> src, dst |-> dst, sid |-> sid, init |-> init, cid |-> cid, rs |-> rs, m |-> m, t |-> "", orig |-> 0]

TamperClasses(k) == CASE k = "rand" -> {"iv", "ver", "nonce", "src", "ct"}
                      [] k = "msg"  -> {"iv", "ver", "nonce", "src", "ct"}
                      [] k = "way"  -> {"iv", "ver", "nonce", "idn"}
                      [] k = "hs"   -> {"iv", "ver", "nonce", "src", "sig", "ct"}

NoSess == [sid |-> 0, init |-> FALSE]          \* no session
NoChal == [cid |-> 0, rs |-> FALSE]            \* no challenge
All(x) == [n \in Node |-> [p \in Node |-> x]]

Init == /\ sess = All(NoSess) /\ chal = All(NoChal) /\ unk = All(0) /\ got = All(NoChal)
        /\ knows \in {f \in [Node -> [Node -> BOOLEAN]] : \A n \in Node : ~f[n][n]}
        /\ wire = <<>> /\ fresh = 1
        /\ sids = [x \in {} |-> 0] /\ cids = [x \in {} |-> 0] /\ log = {}

(* ------------------------------- Encode -------------------------------- *)
(* ordinary message: encrypted if a session exists, else random data that   *)
(* only provokes a WHOAREYOU                                                *)
SendMsg(n, p, m) ==
  /\ n # p
  /\ wire' = Append(wire, IF sess[n][p].sid = 0 THEN Pkt("rand", n, p, 0, FALSE, 0, FALSE, m)
                          ELSE Pkt("msg", n, p, sess[n][p].sid, sess[n][p].init, 0, FALSE, m))
  /\ UNCHANGED <<sess, chal, unk, got, knows, fresh, sids, cids, log>>

(* WHOAREYOU in answer to an unreadable packet; replaces any pending challenge *)
SendWhoareyou(n, p) ==
  /\ n # p /\ unk[n][p] # 0
  /\ wire' = Append(wire, Pkt("way", n, p, 0, FALSE, fresh, knows[n][p], ""))
  /\ chal' = [chal EXCEPT ![n][p] = [cid |-> fresh, rs |-> knows[n][p]]]
  /\ cids' = cids @@ (fresh :> [by |-> n, for |-> p, genuine |-> TRUE])
  /\ unk' = [unk EXCEPT ![n][p] = 0]
  /\ fresh' = fresh + 1
  /\ UNCHANGED <<sess, got, knows, sids, log>>

(* handshake packet answering the WHOAREYOU the caller holds; the sender    *)
(* switches to the new session keys at once; it encloses its record iff the *)
(* challenger announced not to have it                                      *)
SendHandshake(n, p, m) ==
  /\ n # p /\ got[n][p].cid # 0 /\ knows[n][p]          \* the recipient's public key is needed
  /\ wire' = Append(wire, Pkt("hs", n, p, fresh, TRUE, got[n][p].cid, ~got[n][p].rs, m))
  /\ sess' = [sess EXCEPT ![n][p] = [sid |-> fresh, init |-> TRUE]]
  /\ sids' = sids @@ (fresh :> [by |-> n, for |-> p, cid |-> got[n][p].cid])
  /\ got' = [got EXCEPT ![n][p] = NoChal]
  /\ fresh' = fresh + 1
  /\ UNCHANGED <<chal, unk, knows, cids, log>>

(* ------------------------------- network ------------------------------- *)
Tamper(i, t) ==
  /\ i \in 1..Len(wire) /\ wire[i].t = "" /\ t \in TamperClasses(wire[i].k)
  /\ wire' = Append(wire, [wire[i] EXCEPT !.t = t, !.orig = i,
                                          !.cid = IF wire[i].k = "way" /\ t # "iv" THEN fresh ELSE wire[i].cid])
  /\ cids' = IF wire[i].k = "way" /\ t # "iv"
             THEN cids @@ (fresh :> [by |-> wire[i].src, for |-> wire[i].dst, genuine |-> FALSE]) ELSE cids
  /\ fresh' = IF wire[i].k = "way" /\ t # "iv" THEN fresh + 1 ELSE fresh
  /\ UNCHANGED <<sess, chal, unk, got, knows, sids, log>>

(* A third party answers the WHOAREYOU packet i (which it can read: the mask key is the     *)
(* public id of the challenged node) with a handshake packet of its own making in the name   *)
(* of the challenged node: own ephemeral key, hence session keys the challenger will derive   *)
(* too, the node's genuine public record, but an id-signature that is not the node's.         *)
Forge(i, m) ==
  /\ i \in 1..Len(wire) /\ wire[i].k = "way" /\ wire[i].t # "iv"
  /\ wire' = Append(wire, [Pkt("hs", wire[i].dst, wire[i].src, 0, TRUE, wire[i].cid, ~wire[i].rs, m)
                             EXCEPT !.t = "forged", !.orig = i])
  /\ UNCHANGED <<sess, chal, unk, got, knows, fresh, sids, cids, log>>

(* ------------------------------- Decode -------------------------------- *)
Readable(to, p) == /\ p.t = "" /\ sess[to][p.src].sid # 0
                   /\ sess[to][p.src].sid = p.sid /\ sess[to][p.src].init # p.init

HsAccepted(to, p) == /\ p.t = "" /\ chal[to][p.src].cid # 0 /\ chal[to][p.src].cid = p.cid
                     /\ (chal[to][p.src].rs \/ p.rs)         \* a record is at hand

(* What Decode reports for packet p at node `to` when it arrives from the network      *)
(* address of node `from` (the adversary can spoof the source address; sessions and     *)
(* pending challenges are bound to node id AND address).                                *)
Outcome(to, p, from) ==
  IF p.dst # to \/ p.t = "iv" THEN "err"                     \* header does not unmask
  ELSE CASE p.k = "rand" -> "unknown"
         [] p.k = "msg"  -> IF p.t # "src" /\ from = p.src /\ Readable(to, p) THEN "msg" ELSE "unknown"
         [] p.k = "way"  -> "way"
         [] p.k = "hs"   -> IF p.t # "src" /\ from = p.src /\ HsAccepted(to, p) THEN "hsmsg" ELSE "err"

Deliver(i, to, from) ==
  /\ i \in 1..Len(wire)
  /\ LET p == wire[i]  o == Outcome(to, p, from)  honest == (from = p.src /\ p.t # "src") IN
     /\ unk' = IF o = "unknown" /\ honest THEN [unk EXCEPT ![to][p.src] = i] ELSE unk
     /\ got' = IF o = "way" /\ from = p.src THEN [got EXCEPT ![to][p.src] = [cid |-> p.cid, rs |-> p.rs]] ELSE got
     /\ sess' = IF o = "hsmsg" THEN [sess EXCEPT ![to][p.src] = [sid |-> p.sid, init |-> FALSE]] ELSE sess
     (* any handshake packet that gets as far as the challenge lookup consumes the challenge *)
     /\ chal' = IF p.k = "hs" /\ p.dst = to /\ p.t # "iv" /\ honest THEN [chal EXCEPT ![to][p.src] = NoChal] ELSE chal
     /\ knows' = IF o = "hsmsg" THEN [knows EXCEPT ![to][p.src] = TRUE] ELSE knows
     /\ log' = IF o \in {"msg", "hsmsg"} THEN log \cup {[to |-> to, i |-> i, cur |-> sess'[to][p.src].sid]} ELSE log
  /\ UNCHANGED <<wire, fresh, sids, cids>>

(* restart: sessions, pending challenges and caller state are gone *)
Reset(n) ==
  /\ sess' = [sess EXCEPT ![n] = [p \in Node |-> NoSess]]
  /\ chal' = [chal EXCEPT ![n] = [p \in Node |-> NoChal]]
  /\ unk'  = [unk  EXCEPT ![n] = [p \in Node |-> 0]]
  /\ got'  = [got  EXCEPT ![n] = [p \in Node |-> NoChal]]
  /\ UNCHANGED <<knows, wire, fresh, sids, cids, log>>

(* handshake timeout *)
Expire(n) ==
  /\ \E p \in Node : chal[n][p].cid # 0
  /\ chal' = [chal EXCEPT ![n] = [p \in Node |-> NoChal]]
  /\ UNCHANGED <<sess, unk, got, knows, wire, fresh, sids, cids, log>>

Next == \/ \E n, p \in Node, m \in Msgs : Len(wire) < MaxWire /\ (SendMsg(n, p, m) \/ SendHandshake(n, p, m))
        \/ \E n, p \in Node : Len(wire) < MaxWire /\ SendWhoareyou(n, p)
        \/ \E i \in 1..Len(wire), t \in {"iv", "ver", "nonce", "src", "idn", "sig", "ct"} : Len(wire) < MaxWire /\ Tamper(i, t)
        \/ \E i \in 1..Len(wire), m \in Msgs : Len(wire) < MaxWire /\ Forge(i, m)
        \/ \E i \in 1..Len(wire), to, from \in Node : Deliver(i, to, from)
        \/ \E n \in Node : Reset(n) \/ Expire(n)

Spec == Init /\ [][Next]_vars

(* ------------------------------ properties ------------------------------ *)
(* Every accepted message was put on the wire unmodified by the node it      *)
(* claims to come from, for this node, under a session whose two owners are  *)
(* exactly these two nodes (a handshake message by the session's creator).   *)
Authentic == \A e \in log : LET p == wire[e.i]  s == sids[p.sid] IN
               /\ p.t = "" /\ p.dst = e.to /\ p.k \in {"msg", "hs"}
               /\ \/ s.by = p.src /\ s.for = e.to
                  \/ s.by = e.to /\ s.for = p.src /\ p.k = "msg"
(* ... and it is the session the receiver holds at that moment (no packet of *)
(* an earlier session is ever accepted); that session was negotiated over a   *)
(* genuine challenge which the session's responder had issued to its creator. *)
CurrentSession == \A e \in log : LET p == wire[e.i]  s == sids[p.sid] IN
               /\ e.cur = p.sid
               /\ cids[s.cid].genuine
               /\ cids[s.cid].by = s.for /\ cids[s.cid].for = s.by
(* keys a responder holds always come from a handshake of the claimed peer *)
ResponderKeys == \A n, p \in Node : (sess[n][p].sid # 0 /\ ~sess[n][p].init) =>
               /\ sids[sess[n][p].sid].by = p /\ sids[sess[n][p].sid].for = n
               /\ cids[sids[sess[n][p].sid].cid].genuine /\ cids[sids[sess[n][p].sid].cid].by = n
(* a session is shared by at most its two owners *)
KeysPrivate == \A n, p \in Node : sess[n][p].sid # 0 =>
               LET s == sids[sess[n][p].sid] IN (s.by = n /\ s.for = p) \/ (s.by = p /\ s.for = n)
(* a pending challenge is always one this node created for that peer *)
ChallengeOwn == \A n, p \in Node : chal[n][p].cid # 0 => cids[chal[n][p].cid] = [by |-> n, for |-> p, genuine |-> TRUE]

=============================================================================
