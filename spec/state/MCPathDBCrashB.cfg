SPECIFICATION CSpec
CONSTANTS NAcc = 1
          NSlot = 1
          MaxVal = 2
          MaxDiffs = {1}
          HistLimits = {0, 1}
          Policies = {"any"}
          Asyncs = {FALSE, TRUE}
          MaxId = 2
INVARIANTS TypeOK Reopens Consistent SyncedCoversPersisted
PROPERTIES RecoverRestores RecoverFailKeeps
CONSTRAINT Bounded
VIEW CStateView
CHECK_DEADLOCK FALSE
