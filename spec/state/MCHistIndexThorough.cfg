SPECIFICATION MCSpec
CONSTANTS Depth = 0
          MaxBlk = 3
          RestartLen = 2
          MaxSize = 11
          BitmapSize = 0
          Ids = {1, 2, 3, 4, 5, 6, 200}
          Exts <- ExtsNone
          Filters = {}
          Limits = {0, 2, 4, 200}
          Tails = {3, 5, 201}
INVARIANTS DbWellFormed SetSemantics WriterConsistent SessionSemantics RoundTrip ReadCorrect IterCorrect FilterSound PruneSafeAll
CONSTRAINT Bounded
VIEW View
CHECK_DEADLOCK FALSE
