SPECIFICATION MCSpec
CONSTANTS Key = {"a1", "a2", "s1"}
          MaxVal = 1
          MaxObjs = 6
          Readers = {}
          AsyncModes = {FALSE}
          RelinkSiblings = FALSE
          Depth = 0
          MaxDiffKeys = 1
          SlotKeys = {"s1"}
          MaxReads = 0
INVARIANTS NoWrongData
VIEW View
CHECK_DEADLOCK FALSE
