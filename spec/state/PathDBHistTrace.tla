-------------------------- MODULE PathDBHistTrace --------------------------
(* Trace validation for PathDBHist: every event recorded from a real pathdb.Database      *)
(* (harness/cmd/c17) must be explained by the corresponding action of PathDBHist.tla and  *)
(* the projected real state (disk layer, buffer, persisted key space, freezer content,    *)
(* root->id table, Recoverable set, live layers) must equal the specification's successor *)
(* state.  The only choice left to TLC is whether the write buffer was full.               *)
EXTENDS PathDBHist, Json, IOUtils

Trace == ndJsonDeserialize(IOEnv.TRACE)

VARIABLE l      \* next line of the trace to explain

Ev == Trace[l]

Step(A) == l <= Len(Trace) /\ A /\ l' = l + 1

CurP == [chain |-> chain', disk |-> disk', buf |-> buf', bufN |-> bufN', kv |-> kv', ids |-> ids', hist |-> hist']

(* the observation ev logged by the harness must match state record s with journal j *)
ObsRec(ev, s, j) ==
  /\ ev.disk = s.disk
  /\ ev.pid = s.kv.pid
  /\ ev.kvw = s.kv.world
  /\ ev.bufn = s.bufN
  /\ ev.view = Over(s.kv.world, s.buf)
  /\ ev.chain = [i \in 1..Len(s.chain) |-> s.chain[i].root]
  /\ ev.tail = s.hist.tail /\ ev.head = s.hist.head
  /\ \A i \in 1..Len(ev.recs) :
        LET r == ev.recs[i] IN
          /\ r.id \in DOMAIN s.hist.recs
          /\ s.hist.recs[r.id] = [parent |-> r.parent, root |-> r.root, prev |-> r.prev]
  /\ \A i \in 1..Len(ev.ids) :
        LET x == ev.ids[i] IN
          IF x.id = -1 THEN x.w \notin DOMAIN s.ids ELSE x.w \in DOMAIN s.ids /\ s.ids[x.w] = x.id
  /\ \A i \in 1..Len(ev.rec) : ev.rec[i].ok = RecoverableIn(s, ev.rec[i].w)
  /\ ev.jr = IF j.has THEN [has |-> TRUE, base |-> j.base, disk |-> j.disk, n |-> Len(j.chain)]
                      ELSE [has |-> FALSE]

(* the observation logged with every event must match the successor state *)
Obs == ObsRec(Ev, CurP, jr')

TReset ==
  Step(/\ Ev.op = "reset"
       /\ cfg' = [maxDiff |-> Ev.cfg.maxDiff, histLimit |-> Ev.cfg.histLimit, pol |-> "any", async |-> Ev.cfg.async]
       /\ chain' = <<>>
       /\ disk' = [root |-> [k \in 1..Ev.nk |-> 0], id |-> 0]
       /\ buf' = [k \in 1..Ev.nk |-> NoVal] /\ bufN' = 0
       /\ kv' = [world |-> [k \in 1..Ev.nk |-> 0], pid |-> 0]
       /\ ids' = <<>>
       /\ hist' = [tail |-> 0, head |-> 0, recs |-> <<>>]
       /\ jr' = NoJournal
       /\ zombies' = {}
       /\ res' = [op |-> "init"]
       /\ Obs)

TUpdate  == Step(/\ Ev.op = "Update"
                 /\ \E n \in 0..1 : \E fs \in Flags(n) : UpdateTo(Ev.j, Ev.d, fs)
                 /\ res'.r = Ev.res
                 /\ Obs)
TCommit  == Step(Ev.op = "Commit" /\ (\E sts \in Stales(Ev.i) : CommitAt(Ev.i, sts)) /\ res'.r = Ev.res /\ Obs)
TRecover == Step(Ev.op = "Recover" /\ RecoverTo(Ev.w) /\ res'.ok = Ev.ok /\ Obs)
TReopen  == Step(Ev.op = "Reopen" /\ Reopen(Ev.i) /\ Obs)
TRestart == Step(Ev.op = "Restart" /\ Restart /\ res'.restored = Ev.restored /\ Obs)

TraceInit == /\ l = 1
             /\ cfg = [maxDiff |-> 1, histLimit |-> 0, pol |-> "any", async |-> FALSE]
             /\ chain = <<>> /\ disk = [root |-> <<>>, id |-> 0] /\ buf = <<>> /\ bufN = 0
             /\ kv = [world |-> <<>>, pid |-> 0] /\ ids = <<>>
             /\ hist = [tail |-> 0, head |-> 0, recs |-> <<>>]
             /\ jr = NoJournal /\ zombies = {} /\ res = [op |-> "init"]
TraceNext == TReset \/ TUpdate \/ TCommit \/ TRecover \/ TReopen \/ TRestart
TraceSpec == TraceInit /\ [][TraceNext]_<<vars, l>>

TraceAccepted == TLCGet("stats").diameter - 1 = Len(Trace)
=============================================================================
