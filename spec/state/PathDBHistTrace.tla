-------------------------- MODULE PathDBHistTrace --------------------------
(* Trace validation for PathDBHist: every event recorded from a real pathdb.Database      *)
(* (harness/cmd/c17) must be explained by the corresponding action of PathDBHist.tla and  *)
(* the projected real state (disk layer, buffer, persisted key space, freezer content,    *)
(* root->id table, Recoverable set, live layers) must equal the specification's successor *)
(* state.  The only choice left to TLC is whether the write buffer was full.               *)
EXTENDS PathDBHist, Json, IOUtils

Trace == ndJsonDeserialize(IOEnv.TRACE)

VARIABLE l      \* next line of the trace to explain

Ev == Trace[l]

Step(A) == l <= Len(Trace) /\ A /\ l' = l + 1

CurP == [chain |-> chain', disk |-> disk', buf |-> buf', bufN |-> bufN', kv |-> kv', ids |-> ids', hist |-> hist']

(* the observation logged with every event must match the successor state *)
Obs ==
  /\ Ev.disk = disk'
  /\ Ev.pid = kv'.pid
  /\ Ev.kvw = kv'.world
  /\ Ev.bufn = bufN'
  /\ Ev.view = Over(kv'.world, buf')
  /\ Ev.chain = [i \in 1..Len(chain') |-> chain'[i].root]
  /\ Ev.tail = hist'.tail /\ Ev.head = hist'.head
  /\ \A i \in 1..Len(Ev.recs) :
        LET r == Ev.recs[i] IN
          /\ r.id \in DOMAIN hist'.recs
          /\ hist'.recs[r.id] = [parent |-> r.parent, root |-> r.root, prev |-> r.prev]
  /\ \A i \in 1..Len(Ev.ids) :
        LET x == Ev.ids[i] IN
          IF x.id = -1 THEN x.w \notin DOMAIN ids' ELSE x.w \in DOMAIN ids' /\ ids'[x.w] = x.id
  /\ \A i \in 1..Len(Ev.rec) : Ev.rec[i].ok = RecoverableIn(CurP, Ev.rec[i].w)
  /\ Ev.jr = IF jr'.has THEN [has |-> TRUE, base |-> jr'.base, disk |-> jr'.disk, n |-> Len(jr'.chain)]
                        ELSE [has |-> FALSE]

TReset ==
  Step(/\ Ev.op = "reset"
       /\ cfg' = [maxDiff |-> Ev.cfg.maxDiff, histLimit |-> Ev.cfg.histLimit, pol |-> "any", async |-> Ev.cfg.async]
       /\ chain' = <<>>
       /\ disk' = [root |-> [k \in 1..Ev.nk |-> 0], id |-> 0]
       /\ buf' = [k \in 1..Ev.nk |-> NoVal] /\ bufN' = 0
       /\ kv' = [world |-> [k \in 1..Ev.nk |-> 0], pid |-> 0]
       /\ ids' = <<>>
       /\ hist' = [tail |-> 0, head |-> 0, recs |-> <<>>]
       /\ jr' = NoJournal
       /\ zombies' = {}
       /\ res' = [op |-> "init"]
       /\ Obs)

TUpdate  == Step(/\ Ev.op = "Update"
                 /\ \E n \in 0..1 : \E fs \in Flags(n) : UpdateTo(Ev.j, Ev.d, fs)
                 /\ res'.r = Ev.res
                 /\ Obs)
TCommit  == Step(Ev.op = "Commit" /\ (\E sts \in Stales(Ev.i) : CommitAt(Ev.i, sts)) /\ res'.r = Ev.res /\ Obs)
TRecover == Step(Ev.op = "Recover" /\ RecoverTo(Ev.w) /\ res'.ok = Ev.ok /\ Obs)
TReopen  == Step(Ev.op = "Reopen" /\ Reopen(Ev.i) /\ Obs)
TRestart == Step(Ev.op = "Restart" /\ Restart /\ res'.restored = Ev.restored /\ Obs)

TraceInit == /\ l = 1
             /\ cfg = [maxDiff |-> 1, histLimit |-> 0, pol |-> "any", async |-> FALSE]
             /\ chain = <<>> /\ disk = [root |-> <<>>, id |-> 0] /\ buf = <<>> /\ bufN = 0
             /\ kv = [world |-> <<>>, pid |-> 0] /\ ids = <<>>
             /\ hist = [tail |-> 0, head |-> 0, recs |-> <<>>]
             /\ jr = NoJournal /\ zombies = {} /\ res = [op |-> "init"]
TraceNext == TReset \/ TUpdate \/ TCommit \/ TRecover \/ TReopen \/ TRestart
TraceSpec == TraceInit /\ [][TraceNext]_<<vars, l>>

TraceAccepted == TLCGet("stats").diameter - 1 = Len(Trace)
=============================================================================
