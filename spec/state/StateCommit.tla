---------------------------- MODULE StateCommit ----------------------------
(* Commit, reopen and copy of states (property C14) over the reference account model.        *)
(*                                                                                           *)
(* State identity is content: a committed world IS its root (the harness checks that the     *)
(* real root equals the root of a StackTrie built from the model world, so equal worlds have *)
(* equal roots and vice versa).  `disk` is the set of worlds that can be opened.  Two        *)
(* StateDB instances (twins) live side by side; every action has one actor, and nothing an   *)
(* actor does may change what the other twin observes (TwinIndependence).                    *)
(*                                                                                           *)
(*   Commit(i)     Finalise + write: the world of twin i joins the disk, the returned root   *)
(*                 is the root of that world (= what IntermediateRoot returns just before),  *)
(*                 and twin i continues as a state opened at that root (the caller's         *)
(*                 state.New(root, db) for the next block);                                  *)
(*   OpenAt(j, w)  state.New(root(w), db) for any committed w: reads exactly w;              *)
(*   CopyTo(i, j)  twin j becomes StateDB.Copy() of twin i: same observables, same touched / *)
(*                 destructed / created sets (journal), but the snapshot ids of the original *)
(*                 are not valid on the copy (documented in statedb.go);                     *)
(*   Persist(w)    the node database is flushed for root w, closed and reopened: only w      *)
(*                 remains openable, both twins are reopened on it.                          *)
(*                                                                                           *)
(* Besides the reference semantics the module models the MECHANISM of StateDB.commit: the    *)
(* block is not written as a world but as a difference against the parent state:             *)
(* deletions for the accounts destructed during the block (with a wipe of their parent       *)
(* storage), updates for the accounts mutated and alive at the end, and per account only     *)
(* the slots written during the block.  Invariant DiffReproducesWorld: applying the          *)
(* difference to the parent world yields exactly the world that is committed.                *)
EXTENDS StateDB

(* ---- block-level bookkeeping of one StateDB (the model of stateObjectsDestruct / mutations / pending storage) ---- *)
NoPend == [a \in Addr |-> [k \in Slot |-> -1]]
(* B = [parent, dest, mut, pend]:
     parent  world the StateDB was opened on (what the disk holds at originalRoot)
     dest    accounts removed at some Finalise of this block (stateObjectsDestruct)
     mut     accounts finalised in this block -> "update" | "delete" (mutations)
     pend    slots written by the current incarnation of an account during this block (pendingStorage), -1 = none *)
NewBlock(w) == [parent |-> w, dest |-> {}, mut |-> [a \in Addr |-> "none"], pend |-> NoPend]

(* what Finalise adds to the block bookkeeping; S is the state before Finalise *)
AfterFinalise(B, S) ==
  LET T == Finalise(S)
      fin(a) == a \in S.tch /\ S.w[a].ex                         \* finalised in this transaction
      gone(a) == fin(a) /\ ~T.w[a].ex                            \* removed
      reset(a) == fin(a) /\ a \in S.des /\ T.w[a].ex             \* EIP-8264 survivor: fresh object, no pending storage
  IN  [parent |-> B.parent,
       dest   |-> B.dest \cup {a \in Addr : gone(a)},
       mut    |-> [a \in Addr |-> IF gone(a) THEN "delete" ELSE IF fin(a) THEN "update" ELSE B.mut[a]],
       pend   |-> [a \in Addr |->
                     IF gone(a) \/ reset(a) THEN [k \in Slot |-> -1]
                     ELSE IF fin(a)
                          THEN [k \in Slot |-> IF T.w[a].st[k] # S.w0[a].st[k]      \* dirty slot: differs from the committed value
                                               THEN T.w[a].st[k] ELSE B.pend[a][k]]
                          ELSE B.pend[a]]]

(* the difference handed to the database, applied to the parent world *)
ApplyDiff(B, w) ==
  [a \in Addr |->
     LET base == IF a \in B.dest THEN Absent ELSE B.parent[a]      \* deletion + storage wipe of the parent account
     IN  CASE B.mut[a] = "delete" -> Absent
           [] B.mut[a] = "update" ->
                [ex |-> TRUE, nonce |-> w[a].nonce, bal |-> w[a].bal, code |-> w[a].code,
                 st |-> [k \in Slot |-> IF B.pend[a][k] # -1 THEN B.pend[a][k] ELSE base.st[k]]]
           [] OTHER -> base]
=============================================================================
