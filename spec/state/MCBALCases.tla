---------------------------- MODULE MCBALCases ----------------------------
(* Function binding for BlockAccessList.Validate (C15, encoding part): TLC enumerates small   *)
(* abstract encoding lists - sorted, unsorted and with duplicates in every dimension - and     *)
(* prints each one with the verdict of the specification predicate ValidCase, which is the     *)
(* EIP-7928 ordering rule: accounts strictly increasing by address; per account the written     *)
(* slots strictly increasing, every written slot with at least one change, changes strictly     *)
(* increasing by block access index, read slots strictly increasing, no slot both read and      *)
(* written, balance / nonce / code changes strictly increasing by index, every index at most    *)
(* MaxIdx (= number of transactions + 1).  The driver builds the corresponding real list (by    *)
(* RLP-decoding hand-encoded bytes) and compares Validate's accept/reject with the verdict.    *)
EXTENDS Integers, Sequences, FiniteSets, TLC, Json

CONSTANTS Vals,      \* values the sequences are built from (addresses, slots)
          Idxs,      \* block access indexes the index sequences are built from
          MaxIdx,    \* largest valid index
          Full       \* TRUE: nonce and code index lists vary independently of the balance list

VARIABLE c

Seqs(S) == {<< >>} \cup {<<x>> : x \in S} \cup {<<x, y>> : x \in S, y \in S}
StrictInc(s) == \A i, j \in 1..Len(s) : i < j => s[i] < s[j]
Range(s) == {s[i] : i \in 1..Len(s)}
Within(s) == \A i \in 1..Len(s) : s[i] <= MaxIdx

Cases == [accs : Seqs(Vals), wslots : Seqs(Vals), widx : Seqs(Idxs), reads : Seqs(Vals),
          bidx : Seqs(Idxs), nidx : IF Full THEN Seqs(Idxs) ELSE {<< >>}, cidx : IF Full THEN Seqs(Idxs) ELSE {<< >>}]

(* every account of the list carries the same inner lists *)
Nidx(x) == IF Full THEN x.nidx ELSE x.bidx
Cidx(x) == IF Full THEN x.cidx ELSE x.bidx
ValidCase(x) ==
  /\ StrictInc(x.accs)
  /\ (x.accs # << >>) =>
       /\ StrictInc(x.wslots)
       /\ (x.wslots # << >> => x.widx # << >>)
       /\ (x.wslots # << >> => StrictInc(x.widx) /\ Within(x.widx))
       /\ StrictInc(x.reads)
       /\ Range(x.wslots) \cap Range(x.reads) = {}
       /\ StrictInc(x.bidx) /\ Within(x.bidx)
       /\ StrictInc(Nidx(x)) /\ Within(Nidx(x))
       /\ StrictInc(Cidx(x)) /\ Within(Cidx(x))

Init == c \in Cases
Next == UNCHANGED c
Spec == Init /\ [][Next]_c
Emit == PrintT(<<"CASE", ToJson([in |-> [accs |-> c.accs, wslots |-> c.wslots, widx |-> c.widx, reads |-> c.reads,
                                         bidx |-> c.bidx, nidx |-> Nidx(c), cidx |-> Cidx(c)],
                                 maxidx |-> MaxIdx, valid |-> ValidCase(c)])>>)
=============================================================================
