-------------------------- MODULE PathDBCrashTrace --------------------------
(* Trace validation for PathDBCrash (C20).  The trace is a history recorded from a real     *)
(* pathdb.Database (events of PathDBHistTrace) interleaved with "Crash" probes: a probe     *)
(* stands ahead of the event of the operation x during which a crash image was taken and    *)
(* carries (img) the durable state found in the image before the database touched it,        *)
(* (refused/post) the outcome of reopening it in a child process, and (rw/rok/post2) a       *)
(* rollback performed on the recovered database.  A probe does not advance the model: it     *)
(* requires that img is one of the durable states PathDBCrash allows while x runs (write     *)
(* order, sync points), and that the recovered state is ReopenFrom(img).                      *)
EXTENDS PathDBCrash, PathDBHistTrace

NFlat(j, d) ==
  LET p == IF j = 0 THEN disk.root ELSE chain[j].root
      r == Over(p, d)
  IN  IF r = p \/ r = disk.root \/ r \in ChainRoots(chain) THEN 0
      ELSE IF j + 1 > cfg.maxDiff THEN 1 ELSE 0

ProbeOps(x) ==
  CASE x.t = "U" -> {[t |-> "U", j |-> x.j, d |-> x.d, fs |-> f] : f \in Flags(NFlat(x.j, x.d))}
    [] x.t = "C" -> {[t |-> "C", i |-> x.i, sts |-> s] : s \in Stales(x.i)}
    [] x.t = "R" -> {[t |-> "R", w |-> x.w]}
    [] x.t = "J" -> {[t |-> "J", i |-> x.i]}

ImgMatches(img, D) ==
  /\ img.pid = D.kv.pid
  /\ img.kvw = D.kv.world
  /\ img.tail = D.hist.tail /\ img.head = D.hist.head
  /\ Len(img.recs) = D.hist.head - D.hist.tail
  /\ \A i \in 1..Len(img.recs) :
        LET r == img.recs[i] IN
          /\ r.id \in DOMAIN D.hist.recs
          /\ D.hist.recs[r.id] = [parent |-> r.parent, root |-> r.root, prev |-> r.prev]
  /\ \A i \in 1..Len(img.ids) :
        LET x == img.ids[i] IN
          IF x.id = -1 THEN x.w \notin DOMAIN D.ids ELSE x.w \in DOMAIN D.ids /\ D.ids[x.w] = x.id
  /\ img.jr = IF D.jr.has THEN [has |-> TRUE, base |-> D.jr.base, disk |-> D.jr.disk, n |-> Len(D.jr.chain)]
                          ELSE [has |-> FALSE]

(* outcome of the probe for durable state D *)
ProbeOK(ev, D) ==
  LET R == ReopenFrom(D) IN
  /\ ev.kf = R.stale
  /\ R.stale \/                      \* finding C20-F1 (known_findings.json, tolerated by checks/C20.py only via ctx.known_finding): a journal of an abandoned
                                     \* branch is restored; whatever the database does then is pending
     /\ ev.refused = R.dead
     /\ ~ev.rcrash
     /\ ~R.dead =>
          /\ ObsRec(ev.post, R.st, R.jr)
          /\ ViewIsRootIn(R.st) /\ AlignedIn(R.st) /\ HistChainIn(R.st)
          /\ ev.hasr =>
               LET out == RevertLoop(R.st, ev.rw)
                   fin == [out.st EXCEPT !.chain = <<>>, !.hist = TruncHead(@, out.st.disk.id)]
                   j2  == IF R.jr.has THEN [R.jr EXCEPT !.rolled = TRUE] ELSE R.jr
               IN  /\ RecoverableIn(R.st, ev.rw)
                   /\ ev.rok /\ out.ok
                   /\ ObsRec(ev.post2, fin, j2) \/ ObsRec(ev.post2, fin, NoJournal)
                   /\ fin.disk.root = ev.rw /\ Over(fin.kv.world, fin.buf) = ev.rw

TProbe ==
  Step(/\ Ev.op = "Crash"
       /\ UNCHANGED cvars
       /\ \E op \in ProbeOps(Ev.x) :
            LET q == OpDur(op) IN
            \E k \in 0..Len(q) :
              LET D0 == IF k = 0 THEN Dur(Cur, jr, syn, pt) ELSE q[k] IN
              /\ Ev.img.head \in Cuts(D0) /\ Ev.img.tail \in Tails(D0)
              /\ LET D == CutTo(D0, Ev.img.head, Ev.img.tail) IN ImgMatches(Ev.img, D) /\ ProbeOK(Ev, D))

TCReset == Step(/\ Ev.op = "reset"
                /\ cfg' = [maxDiff |-> Ev.cfg.maxDiff, histLimit |-> Ev.cfg.histLimit, pol |-> "any", async |-> Ev.cfg.async]
                /\ chain' = <<>>
                /\ disk' = [root |-> [k \in 1..Ev.nk |-> 0], id |-> 0]
                /\ buf' = [k \in 1..Ev.nk |-> NoVal] /\ bufN' = 0
                /\ kv' = [world |-> [k \in 1..Ev.nk |-> 0], pid |-> 0]
                /\ ids' = <<>>
                /\ hist' = [tail |-> 0, head |-> 0, recs |-> <<>>]
                /\ jr' = NoJournal /\ zombies' = {} /\ res' = [op |-> "init"]
                /\ syn' = 0 /\ pt' = [tail |-> 0, recs |-> <<>>] /\ dead' = FALSE /\ kf' = FALSE /\ seen' = <<>>
                /\ Obs)

TCUpdate  == Step(/\ Ev.op = "Update"
                  /\ \E f \in Flags(NFlat(Ev.j, Ev.d)) : Do([t |-> "U", j |-> Ev.j, d |-> Ev.d, fs |-> f])
                  /\ res'.r = Ev.res /\ Obs)
TCCommit  == Step(Ev.op = "Commit" /\ (\E s \in Stales(Ev.i) : Do([t |-> "C", i |-> Ev.i, sts |-> s])) /\ res'.r = Ev.res /\ Obs)
TCRecover == Step(Ev.op = "Recover" /\ Do([t |-> "R", w |-> Ev.w]) /\ res'.ok = Ev.ok /\ Obs)
TCReopen  == Step(Ev.op = "Reopen" /\ Do([t |-> "J", i |-> Ev.i]) /\ Obs)

CTraceInit == TraceInit /\ syn = 0 /\ pt = [tail |-> 0, recs |-> <<>>] /\ dead = FALSE /\ kf = FALSE /\ seen = <<>>
CTraceNext == TCReset \/ TCUpdate \/ TCCommit \/ TCRecover \/ TCReopen \/ TProbe
CTraceSpec == CTraceInit /\ [][CTraceNext]_<<cvars, l>>
=============================================================================
