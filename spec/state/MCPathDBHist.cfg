SPECIFICATION Spec
CONSTANTS NAcc = 1
          NSlot = 1
          MaxVal = 1
          MaxDiffs = {1, 2}
          HistLimits = {2}
          Policies = {"any"}
          Asyncs = {TRUE}
          MaxId = 3
INVARIANTS TypeOK ViewIsRoot Aligned HistChain PersistedIsCanon RecoverableSound
PROPERTIES RecoverRestores RecoverFailKeeps
CONSTRAINT Bounded
VIEW StateView
CHECK_DEADLOCK FALSE
