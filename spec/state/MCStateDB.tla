---------------------------- MODULE MCStateDB ----------------------------
(* Model-checking wrapper of StateDB.tla for property C13: one StateDB instance driven by   *)
(* every operation of the vm.StateDB interface over a small universe, transaction by        *)
(* transaction.  Carries the label of the last action (act) and, optionally, the history    *)
(* of labelled projected states (hist) so that TLC's transitions / behaviours can be        *)
(* replayed on the real state.StateDB (DESIGN 2.1, R).                                      *)
EXTENDS StateDB, Json

CONSTANTS MaxVal,     \* storage / transient values 0..MaxVal
          MaxBal,     \* balances 0..MaxBal
          MaxNonce,   \* nonces 0..MaxNonce
          MaxCode,    \* code ids 0..MaxCode (0 = no code)
          MaxSnap,    \* nested snapshots
          MaxTx,      \* transactions per behaviour
          MaxLogs, MaxRefund,
          Ops,        \* names of the enabled operations
          RuleNames,  \* rule sets explored
          BaseKinds,  \* account templates the initial (committed) worlds are built from
          KeepHist,   \* TRUE: record the behaviour in hist (simulation / MBT)
          HistLen,    \* length of the behaviours printed by Emit
          TxEvery     \* simulation only: a transaction may end only at every TxEvery-th step (TLC's
                      \* simulator picks actions, not successors, uniformly; this keeps transactions long)

VARIABLES s,          \* the StateDB
          act,        \* label of the last action
          hist        \* behaviour so far (only if KeepHist)

(* account templates of the initial worlds: absent, empty (pre-EIP-158 leftover), funded EOA, *)
(* contract with storage, funded EOA with a nonce                                            *)
Template(i) == CASE i = 0 -> Absent
                 [] i = 1 -> Fresh
                 [] i = 2 -> [Fresh EXCEPT !.bal = 1]
                 [] i = 3 -> [Fresh EXCEPT !.nonce = 1, !.bal = 1, !.code = 1, !.st = [k \in Slot |-> 1]]
                 [] i = 4 -> [Fresh EXCEPT !.nonce = 1, !.bal = 1]
BaseWorlds == { [a \in Addr |-> Template(f[a])] : f \in [Addr -> BaseKinds] }

Label(rec) == IF KeepHist THEN hist' = Append(hist, [act |-> rec, st |-> Proj(s')]) ELSE hist' = hist
Do(op, T, rec) == op \in Ops /\ s' = T /\ act' = rec /\ Label(rec)

MCInit == /\ \E n \in RuleNames, w \in BaseWorlds : s = Open(RuleSet(n), w)
          /\ act = [op |-> "init", rules |-> s.r.name]
          /\ hist = IF KeepHist THEN << [act |-> act, st |-> Proj(s)] >> ELSE << >>

AccountOps ==
  \E a \in Addr :
    \/ \E v \in 0..MaxVal : /\ s.w[a].bal + v <= MaxBal
                            /\ Do("AddBalance", AddBalance(s, a, v), [op |-> "AddBalance", a |-> a, v |-> v])
    \/ \E v \in 0..MaxVal : /\ CanSubBalance(s, a, v)
                            /\ Do("SubBalance", SubBalance(s, a, v), [op |-> "SubBalance", a |-> a, v |-> v])
    \/ \E v \in 0..MaxBal : Do("SetBalance", SetBalance(s, a, v), [op |-> "SetBalance", a |-> a, v |-> v])
    \/ \E n \in 0..MaxNonce : /\ FeasSetNonce(s, a, n)
                              /\ Do("SetNonce", SetNonce(s, a, n), [op |-> "SetNonce", a |-> a, v |-> n])
    \/ \E c \in 0..MaxCode : /\ FeasSetCode(s, a, c)
                             /\ Do("SetCode", SetCode(s, a, c), [op |-> "SetCode", a |-> a, v |-> c])
    \/ \E k \in Slot, v \in 0..MaxVal :
          /\ FeasSetState(s, a)
          /\ Do("SetState", SetState(s, a, k, v), [op |-> "SetState", a |-> a, k |-> k, v |-> v])
    \/ /\ FeasSelfDestruct(s, a)
       /\ Do("SelfDestruct", SelfDestruct(s, a), [op |-> "SelfDestruct", a |-> a])
    \/ /\ CanCreateAccount(s, a)
       /\ Do("CreateAccount", CreateAccount(s, a), [op |-> "CreateAccount", a |-> a])
    \/ /\ CanEvmCreate(s, a) /\ (s.r.eip158 => MaxNonce >= 1)
       /\ Do("EvmCreate", EvmCreate(s, a), [op |-> "EvmCreate", a |-> a])
    \/ Do("ReadAccount", ReadAccount(s, a), [op |-> "ReadAccount", a |-> a])
    \/ \E k \in Slot : Do("ReadSlot", ReadSlot(s, a, k), [op |-> "ReadSlot", a |-> a, k |-> k])

AuxOps ==
  \/ \E a \in Addr, k \in Slot, v \in 0..MaxVal :
        Do("SetTransient", SetTransient(s, a, k, v), [op |-> "SetTransient", a |-> a, k |-> k, v |-> v])
  \/ \E a \in Addr : Do("AddAddress", AddAddress(s, a), [op |-> "AddAddress", a |-> a])
  \/ \E a \in Addr, k \in Slot : Do("AddSlot", AddSlot(s, a, k), [op |-> "AddSlot", a |-> a, k |-> k])
  \/ \E g \in 1..MaxRefund : /\ s.ref + g <= MaxRefund
                             /\ Do("AddRefund", AddRefund(s, g), [op |-> "AddRefund", v |-> g])
  \/ \E g \in 1..MaxRefund : /\ CanSubRefund(s, g)
                             /\ Do("SubRefund", SubRefund(s, g), [op |-> "SubRefund", v |-> g])
  \/ /\ Len(s.logs) < MaxLogs
     /\ Do("AddLog", AddLog(s, Len(s.logs) + 1), [op |-> "AddLog", v |-> Len(s.logs) + 1])

SnapOps ==
  \/ /\ Len(s.snaps) < MaxSnap
     /\ Do("Snapshot", Snapshot(s), [op |-> "Snapshot"])
  \/ \E i \in 1..Len(s.snaps) : Do("Revert", Revert(s, i), [op |-> "Revert", i |-> i])

MCNext ==
  \/ /\ ~s.intx /\ s.txn < MaxTx
     /\ \/ \E a \in Addr : Do("BeginTx", BeginTx(s, a), [op |-> "BeginTx", a |-> a, tx |-> s.txn])
        \/ \E a, d \in Addr, k \in Slot :
              Do("BeginTxL", BeginTxL(s, a, d, k), [op |-> "BeginTxL", a |-> a, i |-> d, k |-> k, tx |-> s.txn])
  \/ /\ s.intx
     /\ (AccountOps \/ AuxOps \/ SnapOps)
  \/ /\ s.intx
     /\ (KeepHist => Len(hist) % TxEvery = 0)
     /\ \/ Do("Finalise", Finalise(s), [op |-> "Finalise"])
        \/ Do("IntermediateRoot", IntermediateRoot(s), [op |-> "IntermediateRoot"])

MCSpec == MCInit /\ [][MCNext]_<<s, act, hist>>

View == s

(* ---- invariants (model sanity, C13) ---- *)
InvType     == TypeOK(s)
InvRevert   == RevertRestores(s)
InvFinalise == FinaliseClears(s)
InvFeasible == Feasible(s)

(* ---- emission ---- *)
Edge == PrintT(<<"EDGE", ToJson([from |-> s, act |-> act', to |-> s', pto |-> Proj(s')])>>)
Emit == IF Len(hist) = HistLen THEN PrintT(<<"MBT", ToJson(hist)>>) ELSE TRUE
HistBound == Len(hist) <= HistLen
=============================================================================
