SPECIFICATION MCSpec
CONSTANTS Depth = 0
          MaxBlk = 2
          RestartLen = 2
          MaxSize = 18
          BitmapSize = 34
          Ids = {1, 2, 3, 4}
          Exts <- ExtsSmall
          Filters = {0, 1, 2, 33, 17}
          Limits = {0, 3}
          Tails = {3, 5}
INVARIANTS DbWellFormed SetSemantics WriterConsistent SessionSemantics RoundTrip ReadCorrect IterCorrect FilterSound PruneSafeAll
CONSTRAINT Bounded
VIEW View
CHECK_DEADLOCK FALSE
