------------------------------ MODULE MCHashDB ------------------------------
(* HashDB bound to a built-in "world" (a node DAG plus the client's state versions), for   *)
(* model checking that does not depend on the Go harness.                                   *)
EXTENDS MCHashDBBase

(* Built-in world: a storage trie (1) shared by two accounts; version 2 changes account b, *)
(* version 3 changes it back (re-delivering nodes 3 and 4), version 4 forks from version 1  *)
(* with a second storage trie (8 -> 7) replacing the shared one in account a.               *)
E(i, p) == [id |-> i, path |-> p]
StaticWorld ==
  [n    |-> 10,
   kids |-> << <<>>, <<>>, <<>>, <<2, 3>>, <<>>, <<2, 5>>, <<>>, <<7, 7>>, <<>>, <<9, 3>> >>,
   ext  |-> << <<>>, <<1>>, <<1>>, <<>>, <<1>>, <<>>, <<>>, <<>>, <<8>>, <<>> >>,
   size |-> << 40, 110, 111, 100, 112, 101, 45, 90, 113, 102 >>,
   meta |-> 96,
   versions |-> <<
     [root |-> 4, parent |-> 0, sets |-> << <<E(1, <<>>)>>, <<E(1, <<>>)>> >>,
      acct |-> <<E(2, <<0>>), E(3, <<1>>), E(4, <<>>)>>, leaves |-> << <<1, 2>>, <<1, 3>> >>],
     [root |-> 6, parent |-> 1, sets |-> <<>>,
      acct |-> <<E(5, <<1>>), E(6, <<>>)>>, leaves |-> << <<1, 5>> >>],
     [root |-> 4, parent |-> 2, sets |-> <<>>,
      acct |-> <<E(3, <<1>>), E(4, <<>>)>>, leaves |-> << <<1, 3>> >>],
     [root |-> 10, parent |-> 1, sets |-> << <<E(7, <<0>>), E(7, <<1>>), E(8, <<>>)>> >>,
      acct |-> <<E(9, <<0>>), E(10, <<>>)>>, leaves |-> << <<8, 9>> >>]
   >>]

CONSTANT StaticVersions     \* how many of the built-in versions the client may build
W == [StaticWorld EXCEPT !.versions = SubSeq(@, 1, StaticVersions)]

WNumNodes == W.n
WKids     == [n \in 1..W.n |-> W.kids[n]]
WExtOf    == [n \in 1..W.n |-> {W.ext[n][i] : i \in 1..Len(W.ext[n])}]
WSize     == [n \in 1..W.n |-> W.size[n]]
WMeta     == W.meta
WVersions == W.versions
WEdgeDepth == 0

=============================================================================
