SPECIFICATION MCSpec
CONSTANTS MaxBlk = 2
          RestartLen = 2
          MaxSize = 18
          BitmapSize = 34
          Ids = {1, 2, 3, 4, 5, 6}
          Exts <- ExtsSmall
          Filters = {0, 1, 2, 33, 17}
          Limits = {0, 3, 6}
          Tails = {0, 3, 5, 7}
INVARIANTS DbWellFormed SetSemantics WriterConsistent SessionSemantics RoundTrip ReadCorrect IterCorrect FilterSound PruneSafeAll
CONSTRAINT Bounded
VIEW View
CHECK_DEADLOCK FALSE
