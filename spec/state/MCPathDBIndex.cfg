SPECIFICATION ISpec
CONSTANTS NAcc = 1
          NSlot = 1
          MaxVal = 1
          MaxDiffs = {1}
          HistLimits = {2}
          Policies = {"always"}
          Asyncs = {FALSE}
          IndexOns = {FALSE}
          MaxId = 3
INVARIANTS TypeOK ViewIsRoot Aligned HistChain IndexExact ReadCorrect RefusalExact
CONSTRAINT Bounded
VIEW IStateView
CHECK_DEADLOCK FALSE
