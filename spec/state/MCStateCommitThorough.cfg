SPECIFICATION MCSpec
CONSTANTS NA = 1
          NS = 1
          Ripemd = 0
          MaxVal = 1
          MaxBal = 1
          MaxNonce = 1
          MaxCode = 1
          MaxSnap = 0
          MaxTx = 2
          MaxCommits = 2
          Ops = {"BeginTx", "AddBalance", "SubBalance", "SetNonce", "SetCode", "SetState", "SelfDestruct", "CreateAccount", "EvmCreate", "Finalise", "Commit", "Open"}
          RuleNames = {"eip158", "amsterdam"}
          BaseKinds = {0, 3}
          Actors = {1}
          KeepHist = FALSE
          HistLen = 0
          TxEvery = 1
INVARIANTS InvType InvFeasible DiffReproducesWorld InvDisk
PROPERTIES TwinIndependence CopyIsExact CommitPreserves
VIEW View
CHECK_DEADLOCK FALSE
