--------------------------- MODULE HistIndexTrace ---------------------------
(* Trace validation for HistIndex (C19): every event recorded from the real                *)
(* indexWriter / indexDeleter / indexReader / iterators / indexPruner.pruneEntry must be   *)
(* the corresponding action of HistIndex.tla evaluated with the REAL layout constants      *)
(* (RestartLen = 256, MaxSize = 4096), and the white-box fields the driver logs after the  *)
(* step (descriptor list with bitmaps, lastID, data length and restart offsets of the      *)
(* live block, stored metadata, stored block bytes, lookup/iteration results) must equal   *)
(* what the specification computes.                                                        *)
EXTENDS HistIndex, Json, IOUtils

Trace == ndJsonDeserialize(IOEnv.TRACE)

VARIABLE l
Ev == Trace[l]

tvars == <<vars, l>>
Step(A) == l <= Len(Trace) /\ A /\ l' = l + 1

(* ---- comparison of logged white-box state with the specification's state ---- *)
SameBits(obs, bm) == Range(obs) = bm /\ Len(obs) = Cardinality(bm)
SameDesc(o, d)    == o.id = d.id /\ o.max = d.max /\ o.entries = d.entries /\ SameBits(o.bm, d.bm)
SameDescs(os, ds) == Len(os) = Len(ds) /\ \A i \in 1..Len(ds) : SameDesc(os[i], ds[i])

SameSession(o, s) ==
  /\ SameDescs(o.descs, SessDescs(s))
  /\ o.last = s.lastID
  /\ o.dlen = s.bw.dlen
  /\ o.restarts = s.bw.restarts
  /\ o.frozen = Len(s.frozen)
  /\ o.dropped = s.dropped

(* ---- bulk forms of append / pop (one event per batch keeps traces short) ---- *)
RECURSIVE AppendAll(_, _, _)
AppendAll(s, items, i) ==
  IF i > Len(items) THEN s ELSE AppendAll(Append1(s, items[i].id, items[i].ext), items, i + 1)

RECURSIVE AscendingFrom(_, _, _)
AscendingFrom(items, i, prev) ==
  IF i > Len(items) THEN TRUE ELSE items[i].id > prev /\ AscendingFrom(items, i + 1, items[i].id)

(* BWPop without the bitmap rebuild: within a bulk pop only the final bitmap is observable  *)
(* and it is a function of the remaining elements (rebuilt once in PopAll)                 *)
BWPopLazy(b) ==
  LET n == Len(b.elems) IN
  IF n = 1 THEN EmptyBW(b.id)
  ELSE [b EXCEPT !.elems = Front(@),
                 !.dlen = IF n % RestartLen = 1 THEN Last(b.restarts)
                          ELSE @ - ElemLen(EncVal(b.elems, n), Last(b.elems).ext),
                 !.restarts = IF n % RestartLen = 1 THEN Front(@) ELSE @]
Pop1(s) ==      \* DPop(s.lastID) as a function of the session
  LET b == BWPopLazy(s.bw) IN
  IF b.elems # <<>> THEN [s EXCEPT !.bw = b, !.lastID = BWLast(b)]
  ELSE IF s.prev = <<>> THEN [s EXCEPT !.bw = b, !.lastID = 0, !.dropped = Append(@, s.bw.id)]
  ELSE LET d  == Last(s.prev)
           pb == [LoadBW(d.id, db.blocks[d.id]) EXCEPT !.bm = d.bm]
       IN [s EXCEPT !.bw = pb, !.prev = Front(@), !.lastID = d.max, !.dropped = Append(@, s.bw.id)]
RECURSIVE PopRun(_, _, _)       \* pop the logged ids one by one: each must be the newest element
PopRun(s, ids, i) ==
  IF i > Len(ids) THEN [ok |-> TRUE, s |-> [s EXCEPT !.bw.bm = IF HasExt THEN BitsOf(s.bw.elems) ELSE {}]]
  ELSE IF ids[i] # 0 /\ ids[i] = s.lastID /\ s.bw.elems # <<>> THEN PopRun(Pop1(s), ids, i + 1)
  ELSE [ok |-> FALSE, s |-> s]

IdsAbove(ids, q) == SelectSeq(ids, LAMBDA x : x > q)

(* --------------------------------- events --------------------------------- *)
TReset == Step(Ev.op = "reset" /\ db' = [meta |-> <<>>, blocks |-> <<>>] /\ w' = NoSession /\ abs' = <<>>)

TOpen == Step(/\ Ev.op = "open"
              /\ \/ Ev.kind = "writer" /\ OpenWriter(Ev.limit)
                 \/ Ev.kind = "deleter" /\ OpenDeleter(Ev.limit)
              /\ SameSession(Ev.st, w'))

TAppend == Step(/\ Ev.op = "append"
                /\ w.kind = "writer"
                /\ Len(Ev.items) > 0
                /\ Ev.items[1].id > w.lastID /\ Ascending(Ev.items[1].id)
                /\ AscendingFrom(Ev.items, 1, w.lastID)
                /\ w' = AppendAll(w, Ev.items, 1)
                /\ UNCHANGED <<db, abs>>
                /\ SameSession(Ev.st, w'))

TAppendFail == Step(Ev.op = "appendFail" /\ WAppendFail(Ev.id, Ev.ext))

TPop == Step(/\ Ev.op = "pop"
             /\ w.kind = "deleter"
             /\ LET r == PopRun(w, Ev.ids, 1) IN r.ok /\ w' = r.s
             /\ UNCHANGED <<db, abs>>
             /\ SameSession(Ev.st, w'))

TPopFail == Step(Ev.op = "popFail" /\ DPopFail(Ev.id))

TFinish == Step(/\ Ev.op = "finish"
                /\ (WFinish \/ DFinish)
                /\ SameSession(Ev.st, w')
                /\ SameDescs(Ev.meta, db'.meta))

TClose == Step(Ev.op = "close" /\ Close)

TPrune == Step(/\ Ev.op = "prune"
               /\ Prune(Ev.tail)
               /\ PruneSafe(Ev.tail)
               /\ Ev.pruned = PruneCount(db.meta, Ev.tail)
               /\ SameDescs(Ev.meta, db'.meta))

TRead == Step(/\ Ev.op = "read"
              /\ Ev.res = AbsSeekGT(db, Ev.q, Ev.f)
              /\ UNCHANGED vars)

TIter == Step(/\ Ev.op = "iter"
              /\ Ev.ids = IdsAbove(AbsIter(db, Ev.f), Ev.q)
              /\ UNCHANGED vars)

Prefix(s, n) == SubSeq(s, 1, IF Len(s) < n THEN Len(s) ELSE n)
TIterN == Step(/\ Ev.op = "iterN"
               /\ Ev.ids = Prefix(IdsAbove(AbsIter(db, Ev.f), Ev.q), Ev.n)
               /\ UNCHANGED vars)

TBlock == Step(/\ Ev.op = "block"
               /\ Ev.id \in DOMAIN db.blocks
               /\ Ev.bytes = BlockBytes(db.blocks[Ev.id])
               /\ DecodeBlock(Ev.bytes) = db.blocks[Ev.id]
               /\ UNCHANGED vars)

TParse == Step(/\ Ev.op = "parse"
               /\ Ev.ok = ParseOK(Ev.bytes)
               /\ UNCHANGED vars)

TraceInit == Init /\ l = 1
TraceNext == TReset \/ TOpen \/ TAppend \/ TAppendFail \/ TPop \/ TPopFail \/ TFinish \/ TClose
             \/ TPrune \/ TRead \/ TIter \/ TIterN \/ TBlock \/ TParse
TraceSpec == TraceInit /\ [][TraceNext]_tvars

(* invariants cheap enough to evaluate after every real step *)
TraceSetSemantics == Abs(db) = abs
TraceAscending    == StrictlyAscending(abs)
TraceMetaOK       == \A i \in 1..Len(db.meta) :
                        /\ db.meta[i].id \in DOMAIN db.blocks
                        /\ db.meta[i].entries = Len(db.blocks[db.meta[i].id])
                        /\ db.meta[i].entries > 0
                        /\ db.meta[i].max = Last(db.blocks[db.meta[i].id]).id
                        /\ i > 1 => db.meta[i].id = db.meta[i - 1].id + 1

TraceAccepted == TLCGet("stats").diameter - 1 = Len(Trace)
=============================================================================
