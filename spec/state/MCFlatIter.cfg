SPECIFICATION Spec
CONSTANTS NKeys = 3
          MaxDiffs = 1
          EmitEvery = 0
INVARIANTS FastCorrect BinaryCorrect InitOrdered
CHECK_DEADLOCK FALSE
