SPECIFICATION TraceSpec
CONSTANTS NA = 3
          NS = 2
          Ripemd = 3
          CheckBAL = FALSE
INVARIANTS InvType InvRevert InvFinalise InvFeasible
POSTCONDITION TraceAccepted
CHECK_DEADLOCK FALSE
