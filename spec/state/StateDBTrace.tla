-------------------------- MODULE StateDBTrace --------------------------
(* Trace validation for StateDB.tla (C13, and with CheckBAL = TRUE also C15): every line of  *)
(* the ndjson trace recorded from a real core/state.StateDB is one call of the StateDB       *)
(* interface; it must be explained by the corresponding operator of StateDB.tla (its         *)
(* preconditions and EVM-feasibility guards included) and the full projection of the real    *)
(* object logged after the call must equal the projection of the specification's successor   *)
(* state.  Events are fully logged, so the search is linear.                                 *)
EXTENDS BAL, Json, IOUtils

CONSTANT CheckBAL      \* TRUE: Finalise events carry the projected block access list (C15)

Trace == ndJsonDeserialize(IOEnv.TRACE)

VARIABLES s,    \* the specification's StateDB
          blk,  \* block-level access list expected so far (CheckBAL only)
          l     \* next line of the trace to explain

Ev == Trace[l]
Logged == Ev.ok /\ Proj(s') = Ev.st
StepB(A) == l <= Len(Trace) /\ A /\ l' = l + 1
Step(A) == StepB(A /\ UNCHANGED blk)
Is(op) == Ev.op = op
InTx == s.intx

TReset    == StepB(Is("reset") /\ s' = Open(RuleSet(Ev.rules), Ev.world) /\ blk' = EmptyBlock /\ Logged)
TBeginTx  == Step(Is("BeginTx") /\ ~InTx /\ s' = BeginTx(s, Ev.a) /\ Logged)
TBeginTxL == Step(Is("BeginTxL") /\ ~InTx /\ s' = BeginTxL(s, Ev.a, Ev.i, Ev.k) /\ Logged)
TAddBal   == Step(Is("AddBalance") /\ InTx /\ s' = AddBalance(s, Ev.a, Ev.v) /\ Logged)
TSubBal   == Step(Is("SubBalance") /\ InTx /\ CanSubBalance(s, Ev.a, Ev.v) /\ s' = SubBalance(s, Ev.a, Ev.v) /\ Logged)
TSetBal   == Step(Is("SetBalance") /\ InTx /\ s' = SetBalance(s, Ev.a, Ev.v) /\ Logged)
TSetNonce == Step(Is("SetNonce") /\ InTx /\ FeasSetNonce(s, Ev.a, Ev.v) /\ s' = SetNonce(s, Ev.a, Ev.v) /\ Logged)
TSetCode  == Step(Is("SetCode") /\ InTx /\ FeasSetCode(s, Ev.a, Ev.v) /\ s' = SetCode(s, Ev.a, Ev.v) /\ Logged)
TSetState == Step(Is("SetState") /\ InTx /\ FeasSetState(s, Ev.a) /\ s' = SetState(s, Ev.a, Ev.k, Ev.v) /\ Logged)
TDestruct == Step(Is("SelfDestruct") /\ InTx /\ FeasSelfDestruct(s, Ev.a) /\ s' = SelfDestruct(s, Ev.a) /\ Logged)
TCreateA  == Step(Is("CreateAccount") /\ InTx /\ CanCreateAccount(s, Ev.a) /\ s' = CreateAccount(s, Ev.a) /\ Logged)
TEvmCreate == Step(Is("EvmCreate") /\ InTx /\ CanEvmCreate(s, Ev.a) /\ s' = EvmCreate(s, Ev.a) /\ Logged)
TReadAcc  == Step(Is("ReadAccount") /\ InTx /\ s' = ReadAccount(s, Ev.a) /\ Logged)
TReadSlot == Step(Is("ReadSlot") /\ InTx /\ s' = ReadSlot(s, Ev.a, Ev.k) /\ Logged)
TSetTrn   == Step(Is("SetTransient") /\ InTx /\ s' = SetTransient(s, Ev.a, Ev.k, Ev.v) /\ Logged)
TAddAddr  == Step(Is("AddAddress") /\ InTx /\ s' = AddAddress(s, Ev.a) /\ Logged)
TAddSlot  == Step(Is("AddSlot") /\ InTx /\ s' = AddSlot(s, Ev.a, Ev.k) /\ Logged)
TAddRef   == Step(Is("AddRefund") /\ InTx /\ s' = AddRefund(s, Ev.v) /\ Logged)
TSubRef   == Step(Is("SubRefund") /\ InTx /\ CanSubRefund(s, Ev.v) /\ s' = SubRefund(s, Ev.v) /\ Logged)
TAddLog   == Step(Is("AddLog") /\ InTx /\ s' = AddLog(s, Ev.v) /\ Logged)
TSnapshot == Step(Is("Snapshot") /\ InTx /\ s' = Snapshot(s) /\ Logged)
TRevert   == Step(Is("Revert") /\ InTx /\ CanRevert(s, Ev.i) /\ s' = Revert(s, Ev.i) /\ Logged)
(* the list returned by the real Finalise must be the net difference of the transaction *)
TFinalise == StepB(Is("Finalise") /\ InTx /\ s' = Finalise(s) /\ Logged
                   /\ IF CheckBAL THEN Ev.bal = ExpectedBAL(s) /\ blk' = MergeTx(blk, ExpectedBAL(s), s.txn + 1)
                                   ELSE UNCHANGED blk)
(* end of a block: the encoding object of the merged list (sorted, strictly increasing, duplicate free, *)
(* reads and writes disjoint, indexes within the block) holds exactly the merged expected changes      *)
TEndBlock == Step(Is("EndBlock") /\ ~InTx /\ CheckBAL /\ UNCHANGED s /\ Logged
                  /\ EncodingMatches(blk, Ev.blk, s.txn + 1))
(* Ev.ok includes: the real root equals the StackTrie root of the logged world, which is the model's world *)
TIRoot    == Step(Is("IntermediateRoot") /\ InTx /\ ~CheckBAL /\ s' = IntermediateRoot(s) /\ Logged)

TraceInit == s = Open(RulesPre158, EmptyWorld) /\ blk = EmptyBlock /\ l = 1
TraceNext == \/ TReset \/ TBeginTx \/ TBeginTxL \/ TAddBal \/ TSubBal \/ TSetBal \/ TSetNonce \/ TSetCode \/ TSetState
             \/ TDestruct \/ TCreateA \/ TEvmCreate \/ TReadAcc \/ TReadSlot \/ TSetTrn \/ TAddAddr \/ TAddSlot
             \/ TAddRef \/ TSubRef \/ TAddLog \/ TSnapshot \/ TRevert \/ TFinalise \/ TIRoot \/ TEndBlock
TraceSpec == TraceInit /\ [][TraceNext]_<<s, blk, l>>

InvType     == TypeOK(s)
InvRevert   == RevertRestores(s)
InvFinalise == FinaliseClears(s)
InvFeasible == Feasible(s)
InvBAL      == BALInvariants(s) /\ Functional(blk) /\ (CheckBAL => NoEmptyBetweenTxs(s))

TraceAccepted == TLCGet("stats").diameter - 1 = Len(Trace)
=============================================================================
