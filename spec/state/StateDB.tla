------------------------------ MODULE StateDB ------------------------------
(* Reference account model of core/state.StateDB (properties C13, C14, C15).                *)
(*                                                                                          *)
(* The model is deliberately naive: the world is a function from addresses to accounts, a   *)
(* snapshot is a FULL COPY of the world and of the per-transaction scratch data pushed on   *)
(* a stack, a revert pops back to the copy.  There is no journal, no dirty tracking, no     *)
(* state objects, no origin/pending/dirty storage maps.  Every operation of the             *)
(* vm.StateDB interface is a pure operator  Op(S, args) = S'  over the record S that        *)
(* describes one StateDB instance, so that the same definitions serve                       *)
(*   - model checking (MCStateDB.tla: one instance),                                        *)
(*   - trace validation (StateDBTrace.tla),                                                 *)
(*   - the commit/copy model of C14 (StateCommit.tla: several instances + a disk), and      *)
(*   - the block-access-list model of C15 (BAL.tla).                                        *)
(*                                                                                          *)
(* Semantic rules (each one is a deliberate statement about Ethereum accounts, confirmed    *)
(* against statedb.go / state_object.go / journal.go):                                      *)
(*  R1 materialisation: every setter and Add/SubBalance turns an absent account into an     *)
(*     existing empty account (Exist = TRUE for the rest of the frame; undone by a revert). *)
(*     Getters never materialise.                                                           *)
(*  R2 touch (EIP-161): an account is "touched" by creation, by any balance/nonce/code      *)
(*     write, by a storage write that changes the value, by SELFDESTRUCT and by             *)
(*     AddBalance(0) on an EMPTY account.  SubBalance(0) is not a touch.  The touched set   *)
(*     is reverted with the frame, except the RIPEMD-160 precompile (0x03), whose           *)
(*     zero-value touch survives reverts (mainnet consensus exception, block 1714175).      *)
(*  R3 SetState with the current value changes nothing (but still materialises, R1).        *)
(*  R4 a self-destructed account stays fully readable and writable until Finalise.          *)
(*  R5 GetCommittedState = value at the start of the transaction (effects of earlier        *)
(*     transactions of the block included); 0 for an account that did not exist then.      *)
(*  R6 Finalise(rules), per touched account that exists:                                    *)
(*       self-destructed:  removed; Amsterdam (EIP-8264): if balance # 0 it survives as a   *)
(*                         balance-only account (nonce 0, no code, no storage);             *)
(*       EIP-158 and empty (nonce = 0, balance = 0, no code): removed;                      *)
(*     then refund := 0, snapshots are invalidated, created/destructed/touched sets are     *)
(*     cleared.  Transient storage and the EIP-2929 access list are NOT cleared by          *)
(*     Finalise; they are reset by Prepare at the start of the next transaction.            *)
(*  R7 logs are block scoped, indexed consecutively, and removed by reverts.                *)
(*  R8 (EIP-7928 observer) every StateDB call on an address records an account access,      *)
(*     every GetState/GetCommittedState/SetState on an existing account records a slot      *)
(*     access; accesses are NOT undone by reverts.                                          *)
(*                                                                                          *)
(* EVM feasibility guards (Feas... operators): the StateDB interface is only driven by the   *)
(* EVM; under EIP-6780 rule sets the model only generates histories the EVM can produce:    *)
(*  F1 nonces never decrease;  F2 code is only cleared on accounts with nonce >= 1          *)
(*  (EIP-7702 clears a delegation after bumping the nonce);  F3 SSTORE runs only in a       *)
(*  contract (code # empty) or in the init code of a contract being created;                *)
(*  F4 SELFDESTRUCT takes effect only on a contract created in the same transaction;        *)
(*  F5 contract creation happens only at an address with nonce 0 and no code (collision     *)
(*  check of evm.create), it creates the account if absent, marks it as new contract and    *)
(*  (EIP-158) sets nonce 1.  CreateAccount is only called on absent addresses.              *)
EXTENDS Integers, Sequences, FiniteSets, TLC

CONSTANTS NA,        \* number of addresses  (Addr == 1..NA)
          NS,        \* number of storage slots per account (Slot == 1..NS)
          Ripemd     \* the address that stands for 0x03, or 0 if the universe has none

Addr == 1..NA
Slot == 1..NS

(* ---------------------------------- rule sets ---------------------------------- *)
RulesPre158    == [name |-> "pre158",    eip158 |-> FALSE, berlin |-> FALSE, eip6780 |-> FALSE, amsterdam |-> FALSE]
RulesEIP158    == [name |-> "eip158",    eip158 |-> TRUE,  berlin |-> FALSE, eip6780 |-> FALSE, amsterdam |-> FALSE]
RulesCancun    == [name |-> "cancun",    eip158 |-> TRUE,  berlin |-> TRUE,  eip6780 |-> TRUE,  amsterdam |-> FALSE]
RulesAmsterdam == [name |-> "amsterdam", eip158 |-> TRUE,  berlin |-> TRUE,  eip6780 |-> TRUE,  amsterdam |-> TRUE]
RuleSet(name) == CASE name = "pre158"    -> RulesPre158
                   [] name = "eip158"    -> RulesEIP158
                   [] name = "cancun"    -> RulesCancun
                   [] name = "amsterdam" -> RulesAmsterdam

(* ---------------------------------- accounts ---------------------------------- *)
ZeroSt == [k \in Slot |-> 0]
Absent == [ex |-> FALSE, nonce |-> 0, bal |-> 0, code |-> 0, st |-> ZeroSt]
Fresh  == [ex |-> TRUE,  nonce |-> 0, bal |-> 0, code |-> 0, st |-> ZeroSt]
IsEmpty(ac) == ac.nonce = 0 /\ ac.bal = 0 /\ ac.code = 0          \* EIP-161 emptiness
EmptyWorld == [a \in Addr |-> Absent]

(* ---------------------------------- one StateDB ---------------------------------- *)
ZeroTrn == [a \in Addr |-> ZeroSt]
NoSlots == [a \in Addr |-> {}]

(* A StateDB opened on the committed world w under the rule set r. *)
Open(r, w) ==
  [r     |-> r,          \* fork rules passed to Prepare / Finalise / Commit
   w     |-> w,          \* current world
   w0    |-> w,          \* world at the start of the running transaction (R5)
   tch   |-> {},         \* touched accounts (R2)
   des   |-> {},         \* accounts marked self-destructed in this transaction (R4)
   crt   |-> {},         \* contracts created in this transaction (EIP-6780 flag)
   trn   |-> ZeroTrn,    \* transient storage (EIP-1153)
   ala   |-> {},         \* EIP-2929 warm addresses
   als   |-> NoSlots,    \* EIP-2929 warm slots
   ref   |-> 0,          \* refund counter
   logs  |-> << >>,      \* logs of the block: sequence of [tx, tag]
   snaps |-> << >>,      \* stack of full copies
   stk   |-> FALSE,      \* RIPEMD touch that survives reverts (R2)
   txn   |-> 0,          \* number of finalised transactions in this block
   intx  |-> FALSE,      \* between BeginTx and Finalise
   rec   |-> FALSE,      \* EIP-7928 recording active (Prepare under Amsterdam rules)
   racc  |-> {},         \* EIP-7928: accounts accessed in this transaction (R8)
   rslot |-> NoSlots,    \* EIP-7928: slots accessed in this transaction (R8)
   fl    |-> [a \in Addr |-> w[a].st]]
                         \* storage as of the last trie flush (open / IntermediateRoot / Commit).  Finalise only
                         \* moves the writes of a transaction to the pending area, IntermediateRoot also pushes them
                         \* into the tries (statedb.go: "Finalise ... will not push any updates into the tries just
                         \* yet").  No getter of the projection depends on it (GetStorageRoot does, and is compared
                         \* right after IntermediateRoot only); it is part of the state so that histories which mix
                         \* the two ways of ending a transaction are different states of the graph that is replayed.

Saved(S) == [w |-> S.w, tch |-> S.tch, des |-> S.des, crt |-> S.crt, trn |-> S.trn,
             ala |-> S.ala, als |-> S.als, ref |-> S.ref, logs |-> S.logs]

(* getStateObject(a): every StateDB call that names an address is an account access (R8) *)
Acc(S, a) == IF S.rec THEN [S EXCEPT !.racc = @ \cup {a}] ELSE S
SlotAcc(S, a, k) == IF S.rec THEN [S EXCEPT !.rslot[a] = @ \cup {k}] ELSE S
Dirty(S, a) == [S EXCEPT !.tch = @ \cup {a}]
(* R1 *)
Mat(S, a) == LET T == Acc(S, a) IN
             IF T.w[a].ex THEN T ELSE Dirty([T EXCEPT !.w[a] = Fresh], a)

(* ---------------------------------- readers (R8 only) ---------------------------------- *)
ReadAccount(S, a) == Acc(S, a)         \* Exist, Empty, GetBalance, GetNonce, GetCode*, ...
ReadSlot(S, a, k) == LET T == Acc(S, a) IN IF T.w[a].ex THEN SlotAcc(T, a, k) ELSE T

(* ---------------------------------- writers ---------------------------------- *)
AddBalance(S, a, v) ==
  LET T == Mat(S, a) IN
  IF v = 0 THEN (IF IsEmpty(T.w[a]) THEN [Dirty(T, a) EXCEPT !.stk = @ \/ (a = Ripemd)] ELSE T)
           ELSE Dirty([T EXCEPT !.w[a].bal = @ + v], a)
CanSubBalance(S, a, v) == v <= S.w[a].bal
SubBalance(S, a, v) ==
  LET T == Mat(S, a) IN
  IF v = 0 THEN T ELSE Dirty([T EXCEPT !.w[a].bal = @ - v], a)
SetBalance(S, a, v) == Dirty([Mat(S, a) EXCEPT !.w[a].bal = v], a)
SetNonce(S, a, n)   == Dirty([Mat(S, a) EXCEPT !.w[a].nonce = n], a)
SetCode(S, a, c)    == Dirty([Mat(S, a) EXCEPT !.w[a].code = c], a)
SetState(S, a, k, v) ==
  LET T == SlotAcc(Mat(S, a), a, k) IN
  IF T.w[a].st[k] = v THEN T ELSE Dirty([T EXCEPT !.w[a].st[k] = v], a)
SelfDestruct(S, a) ==
  LET T == Acc(S, a) IN
  IF T.w[a].ex THEN Dirty([T EXCEPT !.des = @ \cup {a}], a) ELSE T
(* `if !Exist(a) { CreateAccount(a) }` *)
CanCreateAccount(S, a) == ~S.w[a].ex
CreateAccount(S, a) == Dirty([Acc(S, a) EXCEPT !.w[a] = Fresh], a)
(* prologue of evm.create at address a (F5) *)
CanEvmCreate(S, a) == S.w[a].nonce = 0 /\ S.w[a].code = 0
EvmCreate(S, a) ==
  LET T == IF S.w[a].ex THEN Acc(S, a) ELSE CreateAccount(S, a)
      U == [T EXCEPT !.crt = @ \cup {a}]
  IN  IF U.r.eip158 THEN SetNonce(U, a, 1) ELSE U

SetTransient(S, a, k, v) == [S EXCEPT !.trn[a][k] = v]
AddAddress(S, a)   == [S EXCEPT !.ala = @ \cup {a}]
AddSlot(S, a, k)   == [S EXCEPT !.ala = @ \cup {a}, !.als[a] = @ \cup {k}]
AddRefund(S, g)    == [S EXCEPT !.ref = @ + g]
CanSubRefund(S, g) == g <= S.ref
SubRefund(S, g)    == [S EXCEPT !.ref = @ - g]
AddLog(S, t)       == [S EXCEPT !.logs = Append(@, [tx |-> S.txn, tag |-> t])]

(* ---------------------------------- snapshots ---------------------------------- *)
Snapshot(S) == [S EXCEPT !.snaps = Append(@, Saved(S))]
CanRevert(S, i) == i \in 1..Len(S.snaps)
Revert(S, i) ==
  LET c == S.snaps[i] IN
  [S EXCEPT !.w = c.w, !.des = c.des, !.crt = c.crt, !.trn = c.trn, !.ala = c.ala,
            !.als = c.als, !.ref = c.ref, !.logs = c.logs,
            !.tch = c.tch \cup (IF S.stk THEN {Ripemd} ELSE {}),
            !.snaps = SubSeq(@, 1, i - 1)]

(* ---------------------------------- transaction boundaries ---------------------------------- *)
(* SetTxContext + Prepare(rules, sender, coinbase = sender, dst = nil, no precompiles, no list) *)
BeginTx(S, sender) ==
  [S EXCEPT !.intx = TRUE,
            !.trn  = ZeroTrn,
            !.ala  = IF S.r.berlin THEN {sender} ELSE @,
            !.als  = IF S.r.berlin THEN NoSlots ELSE @,
            !.rec  = S.r.amsterdam,
            !.racc = {}, !.rslot = NoSlots]

(* Prepare with a destination and an EIP-2930 access list naming slot k of the destination *)
BeginTxL(S, sender, dst, k) ==
  LET T == BeginTx(S, sender) IN
  IF S.r.berlin THEN [T EXCEPT !.ala = {sender, dst}, !.als = [NoSlots EXCEPT ![dst] = {k}]] ELSE T

(* R6 *)
Finalised(r, ac, destructed) ==
  IF destructed THEN (IF r.amsterdam /\ ac.bal # 0 THEN [Fresh EXCEPT !.bal = ac.bal] ELSE Absent)
  ELSE IF r.eip158 /\ IsEmpty(ac) THEN Absent
  ELSE ac
FinalWorld(S) ==
  [a \in Addr |-> IF a \in S.tch /\ S.w[a].ex THEN Finalised(S.r, S.w[a], a \in S.des) ELSE S.w[a]]
Finalise(S) ==
  LET nw == FinalWorld(S) IN
  [S EXCEPT !.w = nw, !.w0 = nw, !.tch = {}, !.des = {}, !.crt = {}, !.ref = 0, !.snaps = << >>,
            !.stk = FALSE, !.intx = FALSE, !.rec = FALSE, !.racc = {}, !.rslot = NoSlots,
            !.txn = IF S.intx THEN @ + 1 ELSE @]

(* Finalise + hashing: the storage and account tries now hold the world *)
IntermediateRoot(S) ==
  LET T == Finalise(S) IN [T EXCEPT !.fl = [a \in Addr |-> T.w[a].st]]

(* ---------------------------------- EVM feasibility (F1-F4) ---------------------------------- *)
FeasSetNonce(S, a, n)  == S.r.eip6780 => n > S.w[a].nonce
FeasSetCode(S, a, c)   == S.r.eip6780 => (c = 0 => S.w[a].nonce >= 1)
FeasSetState(S, a)     == S.r.eip6780 => (S.w[a].code # 0 \/ a \in S.crt)
FeasSelfDestruct(S, a) == S.r.eip6780 => a \in S.crt
(* what F1-F5 guarantee, and what the EIP-8264 survivor rule and Cancun's ban on storage wiping rely on *)
FeasibleWorld(w) == \A a \in Addr : (w[a].ex /\ w[a].st # ZeroSt) => (w[a].nonce >= 1 \/ w[a].code # 0)

(* ---------------------------------- generic dispatch ---------------------------------- *)
(* e = [op, a, k, v, i]: one call inside a transaction, as logged by the drivers *)
InTxOps == {"AddBalance", "SubBalance", "SetBalance", "SetNonce", "SetCode", "SetState", "SelfDestruct",
            "CreateAccount", "EvmCreate", "ReadAccount", "ReadSlot", "SetTransient", "AddAddress", "AddSlot",
            "AddRefund", "SubRefund", "AddLog", "Snapshot", "Revert"}
CanOp(S, e) ==
  CASE e.op = "SubBalance"    -> CanSubBalance(S, e.a, e.v)
    [] e.op = "SetNonce"      -> FeasSetNonce(S, e.a, e.v)
    [] e.op = "SetCode"       -> FeasSetCode(S, e.a, e.v)
    [] e.op = "SetState"      -> FeasSetState(S, e.a)
    [] e.op = "SelfDestruct"  -> FeasSelfDestruct(S, e.a)
    [] e.op = "CreateAccount" -> CanCreateAccount(S, e.a)
    [] e.op = "EvmCreate"     -> CanEvmCreate(S, e.a)
    [] e.op = "SubRefund"     -> CanSubRefund(S, e.v)
    [] e.op = "Revert"        -> CanRevert(S, e.i)
    [] OTHER                  -> e.op \in InTxOps
ApplyOp(S, e) ==
  CASE e.op = "AddBalance"    -> AddBalance(S, e.a, e.v)
    [] e.op = "SubBalance"    -> SubBalance(S, e.a, e.v)
    [] e.op = "SetBalance"    -> SetBalance(S, e.a, e.v)
    [] e.op = "SetNonce"      -> SetNonce(S, e.a, e.v)
    [] e.op = "SetCode"       -> SetCode(S, e.a, e.v)
    [] e.op = "SetState"      -> SetState(S, e.a, e.k, e.v)
    [] e.op = "SelfDestruct"  -> SelfDestruct(S, e.a)
    [] e.op = "CreateAccount" -> CreateAccount(S, e.a)
    [] e.op = "EvmCreate"     -> EvmCreate(S, e.a)
    [] e.op = "ReadAccount"   -> ReadAccount(S, e.a)
    [] e.op = "ReadSlot"      -> ReadSlot(S, e.a, e.k)
    [] e.op = "SetTransient"  -> SetTransient(S, e.a, e.k, e.v)
    [] e.op = "AddAddress"    -> AddAddress(S, e.a)
    [] e.op = "AddSlot"       -> AddSlot(S, e.a, e.k)
    [] e.op = "AddRefund"     -> AddRefund(S, e.v)
    [] e.op = "SubRefund"     -> SubRefund(S, e.v)
    [] e.op = "AddLog"        -> AddLog(S, e.v)
    [] e.op = "Snapshot"      -> Snapshot(S)
    [] e.op = "Revert"        -> Revert(S, e.i)

(* ---------------------------------- observables ---------------------------------- *)
(* everything a caller can read through the getters, for every address and slot *)
ProjAcc(S, a) ==
  LET ac == S.w[a] IN
  [ex |-> ac.ex, nonce |-> ac.nonce, bal |-> ac.bal, code |-> ac.code, st |-> ac.st,
   cst |-> IF ac.ex THEN S.w0[a].st ELSE ZeroSt,                 \* R5
   sd  |-> a \in S.des,
   nw  |-> S.r.eip6780 /\ a \in S.crt]
Proj(S) ==
  [acc  |-> [a \in Addr |-> ProjAcc(S, a)],
   trn  |-> S.trn,
   ala  |-> [a \in Addr |-> a \in S.ala],
   als  |-> [a \in Addr |-> [k \in Slot |-> k \in S.als[a]]],
   ref  |-> S.ref,
   logs |-> S.logs]

(* ---------------------------------- properties of the model ---------------------------------- *)
(* used as invariants by the MC modules and evaluated after every real step by the trace spec *)
TypeOK(S) ==
  /\ \A a \in Addr : S.w[a].nonce >= 0 /\ S.w[a].bal >= 0 /\ (~S.w[a].ex => S.w[a] = Absent)
  /\ S.des \subseteq S.tch
  /\ \A a \in S.des : S.w[a].ex
  /\ \A a \in S.crt : S.w[a].ex
  /\ S.ref >= 0
(* a revert restores exactly what the matching snapshot saw *)
RevertRestores(S) ==
  \A i \in 1..Len(S.snaps) : LET T == Revert(S, i) IN
     /\ Saved(T) = [S.snaps[i] EXCEPT !.tch = @ \cup (IF S.stk THEN {Ripemd} ELSE {})]
     /\ Len(T.snaps) = i - 1
(* Finalise leaves no per-transaction scratch data behind and deletes exactly by R6 *)
FinaliseClears(S) ==
  LET T == Finalise(S) IN
  /\ T.tch = {} /\ T.des = {} /\ T.crt = {} /\ T.ref = 0 /\ T.snaps = << >> /\ T.w0 = T.w
  /\ \A a \in Addr : (a \notin S.tch) => T.w[a] = S.w[a]
  /\ S.r.eip158 => \A a \in S.tch : ~(T.w[a].ex /\ IsEmpty(T.w[a]))
  /\ Finalise(T).w = T.w
(* under the feasibility guards no reachable world has storage without nonce or code *)
Feasible(S) == S.r.eip6780 => FeasibleWorld(S.w)
=============================================================================
