SPECIFICATION TraceSpec
CONSTANTS NA = 3
          NS = 2
          Ripemd = 0
INVARIANTS InvType InvFeasible DiffReproducesWorld
POSTCONDITION TraceAccepted
CHECK_DEADLOCK FALSE
