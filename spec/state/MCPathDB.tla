------------------------------ MODULE MCPathDB ------------------------------
(* Model-checking wrapper of PathDB: action labels, behaviour history for replay on a real *)
(* pathdb.Database (MBT), the projection of the state the harness can observe, and the     *)
(* exploration bounds.                                                                     *)
EXTENDS PathDB, Json

CONSTANTS Depth,        \* 0: exhaustive search; > 0: simulation, behaviours of Depth actions are printed
          MaxReads,     \* reads per reader object explored
          MaxDiffKeys,  \* keys changed by one transition (exploration bound)
          SlotKeys      \* the keys the harness maps to storage slots of its contract account

VARIABLES act, hist, nreads

mcvars == <<vars, act, hist, nreads>>

(* ---- what the harness can observe of a state (white-box accessors + reads) ---- *)
LayerView(r) == LET o == objs[layers[r]] IN
                [root |-> r, parent |-> o.par.root, id |-> o.id, keys |-> DOMAIN o.diff]
Proj == [disk    |-> [root |-> disk.root, id |-> disk.id],
         layers  |-> {LayerView(r) : r \in DOMAIN layers},
         buffer  |-> [n |-> buffer.n, keys |-> DOMAIN buffer.data],
         frozen  |-> [present |-> frozen.present, done |-> frozen.done, n |-> frozen.n],
         kv      |-> [pid |-> kv.pid, flat |-> kv.flat],
         lookup  |-> lookup,
         desc    |-> {[anc |-> a, roots |-> descendants[a]] : a \in DOMAIN descendants},
         capping |-> ~CapIdle,
         async   |-> async]

MCInit == Init /\ act = [op |-> "init"] /\ hist = <<>> /\ nreads = [rd \in Readers |-> 0]

Lab(a) == act' = a

(* parents worth trying that are not available: states that were layers once *)
DeadRoots == ({objs[o].root : o \in 1..Len(objs)} \cup {EmptyWorld}) \ LiveRoots
Diffs(p)  == {d \in DiffsOn(p) : Cardinality(DOMAIN d) <= MaxDiffKeys}

MCStep ==
  \/ \E p \in LiveRoots : \E d \in Diffs(p) :
        \/ Update(p, d) /\ Lab([op |-> "Update", p |-> p, d |-> d, res |-> "ok"]) /\ UNCHANGED nreads
        \/ UpdateNoop(p, d) /\ Lab([op |-> "Update", p |-> p, d |-> d, res |-> UpdateResult(p, d)]) /\ UNCHANGED nreads
  \/ \E p \in LiveRoots : UpdateNoop(p, NoData) /\ Lab([op |-> "Update", p |-> p, d |-> NoData, res |-> "cycle"]) /\ UNCHANGED nreads
  \/ \E p \in DeadRoots : \E d \in Diffs(p) :
        UpdateNoop(p, d) /\ Lab([op |-> "Update", p |-> p, d |-> d, res |-> UpdateResult(p, d)]) /\ UNCHANGED nreads
  \/ \E r \in LiveRoots : \E n \in 0..MaxObjs :
        \/ \E f \in BOOLEAN : CapBegin(r, n, f) /\ Lab([op |-> "CapBegin", r |-> r, n |-> n, full |-> f]) /\ UNCHANGED nreads
        \/ CapNoop(r, n) /\ Lab([op |-> "CapNoop", r |-> r, n |-> n, kind |-> CapKind(r, n)]) /\ UNCHANGED nreads
  \/ CapStep /\ Lab([op |-> "CapStep"]) /\ UNCHANGED nreads
  \/ CapEnd /\ Lab([op |-> "CapEnd"]) /\ UNCHANGED nreads
  \/ FlushDone /\ Lab([op |-> "FlushDone"]) /\ UNCHANGED nreads
  \/ \E rd \in Readers :
        \/ \E r \in LiveRoots : OpenReader(rd, r) /\ Lab([op |-> "OpenReader", rd |-> rd, r |-> r])
                                /\ nreads' = [nreads EXCEPT ![rd] = 0]
        \/ \E k \in Key : /\ nreads[rd] < MaxReads
                          /\ \/ ReadTip(rd, k) /\ Lab([op |-> "ReadTip", rd |-> rd, k |-> k, res |-> readers'[rd].res, done |-> readers'[rd].pc = "done"])
                             \/ ReadNode(rd, k) /\ Lab([op |-> "ReadNode", rd |-> rd, k |-> k, res |-> readers'[rd].res])
                          /\ nreads' = [nreads EXCEPT ![rd] = @ + 1]
        \/ ReadVal(rd) /\ Lab([op |-> "ReadVal", rd |-> rd, res |-> readers'[rd].res]) /\ UNCHANGED nreads
        \/ nreads[rd] < MaxReads /\ ReadAgain(rd) /\ Lab([op |-> "ReadAgain", rd |-> rd]) /\ UNCHANGED nreads
        \/ CloseReader(rd) /\ Lab([op |-> "CloseReader", rd |-> rd]) /\ UNCHANGED nreads

MCNext == MCStep /\ hist' = IF Depth = 0 THEN hist ELSE Append(hist, [act |-> act', st |-> Proj'])
MCSpec == MCInit /\ [][MCNext]_mcvars

View == <<vars, nreads>>

(* ---- simulation (MBT) helpers ---- *)
(* a cap runs to completion before anything else happens: the harness executes            *)
(* layerTree.cap as one call (readers parked at their gate, flush released on demand)     *)
AtomicCap == ~CapIdle => act'.op \in {"CapStep", "CapEnd", "FlushDone"}
(* thin out calls that change nothing, keep reader sessions short *)
SimBias == /\ (act'.op = "Update" /\ act'.res # "ok") => act.op # "Update"
           /\ act'.op = "CapNoop" => act.op \notin {"CapNoop", "Update"}
           /\ act'.op = "CloseReader" => act.op # "OpenReader"
(* the last step of a printed behaviour is not an Update (TLC prints one line per successor of *)
(* the last state; updates have many successors and add nothing at the end of a behaviour)     *)
(* The harness removes the contract account when all its slots become 0; StateDB then walks  *)
(* the flat storage with a pathdb iterator, and iterator construction waits for a pending     *)
(* background flush (newFastIterator -> diskLayer.waitFlush).  Such an update is therefore    *)
(* not scheduled while a flush is pending.                                                    *)
Wipes(p, d) == /\ \E k \in SlotKeys : p[k] # 0
               /\ \A k \in SlotKeys : Apply(p, d)[k] = 0
NoWipeWhileFlushing == (act'.op = "Update" /\ act'.res \in {"ok", "dup", "dupdisk"} /\ Wipes(act'.p, act'.d))
                          => ~(frozen.present /\ ~frozen.done)
(* ---- scripted reader schedules (Depth < 0): grow a tree, open a reader, look the key up,  *)
(* run exactly one cap (with the flush completions it needs) while the reader is parked       *)
(* between lookup and layer read, then let it read.  Every finished schedule is printed.      *)
ScenDepth   == 0 - 1        \* value of Depth that selects the scripted mode (cfg files have no negative numbers)
LastTip     == IF \E i \in 1..Len(hist) : hist[i].act.op = "ReadTip"
               THEN CHOOSE i \in 1..Len(hist) : hist[i].act.op = "ReadTip" /\ \A j \in (i + 1)..Len(hist) : hist[j].act.op # "ReadTip"
               ELSE 0
CappedSince == \E j \in (LastTip + 1)..Len(hist) : hist[j].act.op = "CapEnd"
Script ==
  LET rd == CHOOSE r \in Readers : TRUE
      pc == readers[rd].pc
  IN IF pc = "idle" THEN /\ act'.op \in {"Update", "OpenReader"}
                         /\ act'.op = "Update" => act'.res = "ok"
                         /\ act'.op = "OpenReader" => Len(objs) >= 2
     ELSE IF pc = "open" THEN act'.op = "ReadTip"
     ELSE IF pc = "tip" THEN (IF ~CapIdle THEN act'.op \in {"CapStep", "CapEnd", "FlushDone"}
                              ELSE IF CappedSince THEN act'.op \in {"ReadVal", "FlushDone"}
                              ELSE act'.op = "CapBegin")
     ELSE FALSE
EmitDone == IF Depth < 0 /\ act.op = "ReadVal" /\ CapIdle
            THEN PrintT(<<"MBT", ToJson([keys |-> Key, init |-> [async |-> hist[1].st.async], steps |-> hist])>>)
            ELSE TRUE

(* reader-focused sampling: once a reader is parked between its two steps only cap, flush   *)
(* and the reader itself move, so that the second step is reached within the behaviour       *)
ReaderFocus == (\E rd \in Readers : readers[rd].pc = "tip") => act'.op \notin {"Update", "CapNoop", "OpenReader"}
FinalStep == (Depth > 0 /\ Len(hist) = Depth - 1) => act'.op # "Update"
Emit == IF Depth > 0 /\ Len(hist) = Depth
        THEN PrintT(<<"MBT", ToJson([keys |-> Key, init |-> [async |-> hist[1].st.async], steps |-> hist])>>)
        ELSE TRUE
=============================================================================
