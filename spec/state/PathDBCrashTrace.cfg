SPECIFICATION CTraceSpec
CONSTANTS NAcc = 0
          NSlot = 0
          MaxVal = 0
          MaxDiffs = {}
          HistLimits = {}
          Policies = {}
          Asyncs = {}
          MaxId = 0
INVARIANTS TypeOK Reopens Consistent SyncedCoversPersisted
PROPERTIES RecoverRestores RecoverFailKeeps
POSTCONDITION TraceAccepted
CHECK_DEADLOCK FALSE
