------------------------------ MODULE HistIndex ------------------------------
(* History index of ONE state element (triedb/pathdb/history_index*.go), property C19.     *)
(*                                                                                         *)
(* Abstractly the index is a sorted set of state ids, each with an optional extension      *)
(* list (trie-node ids).  Concretely it is a chain of size-limited blocks; a block is a    *)
(* list of restart sections of RestartLen elements (first element of a section stored in   *)
(* full, the others as deltas, all uvarint; an element with extension is followed by       *)
(* uvarint(len) ++ payload); the block ends with the 2-byte restart offsets and a 1-byte   *)
(* restart count.  Per block there is a descriptor [id, max, entries, bitmap] in the       *)
(* metadata entry.  The layout below is written from the format description in             *)
(* history_index_block.go (doc comment of parseIndexBlock) and the descriptor layout.      *)
(*                                                                                         *)
(* State = the durable index `db` plus at most one open session (`w`): an indexWriter      *)
(* (append/rotate/finish) or an indexDeleter (pop/reopen previous block/finish).  One      *)
(* action per method of those objects, plus indexPruner.pruneEntry.  Readers and           *)
(* iterators do not change state: they are operators (names Code...) written after the lookup      *)
(* procedure (descriptor search by max, bitmap block skipping, restart search, scan) and   *)
(* compared with the set-level definition (names Abs...) by invariants.                            *)
EXTENDS Integers, Sequences, FiniteSets, TLC

CONSTANTS RestartLen,    \* elements per restart section      (code: 256)
          MaxSize,       \* block data capacity in bytes       (code: 4096)
          BitmapSize     \* 0 (no extensions), 2 or 34 bytes of descriptor bitmap

VARIABLES db,            \* [meta : Seq(Desc), blocks : [block id -> Seq(Elem)]]   durable index
          w,             \* the open session (writer or deleter) or NoSession
          abs            \* ghost: the sorted set the index is supposed to hold (Seq(Elem))

vars == <<db, w, abs>>

HasExt == BitmapSize # 0

(* ------------------------------- sequences ------------------------------- *)
Last(s)  == s[Len(s)]
Front(s) == SubSeq(s, 1, Len(s) - 1)
Range(s) == {s[i] : i \in 1..Len(s)}
Max2(a, b) == IF a > b THEN a ELSE b

RECURSIVE Insert(_, _)
Insert(s, x) == IF s = <<>> THEN <<x>>
                ELSE IF x < Head(s) THEN <<x>> \o s ELSE <<Head(s)>> \o Insert(Tail(s), x)
RECURSIVE SortIds(_)
SortIds(s) == IF s = <<>> THEN <<>> ELSE Insert(SortIds(Tail(s)), Head(s))   \* encodeIDs sorts the list

(* --------------------------------- bytes --------------------------------- *)
UvarintLen(x) == IF x < 128 THEN 1 ELSE IF x < 16384 THEN 2 ELSE IF x < 2097152 THEN 3
                 ELSE IF x < 268435456 THEN 4 ELSE 5
RECURSIVE Uvarint(_)
Uvarint(x) == IF x < 128 THEN <<x>> ELSE <<128 + (x % 128)>> \o Uvarint(x \div 128)

RECURSIVE ExtLen(_)
ExtLen(ext) == IF ext = <<>> THEN 0 ELSE UvarintLen(Head(ext)) + ExtLen(Tail(ext))
RECURSIVE ExtPayload(_)
ExtPayload(ext) == IF ext = <<>> THEN <<>> ELSE Uvarint(Head(ext)) \o ExtPayload(Tail(ext))

ElemLen(v, ext)   == UvarintLen(v) + (IF HasExt THEN UvarintLen(ExtLen(ext)) + ExtLen(ext) ELSE 0)
ElemBytes(v, ext) == Uvarint(v) \o (IF HasExt THEN Uvarint(ExtLen(ext)) \o ExtPayload(ext) ELSE <<>>)

(* element i of a block starts a restart section iff (i-1) is a multiple of RestartLen *)
IsStart(i)    == (i - 1) % RestartLen = 0
EncVal(es, i) == IF IsStart(i) THEN es[i].id ELSE es[i].id - es[i - 1].id

RECURSIVE DataLenUpTo(_, _)
DataLenUpTo(es, n) == IF n = 0 THEN 0 ELSE DataLenUpTo(es, n - 1) + ElemLen(EncVal(es, n), es[n].ext)
DataLen(es) == DataLenUpTo(es, Len(es))

RECURSIVE RestartsUpTo(_, _)
RestartsUpTo(es, n) ==      \* byte offsets of the section starts among the first n elements
  IF n = 0 THEN <<>>
  ELSE IF IsStart(n) THEN Append(RestartsUpTo(es, n - 1), DataLenUpTo(es, n - 1))
  ELSE RestartsUpTo(es, n - 1)
RestartsOf(es) == RestartsUpTo(es, Len(es))

RECURSIVE DataUpTo(_, _)
DataUpTo(es, n) == IF n = 0 THEN <<>> ELSE DataUpTo(es, n - 1) \o ElemBytes(EncVal(es, n), es[n].ext)
RECURSIVE U16s(_)
U16s(rs) == IF rs = <<>> THEN <<>> ELSE <<Head(rs) \div 256, Head(rs) % 256>> \o U16s(Tail(rs))

(* the stored form of a block *)
BlockBytes(es) == DataUpTo(es, Len(es)) \o U16s(RestartsOf(es)) \o <<Len(RestartsOf(es))>>

(* ---- reading the stored form back (format description, independent of the writer) ---- *)
U16At(bs, p) == bs[p] * 256 + bs[p + 1]
RestartCount(bs) == bs[Len(bs)]
DataEnd(bs)      == Len(bs) - (2 * RestartCount(bs) + 1)
RestartAt(bs, i) == U16At(bs, DataEnd(bs) + 2 * (i - 1) + 1)      \* i-th restart, 1-based
ParseOK(bs) ==
  /\ Len(bs) >= 1
  /\ RestartCount(bs) # 0
  /\ Len(bs) >= 2 * RestartCount(bs) + 1
  /\ \A i \in 1..RestartCount(bs) :
        /\ RestartAt(bs, i) < DataEnd(bs)
        /\ i > 1 => RestartAt(bs, i) > RestartAt(bs, i - 1)

RECURSIVE DecUv(_, _)        \* uvarint at 0-based offset p: [v, n]
DecUv(bs, p) == LET b == bs[p + 1] IN
  IF b < 128 THEN [v |-> b, n |-> 1]
  ELSE LET r == DecUv(bs, p + 1) IN [v |-> (b - 128) + 128 * r.v, n |-> r.n + 1]

RECURSIVE DecIds(_, _, _)    \* extension payload bs[p .. e) as id list
DecIds(bs, p, e) == IF p >= e THEN <<>>
                    ELSE LET r == DecUv(bs, p) IN <<r.v>> \o DecIds(bs, p + r.n, e)

RECURSIVE DecSection(_, _, _, _, _)   \* elements in data[p .. e); prev = previous id (0 at start)
DecSection(bs, p, e, prev, first) ==
  IF p >= e THEN <<>>
  ELSE LET r  == DecUv(bs, p)
           id == IF first THEN r.v ELSE prev + r.v
           l  == IF HasExt THEN DecUv(bs, p + r.n) ELSE [v |-> 0, n |-> 0]
           x  == IF HasExt THEN DecIds(bs, p + r.n + l.n, p + r.n + l.n + l.v) ELSE <<>>
       IN <<[id |-> id, ext |-> x]>> \o DecSection(bs, p + r.n + l.n + l.v, e, id, FALSE)

RECURSIVE DecSections(_, _)
DecSections(bs, i) ==
  IF i > RestartCount(bs) THEN <<>>
  ELSE DecSection(bs, RestartAt(bs, i),
                  IF i = RestartCount(bs) THEN DataEnd(bs) ELSE RestartAt(bs, i + 1), 0, TRUE)
       \o DecSections(bs, i + 1)
DecodeBlock(bs) == DecSections(bs, 1)

(* ------------------------------ descriptors ------------------------------ *)
ExtBits(ext)  == {n - 1 : n \in Range(ext) \ {0}}        \* node id 0 is never stored in the bitmap
BitsOf(es)    == UNION {ExtBits(es[i].ext) : i \in 1..Len(es)}
DescOf(id, es, bm) == [id |-> id, max |-> IF es = <<>> THEN 0 ELSE Last(es).id, entries |-> Len(es), bm |-> bm]
EmptyDesc(id) == [id |-> id, max |-> 0, entries |-> 0, bm |-> {}]

(* --------------------------- extension filters --------------------------- *)
RECURSIVE IsAncestor(_, _)   \* 16-ary tree, parent(y) = (y-1) \div 16
IsAncestor(x, y) == IF y <= x THEN FALSE
                    ELSE LET p == (y - 1) \div 16 IN p = x \/ IsAncestor(x, p)
Matches(ext, f)  == \E e \in Range(ext) : e = f \/ IsAncestor(f, e)
(* block-level filter on the descriptor bitmap (may say yes for a block without a match,  *)
(* must never say no for a block with a match)                                             *)
BitmapContains(bm, f) ==
  IF f = 0 \/ BitmapSize = 0 THEN TRUE
  ELSE IF BitmapSize = 2 THEN (f - 1) \in bm
  ELSE IF f - 1 >= 16 THEN (f - 1) \in bm
  ELSE (f - 1) \in bm \/ \E c \in (16 * f)..(16 * f + 15) : c \in bm
NoFilter == -1
Pass(e, f) == f = NoFilter \/ Matches(e.ext, f)

(* ------------------------- the set-level semantics ------------------------ *)
RECURSIVE Concat(_, _)
Concat(meta, blocks) == IF meta = <<>> THEN <<>> ELSE blocks[Head(meta).id] \o Concat(Tail(meta), blocks)
Abs(d) == Concat(d.meta, d.blocks)                     \* all stored elements in order

SelectPass(es, f) == SelectSeq(es, LAMBDA e : Pass(e, f))
IdsOf(es)         == [i \in 1..Len(es) |-> es[i].id]
AbsIter(d, f)     == IdsOf(SelectPass(Abs(d), f))     \* iteration yields the matching ids in order
NotFound == -1
FirstGT(ids, q) == IF \E i \in 1..Len(ids) : ids[i] > q
                   THEN ids[CHOOSE i \in 1..Len(ids) : ids[i] > q /\ \A j \in 1..(i - 1) : ids[j] <= q]
                   ELSE NotFound
AbsSeekGT(d, q, f) == FirstGT(AbsIter(d, f), q)        \* least stored (matching) id greater than q

TrimTo(es, limit) == SelectSeq(es, LAMBDA e : e.id <= limit)

(* --------------------- the lookup procedure of the code ------------------- *)
(* indexIterator.SeekGT: first block whose max exceeds q (sort.Search on descriptors),     *)
(* skip blocks whose bitmap excludes the filter, position inside the block, continue with  *)
(* following blocks while the filter rejects everything.                                   *)
RECURSIVE SkipBlocks(_, _, _)
SkipBlocks(meta, i, f) == IF i > Len(meta) THEN i
                          ELSE IF f = NoFilter \/ BitmapContains(meta[i].bm, f) THEN i
                          ELSE SkipBlocks(meta, i + 1, f)
FirstBlockGT(meta, q) == IF \E i \in 1..Len(meta) : q < meta[i].max
                         THEN CHOOSE i \in 1..Len(meta) : q < meta[i].max /\ \A j \in 1..(i - 1) : ~(q < meta[j].max)
                         ELSE Len(meta) + 1
(* blockIterator.seekGT: binary search on the section starts, scan one section *)
BlockSeekGT(es, q) ==
  LET nsec   == (Len(es) + RestartLen - 1) \div RestartLen
      start(s) == (s - 1) * RestartLen + 1
      secs   == {s \in 1..nsec : es[start(s)].id > q}              \* sections starting above q
      index  == IF secs = {} THEN nsec + 1 ELSE CHOOSE s \in secs : \A t \in secs : s <= t
  IN  IF nsec = 0 THEN 0
      ELSE IF index = 1 THEN 1
      ELSE LET sec  == index - 1
               lo   == start(sec)
               hi   == IF sec = nsec THEN Len(es) ELSE start(sec + 1) - 1
               hits == {i \in lo..hi : es[i].id > q}
           IN IF hits # {} THEN CHOOSE i \in hits : \A j \in hits : i <= j
              ELSE IF index = nsec + 1 THEN 0 ELSE start(index)       \* 0 = not in this block
RECURSIVE NextPass(_, _, _)     \* first position >= i whose element passes the filter (0 = none)
NextPass(es, i, f) == IF i = 0 \/ i > Len(es) THEN 0 ELSE IF Pass(es[i], f) THEN i ELSE NextPass(es, i + 1, f)

RECURSIVE FirstInBlocks(_, _, _)  \* indexIterator.Next across blocks: first passing element from block i on
FirstInBlocks(d, i, f) ==
  LET j == SkipBlocks(d.meta, i, f) IN
  IF j > Len(d.meta) THEN NotFound
  ELSE LET es == d.blocks[d.meta[j].id]
           p  == NextPass(es, 1, f)
       IN IF p # 0 THEN es[p].id ELSE FirstInBlocks(d, j + 1, f)

CodeSeekGT(d, q, f) ==
  LET j == SkipBlocks(d.meta, FirstBlockGT(d.meta, q), f) IN
  IF j > Len(d.meta) THEN NotFound
  ELSE LET es == d.blocks[d.meta[j].id]
           p  == NextPass(es, BlockSeekGT(es, q), f)
       IN IF p # 0 THEN es[p].id ELSE FirstInBlocks(d, j + 1, f)

RECURSIVE CodeIterFrom(_, _, _)   \* full traversal with Next(): blocks the bitmap excludes are never opened
CodeIterFrom(d, i, f) ==
  LET j == SkipBlocks(d.meta, i, f) IN
  IF j > Len(d.meta) THEN <<>>
  ELSE IdsOf(SelectPass(d.blocks[d.meta[j].id], f)) \o CodeIterFrom(d, j + 1, f)
CodeIter(d, f) == CodeIterFrom(d, 1, f)

(* ------------------------------ block writer ------------------------------ *)
(* blockWriter: elements + data length + restart offsets + descriptor bitmap *)
EmptyBW(id)    == [id |-> id, elems |-> <<>>, dlen |-> 0, restarts |-> <<>>, bm |-> {}]
LoadBW(id, es) == [id |-> id, elems |-> es, dlen |-> DataLen(es), restarts |-> RestartsOf(es),
                   bm |-> IF HasExt THEN BitsOf(es) ELSE {}]
BWDesc(b)      == DescOf(b.id, b.elems, b.bm)
BWLast(b)      == IF b.elems = <<>> THEN 0 ELSE Last(b.elems).id

BWAppend(b, id, ext) ==
  LET n   == Len(b.elems)
      new == n % RestartLen = 0                                    \* starts a new section
      v   == IF new THEN id ELSE id - Last(b.elems).id
  IN [b EXCEPT !.elems = Append(@, [id |-> id, ext |-> ext]),
               !.restarts = IF new THEN Append(@, b.dlen) ELSE @,
               !.dlen = @ + ElemLen(v, ext),
               !.bm = @ \cup ExtBits(ext)]

BWPop(b) ==        \* remove the last element (caller guarantees non-empty)
  LET n    == Len(b.elems)
      rest == Front(b.elems)
  IN IF n = 1 THEN EmptyBW(b.id)
     ELSE [b EXCEPT !.elems = rest,
                    !.dlen = IF n % RestartLen = 1 THEN Last(b.restarts)    \* the section becomes empty
                             ELSE @ - ElemLen(EncVal(b.elems, n), Last(b.elems).ext),
                    !.restarts = IF n % RestartLen = 1 THEN Front(@) ELSE @,
                    !.bm = IF HasExt THEN BitsOf(rest) ELSE {}]                  \* rebuildBitmap

RECURSIVE BWTrim(_, _)     \* newBlockWriter(blob, desc, limit): pop everything above the limit
BWTrim(b, limit) == IF b.elems # <<>> /\ BWLast(b) > limit THEN BWTrim(BWPop(b), limit) ELSE b

BWFull(b, ext) == b.dlen + 8 + 2 * Len(ext) > MaxSize          \* estimateFull

(* ------------------------------- sessions -------------------------------- *)
NoSession == [kind |-> "none"]

(* descriptor list after dropping trailing blocks that lie entirely above the limit *)
RECURSIVE TrimDescs(_, _)
TrimDescs(ds, limit) ==
  LET i == Len(ds) IN
  IF i > 1 /\ ds[i].max > limit
  THEN IF ds[i - 1].max >= limit THEN TrimDescs(Front(ds), limit) ELSE ds
  ELSE ds

(* the limit falls between two blocks: the last retained block loses all its elements     *)
(* while an earlier block exists.  indexWriter copes with it (finish drops the empty      *)
(* block); indexDeleter is never opened like this by the indexer (it pops id = limit,     *)
(* which is stored) and does not cope: excluded for the deleter, see NOTES.md.            *)
GapLimit(limit) == LET ds == TrimDescs(db.meta, limit) IN
                   Len(ds) > 1 /\ TrimTo(db.blocks[Last(ds).id], limit) = <<>>

Open(kind, limit) ==
  IF db.meta = <<>>
  THEN [kind |-> kind, prev |-> <<>>, bw |-> EmptyBW(0), frozen |-> <<>>, dropped |-> <<>>,
        lastID |-> 0, base |-> <<>>]
  ELSE LET ds == TrimDescs(db.meta, limit)
           bw == BWTrim([LoadBW(Last(ds).id, db.blocks[Last(ds).id]) EXCEPT !.bm = Last(ds).bm], limit)
       IN [kind |-> kind, prev |-> Front(ds), bw |-> bw, frozen |-> <<>>, dropped |-> <<>>,
           lastID |-> BWLast(bw), base |-> TrimTo(abs, limit)]

SessDescs(s) == s.prev \o <<BWDesc(s.bw)>>

OpenWriter(limit)  == w.kind = "none" /\ w' = Open("writer", limit) /\ UNCHANGED <<db, abs>>
OpenDeleter(limit) == w.kind = "none" /\ ~GapLimit(limit) /\ w' = Open("deleter", limit) /\ UNCHANGED <<db, abs>>
Close              == w.kind # "none" /\ w' = NoSession /\ UNCHANGED <<db, abs>>     \* session abandoned

(* sorted-set view of an open session: what a finish would leave in the index *)
RECURSIVE ConcatBW(_)
ConcatBW(bs) == IF bs = <<>> THEN <<>> ELSE Head(bs).elems \o ConcatBW(Tail(bs))
RECURSIVE ConcatPrev(_, _)
ConcatPrev(ds, blocks) == IF ds = <<>> THEN <<>> ELSE blocks[Head(ds).id] \o ConcatPrev(Tail(ds), blocks)
(* prev descriptors of blocks frozen in this session are not yet in db.blocks *)
PrevStored(s) == SubSeq(s.prev, 1, Len(s.prev) - Len(s.frozen))
SessAbs(s)    == ConcatPrev(PrevStored(s), db.blocks) \o ConcatBW(s.frozen) \o s.bw.elems

(* indexWriter.append: ids must ascend; rotate to a fresh block when the estimate says full *)
(* The environment appends ascending ids (property C19 quantifies over ascending appends). *)
(* After a trim that empties the last retained block the writer's own lastID is 0, so it   *)
(* would not reject an id below the earlier blocks' maximum; such calls are outside the    *)
(* quantifier and are not generated (see NOTES.md, observation O2).                        *)
Ascending(id) == LET a == SessAbs(w) IN IF a = <<>> THEN TRUE ELSE id > Last(a).id
AppendOK(id)  == w.kind = "writer" /\ id > w.lastID /\ Ascending(id)
Append1(s, id, ext) ==
  LET x   == SortIds(ext)
      rot == BWFull(s.bw, x)
      s1  == IF rot THEN [s EXCEPT !.frozen = Append(@, s.bw), !.prev = Append(@, BWDesc(s.bw)),
                                   !.bw = EmptyBW(s.bw.id + 1)]
             ELSE s
  IN [s1 EXCEPT !.bw = BWAppend(@, id, x), !.lastID = id]
WAppend(id, ext)     == AppendOK(id) /\ w' = Append1(w, id, ext) /\ UNCHANGED <<db, abs>>
WAppendFail(id, ext) == w.kind = "writer" /\ id <= w.lastID /\ UNCHANGED vars

Put(blocks, id, es) == [i \in DOMAIN blocks \cup {id} |-> IF i = id THEN es ELSE blocks[i]]
RECURSIVE PutAll(_, _)
PutAll(blocks, bws) == IF bws = <<>> THEN blocks ELSE PutAll(Put(blocks, Head(bws).id, Head(bws).elems), Tail(bws))
Drop(blocks, S) == [i \in DOMAIN blocks \ S |-> blocks[i]]

(* indexWriter.finish(batch) + batch.Write *)
WFinish ==
  /\ w.kind = "writer"
  /\ LET writers == IF w.bw.elems = <<>> THEN w.frozen ELSE Append(w.frozen, w.bw)
         descs   == IF w.bw.elems = <<>> THEN w.prev ELSE SessDescs(w)
     IN IF writers = <<>> THEN UNCHANGED <<db, abs>>                        \* nothing to commit
        ELSE /\ db' = [meta |-> descs, blocks |-> PutAll(db.blocks, writers)]
             /\ abs' = SessAbs(w)
  /\ w' = [w EXCEPT !.frozen = <<>>]

(* indexDeleter.pop: only the newest element can go; an emptied block is dropped and the  *)
(* previous block is reopened                                                              *)
PopOK(id) == w.kind = "deleter" /\ id # 0 /\ id = w.lastID
DPop(id) ==
  /\ PopOK(id)
  /\ LET b == BWPop(w.bw) IN
     IF b.elems # <<>> THEN w' = [w EXCEPT !.bw = b, !.lastID = BWLast(b)]
     ELSE IF w.prev = <<>>                                                  \* the whole index is empty now
          THEN w' = [w EXCEPT !.bw = b, !.lastID = 0, !.dropped = Append(@, w.bw.id)]
          ELSE LET d  == Last(w.prev)
                   pb == [LoadBW(d.id, db.blocks[d.id]) EXCEPT !.bm = d.bm]
               IN w' = [w EXCEPT !.bw = pb, !.prev = Front(@), !.lastID = d.max,
                                 !.dropped = Append(@, w.bw.id)]
  /\ UNCHANGED <<db, abs>>
DPopFail(id) == w.kind = "deleter" /\ (id = 0 \/ id # w.lastID) /\ UNCHANGED vars

DEmpty(s) == s.bw.elems = <<>> /\ s.prev = <<>>
(* indexDeleter.finish(batch) + batch.Write *)
DFinish ==
  /\ w.kind = "deleter"
  /\ LET b1 == Drop(db.blocks, Range(w.dropped))
         b2 == IF w.bw.elems # <<>> THEN Put(b1, w.bw.id, w.bw.elems) ELSE b1
     IN db' = [meta |-> IF DEmpty(w) THEN <<>> ELSE SessDescs(w), blocks |-> b2]
  /\ abs' = SessAbs(w)
  /\ w' = [w EXCEPT !.dropped = <<>>]

(* indexPruner.pruneEntry: leading blocks whose max lies below the tail are deleted whole *)
RECURSIVE PruneCount(_, _)
PruneCount(ds, tail) == IF ds # <<>> /\ Head(ds).max < tail THEN 1 + PruneCount(Tail(ds), tail) ELSE 0
Pruned(d, tail) ==
  LET c == PruneCount(d.meta, tail) IN
  [meta |-> SubSeq(d.meta, c + 1, Len(d.meta)),
   blocks |-> Drop(d.blocks, {d.meta[i].id : i \in 1..c})]
Prune(tail) ==
  /\ w.kind = "none"                 \* the pruner is paused while a writer/deleter works
  /\ db.meta # <<>>
  /\ db' = Pruned(db, tail)
  /\ abs' = Abs(db')
  /\ UNCHANGED w

Init == db = [meta |-> <<>>, blocks |-> <<>>] /\ w = NoSession /\ abs = <<>>

(* ------------------------------- properties ------------------------------- *)
StrictlyAscending(es) == \A i \in 1..(Len(es) - 1) : es[i].id < es[i + 1].id

(* the stored index is well formed: consecutive block ids, no empty block, descriptors     *)
(* describe their blocks, elements ascend across the whole chain                           *)
DbWellFormed ==
  /\ \A i \in 1..Len(db.meta) :
        LET d == db.meta[i] IN
        /\ d.id \in DOMAIN db.blocks
        /\ db.blocks[d.id] # <<>>
        /\ d = DescOf(d.id, db.blocks[d.id], BitsOf(db.blocks[d.id]))
        /\ i > 1 => d.id = db.meta[i - 1].id + 1
  /\ StrictlyAscending(Abs(db))
  /\ \A e \in Range(Abs(db)) : e.id > 0

(* the index holds exactly the sorted set it is supposed to hold *)
SetSemantics == Abs(db) = abs

(* the incrementally maintained writer fields agree with the layout definition *)
WriterConsistent ==
  w.kind # "none" =>
     /\ w.bw.dlen = DataLen(w.bw.elems)
     /\ w.bw.restarts = RestartsOf(w.bw.elems)
     /\ w.bw.bm = BitsOf(w.bw.elems)
     /\ w.lastID = BWLast(w.bw)
     /\ StrictlyAscending(SessAbs(w))

(* what an open session holds = what was stored (minus everything above the limit) plus    *)
(* the appends, minus the pops: checked as "prefix relation with the trimmed base"         *)
IsPrefix(a, b) == Len(a) <= Len(b) /\ SubSeq(b, 1, Len(a)) = a
SessionSemantics ==
  /\ w.kind = "writer"  => IsPrefix(w.base, SessAbs(w))
  /\ w.kind = "deleter" => IsPrefix(SessAbs(w), w.base)

(* a block survives the write/read round trip; the reader accepts what the writer wrote *)
RoundTrip == \A id \in DOMAIN db.blocks :
               LET bs == BlockBytes(db.blocks[id]) IN
               /\ ParseOK(bs)
               /\ DecodeBlock(bs) = db.blocks[id]
               /\ Len(bs) = DataLen(db.blocks[id]) + 2 * Len(RestartsOf(db.blocks[id])) + 1

(* pruning removes only ids below the tail, only from the front, and keeps order *)
PruneSafe(tail) ==
  LET a == Abs(db)  b == Abs(Pruned(db, tail)) IN
  /\ Len(b) <= Len(a) /\ SubSeq(a, Len(a) - Len(b) + 1, Len(a)) = b
  /\ \A i \in 1..(Len(a) - Len(b)) : a[i].id < tail
=============================================================================
