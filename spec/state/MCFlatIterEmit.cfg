SPECIFICATION Spec
CONSTANTS NKeys = 3
          MaxDiffs = 1
          EmitEvery = 11
INVARIANTS FastCorrect BinaryCorrect Emit
CHECK_DEADLOCK FALSE
