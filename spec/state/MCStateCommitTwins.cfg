SPECIFICATION MCSpec
CONSTANTS NA = 1
          NS = 1
          Ripemd = 0
          MaxVal = 1
          MaxBal = 1
          MaxNonce = 1
          MaxCode = 0
          MaxSnap = 1
          MaxTx = 1
          MaxCommits = 1
          Ops = {"BeginTx", "AddBalance", "SetState", "SelfDestruct", "Snapshot", "Revert", "Finalise", "Commit", "Copy"}
          RuleNames = {"eip158", "amsterdam"}
          BaseKinds = {0, 3}
          Actors = {1, 2}
          KeepHist = FALSE
          HistLen = 0
          TxEvery = 1
INVARIANTS InvType InvFeasible DiffReproducesWorld InvDisk
PROPERTIES TwinIndependence CopyIsExact CommitPreserves
VIEW View
CHECK_DEADLOCK FALSE
