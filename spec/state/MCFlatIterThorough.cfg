SPECIFICATION Spec
CONSTANTS NKeys = 3
          MaxDiffs = 2
          EmitEvery = 0
INVARIANTS FastCorrect BinaryCorrect InitOrdered
CHECK_DEADLOCK FALSE
