SPECIFICATION MCSpec
CONSTANTS Key = {"a1", "a2", "s1"}
          MaxVal = 1
          MaxObjs = 4
          Readers = {1}
          AsyncModes = {TRUE, FALSE}
          RelinkSiblings = TRUE
          Depth <- ScenDepth
          MaxDiffKeys = 1
          SlotKeys = {"s1"}
          MaxReads = 1
INVARIANTS TypeOK LiveReadable ReadCorrect NoSpuriousStale LookupSound DescendantsExact Rooted DiskContent DiskAligned ChainsSound
CONSTRAINT EmitDone
ACTION_CONSTRAINT AtomicCap
ACTION_CONSTRAINT Script
CHECK_DEADLOCK FALSE
