---------------------------- MODULE MCStateCommit ----------------------------
(* Model-checking wrapper of StateCommit.tla (C14): two StateDB twins over one disk, block    *)
(* after block, with Copy, Commit, reopen and Persist.  hist carries the behaviour for the    *)
(* replay on real StateDBs.                                                                   *)
EXTENDS StateCommit, Json

CONSTANTS MaxVal, MaxBal, MaxNonce, MaxCode, MaxSnap, MaxTx, MaxCommits, Ops, RuleNames, BaseKinds,
          Actors,     \* twins that act (the other one only observes / is copied to)
          KeepHist, HistLen, TxEvery

VARIABLES tw,      \* tw[i] = [s |-> StateDB record, b |-> block bookkeeping], i \in 1..2
          disk,    \* committed worlds
          ncommit, \* number of commits so far (bounds the behaviours)
          act, hist

Twins == 1..2
Other(i) == 3 - i

Template(i) == CASE i = 0 -> Absent
                 [] i = 1 -> Fresh
                 [] i = 2 -> [Fresh EXCEPT !.bal = 1]
                 [] i = 3 -> [Fresh EXCEPT !.nonce = 1, !.bal = 1, !.code = 1, !.st = [k \in Slot |-> 1]]
                 [] i = 4 -> [Fresh EXCEPT !.nonce = 1, !.bal = 1]
BaseWorlds == { [a \in Addr |-> Template(f[a])] : f \in [Addr -> BaseKinds] }

Projs(t) == [i \in Twins |-> Proj(t[i].s)]
Label(rec, t) == IF KeepHist THEN hist' = Append(hist, [act |-> rec, sts |-> Projs(t)]) ELSE hist' = hist

(* simulation only: commits, copies, reopens happen only at every TxEvery-th step (see MCStateDB) *)
AdminStep == KeepHist => Len(hist) % TxEvery = 0

(* twin i performs a StateDB operation that leads to T *)
Do(op, i, T, rec) ==
  /\ op \in Ops
  /\ tw' = [tw EXCEPT ![i].s = T]
  /\ act' = rec /\ Label(rec, tw') /\ UNCHANGED <<disk, ncommit>>

MCInit == /\ \E n \in RuleNames, w \in BaseWorlds :
               /\ tw = [i \in Twins |-> [s |-> Open(RuleSet(n), w), b |-> NewBlock(w)]]
               /\ disk = {w}
          /\ ncommit = 0
          /\ act = [op |-> "init", rules |-> tw[1].s.r.name]
          /\ hist = IF KeepHist THEN << [act |-> act, sts |-> Projs(tw)] >> ELSE << >>

TxOps(i) ==
  LET s == tw[i].s IN
  \E a \in Addr :
    \/ \E v \in 0..MaxVal : /\ s.w[a].bal + v <= MaxBal
                            /\ Do("AddBalance", i, AddBalance(s, a, v), [op |-> "AddBalance", t |-> i, a |-> a, v |-> v])
    \/ \E v \in 0..MaxVal : /\ CanSubBalance(s, a, v)
                            /\ Do("SubBalance", i, SubBalance(s, a, v), [op |-> "SubBalance", t |-> i, a |-> a, v |-> v])
    \/ \E n \in 0..MaxNonce : /\ FeasSetNonce(s, a, n)
                              /\ Do("SetNonce", i, SetNonce(s, a, n), [op |-> "SetNonce", t |-> i, a |-> a, v |-> n])
    \/ \E c \in 0..MaxCode : /\ FeasSetCode(s, a, c)
                             /\ Do("SetCode", i, SetCode(s, a, c), [op |-> "SetCode", t |-> i, a |-> a, v |-> c])
    \/ \E k \in Slot, v \in 0..MaxVal :
          /\ FeasSetState(s, a)
          /\ Do("SetState", i, SetState(s, a, k, v), [op |-> "SetState", t |-> i, a |-> a, k |-> k, v |-> v])
    \/ /\ FeasSelfDestruct(s, a)
       /\ Do("SelfDestruct", i, SelfDestruct(s, a), [op |-> "SelfDestruct", t |-> i, a |-> a])
    \/ /\ CanCreateAccount(s, a)
       /\ Do("CreateAccount", i, CreateAccount(s, a), [op |-> "CreateAccount", t |-> i, a |-> a])
    \/ /\ CanEvmCreate(s, a) /\ (s.r.eip158 => MaxNonce >= 1)
       /\ Do("EvmCreate", i, EvmCreate(s, a), [op |-> "EvmCreate", t |-> i, a |-> a])

SnapOps(i) ==
  LET s == tw[i].s IN
  \/ /\ Len(s.snaps) < MaxSnap
     /\ Do("Snapshot", i, Snapshot(s), [op |-> "Snapshot", t |-> i])
  \/ \E x \in 1..Len(s.snaps) : Do("Revert", i, Revert(s, x), [op |-> "Revert", t |-> i, i |-> x])

EndTx(i) ==
  LET s == tw[i].s IN
  /\ s.intx /\ (KeepHist => Len(hist) % TxEvery = 0)
  /\ \E op \in {"Finalise", "IntermediateRoot"} :
       /\ op \in Ops
       /\ tw' = [tw EXCEPT ![i] = [s |-> IF op = "Finalise" THEN Finalise(s) ELSE IntermediateRoot(s),
                                    b |-> AfterFinalise(tw[i].b, s)]]
       /\ act' = [op |-> op, t |-> i] /\ Label(act', tw') /\ UNCHANGED <<disk, ncommit>>

(* Commit: Finalise whatever is pending, write, continue on the new root *)
Commit(i) ==
  LET s == tw[i].s
      f == Finalise(s)
  IN  /\ "Commit" \in Ops /\ ncommit < MaxCommits /\ AdminStep
      /\ disk' = disk \cup {f.w}
      /\ tw' = [tw EXCEPT ![i] = [s |-> Open(s.r, f.w), b |-> NewBlock(f.w)]]
      /\ ncommit' = ncommit + 1
      /\ act' = [op |-> "Commit", t |-> i, world |-> f.w] /\ Label(act', tw')

OpenAt(j) ==
  \E w \in disk :
      /\ "Open" \in Ops /\ AdminStep
      /\ tw' = [tw EXCEPT ![j] = [s |-> Open(tw[j].s.r, w), b |-> NewBlock(w)]]
      /\ act' = [op |-> "Open", t |-> j, world |-> w] /\ Label(act', tw') /\ UNCHANGED <<disk, ncommit>>

CopyOf(S) == [S EXCEPT !.snaps = << >>]
CopyTo(i) ==
  /\ "Copy" \in Ops /\ AdminStep
  /\ tw' = [tw EXCEPT ![Other(i)] = [s |-> CopyOf(tw[i].s), b |-> tw[i].b]]
  /\ act' = [op |-> "Copy", t |-> i] /\ Label(act', tw') /\ UNCHANGED <<disk, ncommit>>

Persist ==
  \E w \in disk :
      /\ "Persist" \in Ops /\ AdminStep
      /\ disk' = {w}
      /\ tw' = [i \in Twins |-> [s |-> Open(tw[i].s.r, w), b |-> NewBlock(w)]]
      /\ act' = [op |-> "Persist", t |-> 0, world |-> w] /\ Label(act', tw') /\ UNCHANGED ncommit

MCNext ==
  \/ \E i \in Actors :
       \/ /\ ~tw[i].s.intx /\ tw[i].s.txn < MaxTx
          /\ \E a \in Addr : Do("BeginTx", i, BeginTx(tw[i].s, a), [op |-> "BeginTx", t |-> i, a |-> a])
       \/ tw[i].s.intx /\ (TxOps(i) \/ SnapOps(i))
       \/ EndTx(i)
       \/ Commit(i)
       \/ OpenAt(i)
       \/ CopyTo(i)
  \/ Persist

vars == <<tw, disk, ncommit, act, hist>>
MCSpec == MCInit /\ [][MCNext]_vars

View == <<tw, disk, ncommit>>

(* ---- properties (C14 on the model) ---- *)
(* nothing the actor does changes the other twin; Copy/Open/Persist replace exactly the named twins *)
TwinIndependence ==
  [][ (act'.op \notin {"Copy", "Persist"} /\ act'.t \in Twins) => tw'[Other(act'.t)] = tw[Other(act'.t)] ]_vars
CopyIsExact ==
  [][ act'.op = "Copy" => /\ Proj(tw'[Other(act'.t)].s) = Proj(tw[act'.t].s)
                           /\ tw'[act'.t] = tw[act'.t] ]_vars
(* a committed world can be reopened and reads as committed; the disk only grows except at Persist *)
CommitPreserves ==
  [][ act'.op = "Commit" => /\ act'.world \in disk'
                            /\ disk \subseteq disk'
                            /\ Proj(tw'[act'.t].s) = Proj(Open(tw[act'.t].s.r, act'.world))
                            /\ act'.world = Finalise(tw[act'.t].s).w ]_vars
(* mechanism: the difference accumulated over the block reproduces the world at every transaction boundary *)
DiffReproducesWorld ==
  \A i \in Twins : (~tw[i].s.intx) => ApplyDiff(tw[i].b, tw[i].s.w) = tw[i].s.w
InvType     == \A i \in Twins : TypeOK(tw[i].s)
InvFeasible == \A i \in Twins : Feasible(tw[i].s)
InvDisk     == \A i \in Twins : tw[i].b.parent \in disk

Emit == IF Len(hist) = HistLen THEN PrintT(<<"MBT", ToJson(hist)>>) ELSE TRUE
=============================================================================
