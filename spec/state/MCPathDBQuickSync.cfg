SPECIFICATION MCSpec
CONSTANTS Key = {"a1", "s1"}
          MaxVal = 1
          MaxObjs = 4
          Readers = {}
          AsyncModes = {FALSE, TRUE}
          RelinkSiblings = TRUE
          Depth = 0
          MaxDiffKeys = 2
          SlotKeys = {"s1"}
          MaxReads = 0
INVARIANTS TypeOK LiveReadable LookupSound DescendantsExact Rooted DiskContent DiskAligned ChainsSound
VIEW View
CHECK_DEADLOCK FALSE
