SPECIFICATION SSpec
CONSTANTS NAcc = 1
          NSlot = 1
          MaxVal = 2
          MaxDiffs = {1, 2}
          HistLimits = {0, 2, 3}
          Policies = {"always", "never"}
          Asyncs = {FALSE, TRUE}
          IndexOns = {TRUE}
          MaxId = 9
          Depth = 18
INVARIANTS TypeOK ViewIsRoot Aligned HistChain IndexExact ReadCorrect RefusalExact
CONSTRAINT Bounded
CONSTRAINT Emit
CHECK_DEADLOCK FALSE
