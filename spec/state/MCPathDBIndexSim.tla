--------------------------- MODULE MCPathDBIndexSim ---------------------------
(* Simulation wrapper of PathDBIndex: records the labels of the actions taken so that      *)
(* TLC-generated behaviours (small worlds: repeated roots, stale id entries, abandoned      *)
(* forks) can be replayed on a real pathdb.Database with indexing (R for C18); the driver   *)
(* reads every key at every known root after each step.                                     *)
EXTENDS PathDBIndex, Json

VARIABLE acts
CONSTANT Depth

SInit == IInit /\ acts = <<>>
Lbl(a) == acts' = Append(acts, a)
Targets == (DOMAIN ids) \cup {disk.root}

Upd == \E j \in {Len(chain)} :       \* linear branch: roots repeat in these small worlds
         LET p == IF j = 0 THEN disk.root ELSE chain[j].root IN
         \E d \in {x \in DiffsOn(p) : Over(p, x) # p} :
           \E n \in 0..1 : \E fs \in Flags(n) :
              IUpdateTo(j, d, fs) /\ Lbl([op |-> "Update", j |-> j, d |-> d])
Cmt == \E i \in 1..Len(chain) : \E sts \in Stales(i) : ICommitAt(i, sts) /\ Lbl([op |-> "Commit", i |-> i])
Rec == \E r \in Targets : IRecoverTo(r) /\ Lbl([op |-> "Recover", w |-> r])
Rst == \E i \in 0..Len(chain) : IReopen(i, TRUE) /\ Lbl([op |-> "Reopen", i |-> i])
Idx == \E n \in -1..MaxId : IndexRun(n) /\ n = disk.id /\ Lbl([op |-> "IndexRun"])

SNext == Upd \/ Upd \/ Upd \/ Upd \/ Upd \/ Cmt \/ Rec \/ Rec \/ Rst \/ Idx \/ Idx \/ Idx
SSpec == SInit /\ [][SNext]_<<ivars, acts>>

Emit == IF Len(acts) = Depth
        THEN PrintT(<<"MBT", ToJson([cfg |-> cfg, nacc |-> NAcc, nslot |-> NSlot, acts |-> acts])>>)
        ELSE TRUE
=============================================================================
