SPECIFICATION TraceSpec
CONSTANTS NA = 3
          NS = 2
          Ripemd = 0
          CheckBAL = TRUE
INVARIANTS InvType InvRevert InvFinalise InvFeasible InvBAL
POSTCONDITION TraceAccepted
CHECK_DEADLOCK FALSE
