SPECIFICATION MCSpec
CONSTANTS NA = 1
          NS = 1
          Ripemd = 0
          MaxVal = 1
          MaxBal = 1
          MaxNonce = 2
          MaxCode = 1
          MaxSnap = 2
          MaxTx = 1
          Ops = {"BeginTx", "AddBalance", "SubBalance", "SetBalance", "SetNonce", "SetCode", "SetState", "SelfDestruct", "CreateAccount", "EvmCreate", "ReadAccount", "ReadSlot", "Snapshot", "Revert", "Finalise"}
          BaseKinds = {0, 2, 3, 4}
          KeepHist = FALSE
          HistLen = 0
          TxEvery = 1
INVARIANTS MechanismIsNetDiff InvBAL InvFunctional InvFeasible InvFrames InvNoEmpty
VIEW View
CHECK_DEADLOCK FALSE
