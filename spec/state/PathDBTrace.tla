----------------------------- MODULE PathDBTrace -----------------------------
(* Trace validation for PathDB (C16): natural runs of a real pathdb.Database - random       *)
(* trees with forks and repeated roots grown through StateDB commits, so that every          *)
(* Database.Update is layerTree.add followed by the database's own cap(root, maxDiffLayers)  *)
(* and the write buffer fills by its real byte size - must be behaviours of PathDB.tla.      *)
(* One logged event = one public call; the steps inside a call (add, CapBegin, one CapStep   *)
(* per flattened layer, CapEnd) are taken silently, the projection logged after the call     *)
(* (layers with parent/id/changed keys, disk layer, buffer, persistent id and flat state,    *)
(* lookup lists, descendants) must equal the specification's state at the end of the call.   *)
(* All invariants of PathDB.tla are evaluated on every state of the matched behaviour.       *)
EXTENDS PathDB, Json, IOUtils

Trace == ndJsonDeserialize(IOEnv.TRACE)

VARIABLES l,      \* next line of the trace to explain
          ph      \* "idle": between calls; "added": inside Update, after add; "cap": inside a cap

tvars == <<vars, l, ph>>
Ev == Trace[l]

SeqToSet(s) == {s[i] : i \in 1..Len(s)}

(* does the logged projection describe the given (primed) state? *)
PM(ob, ly, dk, bf, fz, kvv, lk, ds, st) ==
  /\ st.disk.root = dk.root /\ st.disk.id = dk.id
  /\ Len(st.layers) = Cardinality(DOMAIN ly)
  /\ \A i \in 1..Len(st.layers) :
        LET o == st.layers[i] IN
        /\ o.root \in DOMAIN ly
        /\ o.parent = ob[ly[o.root]].par.root
        /\ o.id = ob[ly[o.root]].id
        /\ SeqToSet(o.keys) = DOMAIN ob[ly[o.root]].diff
  /\ st.buffer.n = bf.n /\ SeqToSet(st.buffer.keys) = DOMAIN bf.data
  /\ st.frozen.present = fz.present
  /\ st.kv.pid = kvv.pid /\ st.kv.flat = kvv.flat
  /\ \A k \in Key : st.lookup[k] = lk[k]
  /\ Len(st.desc) = Cardinality(DOMAIN ds)
  /\ \A i \in 1..Len(st.desc) : st.desc[i].anc \in DOMAIN ds /\ SeqToSet(st.desc[i].roots) = ds[st.desc[i].anc]
Now(st)  == PM(objs, layers, disk, buffer, frozen, kv, lookup, descendants, st)
Then(st) == PM(objs', layers', disk', buffer', frozen', kv', lookup', descendants', st)

Diff(d) == IF d = <<>> THEN NoData ELSE d        \* an empty JSON object/array is the empty diff
NewRoot == Apply(Ev.p, Diff(Ev.d))

Live == l <= Len(Trace)

TReset ==
  /\ Live /\ Ev.op = "reset" /\ ph = "idle"
  /\ objs' = <<>> /\ layers' = <<>>
  /\ disk' = [root |-> EmptyWorld, id |-> 0, gen |-> 0]
  /\ buffer' = EmptyBuf /\ frozen' = FrozenNone
  /\ kv' = [flat |-> EmptyWorld, pid |-> 0, root |-> EmptyWorld]
  /\ lookup' = [k \in Key |-> <<>>] /\ descendants' = <<>>
  /\ capst' = CapNone /\ readers' = readers /\ async' = Ev.async
  /\ l' = l + 1 /\ ph' = "idle"

(* Database.Update that changes nothing *)
TUpdateNoop ==
  /\ Live /\ Ev.op = "update" /\ ph = "idle" /\ Ev.res # "ok"
  /\ UpdateResult(Ev.p, Diff(Ev.d)) = Ev.res
  /\ UpdateNoop(Ev.p, Diff(Ev.d))
  /\ Now(Ev.st)
  /\ l' = l + 1 /\ ph' = "idle"

(* Database.Update, first half: layerTree.add *)
TUpdateAdd ==
  /\ Live /\ Ev.op = "update" /\ ph = "idle" /\ Ev.res = "ok"
  /\ Update(Ev.p, Diff(Ev.d))
  /\ UNCHANGED l /\ ph' = "added"

(* ... second half: cap(root, maxDiffLayers) has nothing to flatten *)
TUpdateNoCap ==
  /\ Live /\ ph = "added"
  /\ CapNoop(NewRoot, Ev.maxdiff)
  /\ Now(Ev.st)
  /\ l' = l + 1 /\ ph' = "idle"

(* ... or flattens: the buffer-full answer is whatever the real byte sizes gave *)
TUpdateCapBegin ==
  /\ Live /\ ph = "added"
  /\ \E f \in BOOLEAN : CapBegin(NewRoot, Ev.maxdiff, f)
  /\ UNCHANGED l /\ ph' = "cap"

(* Database.Commit / an explicit cap *)
TCapCallBegin ==
  /\ Live /\ Ev.op = "cap" /\ ph = "idle" /\ Ev.ok
  /\ \E f \in BOOLEAN : CapBegin(Ev.r, Ev.n, f)
  /\ UNCHANGED l /\ ph' = "cap"
TCapCallNoop ==
  /\ Live /\ Ev.op = "cap" /\ ph = "idle"
  /\ CapNoop(Ev.r, Ev.n)
  /\ Ev.ok = (CapKind(Ev.r, Ev.n) = "noop")
  /\ Now(Ev.st)
  /\ l' = l + 1 /\ ph' = "idle"

TCapStep == ph = "cap" /\ (\E f \in BOOLEAN : CapStepF(f)) /\ UNCHANGED <<l, ph>>
TCapEnd  == /\ Live /\ ph = "cap"
            /\ CapEnd
            /\ Then(Ev.st)
            /\ l' = l + 1 /\ ph' = "idle"

TraceInit == Init /\ l = 1 /\ ph = "idle"
TraceNext == TReset \/ TUpdateNoop \/ TUpdateAdd \/ TUpdateNoCap \/ TUpdateCapBegin
             \/ TCapCallBegin \/ TCapCallNoop \/ TCapStep \/ TCapEnd
TraceSpec == TraceInit /\ [][TraceNext]_tvars

(* number of trace lines explained so far (the library takes the maximum) *)
HWM == PrintT(<<"HWM", ToJson(l - 1)>>)
=============================================================================
