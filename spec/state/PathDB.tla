------------------------------- MODULE PathDB -------------------------------
(* Layered state of triedb/pathdb (property C16; core shared by C17/C18/C20/C22).          *)
(*                                                                                         *)
(* A state ("world") maps every key to a value (0 = absent); the root of a state IS the    *)
(* state (hashes are injective), so repeated roots and no-op transitions arise naturally.  *)
(* A key stands for a flat-state entry (account / storage slot, read through the lookup    *)
(* index: "fast path") and for a trie node (read by walking the layer chain: "slow path"). *)
(*                                                                                         *)
(* Shape of the code:                                                                      *)
(*   objs        every diffLayer object ever created (objects outlive their membership in  *)
(*               the tree: readers keep them, stale parent pointers matter)                *)
(*   layers      layerTree.layers restricted to diff layers: root -> object                *)
(*   disk        the one non-stale diskLayer [root, id, gen]; older generations are stale  *)
(*   buffer      diskLayer.buffer  (aggregated, not yet written)                           *)
(*   frozen      diskLayer.frozen  (being flushed in the background, still consulted)      *)
(*   kv          key-value store: flat state + trie nodes, persistent state id             *)
(*   lookup      lookup.accounts/storages: per key the roots of the diff layers that       *)
(*               changed it, oldest first (lookup.go)                                      *)
(*   descendants layerTree.descendants                                                     *)
(*   capst       progress of a cap/Commit (layerTree.cap holds tree.lock from CapBegin to  *)
(*               CapEnd; one CapStep per diskLayer.commit)                                 *)
(*   readers     reader processes: OpenReader (Database.StateReader/NodeReader), then      *)
(*               ReadTip (lookupAccount under tree.lock) and ReadVal (layer.account, with  *)
(*               the stale fallback to the entry layer) as two steps, or ReadNode          *)
EXTENDS Integers, Sequences, FiniteSets, TLC

CONSTANTS Key,             \* keys
          MaxVal,          \* values 1..MaxVal, 0 = absent
          MaxObjs,         \* diff layers ever created (bounds the exploration)
          Readers,         \* reader process ids
          AsyncModes,      \* subset of BOOLEAN: values of ~Config.NoAsyncFlush explored
          RelinkSiblings   \* TRUE: intended design (every child of a flattened layer is re-parented
                           \* onto the new disk layer); FALSE: what layerTree.cap does (only the child
                           \* on the capped path is re-parented), see NOTES.md finding F1

VARIABLES objs, layers, disk, buffer, frozen, kv, lookup, descendants, capst, readers, async

vars  == <<objs, layers, disk, buffer, frozen, kv, lookup, descendants, capst, readers, async>>
tree  == <<objs, layers, lookup, descendants>>
store == <<disk, buffer, frozen, kv>>

(* -------------------------------- worlds --------------------------------- *)
Val        == 0..MaxVal
World      == [Key -> Val]
EmptyWorld == [k \in Key |-> 0]
NoData     == [k \in {} |-> 0]
PFun       == UNION {[S -> Val] : S \in SUBSET Key}          \* partial maps = diffs
Apply(wd, d) == [k \in Key |-> IF k \in DOMAIN d THEN d[k] ELSE wd[k]]
Merge(a, b)  == [k \in (DOMAIN a) \cup (DOMAIN b) |-> IF k \in DOMAIN b THEN b[k] ELSE a[k]]
(* state sets handed to Update contain exactly the changed keys *)
DiffsOn(p)   == {d \in PFun : DOMAIN d # {} /\ \A k \in DOMAIN d : d[k] # p[k]}

ErrStale == -1          \* errSnapshotStale
Blocked  == -2          \* the read would wait for a layer lock held by cap

(* ------------------------------ layer objects ----------------------------- *)
(* reference to a layer object: a diff object (index into objs) or a disk layer generation *)
DiffRef(o) == [k |-> "diff", ref |-> o, root |-> objs[o].root]
DiskRef    == [k |-> "disk", ref |-> disk.gen, root |-> disk.root]
NoRef      == [k |-> "none", ref |-> 0, root |-> EmptyWorld]

LiveRoots  == (DOMAIN layers) \cup {disk.root}
LiveOids   == {layers[r] : r \in DOMAIN layers}
RefOfRoot(r) == IF r \in DOMAIN layers THEN DiffRef(layers[r]) ELSE DiskRef       \* tree.get(root)
IdOfRoot(r)  == IF r \in DOMAIN layers THEN objs[layers[r]].id ELSE disk.id

FrozenNone == [present |-> FALSE, n |-> 0, data |-> NoData, root |-> EmptyWorld, id |-> 0, done |-> TRUE]
EmptyBuf   == [n |-> 0, data |-> NoData]

(* what the non-stale disk layer serves: buffer, then frozen buffer, then (clean cache =) store *)
DiskRead(k) == IF k \in DOMAIN buffer.data THEN buffer.data[k]
               ELSE IF frozen.present /\ k \in DOMAIN frozen.data THEN frozen.data[k]
               ELSE kv.flat[k]

(* layers whose lock cap holds for writing (diff.lock of the children being re-parented and *)
(* of every layer of the persist chain above the one being committed)                        *)
CapIdle     == capst.pc = "idle"
LockedOids  == IF CapIdle THEN {}
               ELSE {capst.pending[i] : i \in 2..Len(capst.pending)} \cup capst.kids

(* layer.account / layer.storage / layer.node: walk the parent chain of objects *)
RECURSIVE Walk(_, _)
Walk(ref, k) ==
  IF ref.k = "disk" THEN (IF ref.ref = disk.gen THEN DiskRead(k) ELSE ErrStale)
  ELSE IF ref.ref \in LockedOids THEN Blocked
  ELSE IF k \in DOMAIN objs[ref.ref].diff THEN objs[ref.ref].diff[k]
  ELSE Walk(objs[ref.ref].par, k)

(* chain of diff objects from o downwards (o first) *)
RECURSIVE ChainDown(_)
ChainDown(o) == IF objs[o].par.k = "diff" THEN <<o>> \o ChainDown(objs[o].par.ref) ELSE <<o>>
Reverse(s) == [i \in 1..Len(s) |-> s[Len(s) + 1 - i]]
SeqRange(s) == {s[i] : i \in 1..Len(s)}

(* ancestors by root, as fillAncestors sees them (parentLayer().rootHash() up to the disk layer) *)
RECURSIVE AncRoots(_)
AncRoots(ref) == IF ref.k # "diff" THEN {}
                 ELSE LET p == objs[ref.ref].par IN {p.root} \cup AncRoots(p)

(* ------------------------------ lookup index ------------------------------ *)
IsDesc(r, anc) == anc \in DOMAIN descendants /\ r \in descendants[anc]          \* tree.isDescendant
(* lookup.accountTip / storageTip: newest entry that is the state or an ancestor of it, else *)
(* the disk layer if the state descends from it, else stale                                  *)
TipOf(k, r) ==
  LET list == lookup[k]
      hit  == {i \in 1..Len(list) : list[i] = r \/ IsDesc(r, list[i])}
  IN IF hit # {} THEN [k |-> "root", root |-> list[CHOOSE i \in hit : \A j \in hit : j <= i]]
     ELSE IF disk.root = r \/ IsDesc(r, disk.root) THEN [k |-> "root", root |-> disk.root]
     ELSE [k |-> "stale", root |-> EmptyWorld]

RemoveFirst(list, x) ==      \* removeFromList
  IF \E i \in 1..Len(list) : list[i] = x
  THEN LET i == CHOOSE i \in 1..Len(list) : list[i] = x /\ \A j \in 1..(i - 1) : list[j] # x
       IN SubSeq(list, 1, i - 1) \o SubSeq(list, i + 1, Len(list))
  ELSE list
RECURSIVE RemoveLayers(_, _)  \* lookup.removeLayer for a set of diff objects
RemoveLayers(lk, S) ==
  IF S = {} THEN lk
  ELSE LET o == CHOOSE o \in S : TRUE
       IN RemoveLayers([k \in Key |-> IF k \in DOMAIN objs[o].diff THEN RemoveFirst(lk[k], objs[o].root) ELSE lk[k]],
                       S \ {o})

(* --------------------------------- Init ---------------------------------- *)
Idle == [pc |-> "idle", root |-> EmptyWorld, entry |-> NoRef, key |-> CHOOSE k \in Key : TRUE,
         tip |-> NoRef, res |-> 0, spurious |-> FALSE]
CapNone == [pc |-> "idle", n |-> 0, pending |-> <<>>, kids |-> {}, full |-> FALSE, oldbase |-> EmptyWorld,
            replaced |-> 0, doomed |-> {}]

Init == /\ objs = <<>> /\ layers = <<>>
        /\ disk = [root |-> EmptyWorld, id |-> 0, gen |-> 0]
        /\ buffer = EmptyBuf /\ frozen = FrozenNone
        /\ kv = [flat |-> EmptyWorld, pid |-> 0, root |-> EmptyWorld]
        /\ lookup = [k \in Key |-> <<>>]
        /\ descendants = <<>>
        /\ capst = CapNone
        /\ readers = [rd \in Readers |-> Idle]
        /\ async \in AsyncModes

(* -------------------------------- Update --------------------------------- *)
(* Database.Update -> layerTree.add(root, parentRoot, ...).  (The cap that Update appends is *)
(* the separate Cap action; the harness raises maxDiffLayers so that it never fires alone.)  *)
UpdateResult(p, d) ==
  LET r == Apply(p, d) IN
  IF r = p THEN "cycle"                          \* rejected: layer cycle
  ELSE IF r = disk.root THEN "dupdisk"           \* exists (ignored by add); the cap that follows refuses the disk layer
  ELSE IF r \in LiveRoots THEN "dup"             \* a layer with this root exists: ignored
  ELSE IF p \notin LiveRoots THEN "orphan"       \* parent layer missing
  ELSE "ok"

AddDesc(desc, ancs, r) ==
  [a \in (DOMAIN desc) \cup ancs |-> (IF a \in DOMAIN desc THEN desc[a] ELSE {}) \cup (IF a \in ancs THEN {r} ELSE {})]

Update(p, d) ==
  /\ CapIdle
  /\ UpdateResult(p, d) = "ok"
  /\ Len(objs) < MaxObjs
  /\ LET r   == Apply(p, d)
         o   == Len(objs) + 1
         par == RefOfRoot(p)
         obj == [root |-> r, diff |-> d, id |-> IdOfRoot(p) + 1, par |-> par]
     IN /\ objs' = Append(objs, obj)
        /\ layers' = [x \in (DOMAIN layers) \cup {r} |-> IF x = r THEN o ELSE layers[x]]
        /\ descendants' = AddDesc(descendants, {p} \cup AncRoots(par), r)
        /\ lookup' = [k \in Key |-> IF k \in DOMAIN d THEN Append(lookup[k], r) ELSE lookup[k]]
  /\ UNCHANGED <<store, capst, readers, async>>

(* calls that change nothing: layer cycle, duplicate root, missing parent *)
UpdateNoop(p, d) == CapIdle /\ UpdateResult(p, d) \in {"cycle", "dup", "dupdisk", "orphan"} /\ UNCHANGED vars

(* ---------------------------------- Cap ----------------------------------- *)
(* layerTree.cap(root, n): n = 0 is Database.Commit (persist(true) of the whole chain and   *)
(* reset of the tree); n >= 1 dives n-1 layers below root and flattens everything below.    *)
CapTarget(r, n) ==         \* the layer `diff` after diving, 0 if the chain is too shallow
  LET ch == ChainDown(layers[r]) IN IF Len(ch) >= n THEN ch[n] ELSE 0

CapKind(r, n) ==
  IF r \notin DOMAIN layers THEN "err"                                  \* missing or disk layer
  ELSE IF n = 0 THEN "commit"
  ELSE IF CapTarget(r, n) = 0 THEN "noop"                                \* diff stack too shallow
  ELSE IF objs[CapTarget(r, n)].par.k = "disk" THEN "noop"               \* nothing below to flatten
  ELSE "cap"

(* a persist chain can only be flattened if it hangs off the current disk layer *)
ChainSound(ch) == objs[ch[Len(ch)]].par.k = "disk" /\ objs[ch[Len(ch)]].par.ref = disk.gen

RECURSIVE IsAncObj(_, _)   \* is object a a proper ancestor of object o (by object links)?
IsAncObj(a, o) == objs[o].par.k = "diff" /\ (objs[o].par.ref = a \/ IsAncObj(a, objs[o].par.ref))

CapBegin(r, n, full) ==
  /\ CapIdle
  /\ CapKind(r, n) \in {"commit", "cap"}
  /\ LET kind  == CapKind(r, n)
         child == IF kind = "cap" THEN CapTarget(r, n) ELSE 0
         top   == IF kind = "cap" THEN objs[child].par.ref ELSE layers[r]
         chain == Reverse(ChainDown(top))                                 \* bottom-most first
         keep  == IF kind = "cap" THEN {o \in LiveOids : o = child \/ IsAncObj(top, o)} \ {top} ELSE {}
         (* the children that get the new disk layer as parent (under their lock): the one on the  *)
         (* capped path, and - intended design only - its siblings                                  *)
         kids  == IF kind # "cap" THEN {}
                  ELSE IF RelinkSiblings
                  THEN {o \in LiveOids : objs[o].par.k = "diff" /\ objs[o].par.ref = top}
                  ELSE {child}
     IN /\ ChainSound(Reverse(chain))
        /\ capst' = [pc |-> kind, n |-> n, pending |-> chain, kids |-> kids, full |-> full,
                     oldbase |-> disk.root, replaced |-> top, doomed |-> LiveOids \ keep]
  /\ UNCHANGED <<tree, store, readers, async>>

CapNoop(r, n) == CapIdle /\ CapKind(r, n) \in {"err", "noop"} /\ UNCHANGED vars

(* one diskLayer.commit(bottom, force): mark the disk layer stale, merge the bottom-most diff *)
(* into the buffer, freeze + flush when full / forced, hand the new disk layer to the layer   *)
(* above (dl.parent = result under dl.lock) resp. to the child of the replaced layer          *)
Flushed(fz) == [flat |-> Apply(kv.flat, fz.data), pid |-> fz.id, root |-> fz.root]

(* `full` = combined.full(): the buffer exceeds its byte allowance after this merge.  The  *)
(* replay harness fixes it per cap call (capst.full); a natural run decides it per step.     *)
CapStepF(full) ==
  /\ ~CapIdle /\ capst.pending # <<>>
  /\ LET b        == Head(capst.pending)
         bot      == objs[b]
         combined == [n |-> buffer.n + 1, data |-> Merge(buffer.data, bot.diff)]
         flush    == full \/ capst.pc = "commit"
         gen1     == disk.gen + 1
         newref   == [k |-> "disk", ref |-> gen1, root |-> bot.root]
         rest     == Tail(capst.pending)
         relink   == IF rest # <<>> THEN {Head(rest)} ELSE capst.kids
         fz       == [present |-> TRUE, n |-> combined.n, data |-> combined.data, root |-> bot.root,
                      id |-> bot.id, done |-> FALSE]
     IN /\ flush => (~frozen.present \/ frozen.done)            \* dl.frozen.waitFlush() blocks
        /\ disk' = [root |-> bot.root, id |-> bot.id, gen |-> gen1]
        /\ IF ~flush THEN buffer' = combined /\ UNCHANGED <<frozen, kv>>
           ELSE /\ buffer' = EmptyBuf
                /\ IF async THEN frozen' = fz /\ UNCHANGED kv
                   ELSE frozen' = FrozenNone /\ kv' = Flushed(fz)
        /\ objs' = [o \in DOMAIN objs |-> IF o \in relink THEN [objs[o] EXCEPT !.par = newref] ELSE objs[o]]
        /\ capst' = [capst EXCEPT !.pending = rest]
  /\ UNCHANGED <<layers, lookup, descendants, readers, async>>

CapStep == CapStepF(capst.full)

(* background flush of the frozen buffer: one atomic batch (buffer.flush) *)
FlushDone ==
  /\ frozen.present /\ ~frozen.done
  /\ kv.pid + frozen.n = frozen.id                 \* "buffer layers cannot be applied" otherwise
  /\ kv' = Flushed(frozen)
  /\ frozen' = [frozen EXCEPT !.done = TRUE]
  /\ UNCHANGED <<tree, disk, buffer, capst, readers, async>>

(* end of cap: drop the stale base and everything that links into it, fix lookup/descendants *)
RECURSIVE Cascade(_, _)    \* roots removed by remove(oldbase): children are looked up by parent ROOT
Cascade(R, ls) ==
  LET more == {x \in DOMAIN ls : x \notin R /\ objs[ls[x]].par.root \in R}
  IN IF more = {} THEN R ELSE Cascade(R \cup more, ls)

Restrict(f, S) == [x \in S |-> f[x]]

CapEnd ==
  /\ ~CapIdle /\ capst.pending = <<>>
  /\ IF capst.pc = "commit"
     THEN /\ layers' = <<>>
          /\ descendants' = <<>>
          /\ lookup' = [k \in Key |-> <<>>]
          /\ UNCHANGED objs
     ELSE LET rep     == capst.replaced
              ls0     == Restrict(layers, (DOMAIN layers) \ {objs[rep].root})   \* overwritten by the new base
              removed == Cascade({capst.oldbase}, ls0)
              gone    == {ls0[x] : x \in removed \cap DOMAIN ls0} \cup {rep}
              ls1     == Restrict(ls0, (DOMAIN ls0) \ removed)
          IN /\ layers' = ls1
             /\ descendants' = Restrict(descendants, (DOMAIN descendants) \ removed)
             /\ lookup' = RemoveLayers(lookup, gone)
             /\ UNCHANGED objs
  /\ capst' = CapNone
  /\ UNCHANGED <<store, readers, async>>

(* -------------------------------- readers -------------------------------- *)
SetRd(rd, rec) == readers' = [readers EXCEPT ![rd] = rec]

(* Database.StateReader / NodeReader: tree.get(root) *)
OpenReader(rd, r) ==
  /\ CapIdle /\ readers[rd].pc = "idle"
  /\ r \in LiveRoots
  /\ SetRd(rd, [Idle EXCEPT !.pc = "open", !.root = r, !.entry = RefOfRoot(r)])
  /\ UNCHANGED <<tree, store, capst, async>>

(* is the reader's entry layer still part of the tree (and not being flattened right now)? *)
EntryLive(ref) == IF ref.k = "disk" THEN ref.ref = disk.gen /\ CapIdle
                  ELSE ref.ref \in LiveOids /\ ref.ref \notin capst.doomed

(* reader.AccountRLP / Storage, step 1: lookupAccount under tree.lock *)
ReadTip(rd, k) ==
  /\ CapIdle /\ readers[rd].pc = "open"
  /\ LET t == TipOf(k, readers[rd].root) IN
     IF t.k = "stale"
     THEN SetRd(rd, [readers[rd] EXCEPT !.pc = "done", !.key = k, !.res = ErrStale,
                                        !.spurious = EntryLive(readers[rd].entry)])
     ELSE SetRd(rd, [readers[rd] EXCEPT !.pc = "tip", !.key = k, !.tip = RefOfRoot(t.root)])
  /\ UNCHANGED <<tree, store, capst, async>>

(* step 2: l.account(hash); on errSnapshotStale fall back to r.layer.account(hash) *)
ReadVal(rd) ==
  /\ readers[rd].pc = "tip"
  /\ LET r  == readers[rd]
         v1 == Walk(r.tip, r.key)
         v  == IF v1 = ErrStale THEN Walk(r.entry, r.key) ELSE v1
     IN /\ v1 # Blocked /\ v # Blocked
        /\ SetRd(rd, [r EXCEPT !.pc = "done", !.res = v, !.spurious = (v = ErrStale /\ EntryLive(r.entry))])
  /\ UNCHANGED <<tree, store, capst, async>>

(* reader.Node: r.layer.node(owner, path) - no lookup index, walk from the entry layer *)
ReadNode(rd, k) ==
  /\ readers[rd].pc = "open"
  /\ LET r == readers[rd]
         v == Walk(r.entry, k)
     IN /\ v # Blocked
        /\ SetRd(rd, [r EXCEPT !.pc = "done", !.key = k, !.res = v, !.spurious = (v = ErrStale /\ EntryLive(r.entry))])
  /\ UNCHANGED <<tree, store, capst, async>>

(* the reader object is reused for the next read, or dropped *)
ReadAgain(rd) == readers[rd].pc = "done" /\ SetRd(rd, [readers[rd] EXCEPT !.pc = "open", !.res = 0, !.tip = NoRef])
                 /\ UNCHANGED <<tree, store, capst, async>>
CloseReader(rd) == readers[rd].pc \in {"done", "open"} /\ SetRd(rd, Idle) /\ UNCHANGED <<tree, store, capst, async>>

(* --------------------------------- Next ---------------------------------- *)
Next ==
  \/ \E p \in LiveRoots : \E d \in DiffsOn(p) : Update(p, d)
  \/ \E r \in DOMAIN layers : \E n \in 0..MaxObjs : \E f \in BOOLEAN : CapBegin(r, n, f)
  \/ CapStep \/ CapEnd \/ FlushDone
  \/ \E rd \in Readers :
        \/ \E r \in LiveRoots : OpenReader(rd, r)
        \/ \E k \in Key : ReadTip(rd, k) \/ ReadNode(rd, k)
        \/ ReadVal(rd) \/ ReadAgain(rd) \/ CloseReader(rd)

Spec == Init /\ [][Next]_vars

(* ------------------------------- properties ------------------------------- *)
(* fresh reads, as the harness performs them after every step *)
FastRead(r, k) == LET t == TipOf(k, r) IN
                  IF t.k = "stale" THEN ErrStale
                  ELSE LET v == Walk(RefOfRoot(t.root), k) IN IF v = ErrStale THEN Walk(RefOfRoot(r), k) ELSE v
SlowRead(r, k) == Walk(RefOfRoot(r), k)

(* C16: every available state reads as exactly that state, through both read paths *)
LiveReadable == CapIdle => \A r \in LiveRoots : \A k \in Key : FastRead(r, k) = r[k] /\ SlowRead(r, k) = r[k]

(* C16 (weaker, for the as-code configuration): no read at an available root yields another  *)
(* state's data                                                                               *)
NoWrongData == CapIdle => \A r \in LiveRoots : \A k \in Key :
                  FastRead(r, k) \in {r[k], ErrStale} /\ SlowRead(r, k) \in {r[k], ErrStale}

(* C16: a finished read returned the value of the requested state or the stale error, never *)
(* another state's data - whatever cap/flush steps ran between its two steps                 *)
ReadCorrect == \A rd \in Readers : readers[rd].pc = "done" =>
                  readers[rd].res \in {readers[rd].root[readers[rd].key], ErrStale}
(* ... and the stale error only if the reader's entry layer had left the tree by then *)
NoSpuriousStale == \A rd \in Readers : ~readers[rd].spurious

(* the lookup index lists exactly the live diff layers that changed the key, ancestors first *)
LookupSound ==
  CapIdle => \A k \in Key :
     /\ \A i \in 1..Len(lookup[k]) : lookup[k][i] \in DOMAIN layers /\ k \in DOMAIN objs[layers[lookup[k][i]]].diff
     /\ \A r \in DOMAIN layers : k \in DOMAIN objs[layers[r]].diff =>
           Cardinality({i \in 1..Len(lookup[k]) : lookup[k][i] = r}) = 1
     /\ \A i, j \in 1..Len(lookup[k]) : IsDesc(lookup[k][j], lookup[k][i]) => i < j

(* descendants = transitive closure of the parent relation on live layers *)
RECURSIVE RootChain(_)
RootChain(r) == IF r \in DOMAIN layers THEN LET p == objs[layers[r]].par.root IN {p} \cup RootChain(p) ELSE {}
DescendantsExact ==
  CapIdle => /\ \A a \in DOMAIN descendants : a \in LiveRoots /\ descendants[a] = {r \in DOMAIN layers : a \in RootChain(r)}
             /\ \A r \in DOMAIN layers : \A a \in RootChain(r) : a \in DOMAIN descendants

(* no dangling layers: every live diff layer descends (by roots) from the disk layer, ids count *)
Rooted == CapIdle => \A r \in DOMAIN layers :
             /\ disk.root \in RootChain(r) /\ r # disk.root
             /\ objs[layers[r]].id = IdOfRoot(objs[layers[r]].par.root) + 1
             /\ objs[layers[r]].root = r

(* the disk layer serves its own state; persistent id + buffered transitions = disk id *)
DiskContent == \A k \in Key : DiskRead(k) = disk.root[k]
DiskAligned == /\ kv.pid + (IF frozen.present /\ ~frozen.done THEN frozen.n ELSE 0) + buffer.n = disk.id
               /\ kv.flat = kv.root
               /\ frozen.present /\ frozen.done => kv.pid >= frozen.id

(* every object chain of a live layer ends in the current disk layer (needs RelinkSiblings) *)
RECURSIVE EndsAtDisk(_)
EndsAtDisk(ref) == IF ref.k = "disk" THEN ref.ref = disk.gen ELSE EndsAtDisk(objs[ref.ref].par)
ChainsSound == CapIdle => \A r \in DOMAIN layers : EndsAtDisk(DiffRef(layers[r]))

TypeOK == /\ disk.root \in World /\ (CapIdle => disk.root \notin DOMAIN layers)
          /\ \A r \in DOMAIN layers : layers[r] \in 1..Len(objs)
          /\ Len(objs) <= MaxObjs
=============================================================================
