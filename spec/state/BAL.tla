------------------------------ MODULE BAL ------------------------------
(* EIP-7928 block access lists over the reference account model (property C15).             *)
(*                                                                                          *)
(* ExpectedBAL(S) is the list a transaction must produce when it is finalised in state S:   *)
(* per accessed account the post-transaction balance / nonce / code if and only if they     *)
(* differ from the values at the start of the transaction, per accessed slot the            *)
(* post-transaction value if and only if it differs from the value at the start of the      *)
(* transaction (a write), otherwise the slot is a read.  The definition only compares two   *)
(* worlds (S.w0 and the world after Finalise) and the access sets, which are never reverted;*)
(* it knows nothing about journals, so effects of reverted frames and values that were      *)
(* changed and restored cannot appear as changes, while their accesses stay.                *)
EXTENDS StateDB

None == -1     \* "no change recorded"

ExpectedAccount(S, a) ==
  LET pre  == S.w0[a]
      post == Finalise(S).w[a]
      wr   == [k \in Slot |-> IF post.st[k] # pre.st[k] THEN post.st[k] ELSE None]
  IN  IF a \notin S.racc
      THEN [in |-> FALSE, bal |-> None, nonce |-> None, code |-> None,
            wr |-> [k \in Slot |-> None], rd |-> [k \in Slot |-> FALSE]]
      ELSE [in    |-> TRUE,
            bal   |-> IF post.bal   # pre.bal   THEN post.bal   ELSE None,
            nonce |-> IF post.nonce # pre.nonce THEN post.nonce ELSE None,
            code  |-> IF post.code  # pre.code  THEN post.code  ELSE None,
            wr    |-> wr,
            rd    |-> [k \in Slot |-> k \in S.rslot[a] /\ wr[k] = None]]
ExpectedBAL(S) == [a \in Addr |-> ExpectedAccount(S, a)]

(* what the definition relies on: every change happened to an accessed account / slot *)
ChangedImpliesAccessed(S) ==
  S.rec => \A a \in Addr :
     LET pre == S.w0[a]  post == Finalise(S).w[a] IN
     /\ (post # pre) => a \in S.racc
     /\ \A k \in Slot : post.st[k] # pre.st[k] => (k \in S.rslot[a] \/ ~post.ex)
(* under Amsterdam rules an account that disappears (or is reset by EIP-8264) had no storage at the *)
(* start of the transaction, so no storage change is lost with it                                   *)
RemovedHadNoStorage(S) ==
  (S.rec /\ S.r.amsterdam) => \A a \in Addr :
     LET pre == S.w0[a]  post == Finalise(S).w[a] IN
     (S.w[a].ex /\ post.st # S.w[a].st) => (pre.st = ZeroSt /\ post.st = ZeroSt)
BALInvariants(S) == ChangedImpliesAccessed(S) /\ RemovedHadNoStorage(S)
=============================================================================
