------------------------------ MODULE BAL ------------------------------
(* EIP-7928 block access lists over the reference account model (property C15).             *)
(*                                                                                          *)
(* ExpectedBAL(S) is the list a transaction must produce when it is finalised in state S:   *)
(* per accessed account the post-transaction balance / nonce / code if and only if they     *)
(* differ from the values at the start of the transaction, per accessed slot the            *)
(* post-transaction value if and only if it differs from the value at the start of the      *)
(* transaction (a write), otherwise the slot is a read.  The definition only compares two   *)
(* worlds (S.w0 and the world after Finalise) and the access sets, which are never reverted;*)
(* it knows nothing about journals, so effects of reverted frames and values that were      *)
(* changed and restored cannot appear as changes, while their accesses stay.                *)
(*                                                                                          *)
(* The block-level list is the merge of the per-transaction lists keyed by block access     *)
(* index; its encoding object must be sorted by address / slot / index, strictly            *)
(* increasing, duplicate-free, with reads and writes disjoint (ValidEncoding).              *)
EXTENDS StateDB

None == -1     \* "no change recorded"

(* ---------------------------------- per-transaction list ---------------------------------- *)
ExpectedAccount(S, a) ==
  LET pre  == S.w0[a]
      post == Finalise(S).w[a]
      wr   == [k \in Slot |-> IF post.st[k] # pre.st[k] THEN post.st[k] ELSE None]
  IN  IF a \notin S.racc
      THEN [in |-> FALSE, bal |-> None, nonce |-> None, code |-> None,
            wr |-> [k \in Slot |-> None], rd |-> [k \in Slot |-> FALSE]]
      ELSE [in    |-> TRUE,
            bal   |-> IF post.bal   # pre.bal   THEN post.bal   ELSE None,
            nonce |-> IF post.nonce # pre.nonce THEN post.nonce ELSE None,
            code  |-> IF post.code  # pre.code  THEN post.code  ELSE None,
            wr    |-> wr,
            rd    |-> [k \in Slot |-> k \in S.rslot[a] /\ wr[k] = None]]
ExpectedBAL(S) == [a \in Addr |-> ExpectedAccount(S, a)]

(* what the definition relies on: every change happened to an accessed account / slot *)
ChangedImpliesAccessed(S) ==
  S.rec => \A a \in Addr :
     LET pre == S.w0[a]  post == Finalise(S).w[a] IN
     /\ (post # pre) => a \in S.racc
     /\ \A k \in Slot : post.st[k] # pre.st[k] => k \in S.rslot[a]
(* under Amsterdam rules an account that disappears (or is reset by EIP-8264) had no storage at the *)
(* start of the transaction, so no storage change is lost with it                                   *)
RemovedHadNoStorage(S) ==
  (S.rec /\ S.r.amsterdam) => \A a \in Addr :
     LET pre == S.w0[a]  post == Finalise(S).w[a] IN
     (S.w[a].ex /\ post.st # S.w[a].st) => (pre.st = ZeroSt /\ post.st = ZeroSt)
(* EIP-7523: states under Amsterdam rules hold no empty accounts (the initial worlds of the BAL configurations  *)
(* have none); then an account can only disappear together with a recorded balance / nonce / code change, and   *)
(* the list determines the post-state (the harness applies it to the parent state and compares roots)          *)
NoEmptyAccounts(w) == \A a \in Addr : w[a].ex => ~IsEmpty(w[a])
NoEmptyBetweenTxs(S) == (S.r.amsterdam /\ ~S.intx) => NoEmptyAccounts(S.w)
BALInvariants(S) == ChangedImpliesAccessed(S) /\ RemovedHadNoStorage(S)

(* ---------------------------------- block-level list ---------------------------------- *)
(* per account: sets of <<block access index, post value>> per field and per slot, set of read slots *)
EmptyBlock == [a \in Addr |-> [in |-> FALSE, bal |-> {}, nonce |-> {}, code |-> {},
                               wr |-> [k \in Slot |-> {}], rd |-> {}]]
Ch(idx, v) == IF v = None THEN {} ELSE {<<idx, v>>}
(* ConstructionBlockAccessList.Merge of the list E of the transaction with block access index idx *)
MergeTx(B, E, idx) ==
  [a \in Addr |->
     LET b == B[a]
         e == E[a]
         wr == [k \in Slot |-> b.wr[k] \cup Ch(idx, e.wr[k])]
     IN  [in    |-> b.in \/ e.in,
          bal   |-> b.bal \cup Ch(idx, e.bal),
          nonce |-> b.nonce \cup Ch(idx, e.nonce),
          code  |-> b.code \cup Ch(idx, e.code),
          wr    |-> wr,
          rd    |-> {k \in b.rd \cup {x \in Slot : e.rd[x]} : wr[k] = {}}]]

(* the encoding object of the real list, projected: per account sequences of <<index, value>> *)
SeqSet(L) == {L[i] : i \in 1..Len(L)}
StrictlySorted(L) == \A i, j \in 1..Len(L) : i < j => L[i][1] < L[j][1]
ValidChanges(L, maxIdx) == StrictlySorted(L) /\ \A i \in 1..Len(L) : L[i][1] >= 0 /\ L[i][1] <= maxIdx
EncodingMatches(B, P, maxIdx) ==
  \A a \in Addr :
     /\ P[a].in = B[a].in
     /\ SeqSet(P[a].bal) = B[a].bal     /\ ValidChanges(P[a].bal, maxIdx)
     /\ SeqSet(P[a].nonce) = B[a].nonce /\ ValidChanges(P[a].nonce, maxIdx)
     /\ SeqSet(P[a].code) = B[a].code   /\ ValidChanges(P[a].code, maxIdx)
     /\ \A k \in Slot : SeqSet(P[a].wr[k]) = B[a].wr[k] /\ ValidChanges(P[a].wr[k], maxIdx)
     /\ \A k \in Slot : P[a].rd[k] = (k \in B[a].rd)
     /\ \A k \in Slot : ~(P[a].rd[k] /\ P[a].wr[k] # << >>)

(* one value per index: what a lookup at a block access index must return *)
Functional(B) == \A a \in Addr :
     /\ \A x, y \in B[a].bal : x[1] = y[1] => x = y
     /\ \A x, y \in B[a].nonce : x[1] = y[1] => x = y
     /\ \A x, y \in B[a].code : x[1] = y[1] => x = y
     /\ \A k \in Slot : \A x, y \in B[a].wr[k] : x[1] = y[1] => x = y
=============================================================================
