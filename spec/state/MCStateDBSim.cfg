SPECIFICATION MCSpec
CONSTANTS NA = 2
          NS = 2
          Ripemd = 2
          MaxVal = 2
          MaxBal = 4
          MaxNonce = 3
          MaxCode = 2
          MaxSnap = 3
          MaxTx = 4
          MaxLogs = 3
          MaxRefund = 2
          Ops = {"BeginTx", "BeginTxL", "AddBalance", "SubBalance", "SetBalance", "SetNonce", "SetCode", "SetState", "SelfDestruct", "CreateAccount", "EvmCreate", "Snapshot", "Revert", "Finalise", "IntermediateRoot", "SetTransient", "AddAddress", "AddSlot", "AddRefund", "SubRefund", "AddLog"}
          RuleNames = {"pre158", "eip158", "cancun", "amsterdam"}
          BaseKinds = {0, 1, 2, 3, 4}
          KeepHist = TRUE
          HistLen = 30
          TxEvery = 6
INVARIANTS InvType InvFeasible
CONSTRAINT Emit
CHECK_DEADLOCK FALSE
