------------------------------ MODULE PathDBCrash ------------------------------
(* Crash consistency of the path database (property C20), on top of PathDBHist.tla.        *)
(*                                                                                         *)
(* Durable state: the key-value store (batch-atomic, durable when written): persisted      *)
(* state + persistent id, root->id table, layer journal; and the state-history freezer,     *)
(* whose appended items are only guaranteed to survive once synced (syn = number of items  *)
(* known to be fsynced).  Volatile state (lost by a crash): diff layers, disk layer label,  *)
(* write buffer.                                                                            *)
(*                                                                                         *)
(* Every operation of PathDBHist is a sequence of durable writes in the order of the code   *)
(* (disklayer.go commit/revert, buffer.go flush, database.go Recover, journal.go Journal):  *)
(*   flatten one layer : append history -> [truncate tail] -> [id of base root] -> id of    *)
(*                       new root -> if flushing: sync freezer -> state batch with the new  *)
(*                       persistent id                                                      *)
(*   rollback          : per reverted transition not held in the buffer: state batch with   *)
(*                       the decremented persistent id; finally truncate the freezer head   *)
(*   journal           : sync freezer -> store journal                                      *)
(* The process may stop after any prefix of these writes; unsynced freezer items may be     *)
(* lost (any suffix above syn).  Reopen is written after loadLayers/loadJournal and         *)
(* repairHistory.                                                                           *)
EXTENDS PathDBHist, SequencesExt

VARIABLES syn,      \* number of freezer items known to be synced to disk
          pt,       \* [tail, recs]: freezer tail known to be synced and the histories pruned since
                    \* (tail truncation only rewrites the table metadata without fsync: a crash
                    \* may bring the pruned histories back)
          dead,     \* the database refused to open (log.Crit) - terminal
          kf,       \* ghost: a journal describing layers of an abandoned branch was restored
                    \* (candidate defect C20-KF1, see NOTES.md) - terminal
          seen      \* ghost: [root -> parent root] of every transition ever executed

cvars == <<vars, syn, pt, dead, kf, seen>>

(* ------------------------------ durable states ------------------------------ *)
Dur(s, j, y, o) == [kv |-> s.kv, ids |-> s.ids, hist |-> s.hist, jr |-> j, syn |-> y, pt |-> o]
SyncedPt(h) == [tail |-> h.tail, recs |-> <<>>]
(* histories dropped by moving the tail from h0 to h1 are remembered until the next sync *)
Pruned(o, h0, h1) == [o EXCEPT !.recs = [i \in (DOMAIN @) \cup {x \in DOMAIN h0.recs : x <= h1.tail} |->
                                          IF i \in DOMAIN h0.recs THEN h0.recs[i] ELSE @[i]]]

(* durable states passed through while flattening the bottom layer of s (after each write) *)
CommitDur(s, p, j, y, o) ==
  LET id == p.fin.disk.id
      o1 == IF p.hist1 # p.hist0 THEN Pruned(o, p.hist0, p.hist1) ELSE o
      a  == <<Dur([s EXCEPT !.hist = p.hist0], j, y, o)>>
      b  == IF p.hist1 # p.hist0 THEN <<Dur([s EXCEPT !.hist = p.hist1], j, y, o1)>> ELSE <<>>
      c  == IF p.ids0 # s.ids THEN <<Dur([s EXCEPT !.hist = p.hist1, !.ids = p.ids0], j, y, o1)>> ELSE <<>>
      d  == <<Dur([s EXCEPT !.hist = p.hist1, !.ids = p.ids1], j, y, o1)>>
      e  == IF p.flush THEN <<Dur([s EXCEPT !.hist = p.hist1, !.ids = p.ids1], j, id, SyncedPt(p.hist1)),
                              Dur(p.fin, j, id, SyncedPt(p.hist1))>> ELSE <<>>
  IN  a \o b \o c \o d \o e

(* With asynchronous flushing the flush of layer k (sync freezer, state batch) runs in the     *)
(* background while the next layer's history and id entries are already written (the next      *)
(* commit only waits for it before freezing its own buffer): the durable states of layer k+1   *)
(* before its flush may therefore also occur with the key-value state of before batch k       *)
(* (lagged states).  They are listed ahead of the sequential ones (order is irrelevant for a   *)
(* crash; the last element stays the final state).                                             *)
RECURSIVE FlattenDur(_, _, _, _, _, _, _, _, _)
FlattenDur(s, c, fs, force, sts, prevPid, j, y, o) ==
  IF fs = <<>> THEN <<>>
  ELSE LET p   == CommitParts(s, c, Head(fs), force, IF Head(sts) THEN prevPid ELSE s.kv.pid)
           q   == CommitDur(s, p, j, y, o)
           y1  == q[Len(q)].syn
           o1  == q[Len(q)].pt
           lag == IF c.async /\ p.flush /\ Len(fs) > 1
                  THEN LET p2 == CommitParts(p.fin, c, fs[2], force, IF sts[2] THEN s.kv.pid ELSE p.fin.kv.pid)
                           q2 == CommitDur(p.fin, p2, j, y1, o1)
                       IN  SetToSeq({[q2[n] EXCEPT !.kv = s.kv, !.syn = v, !.pt = o] :
                                       n \in {m \in 1..Len(q2) : q2[m].kv = p.fin.kv /\ q2[m].syn = y1},
                                       v \in {y, p.fin.disk.id}})
                  ELSE <<>>
       IN  lag \o q \o FlattenDur(p.fin, c, Tail(fs), force, Tail(sts), s.kv.pid, j, y1, o1)

RECURSIVE RevertDur(_, _, _, _, _)
RevertDur(s, r, j, y, o) ==
  IF s.disk.root = r \/ ~CanRevert(s) THEN <<>>
  ELSE LET n == RevertOne(s) IN
       (IF s.bufN > 0 THEN <<>> ELSE <<Dur(n, j, y, o)>>) \o RevertDur(n, r, j, y, o)

MinOf(a, b) == IF a < b THEN a ELSE b

(* operation descriptors: [t |-> "U", j, d, fs] [t |-> "C", i, sts] [t |-> "R", w] [t |-> "J", i] *)
OpDur(op) ==
  CASE op.t = "U" ->
         LET p  == IF op.j = 0 THEN disk.root ELSE chain[op.j].root
             r  == Over(p, op.d)
             c1 == Append(SubSeq(chain, 1, op.j), [root |-> r, diff |-> op.d])
         IN  IF r = p \/ r = disk.root \/ r \in ChainRoots(chain) THEN <<>>
             ELSE FlattenDur([Cur EXCEPT !.chain = c1], cfg, op.fs, FALSE, Falses(Len(op.fs)), kv.pid, jr, syn, pt)
    [] op.t = "C" ->
         IF op.i = 0 THEN <<>>
         ELSE FlattenDur([Cur EXCEPT !.chain = SubSeq(chain, 1, op.i)], cfg, Falses(op.i), TRUE, op.sts, kv.pid, jr, syn, pt)
    [] op.t = "R" ->
         IF ~Recoverable(op.w) THEN <<>>
         ELSE LET out == RevertLoop(Cur, op.w)
                  j1  == IF jr.has THEN [jr EXCEPT !.rolled = TRUE] ELSE jr
                  tr  == [out.st EXCEPT !.hist = TruncHead(@, out.st.disk.id)]
                  y1  == MinOf(syn, out.st.disk.id)
              IN  RevertDur(Cur, op.w, jr, syn, pt) \o
                  (IF out.ok
                   THEN <<Dur(out.st, NoJournal, syn, pt), Dur(tr, NoJournal, y1, pt),    \* journal invalidated first (fix of C20-F1)
                          Dur(tr, j1, y1, pt)>>
                   ELSE <<>>)
    [] op.t = "J" ->
         LET j1 == [has |-> TRUE, base |-> kv.world, disk |-> disk, buf |-> buf, chain |-> SubSeq(chain, 1, op.i), rolled |-> FALSE]
         IN  <<Dur(Cur, jr, hist.head, SyncedPt(hist)), Dur(Cur, j1, hist.head, SyncedPt(hist))>>

(* what survives a crash in durable state D: any prefix of the freezer not below syn, and any *)
(* tail between the synced one and the current one (pruned histories come back)             *)
Cuts(D) == (IF D.syn > D.hist.tail THEN D.syn ELSE D.hist.tail)..D.hist.head
Tails(D) == D.pt.tail..D.hist.tail
CutTo(D, h, t) ==
  LET all == [i \in (DOMAIN D.hist.recs) \cup (DOMAIN D.pt.recs) |->
                IF i \in DOMAIN D.hist.recs THEN D.hist.recs[i] ELSE D.pt.recs[i]]
  IN  [D EXCEPT !.hist = [tail |-> t, head |-> h, recs |-> Restrict(all, {i \in DOMAIN all : i > t /\ i <= h})]]

(* canonical state at id i as far as the durable state knows *)
CanonIn(D, i) == IF (i + 1) \in DOMAIN D.hist.recs THEN D.hist.recs[i + 1].parent
                 ELSE IF i \in DOMAIN D.hist.recs THEN D.hist.recs[i].root
                 ELSE IF i = D.kv.pid THEN D.kv.world
                 ELSE <<>>

(* pathdb.New on durable state D: loadLayers (journal accepted iff written over the         *)
(* persisted state and persistent id <= its disk id), then repairHistory                   *)
ReopenFrom(D) ==
  LET m   == D.jr.has /\ D.jr.base = D.kv.world /\ D.kv.pid <= D.jr.disk.id
      dl  == IF m THEN D.jr.disk ELSE [root |-> D.kv.world, id |-> D.kv.pid]
      bad == dl.id # 0 /\ (dl.id > D.hist.head \/ dl.id < D.hist.tail)
      h1  == IF dl.id = 0 THEN [tail |-> 0, head |-> 0, recs |-> <<>>] ELSE TruncHead(D.hist, dl.id)
  IN  [dead  |-> bad,
       stale |-> m /\ CanonIn(D, D.jr.disk.id) # D.jr.disk.root,
       st    |-> [chain |-> IF m THEN D.jr.chain ELSE <<>>,
                  disk  |-> dl,
                  buf   |-> IF m THEN D.jr.buf ELSE NoneLike(D.kv.world),
                  bufN  |-> dl.id - D.kv.pid,
                  kv    |-> D.kv, ids |-> D.ids,
                  hist  |-> IF bad THEN D.hist ELSE h1],
       jr    |-> D.jr]

(* --------------------------------- actions --------------------------------- *)
CInit == Init /\ syn = 0 /\ pt = [tail |-> 0, recs |-> <<>>] /\ dead = FALSE /\ kf = FALSE /\ seen = <<>>

Alive == ~dead /\ ~kf

Ops == [t : {"U"}, j : 0..Len(chain), d : UNION {DiffsOn(IF j = 0 THEN disk.root ELSE chain[j].root) : j \in 0..Len(chain)}, fs : Flags(0) \cup Flags(1)]
       \cup [t : {"C"}, i : 0..Len(chain), sts : UNION {Stales(i) : i \in 0..Len(chain)}]
       \cup [t : {"R"}, w : Worlds]
       \cup [t : {"J"}, i : 0..Len(chain)]

(* the operation completes *)
Do(op) ==
  /\ Alive
  /\ CASE op.t = "U" -> UpdateTo(op.j, op.d, op.fs)
       [] op.t = "C" -> CommitAt(op.i, op.sts)
       [] op.t = "R" -> RecoverTo(op.w)
       [] op.t = "J" -> Reopen(op.i)
  /\ LET q == OpDur(op) IN
       /\ syn' = IF q = <<>> THEN syn ELSE Last(q).syn
       /\ pt'  = IF q = <<>> THEN pt ELSE Last(q).pt
  /\ UNCHANGED <<dead, kf>>
  /\ seen' = IF op.t = "U"
             THEN LET p == IF op.j = 0 THEN disk.root ELSE chain[op.j].root IN (Over(p, op.d) :> p) @@ seen
             ELSE seen

(* the process stops after k durable writes of op (k = 0: while idle); h freezer items survive *)
CrashAt(op, k, h, t) ==
  LET q == OpDur(op)
      D == IF k = 0 THEN Dur(Cur, jr, syn, pt) ELSE q[k]
      R == ReopenFrom(CutTo(D, h, t))
  IN  /\ Alive
      /\ k \in 0..Len(q)
      /\ h \in Cuts(D) /\ t \in Tails(D)
      /\ Set(R.st) /\ jr' = R.jr
      /\ syn' = R.st.hist.head
      /\ pt' = SyncedPt(R.st.hist)
      /\ dead' = R.dead
      /\ kf' = R.stale
      /\ zombies' = {}
      /\ UNCHANGED <<cfg, seen>>
      /\ res' = [op |-> "Crash"]

WellFormed(op) ==
  CASE op.t = "U" -> /\ op.d \in DiffsOn(IF op.j = 0 THEN disk.root ELSE chain[op.j].root)
                     \* state roots are unique: the same state is only ever reached again by
                     \* re-executing the same transition (as the code assumes: "impossible that
                     \* in the same chain blocks are not adjacent but have the same root")
                     /\ LET p == IF op.j = 0 THEN disk.root ELSE chain[op.j].root
                            r == Over(p, op.d)
                        IN  r # p /\ r # [k \in Key |-> 0] /\ (r \in DOMAIN seen => seen[r] = p)
                     /\ Len(op.fs) = (LET p == IF op.j = 0 THEN disk.root ELSE chain[op.j].root
                                          r == Over(p, op.d)
                                      IN IF r = p \/ r = disk.root \/ r \in ChainRoots(chain) THEN 0
                                         ELSE IF op.j + 1 > cfg.maxDiff THEN 1 ELSE 0)
    [] op.t = "C" -> op.sts \in Stales(op.i)
    [] OTHER -> TRUE

CNext == \E op \in Ops :
           /\ WellFormed(op)
           /\ \/ Do(op)
              \/ \E k \in 0..Len(OpDur(op)) : \E h \in 0..(hist.head + Len(chain) + 1) : \E t \in 0..(hist.head + Len(chain) + 1) : CrashAt(op, k, h, t)

CSpec == CInit /\ [][CNext]_cvars

CStateView == <<StateView, syn, pt, dead, kf, seen>>

(* ------------------------------- properties ------------------------------- *)
(* C20: the database always reopens, except in the pending known-finding situation *)
Reopens == dead => kf

(* C20: after any crash the invariants of PathDBHist hold again: the disk layer reads as the *)
(* state it is labelled with (trie complete and equal to flat state), the freezer ends at   *)
(* the disk layer and links up with it, recoverable roots are canonical                      *)
Consistent == Alive => /\ ViewIsRoot /\ Aligned /\ HistChain /\ PersistedIsCanon /\ RecoverableSound

(* the persisted state never runs ahead of the synced histories (no gap after a crash) *)
SyncedCoversPersisted == Alive => kv.pid <= syn /\ syn <= hist.head
=============================================================================
