------------------------------- MODULE HashDB -------------------------------
(* Hash-scheme trie node database (triedb/hashdb/database.go): the reference-counted      *)
(* dirty cache in front of an append-only disk store.  Property C21.                       *)
(*                                                                                         *)
(* Nodes are opaque hashes 1..NumNodes forming a DAG: Kids[n] is the sequence of child     *)
(* hashes found inside the node blob (a hash that occurs twice is listed twice, as        *)
(* trie.ForGatherChildren reports it twice), ExtOf[n] the storage roots named by account   *)
(* leaves stored in n.  One action per exported method; the bodies follow the code         *)
(* (insert / reference / dereference / Cap / commit+cleaner), including its deliberate     *)
(* deviations from ideal reference counting:                                               *)
(*   - insert skips a node that is already cached and counts only children that are       *)
(*     cached at that moment;                                                              *)
(*   - reference ignores a child that is not cached, and an external edge that exists;     *)
(*   - dereference never lets a counter go below zero;                                     *)
(*   - Cap/Commit drop cache entries without touching the counters of their children.      *)
EXTENDS Integers, Sequences, FiniteSets, TLC

CONSTANTS
  NumNodes,   \* node (hash) ids are 1..NumNodes; 0 stands for the empty root / the meta root
  Kids,       \* [Nodes -> Seq(Nodes)]
  ExtOf,      \* [Nodes -> SUBSET Nodes]
  Size,       \* [Nodes -> Nat]   HashLength + len(blob): contribution to dirtiesSize
  Meta,       \* cachedNodeSize: per-entry metadata charge used by Cap and Size
  HashLen,    \* common.HashLength: charge per external child
  Versions,   \* Seq of [root, parent, sets, acct, leaves]: the states built by the client
              \*   root    node id of the state root (0: empty state)
              \*   parent  index of the parent version (0: built on the empty state)
              \*   sets    Seq(Seq([id, path])): dirty storage-trie node sets of the update
              \*   acct    Seq([id, path]): dirty account-trie node set of the update
              \*   leaves  Seq(<<storageRoot, leafParentNode>>): account leaves of the update
  MaxRef      \* bound on outstanding meta-root references per root (model checking only)

Nodes == 1..NumNodes
VIdx  == 1..Len(Versions)

VARIABLES
  dirties,    \* [cached nodes -> [parents : Nat, ext : SUBSET Nodes]]
  flush,      \* Seq(Nodes): the flush-list, oldest first
  disk,       \* SUBSET Nodes: nodes in the persistent store
  dsize,      \* db.dirtiesSize
  csize,      \* db.childrenSize
  live,       \* ghost: [Nodes -> Nat] outstanding Reference(root, {}) calls of the client
  fresh,      \* ghost: roots delivered by an Update that the client has not referenced since
  done        \* ghost: versions whose Update has been executed

vars == <<dirties, flush, disk, dsize, csize, live, fresh, done>>

(* ------------------------------ helpers ------------------------------ *)
RangeOf(s) == {s[i] : i \in 1..Len(s)}
Count(s, x) == Cardinality({i \in 1..Len(s) : s[i] = x})
RestrictTo(f, S) == [x \in S |-> f[x]]
RemoveFrom(s, x) == SelectSeq(s, LAMBDA y : y # x)

(* sum of f[x] over x in S, for a function f *)
RECURSIVE SumOver(_, _)
SumOver(S, f) == IF S = {} THEN 0 ELSE LET x == CHOOSE y \in S : TRUE IN f[x] + SumOver(S \ {x}, f)

ChildSet(n) == RangeOf(Kids[n]) \cup ExtOf[n]

RECURSIVE ReachFrom(_, _)
ReachFrom(frontier, seen) ==
  IF frontier = {} THEN seen
  ELSE LET nxt == UNION {ChildSet(n) : n \in frontier} \ seen IN ReachFrom(nxt, seen \cup nxt)
ReachTable == [n \in Nodes |-> ReachFrom({n}, {n})]
Reach(n) == IF n = 0 THEN {} ELSE ReachTable[n]

Cached == DOMAIN dirties
Avail == Cached \cup disk
Readable(r) == Reach(r) \subseteq Avail

(* sort.Sort(sort.Reverse(sort.StringSlice(paths))): byte-wise descending, a proper prefix  *)
(* is smaller, so children are visited before their parents.                                *)
RECURSIVE LexLess(_, _)
LexLess(a, b) == IF Len(b) = 0 THEN FALSE
                 ELSE IF Len(a) = 0 THEN TRUE
                 ELSE IF a[1] # b[1] THEN a[1] < b[1]
                 ELSE LexLess(Tail(a), Tail(b))
RECURSIVE OrderDesc(_)
OrderDesc(S) ==
  IF S = {} THEN <<>>
  ELSE LET m == CHOOSE x \in S : \A y \in S \ {x} : LexLess(y.path, x.path)
       IN <<m.id>> \o OrderDesc(S \ {m})
SetOrder(set) == OrderDesc(RangeOf(set))

(* The mutable part of the database as one record, so that the helper procedures of the   *)
(* code can be written as functions.                                                        *)
DB == [d |-> dirties, f |-> flush, ds |-> dsize, cs |-> csize]

(* db.insert *)
InsertOne(s, n) ==
  IF n \in DOMAIN s.d THEN s
  ELSE LET bumped == [m \in DOMAIN s.d |-> [s.d[m] EXCEPT !.parents = @ + Count(Kids[n], m)]]
       IN [s EXCEPT !.d = [m \in DOMAIN s.d \cup {n} |-> IF m = n THEN [parents |-> 0, ext |-> {}] ELSE bumped[m]],
                    !.f = Append(s.f, n),
                    !.ds = s.ds + Size[n]]
RECURSIVE InsertAll(_, _)
InsertAll(s, seq) == IF Len(seq) = 0 THEN s ELSE InsertAll(InsertOne(s, Head(seq)), Tail(seq))

(* db.reference; parent 0 is the meta root.  The code indexes db.dirties[parent] without a *)
(* presence check: a parent that is not cached would crash it, which RefDefined excludes.   *)
RefDefined(s, c, p) == c \in DOMAIN s.d /\ p # 0 => p \in DOMAIN s.d
RefOne(s, c, p) ==
  IF c \notin DOMAIN s.d THEN s
  ELSE IF p = 0 THEN [s EXCEPT !.d[c].parents = @ + 1]
  ELSE IF c \in s.d[p].ext THEN s
  ELSE [s EXCEPT !.d[c].parents = @ + 1, !.d[p].ext = @ \cup {c}, !.cs = @ + HashLen]
RECURSIVE RefAll(_, _)
RefAll(s, ls) == IF Len(ls) = 0 THEN s ELSE RefAll(RefOne(s, Head(ls)[1], Head(ls)[2]), Tail(ls))
RECURSIVE RefAllDefined(_, _)
RefAllDefined(s, ls) == IF Len(ls) = 0 THEN TRUE
                        ELSE RefDefined(s, Head(ls)[1], Head(ls)[2]) /\ RefAllDefined(RefOne(s, Head(ls)[1], Head(ls)[2]), Tail(ls))

(* db.dereference: cascading removal.  forChildren visits the external children first and  *)
(* then the hashes inside the blob.                                                         *)
RECURSIVE AnySeq(_)
AnySeq(S) == IF S = {} THEN <<>> ELSE LET x == CHOOSE y \in S : TRUE IN <<x>> \o AnySeq(S \ {x})
RECURSIVE Deref(_, _)
RECURSIVE DerefSeq(_, _)
Deref(s, h) ==
  IF h \notin DOMAIN s.d THEN s
  ELSE LET p0 == s.d[h].parents
           p1 == IF p0 > 0 THEN p0 - 1 ELSE 0
       IN IF p1 > 0 THEN [s EXCEPT !.d[h].parents = p1]
          ELSE LET unlinked == [s EXCEPT !.d[h].parents = 0, !.f = RemoveFrom(s.f, h)]
                   after    == DerefSeq(unlinked, AnySeq(s.d[h].ext) \o Kids[h])
               IN [after EXCEPT !.d = RestrictTo(after.d, DOMAIN after.d \ {h}),
                                !.ds = after.ds - Size[h],
                                !.cs = after.cs - HashLen * Cardinality(s.d[h].ext)]
DerefSeq(s, seq) == IF Len(seq) = 0 THEN s ELSE DerefSeq(Deref(s, Head(seq)), Tail(seq))

(* charge of one flush-list entry in Cap's running total *)
EntryCharge(s, n) == Size[n] + Meta + HashLen * Cardinality(s.d[n].ext)
TotalSize(s) == s.ds + Cardinality(DOMAIN s.d) * Meta + s.cs
RECURSIVE PrefixCharge(_, _)
PrefixCharge(s, k) == IF k = 0 THEN 0 ELSE PrefixCharge(s, k - 1) + EntryCharge(s, s.f[k])

(* number of flush-list entries Cap(limit) writes out: it keeps flushing while the running *)
(* total is strictly above the limit                                                        *)
RECURSIVE CapCount(_, _, _)
CapCount(s, limit, k) ==
  IF k < Len(s.f) /\ TotalSize(s) - PrefixCharge(s, k) > limit THEN CapCount(s, limit, k + 1) ELSE k

DropCached(s, gone) ==
  [s EXCEPT !.d = RestrictTo(s.d, DOMAIN s.d \ gone),
            !.f = SelectSeq(s.f, LAMBDA y : y \notin gone),
            !.ds = s.ds - SumOver(gone, Size),
            !.cs = s.cs - HashLen * SumOver(gone, [n \in gone |-> Cardinality(s.d[n].ext)])]

(* db.commit: depth-first through cached nodes only; a node that is not cached ends the    *)
(* descent (it was persisted before)                                                        *)
RECURSIVE CommitFrom(_, _, _)
CommitFrom(s, frontier, seen) ==
  IF frontier = {} THEN seen
  ELSE LET nxt == (UNION {s.d[n].ext \cup RangeOf(Kids[n]) : n \in frontier} \cap DOMAIN s.d) \ seen
       IN CommitFrom(s, nxt, seen \cup nxt)
CommitSet(s, r) == IF r \in DOMAIN s.d THEN CommitFrom(s, {r}, {r}) ELSE {}

Install(s) == /\ dirties' = s.d /\ flush' = s.f /\ dsize' = s.ds /\ csize' = s.cs

(* ------------------------------ actions ------------------------------ *)
Init ==
  /\ dirties = [n \in {} |-> [parents |-> 0, ext |-> {}]]
  /\ flush = <<>>
  /\ disk = {}
  /\ dsize = 0 /\ csize = 0
  /\ live = [n \in Nodes |-> 0]
  /\ fresh = {}
  /\ done = {}

Roots == {Versions[v].root : v \in VIdx} \ {0}
KnownRoots == {Versions[v].root : v \in done} \ {0}

(* Permutations of 1..n as sequences *)
Perms(n) == {p \in [1..n -> 1..n] : \A i, j \in 1..n : i # j => p[i] # p[j]}

RECURSIVE Concat(_, _, _)
Concat(sets, perm, i) == IF i > Len(perm) THEN <<>> ELSE SetOrder(sets[perm[i]]) \o Concat(sets, perm, i + 1)

(* Database.Update(root, parent, block, nodes): storage sets in Go map order (any), then   *)
(* the account set; every set bottom-up; afterwards the account leaves link storage roots.  *)
(* The client can build a state only on a parent it can read.                               *)
UpdateOrder(v, perm) == Concat(Versions[v].sets, perm, 1) \o SetOrder(Versions[v].acct)
Update(v, perm) ==
  LET ver == Versions[v]
      s1  == InsertAll(DB, UpdateOrder(v, perm))
      s2  == RefAll(s1, ver.leaves)
  IN /\ ver.parent = 0 \/ (ver.parent \in done /\ Readable(Versions[ver.parent].root))
     /\ v \in done => ~Readable(ver.root)      \* a state is rebuilt only when it has been lost
     /\ Assert(RefAllDefined(s1, ver.leaves), "reference() with a parent that is not cached")
     /\ Install(s2)
     /\ done' = done \cup {v}
     /\ fresh' = IF ver.root # 0 /\ live[ver.root] = 0 THEN fresh \cup {ver.root} ELSE fresh
     /\ UNCHANGED <<disk, live>>

(* Database.Reference(root, {}) by the client for a state it holds on to *)
Reference(r) ==
  /\ r \in KnownRoots /\ Readable(r) /\ live[r] < MaxRef
  /\ Install(RefOne(DB, r, 0))
  /\ live' = [live EXCEPT ![r] = @ + 1]
  /\ fresh' = fresh \ {r}
  /\ UNCHANGED <<disk, done>>

(* Database.Dereference(root): the client releases one of its references *)
Dereference(r) ==
  /\ live[r] > 0
  /\ Install(Deref(DB, r))
  /\ live' = [live EXCEPT ![r] = @ - 1]
  /\ UNCHANGED <<disk, fresh, done>>

(* Database.Cap(limit) *)
Cap(limit) ==
  LET k == CapCount(DB, limit, 0)
      gone == {flush[i] : i \in 1..k}
  IN /\ Install(DropCached(DB, gone))
     /\ disk' = disk \cup gone
     /\ UNCHANGED <<live, fresh, done>>

(* the limits at which Cap flushes exactly k entries (k = Len(flush): limit 0) *)
CapLimit(k) == TotalSize(DB) - PrefixCharge(DB, k)

(* Database.Commit(root) *)
Commit(r) ==
  LET gone == CommitSet(DB, r)
  IN /\ r \in KnownRoots
     /\ Install(DropCached(DB, gone))
     /\ disk' = disk \cup gone
     /\ UNCHANGED <<live, fresh, done>>

Next ==
  \/ \E v \in VIdx : \E perm \in Perms(Len(Versions[v].sets)) : Update(v, perm)
  \/ \E r \in Roots : Reference(r) \/ Dereference(r) \/ Commit(r)
  \/ \E k \in 1..Len(flush) : Cap(CapLimit(k))

Spec == Init /\ [][Next]_vars

(* ------------------------------ properties ------------------------------ *)
(* Every node reachable from a root the client still references is readable. *)
LiveReadable == \A r \in Roots : live[r] > 0 => Readable(r)

(* the flush-list holds exactly the cached nodes, each once *)
FlushIsCache == /\ RangeOf(flush) = Cached
                /\ Len(flush) = Cardinality(Cached)

(* reported sizes equal the cached contents *)
SizeExact == /\ dsize = SumOver(Cached, Size)
             /\ csize = HashLen * SumOver(Cached, [n \in Cached |-> Cardinality(dirties[n].ext)])

(* recorded external children are children of the node, and are counted at most once *)
ExtSound == \A n \in Cached : dirties[n].ext \subseteq ExtOf[n]

(* what makes dropping counters harmless: persisted nodes have persisted descendants, and  *)
(* cached nodes have available descendants                                                  *)
DiskClosed == \A n \in disk : ChildSet(n) \subseteq disk
CacheClosed == \A n \in Cached : ChildSet(n) \subseteq Avail

(* a counter never exceeds the number of cached referrers plus the client's references *)
CachedReferrers(n) == SumOver(Cached, [p \in Cached |-> Count(Kids[p], n) + (IF n \in dirties[p].ext THEN 1 ELSE 0)])
ParentsBounded == \A n \in Cached : dirties[n].parents <= CachedReferrers(n) + live[n]

(* Nothing reachable only from released roots stays cached: every cached node is reachable  *)
(* from a root that the client references, or has had inserted and not yet referenced.       *)
Pinned == {r \in Roots : live[r] > 0} \cup fresh
NoGarbage == Cached \subseteq UNION {Reach(r) : r \in Pinned}

(* What the code does guarantee for the second clause: a cached node that hangs below no   *)
(* pinned root has been persisted before (it was re-delivered after a partial flush), so the *)
(* only cost is memory until the next Cap.                                                   *)
NoGarbageUnflushed == (Cached \ disk) \subseteq UNION {Reach(r) : r \in Pinned}

(* weaker form that survives partial flushes: after the client has released everything and *)
(* nothing is fresh, nothing is cached that was never persisted                              *)
NoGarbageWhenIdle == ((\A r \in Roots : live[r] = 0) /\ fresh = {}) => Cached \subseteq disk
=============================================================================
