---------------------------- MODULE MCHistIndex ----------------------------
(* Model-checking wrapper of HistIndex: bounded inputs, the read/iterate/filter/round-trip *)
(* properties quantified over all queries, and action labels so that every transition of  *)
(* the reachable graph can be replayed on the real indexWriter/indexDeleter/indexReader.  *)
EXTENDS HistIndex, Json

CONSTANTS MaxBlk,     \* exploration bound on block ids (pruning + appending lets them grow forever)
          Ids,        \* state ids TLC appends (ascending use is enforced by the writer)
          Exts,       \* extension lists TLC attaches (must be {<<>>} iff BitmapSize = 0)
          Filters,    \* extension filters queried
          Limits,     \* limits used when opening sessions
          Tails,      \* tails used for pruning
          Depth       \* > 0: simulation mode, behaviours of this many actions are printed (MBT)

VARIABLES act, hist

ExtsNone  == {<<>>}
ExtsSmall == {<<1>>, <<33, 2>>}
ExtsSim   == {<<1>>, <<33, 2>>, <<45>>, <<0, 17>>}

MCInit == Init /\ act = [op |-> "init"] /\ hist = <<>>

MCStep ==
  \/ \E l \in Limits : OpenWriter(l)  /\ act' = [op |-> "openWriter", limit |-> l]
  \/ \E l \in Limits : OpenDeleter(l) /\ act' = [op |-> "openDeleter", limit |-> l]
  \/ Close /\ act' = [op |-> "close"]
  \/ \E id \in Ids, x \in Exts :
        \/ WAppend(id, x)     /\ act' = [op |-> "append", id |-> id, ext |-> x, ok |-> TRUE]
        \/ WAppendFail(id, x) /\ act' = [op |-> "append", id |-> id, ext |-> x, ok |-> FALSE]
  \/ WFinish /\ act' = [op |-> "finish"]
  \/ \E id \in Ids \cup {0} :
        \/ DPop(id)     /\ act' = [op |-> "pop", id |-> id, ok |-> TRUE]
        \/ DPopFail(id) /\ act' = [op |-> "pop", id |-> id, ok |-> FALSE]
  \/ DFinish /\ act' = [op |-> "finish"]
  \/ \E t \in Tails : Prune(t) /\ act' = [op |-> "prune", tail |-> t]

MCNext == MCStep /\ hist' = IF Depth = 0 THEN hist ELSE Append(hist, act')
MCSpec == MCInit /\ [][MCNext]_<<vars, act, hist>>

(* ACTION_CONSTRAINT of the simulation config: rejected calls are kept but thinned out so   *)
(* that random behaviours make progress                                                    *)
SimBias == /\ (act'.op \in {"append", "pop"} /\ ~act'.ok) => (act'.id <= 1 /\ act.op # act'.op)
           /\ act'.op = "close" => act.op \notin {"openWriter", "openDeleter", "close"}
           /\ act'.op = "finish" => act.op # "finish"

(* CONSTRAINT of the simulation config: print each behaviour of Depth actions once *)
Emit == IF Depth > 0 /\ Len(hist) = Depth
        THEN PrintT(<<"MBT", ToJson([bitmap |-> BitmapSize, acts |-> hist])>>)
        ELSE TRUE

(* blocks no descriptor refers to (left behind by trimming) are never read again *)
Referenced == {db.meta[i].id : i \in 1..Len(db.meta)}
View == <<db.meta, [i \in Referenced |-> db.blocks[i]], w>>

Queries == UNION {{i - 1, i, i + 1} : i \in Ids}
AllFilters == Filters \cup {NoFilter}

(* lookups return the least stored id greater than the query (with and without filter) *)
ReadCorrect == \A q \in Queries : \A f \in AllFilters : CodeSeekGT(db, q, f) = AbsSeekGT(db, q, f)
(* iteration yields the stored (matching) ids in order *)
IterCorrect == \A f \in AllFilters : CodeIter(db, f) = AbsIter(db, f)
(* the block-level bitmap never excludes a block that holds a matching element *)
FilterSound == \A i \in 1..Len(db.meta) : \A f \in Filters :
                 (\E e \in Range(db.blocks[db.meta[i].id]) : Matches(e.ext, f))
                     => BitmapContains(db.meta[i].bm, f)
Bounded == /\ \A i \in 1..Len(db.meta) : db.meta[i].id <= MaxBlk
           /\ w.kind # "none" => w.bw.id <= MaxBlk
PruneSafeAll == \A t \in Tails : PruneSafe(t)

(* observation of a state for the replay driver: the sorted set with extensions, the     *)
(* session kind and its tentative content, and the answers to all reads                  *)
Obs == [abs  |-> Abs(db),
        sess |-> IF w.kind = "none" THEN <<>> ELSE SessAbs(w),
        kind |-> w.kind,
        last |-> IF w.kind = "none" THEN 0 ELSE w.lastID,
        nblocks |-> Len(db.meta)]

Edge == PrintT(<<"EDGE", ToJson([from |-> Obs, act |-> act', to |-> Obs'])>>)
=============================================================================
