SPECIFICATION MCSpec
CONSTANTS NA = 2
          NS = 2
          Ripemd = 0
          MaxVal = 2
          MaxBal = 4
          MaxNonce = 3
          MaxCode = 2
          MaxSnap = 2
          MaxTx = 3
          MaxCommits = 12
          Ops = {"BeginTx", "AddBalance", "SubBalance", "SetNonce", "SetCode", "SetState", "SelfDestruct", "CreateAccount", "EvmCreate", "Snapshot", "Revert", "Finalise", "IntermediateRoot", "Commit", "Open", "Copy", "Persist"}
          RuleNames = {"pre158", "eip158", "cancun", "amsterdam"}
          BaseKinds = {0, 1, 2, 3, 4}
          Actors = {1, 2}
          KeepHist = TRUE
          HistLen = 40
          TxEvery = 3
INVARIANTS InvType InvFeasible DiffReproducesWorld InvDisk
CONSTRAINT Emit
CHECK_DEADLOCK FALSE
