SPECIFICATION MCSpec
CONSTANTS NA = 1
          NS = 1
          Ripemd = 0
          MaxVal = 1
          MaxBal = 1
          MaxNonce = 1
          MaxCode = 0
          MaxSnap = 2
          MaxTx = 2
          MaxLogs = 2
          MaxRefund = 1
          Ops = {"BeginTx", "BeginTxL", "AddBalance", "SetTransient", "AddAddress", "AddSlot", "AddRefund", "SubRefund", "AddLog", "Snapshot", "Revert", "Finalise"}
          RuleNames = {"eip158", "cancun"}
          BaseKinds = {0}
          KeepHist = FALSE
          HistLen = 0
          TxEvery = 1
INVARIANTS InvType InvRevert InvFinalise InvFeasible
VIEW View
CHECK_DEADLOCK FALSE
