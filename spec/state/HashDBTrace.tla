---------------------------- MODULE HashDBTrace ----------------------------
(* Trace validation for HashDB: every line of the ndjson trace recorded from a real         *)
(* triedb/hashdb.Database must be explained by the corresponding action of HashDB.tla, and  *)
(* the logged white-box state (dirty cache with counters and external children, flush-list  *)
(* order, persisted nodes, size counters, reported Size) must equal the successor state.    *)
(* The constants (node DAG and versions of the recorded world) are bound by a module that    *)
(* checks/C21.py generates from the world file written by the driver.                        *)
EXTENDS HashDB, Json, IOUtils, SequencesExt

Trace == ndJsonDeserialize(IOEnv.TRACE)

VARIABLE l      \* next line of the trace to explain

Ev == Trace[l]

SortedSeq(S) == SetToSortSeq(S, LAMBDA a, b : a < b)
ProjDPrime == LET ids == SortedSeq(DOMAIN dirties')
         IN [i \in 1..Len(ids) |-> [id |-> ids[i], parents |-> dirties'[ids[i]].parents, ext |-> SortedSeq(dirties'[ids[i]].ext)]]

Logged == /\ ProjDPrime = Ev.state.d
          /\ flush' = Ev.state.f
          /\ SortedSeq(disk') = Ev.state.disk
          /\ dsize' = Ev.state.ds
          /\ csize' = Ev.state.cs
          /\ Ev.size = dsize' + csize' + Cardinality(DOMAIN dirties') * Meta     \* Database.Size()

Step(A) == l <= Len(Trace) /\ A /\ l' = l + 1

Fresh == /\ dirties' = [n \in {} |-> [parents |-> 0, ext |-> {}]]
         /\ flush' = <<>> /\ disk' = {} /\ dsize' = 0 /\ csize' = 0
         /\ live' = [n \in Nodes |-> 0] /\ fresh' = {} /\ done' = {}

TReset  == Step(Ev.op = "reset" /\ Fresh)
TUpdate == Step(Ev.op = "Update" /\ (\E perm \in Perms(Len(Versions[Ev.v].sets)) : Update(Ev.v, perm)) /\ Logged)
TRef    == Step(Ev.op = "Reference" /\ Reference(Ev.r) /\ Logged)
TDeref  == Step(Ev.op = "Dereference" /\ Dereference(Ev.r) /\ Logged)
TCap    == Step(Ev.op = "Cap" /\ Cap(Ev.limit) /\ Logged)
TCommit == Step(Ev.op = "Commit" /\ Commit(Ev.r) /\ Logged)

TraceInit == Init /\ l = 1
TraceNext == TReset \/ TUpdate \/ TRef \/ TDeref \/ TCap \/ TCommit
TraceSpec == TraceInit /\ [][TraceNext]_<<vars, l>>

TraceAccepted == TLCGet("stats").diameter - 1 = Len(Trace)
=============================================================================
