SPECIFICATION TraceSpec
CONSTANTS NumNodes <- WNumNodes
          Kids <- WKids
          ExtOf <- WExtOf
          Size <- WSize
          Meta <- WMeta
          HashLen = 32
          Versions <- WVersions
          MaxRef = 3
INVARIANTS LiveReadable FlushIsCache SizeExact ExtSound DiskClosed CacheClosed NoGarbageUnflushed NoGarbageWhenIdle
POSTCONDITION TraceAccepted
CHECK_DEADLOCK FALSE
