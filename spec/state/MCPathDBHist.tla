---------------------------- MODULE MCPathDBHist ----------------------------
(* Model-checking wrapper of PathDBHist: exhaustive runs hide the observation variable    *)
(* res; simulation runs record the labels of the actions taken so that TLC-generated       *)
(* behaviours can be replayed on a real pathdb.Database (R).                                *)
EXTENDS PathDBHist, Json

VARIABLE acts          \* labels of the actions taken so far (simulation only)

CONSTANT Depth         \* behaviours of this many actions are printed

MCInit == Init /\ acts = <<>>
Lbl(a) == acts' = Append(acts, a)

(* rollback targets worth trying: every root that ever got an id, plus the disk root *)
Targets == (DOMAIN ids) \cup {disk.root}

MCNext ==
  \/ \E j \in 0..Len(chain) :
       \E d \in DiffsOn(IF j = 0 THEN disk.root ELSE chain[j].root) :
         \E n \in 0..1 : \E fs \in Flags(n) :
            UpdateTo(j, d, fs) /\ Lbl([op |-> "Update", j |-> j, d |-> d])
  \/ \E i \in 0..Len(chain) : CommitAt(i) /\ Lbl([op |-> "Commit", i |-> i])
  \/ \E r \in Targets : RecoverTo(r) /\ Lbl([op |-> "Recover", w |-> r])
  \/ \E i \in 0..Len(chain) : Reopen(i) /\ Lbl([op |-> "Reopen", i |-> i])
  \/ Restart /\ Lbl([op |-> "Restart"])

MCSpec == MCInit /\ [][MCNext]_<<vars, acts>>

MCView == <<cfg, chain, disk, buf, bufN, kv, ids, hist, zombies>>

Emit == IF Len(acts) = Depth
        THEN PrintT(<<"MBT", ToJson([cfg |-> cfg, nk |-> NK, acts |-> acts])>>)
        ELSE TRUE
=============================================================================
