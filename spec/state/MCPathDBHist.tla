---------------------------- MODULE MCPathDBHist ----------------------------
(* Model-checking wrapper of PathDBHist: exhaustive runs hide the observation variable    *)
(* res; simulation runs record the labels of the actions taken so that TLC-generated       *)
(* behaviours can be replayed on a real pathdb.Database (R).                                *)
EXTENDS PathDBHist, Json

VARIABLE acts          \* labels of the actions taken so far (simulation only)

CONSTANT Depth         \* behaviours of this many actions are printed

MCInit == Init /\ acts = <<>>
Lbl(a) == acts' = Append(acts, a)

(* rollback targets worth trying: every root that ever got an id, plus the disk root *)
Targets == (DOMAIN ids) \cup {disk.root}

(* updates that change the state (no-op, duplicate and refused updates are exercised by the *)
(* random histories of the driver)                                                          *)
Upd == \E j \in 0..Len(chain) :
         LET p == IF j = 0 THEN disk.root ELSE chain[j].root IN
         \E d \in {x \in DiffsOn(p) : Over(p, x) # p} :
           \E n \in 0..1 : \E fs \in Flags(n) :
              UpdateTo(j, d, fs) /\ Lbl([op |-> "Update", j |-> j, d |-> d])
Cmt == \E i \in 1..Len(chain) : \E sts \in Stales(i) : CommitAt(i, sts) /\ Lbl([op |-> "Commit", i |-> i])
Rec == \E r \in Targets : RecoverTo(r) /\ Lbl([op |-> "Recover", w |-> r])
Rst == \E i \in 0..(Len(chain) + 1) :
         IF i <= Len(chain) THEN Reopen(i) /\ Lbl([op |-> "Reopen", i |-> i])
                            ELSE Restart /\ Lbl([op |-> "Restart"])

(* TLC's simulator picks a disjunct uniformly: repeating a disjunct weights it *)
MCNext == Upd \/ Upd \/ Upd \/ Upd \/ Upd \/ Upd \/ Cmt \/ Rec \/ Rec \/ Rec \/ Rst

MCSpec == MCInit /\ [][MCNext]_<<vars, acts>>

MCView == <<cfg, chain, disk, buf, bufN, kv, ids, hist, jr, zombies>>

Emit == IF Len(acts) = Depth
        THEN PrintT(<<"MBT", ToJson([cfg |-> cfg, nacc |-> NAcc, nslot |-> NSlot, acts |-> acts])>>)
        ELSE TRUE
=============================================================================
