----------------------------- MODULE MCFlatIter -----------------------------
(* TLC enumerates all layer stacks and seek positions within the bounds, checks both       *)
(* iterator algorithms against the set-level definition, and prints every case with its    *)
(* expected output so that the driver can run it on the real iterators (pathdb fast and     *)
(* binary, legacy snapshot fast and binary; account and storage level).                     *)
EXTENDS FlatIter, Json

CONSTANT EmitEvery     \* 0: print nothing; n > 0: print the cases whose ordinal hash is 0 mod n

LayerSeq(l) == LET ks == Asc(DOMAIN l) IN [i \in 1..Len(ks) |-> <<ks[i], l[ks[i]]>>]
StackSeq(st) == [i \in 1..Len(st) |-> LayerSeq(st[i])]

(* a cheap deterministic spread over the cases (position-weighted sum of the entries) *)
RECURSIVE Sum(_)
Sum(s) == IF s = <<>> THEN 0 ELSE Head(s) + Sum(Tail(s))
Ordinal == c.seek + 7 * Sum([i \in 1..Len(c.stack) |->
                                i * Sum([j \in 1..Len(LayerSeq(c.stack[i])) |->
                                           (3 * LayerSeq(c.stack[i])[j][1] + LayerSeq(c.stack[i])[j][2]) * (j + 1)])])

Emit == IF EmitEvery > 0 /\ Ordinal % EmitEvery = 0
        THEN PrintT(<<"CASE", ToJson([nkeys |-> NKeys, stack |-> StackSeq(c.stack), seek |-> c.seek,
                                      want |-> Expected(c.stack, c.seek)])>>)
        ELSE TRUE
=============================================================================
