SPECIFICATION MCSpec
CONSTANTS Depth = 20
          MaxBlk = 2
          RestartLen = 2
          MaxSize = 18
          BitmapSize = 34
          Ids = {1, 2, 3, 4, 5}
          Exts <- ExtsSim
          Filters = {0, 1, 2, 33, 17, 45, 3}
          Limits = {0, 3}
          Tails = {3, 5}
INVARIANTS DbWellFormed SetSemantics WriterConsistent SessionSemantics RoundTrip ReadCorrect IterCorrect FilterSound PruneSafeAll
CONSTRAINT Bounded
CONSTRAINT Emit
ACTION_CONSTRAINT SimBias
CHECK_DEADLOCK FALSE
