SPECIFICATION MCSpec
CONSTANTS NA = 2
          NS = 2
          Ripemd = 0
          MaxVal = 2
          MaxBal = 4
          MaxNonce = 3
          MaxCode = 2
          MaxSnap = 3
          MaxTx = 4
          Ops = {"BeginTx", "AddBalance", "SubBalance", "SetBalance", "SetNonce", "SetCode", "SetState", "SelfDestruct", "CreateAccount", "EvmCreate", "ReadAccount", "ReadSlot", "Snapshot", "Revert", "Finalise"}
          BaseKinds = {0, 2, 3, 4}
          KeepHist = TRUE
          HistLen = 32
          TxEvery = 8
INVARIANTS MechanismIsNetDiff InvBAL InvFunctional InvFeasible InvFrames InvNoEmpty
CONSTRAINT Emit
CHECK_DEADLOCK FALSE
