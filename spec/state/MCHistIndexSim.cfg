SPECIFICATION MCSpec
CONSTANTS Depth = 20
          MaxBlk = 2
          RestartLen = 2
          MaxSize = 11
          BitmapSize = 0
          Ids = {1, 2, 3, 4, 5, 200}
          Exts <- ExtsNone
          Filters = {}
          Limits = {0, 3, 200}
          Tails = {3, 5, 201}
INVARIANTS DbWellFormed SetSemantics WriterConsistent SessionSemantics RoundTrip ReadCorrect IterCorrect FilterSound PruneSafeAll
CONSTRAINT Bounded
CONSTRAINT Emit
ACTION_CONSTRAINT SimBias
CHECK_DEADLOCK FALSE
