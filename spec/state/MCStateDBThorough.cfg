SPECIFICATION MCSpec
CONSTANTS NA = 1
          NS = 1
          Ripemd = 0
          MaxVal = 1
          MaxBal = 2
          MaxNonce = 2
          MaxCode = 1
          MaxSnap = 1
          MaxTx = 1
          MaxLogs = 0
          MaxRefund = 0
          Ops = {"BeginTx", "AddBalance", "SubBalance", "SetBalance", "SetNonce", "SetCode", "SetState", "SelfDestruct", "CreateAccount", "EvmCreate", "Snapshot", "Revert", "Finalise"}
          RuleNames = {"pre158", "eip158", "cancun", "amsterdam"}
          BaseKinds = {0, 1, 2, 3}
          KeepHist = FALSE
          HistLen = 0
          TxEvery = 1
INVARIANTS InvType InvRevert InvFinalise InvFeasible
VIEW View
CHECK_DEADLOCK FALSE
