SPECIFICATION Spec
CONSTANTS NKeys = 3
          MaxDiffs = 1
          EmitEvery = 2
INVARIANTS FastCorrect BinaryCorrect Emit
CHECK_DEADLOCK FALSE
