SPECIFICATION Spec
CONSTANTS NKeys = 3
          MaxDiffs = 2
          EmitEvery = 41
INVARIANTS FastCorrect BinaryCorrect Emit
CHECK_DEADLOCK FALSE
