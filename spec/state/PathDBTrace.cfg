SPECIFICATION TraceSpec
CONSTANTS Key = {"a1", "a2", "a3", "s1", "s2"}
          MaxVal = 3
          MaxObjs = 100000
          Readers = {}
          AsyncModes = {FALSE}
          RelinkSiblings = TRUE
INVARIANTS TypeOK LiveReadable LookupSound DescendantsExact Rooted DiskContent DiskAligned ChainsSound
CONSTRAINT HWM
CHECK_DEADLOCK FALSE
