SPECIFICATION MCSpec
CONSTANTS Key = {"a1", "s1"}
          MaxVal = 2
          MaxObjs = 3
          Readers = {1}
          AsyncModes = {TRUE, FALSE}
          RelinkSiblings = TRUE
          Depth = 0
          MaxDiffKeys = 1
          SlotKeys = {"s1"}
          MaxReads = 1
INVARIANTS TypeOK LiveReadable ReadCorrect NoSpuriousStale LookupSound DescendantsExact Rooted DiskContent DiskAligned ChainsSound
VIEW View
CHECK_DEADLOCK FALSE
