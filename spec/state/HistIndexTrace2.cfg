SPECIFICATION TraceSpec
CONSTANTS RestartLen = 256
          MaxSize = 4096
          BitmapSize = 2
INVARIANTS TraceSetSemantics TraceAscending TraceMetaOK
POSTCONDITION TraceAccepted
CHECK_DEADLOCK FALSE
