-------------------------- MODULE StateCommitTrace --------------------------
(* Trace validation for StateCommit.tla (C14): two real StateDB twins over one real database  *)
(* (hash or path scheme, with or without snapshot tree / prefetcher).  Every event names its   *)
(* actor t and carries the full projection of BOTH twins after the call; the specification     *)
(* must explain the event with the actor's operator while the other twin's projection stays    *)
(* what it was (independence), a Commit must write exactly the finalised world (the harness    *)
(* folds "returned root = IntermediateRoot of a copy = StackTrie root of that world" and       *)
(* "every reader of the reopened root reads that world" into Ev.ok), an Open may only name a    *)
(* world on the disk.                                                                          *)
EXTENDS StateCommit, Json, IOUtils

Trace == ndJsonDeserialize(IOEnv.TRACE)

VARIABLES tw, disk, l

Ev == Trace[l]
Twins == 1..2
Other(i) == 3 - i
Projs(t) == [i \in Twins |-> Proj(t[i].s)]
Logged == Ev.ok /\ Projs(tw') = Ev.sts
Step(A) == l <= Len(Trace) /\ A /\ l' = l + 1
Is(op) == Ev.op = op
Twin(w, r) == [s |-> Open(r, w), b |-> NewBlock(w)]

TReset   == Step(Is("reset") /\ tw' = [i \in Twins |-> Twin(Ev.world, RuleSet(Ev.rules))] /\ disk' = {Ev.world} /\ Logged)
TBeginTx == Step(Is("BeginTx") /\ ~tw[Ev.t].s.intx /\ tw' = [tw EXCEPT ![Ev.t].s = BeginTx(@, Ev.a)] /\ UNCHANGED disk /\ Logged)
TBeginTxL == Step(Is("BeginTxL") /\ ~tw[Ev.t].s.intx /\ tw' = [tw EXCEPT ![Ev.t].s = BeginTxL(@, Ev.a, Ev.i, Ev.k)] /\ UNCHANGED disk /\ Logged)
TOp      == Step(Ev.op \in InTxOps /\ tw[Ev.t].s.intx /\ CanOp(tw[Ev.t].s, Ev)
                 /\ tw' = [tw EXCEPT ![Ev.t].s = ApplyOp(@, Ev)] /\ UNCHANGED disk /\ Logged)
TEndTx   == Step(Ev.op \in {"Finalise", "IntermediateRoot"} /\ tw[Ev.t].s.intx
                 /\ tw' = [tw EXCEPT ![Ev.t] = [s |-> IF Is("Finalise") THEN Finalise(@.s) ELSE IntermediateRoot(@.s),
                                                 b |-> AfterFinalise(@.b, @.s)]] /\ UNCHANGED disk /\ Logged)
TCommit  == Step(Is("Commit") /\ LET f == Finalise(tw[Ev.t].s) IN
                    /\ Ev.world = f.w
                    /\ disk' = disk \cup {f.w}
                    /\ tw' = [tw EXCEPT ![Ev.t] = Twin(f.w, @.s.r)]
                 /\ Logged)
TOpen    == Step(Is("Open") /\ Ev.world \in disk /\ tw' = [tw EXCEPT ![Ev.t] = Twin(Ev.world, @.s.r)] /\ UNCHANGED disk /\ Logged)
TCopy    == Step(Is("Copy") /\ tw' = [tw EXCEPT ![Other(Ev.t)] = [s |-> [tw[Ev.t].s EXCEPT !.snaps = << >>], b |-> tw[Ev.t].b]]
                 /\ UNCHANGED disk /\ Logged)
TPersist == Step(Is("Persist") /\ Ev.world \in disk /\ disk' = {Ev.world}
                 /\ tw' = [i \in Twins |-> Twin(Ev.world, tw[i].s.r)] /\ Logged)

TraceInit == tw = [i \in Twins |-> Twin(EmptyWorld, RulesPre158)] /\ disk = {EmptyWorld} /\ l = 1
TraceNext == TReset \/ TBeginTx \/ TBeginTxL \/ TOp \/ TEndTx \/ TCommit \/ TOpen \/ TCopy \/ TPersist
TraceSpec == TraceInit /\ [][TraceNext]_<<tw, disk, l>>

InvType     == \A i \in Twins : TypeOK(tw[i].s)
InvFeasible == \A i \in Twins : Feasible(tw[i].s)
DiffReproducesWorld == \A i \in Twins : (~tw[i].s.intx) => ApplyDiff(tw[i].b, tw[i].s.w) = tw[i].s.w

TraceAccepted == TLCGet("stats").diameter - 1 = Len(Trace)
=============================================================================
