SPECIFICATION ITraceSpec
CONSTANTS NAcc = 0
          NSlot = 0
          MaxVal = 0
          MaxDiffs = {}
          HistLimits = {}
          Policies = {}
          Asyncs = {}
          IndexOns = {}
          MaxId = 0
INVARIANTS TypeOK ViewIsRoot Aligned HistChain PersistedIsCanon RecoverableSound IndexExact ReadCorrect RefusalExact
PROPERTIES RecoverRestores RecoverFailKeeps
POSTCONDITION TraceAccepted
CHECK_DEADLOCK FALSE
