SPECIFICATION Spec
CONSTANTS Vals = {1, 2}
          Idxs = {1, 3}
          MaxIdx = 2
          Full = TRUE
INVARIANT Emit
CHECK_DEADLOCK FALSE
