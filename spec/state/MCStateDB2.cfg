SPECIFICATION MCSpec
CONSTANTS NA = 2
          NS = 1
          Ripemd = 2
          MaxVal = 1
          MaxBal = 1
          MaxNonce = 1
          MaxCode = 0
          MaxSnap = 1
          MaxTx = 2
          MaxLogs = 0
          MaxRefund = 0
          Ops = {"BeginTx", "AddBalance", "SubBalance", "SetNonce", "SetState", "SelfDestruct", "CreateAccount", "EvmCreate", "Snapshot", "Revert", "Finalise"}
          RuleNames = {"pre158", "eip158", "cancun", "amsterdam"}
          BaseKinds = {0, 1, 2}
          KeepHist = FALSE
          HistLen = 0
          TxEvery = 1
INVARIANTS InvType InvRevert InvFinalise InvFeasible
VIEW View
CHECK_DEADLOCK FALSE
