SPECIFICATION MCSpec
CONSTANTS NA = 2
          NS = 1
          Ripemd = 2
          MaxVal = 1
          MaxBal = 1
          MaxNonce = 0
          MaxCode = 0
          MaxSnap = 1
          MaxTx = 1
          MaxLogs = 0
          MaxRefund = 0
          Ops = {"BeginTx", "AddBalance", "SubBalance", "SelfDestruct", "CreateAccount", "Snapshot", "Revert", "Finalise"}
          RuleNames = {"pre158", "eip158", "amsterdam"}
          BaseKinds = {0, 1, 2}
          KeepHist = FALSE
          HistLen = 0
          TxEvery = 1
INVARIANTS InvType InvRevert InvFinalise InvFeasible
VIEW View
CHECK_DEADLOCK FALSE
