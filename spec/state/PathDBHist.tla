------------------------------ MODULE PathDBHist ------------------------------
(* Persistent side of the path database (triedb/pathdb): in-memory diff layers on top of  *)
(* one disk layer = write buffer over the key-value store, the state-history freezer       *)
(* (reverse diffs, tail/head), the root->id table, and the operations that move state      *)
(* between them: Update (+cap), Commit, Recover/Recoverable, clean and unclean reopen.     *)
(* Properties C17 (rollback restores exactly the historical state; a non-recoverable       *)
(* target fails without changing anything).                                                *)
(*                                                                                         *)
(* A state ("world") is a vector of values, one per key (0 = absent); the root of a state  *)
(* IS the state (hashes are injective), so repeated states and no-op transitions arise     *)
(* naturally.  Keys are 1..NK: account, its NSlot slots, next account, ...                 *)
(* One action per public call of pathdb.Database; diskLayer.commit / diskLayer.revert are  *)
(* the operators CommitOne / RevertOne written after the code (disklayer.go), incl. the    *)
(* history limit with its "skip tail truncation, force flush" corner, buffer.revertTo      *)
(* with its "reset when a single transition is left" corner and the persistent path.       *)
EXTENDS Integers, Sequences, FiniteSets, TLC

CONSTANTS NAcc, NSlot, MaxVal,   \* shape of the worlds explored by TLC
          MaxDiffs,              \* set of values of maxDiffLayers explored
          HistLimits,            \* set of values of Config.StateHistory explored (0 = keep all)
          Policies,              \* subset of {"always","never","any"}: is the write buffer full after a merge?
          Asyncs,                \* subset of BOOLEAN: asynchronous buffer flushing (!NoAsyncFlush)
          MaxId                  \* bound on state ids explored by TLC

NoVal == -1

VARIABLES cfg,      \* [maxDiff, histLimit, pol, async]  (constant during a behaviour)
          chain,    \* Seq([root, diff]) : in-memory diff layers of the current branch, bottom first
          disk,     \* [root, id]        : the disk layer
          buf,      \* [Key -> Val \cup {NoVal}] : aggregated write buffer of the disk layer
          bufN,     \* number of transitions aggregated in buf
          kv,       \* [world, pid]      : persisted flat state + trie nodes, persistent state id
          ids,      \* [World -/-> Nat]  : persisted root->id table (never cleaned)
          hist,     \* [tail, head, recs]: state freezer; recs[i] = [parent, root, prev] for tail < i <= head
          jr,       \* layer journal stored in the key-value store (written by Journal, never deleted):
                    \* [has, base = persisted state it was written over, disk, buf, chain, rolled]
          zombies,  \* ghost: roots of abandoned in-memory layers that may linger in the layer tree
          res       \* outcome of the last call (observation only)

core == <<chain, disk, buf, bufN, kv, ids, hist, jr>>
vars == <<cfg, chain, disk, buf, bufN, kv, ids, hist, jr, zombies, res>>

(* ------------------------------- worlds -------------------------------- *)
NK       == NAcc * (NSlot + 1)
Key      == 1..NK
Owner(k) == k - ((k - 1) % (NSlot + 1))
Worlds   == {w \in [Key -> 0..MaxVal] : \A k \in Key : w[k] # 0 => w[Owner(k)] # 0}

Over(base, d) == [k \in DOMAIN base |-> IF d[k] = NoVal THEN base[k] ELSE d[k]]   \* d applied on top of base
PrevOf(w, d)  == [k \in DOMAIN w |-> IF d[k] = NoVal THEN NoVal ELSE w[k]]         \* origin values of touched keys
NoneLike(w)   == [k \in DOMAIN w |-> NoVal]
ZeroLike(w)   == [k \in DOMAIN w |-> 0]

(* diffs a state transition on parent p may hand to the database: touched slot => touched  *)
(* owner; the result is a well-formed world                                                *)
DiffsOn(p) == {d \in [Key -> (0..MaxVal) \cup {NoVal}] :
                 /\ \A k \in Key : d[k] # NoVal => d[Owner(k)] # NoVal
                 /\ Over(p, d) \in Worlds}

(* ------------------------------ functional core ------------------------------ *)
Cur == [chain |-> chain, disk |-> disk, buf |-> buf, bufN |-> bufN, kv |-> kv, ids |-> ids, hist |-> hist]
Set(s) == /\ chain' = s.chain /\ disk' = s.disk /\ buf' = s.buf /\ bufN' = s.bufN
          /\ kv' = s.kv /\ ids' = s.ids /\ hist' = s.hist

View(s) == Over(s.kv.world, s.buf)           \* what the disk layer serves

Restrict(f, S) == [x \in S |-> f[x]]

(* diskLayer.commit(bottom, force): history first, then root->id, merge, maybe flush.      *)
(* pidSeen is the persistent state id read by writeHistory: with asynchronous flushing it  *)
(* may still be the value from before the flush scheduled by the previous commit of the    *)
(* same call (the wait for the frozen buffer comes after the history is written).          *)
CommitParts(s, c, full, force, pidSeen) ==
  LET L        == Head(s.chain)
      id       == s.disk.id + 1
      rec      == [parent |-> s.disk.root, root |-> L.root, prev |-> PrevOf(s.disk.root, L.diff)]
      recs1    == [i \in (DOMAIN s.hist.recs) \cup {id} |-> IF i = id THEN rec ELSE s.hist.recs[i]]
      over     == c.histLimit # 0 /\ id - s.hist.tail > c.histLimit
      newFirst == id - c.histLimit + 1
      skip     == over /\ pidSeen < newFirst            \* skip tail truncation, force a flush instead
      tail1    == IF over /\ ~skip THEN newFirst - 1 ELSE s.hist.tail
      hist0    == [tail |-> s.hist.tail, head |-> id, recs |-> recs1]      \* history appended
      hist1    == [tail |-> tail1, head |-> id, recs |-> Restrict(recs1, {i \in DOMAIN recs1 : i > tail1})]
      ids0     == IF s.disk.id = 0 THEN (s.disk.root :> 0) @@ s.ids ELSE s.ids
      ids1     == (L.root :> id) @@ ids0
      buf1     == Over(s.buf, L.diff)
      flush    == full \/ force \/ skip
  IN  [hist0 |-> hist0, hist1 |-> hist1, ids0 |-> ids0, ids1 |-> ids1, flush |-> flush,
       fin |-> [chain |-> Tail(s.chain),
                disk  |-> [root |-> L.root, id |-> id],
                buf   |-> IF flush THEN NoneLike(buf1) ELSE buf1,
                bufN  |-> IF flush THEN 0 ELSE s.bufN + 1,
                kv    |-> IF flush THEN [world |-> Over(s.kv.world, buf1), pid |-> id] ELSE s.kv,
                ids   |-> ids1,
                hist  |-> hist1]]
CommitOne(s, c, full, force, pidSeen) == CommitParts(s, c, full, force, pidSeen).fin

(* flatten Len(fs) layers; fs[i] = buffer full after merging layer i, sts[i] = layer i's    *)
(* writeHistory saw the persistent id from before the previous layer's flush               *)
RECURSIVE FlattenFrom(_, _, _, _, _, _)
FlattenFrom(s, c, fs, force, sts, prevPid) ==
  IF fs = <<>> THEN s
  ELSE FlattenFrom(CommitOne(s, c, Head(fs), force, IF Head(sts) THEN prevPid ELSE s.kv.pid),
                   c, Tail(fs), force, Tail(sts), s.kv.pid)
Flatten(s, c, fs, force, sts) == FlattenFrom(s, c, fs, force, sts, s.kv.pid)

(* Database.Recoverable *)
RecoverableIn(s, r) ==
  /\ r \in DOMAIN s.ids
  /\ s.ids[r] < s.disk.id
  /\ (s.ids[r] + 1) \in DOMAIN s.hist.recs
  /\ s.hist.recs[s.ids[r] + 1].parent = r
Recoverable(r) == RecoverableIn(Cur, r)

(* diskLayer.revert(h) with h = history of the disk layer's own id *)
CanRevert(s) == /\ s.disk.id > 0
                /\ s.disk.id \in DOMAIN s.hist.recs
                /\ s.hist.recs[s.disk.id].root = s.disk.root
RevertOne(s) ==
  LET h  == s.hist.recs[s.disk.id]
      nd == [root |-> h.parent, id |-> s.disk.id - 1]
  IN  IF s.bufN > 0
      THEN [s EXCEPT !.disk = nd, !.bufN = @ - 1,
                     !.buf = IF s.bufN = 1 THEN NoneLike(@) ELSE Over(@, h.prev)]
      ELSE [s EXCEPT !.disk = nd, !.kv = [world |-> Over(@.world, h.prev), pid |-> s.disk.id - 1]]

RECURSIVE RevertLoop(_, _)
RevertLoop(s, r) ==      \* result carries ok = FALSE if the loop had to stop with an error
  IF s.disk.root = r THEN [st |-> s, ok |-> TRUE]
  ELSE IF ~CanRevert(s) THEN [st |-> s, ok |-> FALSE]
  ELSE RevertLoop(RevertOne(s), r)

TruncHead(h, n) == [h EXCEPT !.head = n, !.recs = Restrict(@, {i \in DOMAIN @ : i <= n})]

ChainRoots(c) == {c[i].root : i \in 1..Len(c)}

NoJournal == [has |-> FALSE]
(* loadJournal/loadDiskLayer accept the stored journal iff it was written over the persisted *)
(* state found in the key-value store and the persistent id does not exceed its disk id     *)
JournalMatches == jr.has /\ jr.base = kv.world /\ kv.pid <= jr.disk.id

FullVals == IF cfg.pol = "always" THEN {TRUE} ELSE IF cfg.pol = "never" THEN {FALSE} ELSE BOOLEAN
Flags(n) == IF n = 0 THEN {<<>>} ELSE {<<b>> : b \in FullVals}    \* one Update flattens at most one layer
RECURSIVE Falses(_)
Falses(n) == IF n = 0 THEN <<>> ELSE Append(Falses(n - 1), FALSE)
RECURSIVE BoolSeqs(_)
BoolSeqs(n) == IF n = 0 THEN {<<>>} ELSE {Append(q, b) : q \in BoolSeqs(n - 1), b \in BOOLEAN}
Stales(n) == IF cfg.async /\ n > 1 THEN {<<FALSE>> \o q : q \in BoolSeqs(n - 1)} ELSE {Falses(n)}

(* --------------------------------- actions --------------------------------- *)
Init == /\ cfg \in [maxDiff : MaxDiffs, histLimit : HistLimits, pol : Policies, async : Asyncs]
        /\ chain = <<>>
        /\ disk = [root |-> [k \in Key |-> 0], id |-> 0]
        /\ buf = [k \in Key |-> NoVal] /\ bufN = 0
        /\ kv = [world |-> [k \in Key |-> 0], pid |-> 0]
        /\ ids = <<>>
        /\ hist = [tail |-> 0, head |-> 0, recs |-> <<>>]
        /\ jr = NoJournal
        /\ zombies = {}
        /\ res = [op |-> "init"]

(* Database.Update(root, parent = layer j of the branch (0 = disk layer), ...) followed by *)
(* cap(root, maxDiffLayers).  fs = "buffer full?" answer for every layer flattened.        *)
UpdateTo(j, d, fs) ==
  LET p    == IF j = 0 THEN disk.root ELSE chain[j].root
      r    == Over(p, d)
      kept == SubSeq(chain, 1, j)
      c1   == Append(kept, [root |-> r, diff |-> d])
      n    == IF Len(c1) > cfg.maxDiff THEN Len(c1) - cfg.maxDiff ELSE 0
      gone == {chain[i].root : i \in (j + 1)..Len(chain)}
  IN  /\ j \in 0..Len(chain)
      /\ UNCHANGED cfg
      /\ IF r = p
         THEN /\ fs = <<>> /\ UNCHANGED <<core, zombies>>        \* empty transition: never reaches the database
              /\ res' = [op |-> "Update", r |-> "noop"]
         ELSE IF r = disk.root
         THEN /\ fs = <<>> /\ UNCHANGED <<core, zombies>>        \* layer exists; cap on the disk layer errors
              /\ res' = [op |-> "Update", r |-> "err"]
         ELSE IF r \in ChainRoots(chain)
         THEN /\ fs = <<>> /\ UNCHANGED <<core, zombies>>        \* layer with this root exists: ignored
              /\ res' = [op |-> "Update", r |-> "dup"]
         ELSE /\ r \notin zombies
              /\ Len(fs) = n
              /\ Set(Flatten([Cur EXCEPT !.chain = c1], cfg, fs, FALSE, Falses(n)))
              /\ UNCHANGED jr
              /\ zombies' = (zombies \cup gone) \ {r}
              /\ res' = [op |-> "Update", r |-> "ok"]

(* Database.Commit(root of layer i): flatten layers 1..i with force, drop everything else *)
CommitAt(i, sts) ==
  /\ i \in 0..Len(chain)
  /\ UNCHANGED cfg
  /\ IF i = 0
     THEN sts = <<>> /\ UNCHANGED <<core, zombies>> /\ res' = [op |-> "Commit", r |-> "err"]
     ELSE /\ Len(sts) = i
          /\ Set([Flatten([Cur EXCEPT !.chain = SubSeq(chain, 1, i)], cfg, Falses(i), TRUE, sts) EXCEPT !.chain = <<>>])
          /\ UNCHANGED jr
          /\ zombies' = {}
          /\ res' = [op |-> "Commit", r |-> "ok"]

(* Database.Recover(root) *)
RecoverTo(r) ==
  /\ UNCHANGED cfg
  /\ IF ~Recoverable(r)
     THEN UNCHANGED <<core, zombies>> /\ res' = [op |-> "Recover", w |-> r, ok |-> FALSE, can |-> FALSE, id |-> -1]
     ELSE LET out == RevertLoop(Cur, r)
              s   == out.st
              fin == [s EXCEPT !.chain = <<>>, !.hist = TruncHead(@, s.disk.id)]
          IN  /\ Set(IF out.ok THEN fin ELSE [s EXCEPT !.chain = <<>>])
              \* the stored journal stays (ghost: a rollback happened after it was written), or the
              \* rollback invalidates it (candidate fix of C20-F1); both are accepted
              /\ jr' \in {IF jr.has THEN [jr EXCEPT !.rolled = TRUE] ELSE jr, NoJournal}
              /\ zombies' = {}
              /\ res' = [op |-> "Recover", w |-> r, ok |-> out.ok, can |-> TRUE, id |-> ids[r]]

(* Journal(root of layer i) + Close + New: layers 1..i and the buffer survive *)
Reopen(i) ==
  /\ i \in 0..Len(chain)
  /\ UNCHANGED <<cfg, disk, buf, bufN, kv, ids, hist>>
  /\ chain' = SubSeq(chain, 1, i)
  /\ jr' = [has |-> TRUE, base |-> kv.world, disk |-> disk, buf |-> buf, chain |-> SubSeq(chain, 1, i), rolled |-> FALSE]
  /\ zombies' = {}
  /\ res' = [op |-> "Reopen"]

(* Close without journal + New (all freezer data synced by Close).  Without an acceptable  *)
(* journal the in-memory layers and the buffer are lost and histories above the persistent *)
(* id are truncated (repairHistory); an acceptable journal from an earlier shutdown is      *)
(* loaded instead.  This module covers the unclean restart only when no rollback happened   *)
(* since that journal was written (otherwise the journal describes layers of an abandoned   *)
(* branch: crash-consistency of that case is property C20, see PathDBCrash.tla).            *)
Restart ==
  /\ JournalMatches => ~jr.rolled
  /\ UNCHANGED <<cfg, kv, ids, jr>>
  /\ zombies' = {}
  /\ IF JournalMatches
     THEN /\ jr.disk.id <= hist.head
          /\ chain' = jr.chain /\ disk' = jr.disk /\ buf' = jr.buf
          /\ bufN' = jr.disk.id - kv.pid
          /\ hist' = TruncHead(hist, jr.disk.id)
          /\ res' = [op |-> "Restart", restored |-> TRUE]
     ELSE /\ hist.tail <= kv.pid /\ kv.pid <= hist.head       \* otherwise the database refuses to open
          /\ chain' = <<>>
          /\ disk' = [root |-> kv.world, id |-> kv.pid]
          /\ buf' = NoneLike(buf) /\ bufN' = 0
          /\ hist' = TruncHead(hist, kv.pid)
          /\ res' = [op |-> "Restart", restored |-> FALSE]

Next ==
  \/ \E j \in 0..Len(chain) :
       \E d \in DiffsOn(IF j = 0 THEN disk.root ELSE chain[j].root) :
         \E n \in 0..1 : \E fs \in Flags(n) : UpdateTo(j, d, fs)
  \/ \E i \in 0..Len(chain) : \E sts \in Stales(i) : CommitAt(i, sts)
  \/ \E r \in Worlds : RecoverTo(r)
  \/ \E i \in 0..Len(chain) : Reopen(i)
  \/ Restart

Spec == Init /\ [][Next]_vars

Bounded == disk.id + Len(chain) <= MaxId

StateView == <<cfg, chain, disk, buf, bufN, kv, ids, hist, jr, zombies>>     \* res is observation only

(* ------------------------------- properties ------------------------------- *)
(* canonical state at id i according to the freezer (tail <= i <= head) *)
CanonAt(i) == IF i = hist.head THEN disk.root ELSE hist.recs[i + 1].parent

TypeOK == /\ DOMAIN hist.recs = (hist.tail + 1)..hist.head
          /\ bufN >= 0 /\ hist.tail >= 0

(* the disk layer serves exactly the state it is labelled with *)
ViewIsRootIn(s) == View(s) = s.disk.root
ViewIsRoot == ViewIsRootIn(Cur)

(* ids: persistent id + transitions in the buffer = id of the disk layer; the freezer     *)
(* ends exactly at the disk layer and never starts above the persistent state             *)
AlignedIn(s) == /\ s.kv.pid + s.bufN = s.disk.id
                /\ s.hist.head = s.disk.id
                /\ s.hist.tail <= s.kv.pid
Aligned == AlignedIn(Cur)

(* histories link up, end in the disk layer's state, and reverse correctly *)
HistChainIn(s) == \A i \in DOMAIN s.hist.recs :
               /\ s.hist.recs[i].root = (IF i = s.hist.head THEN s.disk.root ELSE s.hist.recs[i + 1].parent)
               /\ Over(s.hist.recs[i].root, s.hist.recs[i].prev) = s.hist.recs[i].parent
HistChain == HistChainIn(Cur)

(* the key-value store holds the canonical state of the persistent id *)
PersistedIsCanon == kv.pid >= hist.tail => kv.world = CanonAt(kv.pid)

(* what Recoverable reports is a canonical state below the disk layer whose histories exist *)
RecoverableSound == \A r \in DOMAIN ids :
                      Recoverable(r) => /\ ids[r] >= hist.tail /\ ids[r] < disk.id
                                        /\ CanonAt(ids[r]) = r

(* C17: a rollback to a recoverable root succeeds and leaves exactly that state: the disk  *)
(* layer is the target (flat state and tries read as that world), ids are set back, newer   *)
(* histories are gone, in-memory layers are dropped                                        *)
RecoverRestores ==
  [][res'.op = "Recover" =>
     /\ res'.ok = res'.can
     /\ res'.ok => /\ disk' = [root |-> res'.w, id |-> res'.id]
                   /\ Over(kv'.world, buf') = res'.w
                   /\ hist'.head = res'.id
                   /\ kv'.pid <= res'.id
                   /\ chain' = <<>>]_vars

(* C17: asking for a non-recoverable root fails without changing anything (action property) *)
RecoverFailKeeps == [][(res'.op = "Recover" /\ ~res'.ok) => UNCHANGED core]_vars
=============================================================================
