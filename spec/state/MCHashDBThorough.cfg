SPECIFICATION MCSpec
CONSTANTS NumNodes <- WNumNodes
          Kids <- WKids
          ExtOf <- WExtOf
          Size <- WSize
          Meta <- WMeta
          HashLen = 32
          Versions <- WVersions
          MaxRef = 1
          EdgeDepth <- WEdgeDepth
          StaticVersions = 4
INVARIANTS LiveReadable FlushIsCache SizeExact ExtSound DiskClosed CacheClosed NoGarbageUnflushed NoGarbageWhenIdle
VIEW View
CHECK_DEADLOCK FALSE
