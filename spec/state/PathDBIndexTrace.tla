-------------------------- MODULE PathDBIndexTrace --------------------------
(* Trace validation for PathDBIndex (C18): events recorded by harness/cmd/c18 from a real  *)
(* pathdb.Database with state-history indexing.  In addition to PathDBHistTrace's          *)
(* observation, every event carries the index projection, and HRead events carry the       *)
(* outcome of HistoricStateReader(root) and of reading every key through it.                *)
(* The harness waits for the initial indexing run after every (re)open, so reset and        *)
(* Reopen are composed with IndexRun.                                                       *)
EXTENDS PathDBIndex, PathDBHistTrace

IdSet(q) == {q[n] : n \in 1..Len(q)}
(* "no metadata" and "metadata with position 0" are the same index position (the candidate   *)
(* fix of C18-F1 keeps the metadata at 0 where the code under test deletes it)               *)
NormLast(x) == IF x = -1 THEN 0 ELSE x

IObs ==
  /\ Obs
  /\ Ev.ix.on = ix'.on
  /\ ix'.on => /\ Ev.ix.inited = ix'.inited
               /\ NormLast(Ev.ix.last) = NormLast(ix'.last)
               /\ \A k \in DOMAIN ix'.set : IdSet(Ev.ix.set[k]) = {j \in ix'.set[k] : j > hist'.tail}

TIReset ==
  Step(/\ Ev.op = "reset"
       /\ cfg' = [maxDiff |-> Ev.cfg.maxDiff, histLimit |-> Ev.cfg.histLimit, pol |-> "any", async |-> Ev.cfg.async]
       /\ chain' = <<>>
       /\ disk' = [root |-> [k \in 1..Ev.nk |-> 0], id |-> 0]
       /\ buf' = [k \in 1..Ev.nk |-> NoVal] /\ bufN' = 0
       /\ kv' = [world |-> [k \in 1..Ev.nk |-> 0], pid |-> 0]
       /\ ids' = <<>>
       /\ hist' = [tail |-> 0, head |-> 0, recs |-> <<>>]
       /\ jr' = NoJournal
       /\ zombies' = {}
       /\ res' = [op |-> "init"]
       /\ ix' = [on |-> Ev.ixon, inited |-> Ev.ixon, last |-> IF Ev.ixon THEN 0 ELSE -1, set |-> [k \in 1..Ev.nk |-> {}]]
       /\ IObs)

TIUpdate  == Step(/\ Ev.op = "Update"
                  /\ \E n \in 0..1 : \E fs \in Flags(n) : IUpdateTo(Ev.j, Ev.d, fs)
                  /\ res'.r = Ev.res
                  /\ IObs)
TICommit  == Step(Ev.op = "Commit" /\ (\E sts \in Stales(Ev.i) : ICommitAt(Ev.i, sts)) /\ res'.r = Ev.res /\ IObs)
TIRecover == Step(Ev.op = "Recover" /\ IRecoverTo(Ev.w) /\ res'.ok = Ev.ok /\ IObs)
TIReopen  == Step(/\ Ev.op = "Reopen"
                  /\ Reopen(Ev.i)
                  /\ ix.on => Ev.on
                  /\ ix' = IF ~Ev.on THEN ix
                           ELSE IF Ev.ix.inited THEN RunIndexer([ix EXCEPT !.on = TRUE, !.inited = FALSE])
                           ELSE [ix EXCEPT !.on = TRUE, !.inited = FALSE]      \* initial indexing still running
                  /\ IObs)
TIHRead   == Step(/\ Ev.op = "HRead"
                  /\ UNCHANGED ivars
                  /\ Ev.served = Served(Ev.w)
                  /\ Ev.served => \A k \in 1..Len(Ev.vals) :
                                     Ev.vals[k] = IF ReadFails THEN -2 ELSE ReadVal(Ev.w, k)
                  /\ IObs)

(* Finding C18-F1 (known_findings.json; tolerated by checks/C18.py only via ctx.known_finding): with the indexer initialised and the   *)
(* index metadata deleted (it is deleted when history 1 is unindexed, i.e. after a rollback  *)
(* to the state with id 0), the real database fails to flatten the next layer (indexSingle:  *)
(* "history indexing is out of order, last: null") where this specification indexes history  *)
(* 1 again.  Exactly that situation is accepted as pending; the harness ends the trace there. *)
TIKnownMetaDeleted ==
  Step(/\ Ev.op \in {"Update", "Commit"}
       /\ Ev.kf = "index-metadata-deleted"
       /\ ix.on /\ ix.inited /\ ix.last = -1
       /\ \/ Ev.op = "Update" /\ Ev.res = "fail" /\ Ev.j = Len(chain) /\ Len(chain) + 1 > cfg.maxDiff
          \/ Ev.op = "Commit" /\ Ev.res = "err" /\ Ev.i \in 1..Len(chain)
       /\ UNCHANGED ivars)

(* trie nodes of a historic state through HistoricNodeReader (trie-node histories are kept  *)
(* completely and only together with complete state histories): same refusal rule, and the  *)
(* state walked through the historic tries must be the requested one                         *)
TIHNode   == Step(/\ Ev.op = "HNode"
                  /\ UNCHANGED ivars
                  /\ Ev.served = Served(Ev.w)
                  /\ Ev.served => (IF ReadFails THEN Ev.world = <<>> ELSE Ev.world = Ev.w)
                  /\ IObs)

TIIndexRun == Step(Ev.op = "IndexRun" /\ IndexRun(Ev.ix.last) /\ IObs)

(* Finding C18-F2 (known_findings.json; tolerated by checks/C18.py only via ctx.known_finding): a rollback while the initial indexing  *)
(* has not completed and the index ends just below one of the histories being reverted: the real  *)
(* indexer (indexIniter.run, shorten branch) compares the index position with the already   *)
(* shortened target, tries to unindex a history that is not indexed, and the rollback fails  *)
(* after the disk layer was marked stale; this specification only moves the target.          *)
TIKnownShorten ==
  Step(/\ Ev.op = "Recover" /\ ~Ev.ok /\ Ev.kf = "shorten-while-initialising"
       /\ ix.on /\ ~ix.inited
       /\ Recoverable(Ev.w)
       /\ ix.last >= ids[Ev.w] /\ ix.last < disk.id     \* some reverted history a has a - 1 = index position
       /\ UNCHANGED ivars)

ITraceInit == TraceInit /\ ix = [on |-> FALSE, inited |-> FALSE, last |-> -1, set |-> <<>>]
ITraceNext == TIKnownMetaDeleted \/ TIKnownShorten \/ TIIndexRun \/ TIReset \/ TIUpdate \/ TICommit \/ TIRecover \/ TIReopen \/ TIHRead \/ TIHNode
ITraceSpec == ITraceInit /\ [][ITraceNext]_<<ivars, l>>
=============================================================================
