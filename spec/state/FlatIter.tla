------------------------------ MODULE FlatIter ------------------------------
(* Flat-state iterators over a stack of state layers (property C22):                       *)
(* triedb/pathdb/iterator{,_fast,_binary}.go and core/state/snapshot/iterator*.go.          *)
(*                                                                                         *)
(* A stack is a sequence of layers, bottom first.  Layer 1 is the persistent flat state    *)
(* (no tombstones), layer 2 the disk layer's write buffer (pathdb) resp. the lowest diff   *)
(* layer (legacy), layers 3.. are diff layers.  A layer maps some keys to a value; value 0 *)
(* is a tombstone (the entry was deleted in that layer), a live entry of layer i has value *)
(* i, so the value tells which layer an iterator took it from.  Keys are integers; seek    *)
(* positions lie on and between keys (key k sits at position 2k).                          *)
(*                                                                                         *)
(* Expected = the set-level definition; FastIter = the priority merge with one cursor per  *)
(* layer (fastIterator: init with clash resolution, next with cascading re-sort);          *)
(* BinIter = the pairwise merge (binaryIterator) with values read through the top layer.   *)
EXTENDS Integers, Sequences, FiniteSets, TLC

CONSTANTS NKeys,       \* keys 1..NKeys
          MaxDiffs     \* diff layers on top of the disk layer (0..MaxDiffs)

Keys == 1..NKeys
Seeks == 1..(2 * NKeys + 1)

VARIABLE c             \* the case under evaluation: [stack, seek]

(* ------------------------------ set-level semantics ------------------------------ *)
(* value of key k in the state described by the stack: the topmost layer that mentions k *)
RECURSIVE ValueAt(_, _, _)
ValueAt(st, i, k) == IF i = 0 THEN 0
                     ELSE IF k \in DOMAIN st[i] THEN st[i][k] ELSE ValueAt(st, i - 1, k)
WorldOf(st) == [k \in Keys |-> ValueAt(st, Len(st), k)]

RECURSIVE AscFrom(_, _)        \* keys of S in ascending order
AscFrom(S, k) == IF k > NKeys THEN <<>>
                 ELSE (IF k \in S THEN <<k>> ELSE <<>>) \o AscFrom(S, k + 1)
Asc(S) == AscFrom(S, 1)

(* C22: exactly the existing entries, ascending, from the seek position on *)
Expected(st, seek) ==
  LET w == WorldOf(st)
      ks == Asc({k \in Keys : 2 * k >= seek /\ w[k] # 0})
  IN [i \in 1..Len(ks) |-> <<ks[i], w[ks[i]]>>]

(* ------------------------------- fast iterator ------------------------------- *)
(* one weighted iterator per layer: priority (0 = top), the layer it reads values from,    *)
(* the current key (0 before the first Next) and the keys still ahead                       *)
LayerKeys(st, i, seek) == Asc({k \in DOMAIN st[i] : 2 * k >= seek})
MkIter(st, i, seek, p) == [p |-> p, l |-> i, cur |-> 0, ks |-> LayerKeys(st, i, seek)]
(* newFastIterator walks from the top layer down; the disk layer contributes the buffer    *)
(* (depth) and the persistent state (depth + 1)                                             *)
Iters(st, seek) == [d \in 1..Len(st) |-> MkIter(st, Len(st) + 1 - d, seek, d - 1)]

Nxt(it) == [it EXCEPT !.cur = Head(it.ks), !.ks = Tail(it.ks)]
Less(a, b) == a.cur < b.cur \/ (a.cur = b.cur /\ a.p < b.p)            \* weightedIterator.Cmp

RECURSIVE InitAt(_, _, _)
RECURSIVE InitInner(_, _, _)
(* fastIterator.init: position every iterator on its first key; when two iterators sit on  *)
(* the same key the one with the larger priority number is advanced                         *)
InitAt(its, pos, i) == IF i > Len(its) THEN its ELSE InitInner(its, pos, i)
InitInner(its, pos, i) ==
  LET it == its[i] IN
  IF it.ks = <<>>
  THEN LET last == Len(its)
           rest == SubSeq(its, 1, last - 1)
       IN InitAt(IF i = last THEN rest ELSE [rest EXCEPT ![i] = its[last]], pos, i)
  ELSE LET it1  == Nxt(it)
           its1 == [its EXCEPT ![i] = it1]
           h    == it1.cur
       IN IF h \notin DOMAIN pos
          THEN InitAt(its1, [x \in (DOMAIN pos) \cup {h} |-> IF x = h THEN i ELSE pos[x]], i + 1)
          ELSE LET o == pos[h] IN
               IF its1[o].p < it1.p THEN InitInner(its1, pos, i)
               ELSE InitInner([its1 EXCEPT ![o] = it1, ![i] = its1[o]], pos, i)

RECURSIVE InsertSorted(_, _)
InsertSorted(s, x) == IF s = <<>> THEN <<x>>
                      ELSE IF Less(x, Head(s)) THEN <<x>> \o s ELSE <<Head(s)>> \o InsertSorted(Tail(s), x)
RECURSIVE SortIters(_)
SortIters(s) == IF s = <<>> THEN <<>> ELSE InsertSorted(SortIters(Tail(s)), Head(s))

NoPos == [x \in {} |-> 0]
FastInit(st, seek) == SortIters(InitAt(Iters(st, seek), NoPos, 1))

Remove(s, i) == SubSeq(s, 1, i - 1) \o SubSeq(s, i + 1, Len(s))
Move(s, from, to) ==      \* fastIterator.move
  [n \in 1..Len(s) |-> IF n < from \/ n > to THEN s[n] ELSE IF n = to THEN s[from] ELSE s[n + 1]]

(* fastIterator.next(idx): advance the iterator at idx and restore the order, advancing a  *)
(* duplicate of lower priority on the way                                                    *)
RECURSIVE FNext(_, _)
FNext(its, idx) ==
  IF its[idx].ks = <<>> THEN Remove(its, idx)
  ELSE LET its1 == [its EXCEPT ![idx] = Nxt(its[idx])]
           n    == Len(its1)
           cur  == its1[idx]
       IN IF idx = n THEN its1
          ELSE IF cur.cur < its1[idx + 1].cur THEN its1
          ELSE IF cur.cur = its1[idx + 1].cur /\ cur.p < its1[idx + 1].p THEN FNext(its1, idx + 1)
          ELSE LET pred(m) == m >= idx /\ (m = n \/ cur.cur < its1[m + 1].cur
                                                 \/ (cur.cur = its1[m + 1].cur /\ cur.p < its1[m + 1].p))
                   index   == CHOOSE m \in 1..n : pred(m) /\ \A j \in 1..(m - 1) : ~pred(j)
                   eq      == {m \in (idx + 1)..n : its1[m].cur = cur.cur}
                   moved   == Move(its1, idx, index)
               IN IF eq = {} THEN moved
                  ELSE FNext(moved, CHOOSE m \in eq : \A j \in eq : m <= j)     \* clash = n+1 of the search

ValOf(st, it) == st[it.l][it.cur]          \* Account()/Slot() of the layer the iterator reads

(* fastIterator.Next, unrolled into the produced sequence *)
RECURSIVE FastRun(_, _, _)
FastRun(st, its, first) ==
  IF its = <<>> THEN <<>>
  ELSE IF first
       THEN (IF ValOf(st, its[1]) # 0 THEN <<<<its[1].cur, ValOf(st, its[1])>>>> ELSE <<>>) \o FastRun(st, its, FALSE)
       ELSE LET its1 == FNext(its, 1) IN
            IF its1 = <<>> THEN <<>>
            ELSE (IF ValOf(st, its1[1]) # 0 THEN <<<<its1[1].cur, ValOf(st, its1[1])>>>> ELSE <<>>) \o FastRun(st, its1, FALSE)

FastIter(st, seek) == FastRun(st, FastInit(st, seek), TRUE)

(* the merge list stays ordered by (key, priority) and holds at most two iterators per key *)
(* only transiently: checked on the initial list                                            *)
RECURSIVE Ordered(_)
Ordered(s) == Len(s) <= 1 \/ (Less(s[1], s[2]) /\ s[1].cur # s[2].cur /\ Ordered(Tail(s)))

(* ------------------------------ binary iterator ------------------------------ *)
RECURSIVE Merge2(_, _)      \* binaryIterator.Next over two key streams (equal keys: a is advanced)
Merge2(a, b) == IF a = <<>> THEN b ELSE IF b = <<>> THEN a
                ELSE IF Head(a) < Head(b) THEN <<Head(a)>> \o Merge2(Tail(a), b)
                ELSE IF Head(a) = Head(b) THEN Merge2(Tail(a), b)
                ELSE <<Head(b)>> \o Merge2(a, Tail(b))
RECURSIVE BinKeys(_, _, _)  \* initBinary...Iterator of layer i: own keys merged with the layers below
BinKeys(st, i, seek) == IF i = 1 THEN LayerKeys(st, 1, seek)
                        ELSE Merge2(LayerKeys(st, i, seek), BinKeys(st, i - 1, seek))
(* the wrapper reads the value through the top layer and skips deleted entries *)
BinIter(st, seek) ==
  LET ks == BinKeys(st, Len(st), seek)
      w  == WorldOf(st)
      live == SelectSeq(ks, LAMBDA k : w[k] # 0)
  IN [i \in 1..Len(live) |-> <<live[i], w[live[i]]>>]

(* --------------------------------- cases --------------------------------- *)
PMaps(i) == UNION {[S -> {0, i}] : S \in SUBSET Keys}                 \* a layer with tombstones
Base     == {[k \in S |-> 1] : S \in SUBSET Keys}                      \* persistent state: live entries only
RECURSIVE Stacks(_)
Stacks(n) == IF n = 0 THEN {<<b, u>> : b \in Base, u \in PMaps(2)}
             ELSE {Append(s, d) : s \in Stacks(n - 1), d \in PMaps(n + 2)}
AllStacks == UNION {Stacks(n) : n \in 0..MaxDiffs}

Init == c \in {[stack |-> s, seek |-> k] : s \in AllStacks, k \in Seeks}
Next == UNCHANGED c
Spec == Init /\ [][Next]_c

(* ------------------------------- properties ------------------------------- *)
FastCorrect   == FastIter(c.stack, c.seek) = Expected(c.stack, c.seek)
BinaryCorrect == BinIter(c.stack, c.seek) = Expected(c.stack, c.seek)
InitOrdered   == Ordered(FastInit(c.stack, c.seek))
=============================================================================
