------------------------------ MODULE MCBAL ------------------------------
(* Model checking of the block-access-list rule (C15) under Amsterdam rules.                *)
(*                                                                                          *)
(* Besides the reference model (s) this module carries a model of the MECHANISM the code    *)
(* uses to obtain the net change without a copy of the world (core/state/journal.go):       *)
(*   - on the first balance / nonce / code write of an account in a transaction the value   *)
(*     before the write is stashed (stashBalance / stashNonce / stashCode);                 *)
(*   - the journal counts the live entries per account and kind; a revert removes the       *)
(*     entries of the reverted frames and drops the stash of a kind when no entry of that   *)
(*     kind is left (journalMutationState.remove / clearKind);                              *)
(*   - at Finalise a change is recorded iff a stash exists and differs from the final value;*)
(*   - storage: a slot is recorded as written iff it is in the dirty set of an account      *)
(*     that is finalised normally (not removed), and the dirty set holds exactly the slots  *)
(*     whose value differs from the committed one.                                          *)
(* Invariant MechanismIsNetDiff: in every reachable state the mechanism would record        *)
(* exactly ExpectedBAL(s), the definition that only compares the world with the world at    *)
(* the start of the transaction.  The frames are kept as the SET of (account, kind) pairs   *)
(* written in each frame, which determines whether a count is zero.                         *)
EXTENDS BAL, Json

CONSTANTS MaxVal, MaxBal, MaxNonce, MaxCode, MaxSnap, MaxTx, Ops, BaseKinds,
          KeepHist, HistLen, TxEvery

VARIABLES s,        \* reference model
          fr,       \* mechanism: per frame, the (account, kind) pairs with a journal entry in that frame
          stash,    \* mechanism: per account the stashed pre-transaction values
          blk,      \* expected block-level list so far
          act, hist

Kinds == {"bal", "nonce", "code"}
NoStash == [a \in Addr |-> [balSet |-> FALSE, bal |-> 0, nonceSet |-> FALSE, nonce |-> 0, codeSet |-> FALSE, code |-> 0]]

Template(i) == CASE i = 0 -> Absent
                 [] i = 1 -> Fresh
                 [] i = 2 -> [Fresh EXCEPT !.bal = 1]
                 [] i = 3 -> [Fresh EXCEPT !.nonce = 1, !.bal = 1, !.code = 1, !.st = [k \in Slot |-> 1]]
                 [] i = 4 -> [Fresh EXCEPT !.nonce = 1, !.bal = 1]
BaseWorlds == { [a \in Addr |-> Template(f[a])] : f \in [Addr -> BaseKinds] }

(* ---- mechanism steps ---- *)
Top == Len(fr)
Journal(a, kind) == fr' = [fr EXCEPT ![Top] = @ \cup {<<a, kind>>}]
StashBal(a)   == IF stash[a].balSet   THEN stash ELSE [stash EXCEPT ![a].balSet = TRUE,   ![a].bal = s.w[a].bal]
StashNonce(a) == IF stash[a].nonceSet THEN stash ELSE [stash EXCEPT ![a].nonceSet = TRUE, ![a].nonce = s.w[a].nonce]
StashCode(a)  == IF stash[a].codeSet  THEN stash ELSE [stash EXCEPT ![a].codeSet = TRUE,  ![a].code = s.w[a].code]
WriteBal(a)   == stash' = StashBal(a)   /\ Journal(a, "bal")
WriteNonce(a) == stash' = StashNonce(a) /\ Journal(a, "nonce")
WriteCode(a)  == stash' = StashCode(a)  /\ Journal(a, "code")
NoWrite       == UNCHANGED <<fr, stash>>
(* revert to snapshot i: frames i+1.. are dropped; a stash survives iff an entry of its kind is left *)
RevertMech(i) ==
  LET keep == SubSeq(fr, 1, i)
      live == UNION {keep[j] : j \in 1..Len(keep)}
  IN  /\ fr' = keep
      /\ stash' = [a \in Addr |->
            [balSet   |-> stash[a].balSet   /\ <<a, "bal">> \in live,
             bal      |-> IF <<a, "bal">> \in live THEN stash[a].bal ELSE 0,
             nonceSet |-> stash[a].nonceSet /\ <<a, "nonce">> \in live,
             nonce    |-> IF <<a, "nonce">> \in live THEN stash[a].nonce ELSE 0,
             codeSet  |-> stash[a].codeSet  /\ <<a, "code">> \in live,
             code     |-> IF <<a, "code">> \in live THEN stash[a].code ELSE 0]]

(* what recordAccessListChanges + stateObject.finalise would record if the transaction ended now *)
MechAccount(a) ==
  LET post   == Finalise(s).w[a]
      normal == a \in s.tch /\ s.w[a].ex /\ a \notin s.des /\ ~IsEmpty(s.w[a])    \* default branch of finaliseAmsterdam
      cst    == IF s.w[a].ex THEN s.w0[a].st ELSE ZeroSt
      wr     == [k \in Slot |-> IF normal /\ s.w[a].st[k] # cst[k] THEN s.w[a].st[k] ELSE None]
  IN  IF a \notin s.racc
      THEN [in |-> FALSE, bal |-> None, nonce |-> None, code |-> None,
            wr |-> [k \in Slot |-> None], rd |-> [k \in Slot |-> FALSE]]
      ELSE [in    |-> TRUE,
            bal   |-> IF stash[a].balSet   /\ post.bal   # stash[a].bal   THEN post.bal   ELSE None,
            nonce |-> IF stash[a].nonceSet /\ post.nonce # stash[a].nonce THEN post.nonce ELSE None,
            code  |-> IF stash[a].codeSet  /\ post.code  # stash[a].code  THEN post.code  ELSE None,
            wr    |-> wr,
            rd    |-> [k \in Slot |-> k \in s.rslot[a] /\ wr[k] = None]]
MechBAL == [a \in Addr |-> MechAccount(a)]

(* ---- the labelled next-state relation ---- *)
Label(rec) == IF KeepHist THEN hist' = Append(hist, rec) ELSE hist' = hist
Do(op, T, rec) == /\ op \in Ops /\ s' = T /\ act' = rec /\ UNCHANGED blk
                  /\ Label([act |-> rec, st |-> Proj(T), bal |-> << >>, blk |-> << >>])

MCInit == /\ \E w \in BaseWorlds : s = Open(RulesAmsterdam, w)
          /\ fr = << {} >> /\ stash = NoStash /\ blk = EmptyBlock
          /\ act = [op |-> "init", rules |-> "amsterdam"]
          /\ hist = IF KeepHist THEN << [act |-> act, st |-> Proj(s), bal |-> << >>, blk |-> << >>] >> ELSE << >>

Ops1 ==
  \E a \in Addr :
    \/ \E v \in 0..MaxVal : /\ s.w[a].bal + v <= MaxBal
                            /\ Do("AddBalance", AddBalance(s, a, v), [op |-> "AddBalance", a |-> a, v |-> v])
                            /\ IF v = 0 THEN NoWrite ELSE WriteBal(a)
    \/ \E v \in 0..MaxVal : /\ CanSubBalance(s, a, v)
                            /\ Do("SubBalance", SubBalance(s, a, v), [op |-> "SubBalance", a |-> a, v |-> v])
                            /\ IF v = 0 THEN NoWrite ELSE WriteBal(a)
    \/ \E v \in 0..MaxBal : /\ Do("SetBalance", SetBalance(s, a, v), [op |-> "SetBalance", a |-> a, v |-> v])
                            /\ WriteBal(a)
    \/ \E n \in 0..MaxNonce : /\ FeasSetNonce(s, a, n)
                              /\ Do("SetNonce", SetNonce(s, a, n), [op |-> "SetNonce", a |-> a, v |-> n])
                              /\ WriteNonce(a)
    \/ \E c \in 0..MaxCode : /\ FeasSetCode(s, a, c)
                             /\ Do("SetCode", SetCode(s, a, c), [op |-> "SetCode", a |-> a, v |-> c])
                             /\ WriteCode(a)
    \/ \E k \in Slot, v \in 0..MaxVal :
          /\ FeasSetState(s, a)
          /\ Do("SetState", SetState(s, a, k, v), [op |-> "SetState", a |-> a, k |-> k, v |-> v])
          /\ NoWrite
    \/ /\ FeasSelfDestruct(s, a)
       /\ Do("SelfDestruct", SelfDestruct(s, a), [op |-> "SelfDestruct", a |-> a]) /\ NoWrite
    \/ /\ CanCreateAccount(s, a)
       /\ Do("CreateAccount", CreateAccount(s, a), [op |-> "CreateAccount", a |-> a]) /\ NoWrite
    \/ /\ CanEvmCreate(s, a) /\ MaxNonce >= 1
       /\ Do("EvmCreate", EvmCreate(s, a), [op |-> "EvmCreate", a |-> a])
       /\ WriteNonce(a)
    \/ Do("ReadAccount", ReadAccount(s, a), [op |-> "ReadAccount", a |-> a]) /\ NoWrite
    \/ \E k \in Slot : /\ s.w[a].ex        \* SLOAD runs in the context of an existing account
                       /\ Do("ReadSlot", ReadSlot(s, a, k), [op |-> "ReadSlot", a |-> a, k |-> k]) /\ NoWrite

SnapOps ==
  \/ /\ Len(s.snaps) < MaxSnap
     /\ Do("Snapshot", Snapshot(s), [op |-> "Snapshot"])
     /\ fr' = Append(fr, {}) /\ UNCHANGED stash
  \/ \E i \in 1..Len(s.snaps) : Do("Revert", Revert(s, i), [op |-> "Revert", i |-> i]) /\ RevertMech(i)

EndTx ==
  /\ s.intx /\ "Finalise" \in Ops
  /\ (KeepHist => Len(hist) % TxEvery = 0)
  /\ LET e == ExpectedBAL(s)
         b == MergeTx(blk, e, s.txn + 1)
     IN  /\ s' = Finalise(s) /\ blk' = b
         /\ act' = [op |-> "Finalise"]
         /\ Label([act |-> act', st |-> Proj(s'), bal |-> e, blk |-> b])
  /\ fr' = << {} >> /\ stash' = NoStash

MCNext ==
  \/ /\ ~s.intx /\ s.txn < MaxTx
     /\ \E a \in Addr : Do("BeginTx", BeginTx(s, a), [op |-> "BeginTx", a |-> a, tx |-> s.txn]) /\ NoWrite
  \/ s.intx /\ (Ops1 \/ SnapOps)
  \/ EndTx

MCSpec == MCInit /\ [][MCNext]_<<s, fr, stash, blk, act, hist>>

View == <<s, fr, stash, blk>>

(* ---- invariants (C15 on the model) ---- *)
MechanismIsNetDiff == s.rec => MechBAL = ExpectedBAL(s)
InvBAL        == BALInvariants(s)
InvFunctional == Functional(blk)
InvFeasible   == Feasible(s)
InvFrames     == Len(fr) = Len(s.snaps) + 1
InvNoEmpty    == NoEmptyBetweenTxs(s)

Emit == IF Len(hist) = HistLen THEN PrintT(<<"MBT", ToJson(hist)>>) ELSE TRUE
=============================================================================
