------------------------------ MODULE PathDBIndex ------------------------------
(* State-history index and historical reads of the path database (property C18), on top of  *)
(* PathDBHist.tla.  The index maps every key to the ids of the state histories that record *)
(* an original value of it; HistoricReader(root) answers "value of key k in state root" by   *)
(* taking the original value stored in the first history after root's id that touches k,   *)
(* or the disk layer's value if there is none.                                             *)
(*                                                                                         *)
(* ix = [on, inited, last, set]:                                                           *)
(*   on     indexing enabled in this session (Config.EnableStateIndexing)                   *)
(*   inited initial background indexing finished (indexIniter.done closed); from then on   *)
(*          writeHistory/revert index/unindex synchronously (extend/shorten)                *)
(*   last   id recorded in the index metadata (-1: no metadata)                             *)
(*   set    [Key -> SUBSET ids]                                                             *)
EXTENDS PathDBHist

CONSTANT IndexOns      \* subset of BOOLEAN: indexing enabled from the start

VARIABLE ix

ivars == <<vars, ix>>

Touched(rec) == {k \in DOMAIN rec.prev : rec.prev[k] # NoVal}

IndexOne(x, j, recs) ==
  [x EXCEPT !.last = j,
            !.set = [k \in DOMAIN @ |-> IF j \in DOMAIN recs /\ k \in Touched(recs[j]) THEN @[k] \cup {j} ELSE @[k]]]
UnindexOne(x, j) ==
  [x EXCEPT !.last = IF j = 1 THEN -1 ELSE j - 1,        \* the metadata is deleted with the first history
            !.set = [k \in DOMAIN @ |-> @[k] \ {j}]]

RECURSIVE IndexRange(_, _, _, _)
IndexRange(x, recs, a, b) == IF a > b THEN x ELSE IndexRange(IndexOne(x, a, recs), recs, a + 1, b)
RECURSIVE UnindexDown(_, _, _)
UnindexDown(x, a, b) == IF a < b THEN x ELSE UnindexDown(UnindexOne(x, a), a - 1, b)

(* shorten(id) while the initial indexing has not completed: if everything including the   *)
(* history being reverted is indexed, it is unindexed and initialisation is complete;      *)
(* otherwise only the target moves                                                         *)
RECURSIVE ShortenBusy(_, _, _)
ShortenBusy(x, a, b) ==
  IF a < b THEN x
  ELSE IF x.inited THEN UnindexDown(x, a, b)
  ELSE IF x.last = a THEN ShortenBusy([UnindexOne(x, a) EXCEPT !.inited = TRUE], a - 1, b)
  ELSE ShortenBusy(x, a - 1, b)

(* index maintenance implied by a step of the database that moved the disk layer id0 -> id1 *)
Follow(x, recs1, id0, id1) ==
  IF ~x.on THEN x
  ELSE IF id1 > id0 THEN (IF x.inited THEN IndexRange(x, recs1, id0 + 1, id1) ELSE x)
  ELSE IF id1 < id0 THEN ShortenBusy(x, id0, id1 + 1)
  ELSE x

(* the background initial indexing runs to completion (indexIniter.index + canExit) *)
RunIndexer(x) ==
  LET target == disk.id
      begin  == IF x.last = -1 \/ x.last + 1 < hist.tail + 1 THEN hist.tail + 1 ELSE x.last + 1
      y      == IF begin > target
                THEN (IF target = 0 /\ begin = 1 THEN [x EXCEPT !.last = 0] ELSE x)
                ELSE IndexRange(x, hist.recs, begin, target)
  IN  [y EXCEPT !.inited = (y.last = target)]

(* --------------------------------- actions --------------------------------- *)
IInit == Init /\ ix \in [on : IndexOns, inited : {FALSE}, last : {-1}, set : {[k \in Key |-> {}]}]

IUpdateTo(j, d, fs) == UpdateTo(j, d, fs) /\ ix' = Follow(ix, hist'.recs, disk.id, disk'.id)
ICommitAt(i, sts)   == CommitAt(i, sts)   /\ ix' = Follow(ix, hist'.recs, disk.id, disk'.id)
IRecoverTo(r)       == RecoverTo(r)       /\ ix' = Follow(ix, hist'.recs, disk.id, disk'.id)

(* clean shutdown and reopen; indexing may be switched on (never off again) *)
IReopen(i, on) == /\ Reopen(i)
                  /\ ix.on => on
                  /\ ix' = [ix EXCEPT !.on = on, !.inited = FALSE]

(* a run of the background indexer: it indexes from where the index stops up to history n   *)
(* (the target it captured when it started, or where it was interrupted); initialisation    *)
(* is complete iff that is the current target (canExit)                                      *)
IndexRun(n) ==
  LET target == disk.id
      begin  == IF ix.last = -1 \/ ix.last + 1 < hist.tail + 1 THEN hist.tail + 1 ELSE ix.last + 1
  IN  /\ ix.on /\ ~ix.inited
      /\ ix.last <= disk.id              \* otherwise the indexer waits in recovery mode (after unclean shutdowns only)
      /\ UNCHANGED vars
      /\ IF begin > target
         THEN ix' = RunIndexer(ix) /\ n = ix'.last
         ELSE /\ n \in begin..target
              /\ ix' = [IndexRange(ix, hist.recs, begin, n) EXCEPT !.inited = (n = target)]

(* ------------------------------ historical reads ------------------------------ *)
(* HistoricReader(root): refused unless indexing is initialised and root is the parent of  *)
(* the history following its recorded id                                                    *)
Served(r) == /\ ix.on /\ ix.inited
             /\ r \in DOMAIN ids
             /\ (ids[r] + 1) \in DOMAIN hist.recs
             /\ hist.recs[ids[r] + 1].parent = r

(* the roots that ought to be served: canonical states below the disk layer whose history is retained *)
Retained == {CanonAt(i) : i \in hist.tail..(hist.head - 1)}

Min(S) == CHOOSE x \in S : \A y \in S : x <= y

ReadFails == ix.last < disk.id      \* checkStateAvail: history is not fully indexed
ReadVal(r, k) ==
  LET later == {j \in ix.set[k] : j > ids[r]}
  IN  IF later = {} THEN View(Cur)[k]
      ELSE LET j == Min(later) IN
           IF j \in DOMAIN hist.recs /\ hist.recs[j].prev[k] # NoVal THEN hist.recs[j].prev[k] ELSE -2

INext ==
  \/ \E j \in 0..Len(chain) :
       \E d \in DiffsOn(IF j = 0 THEN disk.root ELSE chain[j].root) :
         \E n \in 0..1 : \E fs \in Flags(n) : IUpdateTo(j, d, fs)
  \/ \E i \in 0..Len(chain) : \E sts \in Stales(i) : ICommitAt(i, sts)
  \/ \E r \in Worlds : IRecoverTo(r)
  \/ \E i \in 0..Len(chain) : \E on \in BOOLEAN : IReopen(i, on)
  \/ \E n \in -1..MaxId : IndexRun(n)

ISpec == IInit /\ [][INext]_ivars

IStateView == <<StateView, ix>>

(* ------------------------------- properties ------------------------------- *)
(* once initialised, the index is exactly the set of retained histories touching each key *)
IndexExact == (ix.on /\ ix.inited) =>
                /\ (ix.last = disk.id \/ (disk.id = 0 /\ ix.last = -1))
                /\ \A k \in DOMAIN ix.set :
                     {j \in ix.set[k] : j > hist.tail} = {j \in DOMAIN hist.recs : k \in Touched(hist.recs[j])}

(* C18: every served root is a canonical retained state and every key reads its value there *)
ReadCorrect == \A r \in DOMAIN ids :
                 Served(r) => /\ r \in Retained
                              /\ ~ReadFails => \A k \in DOMAIN r : ReadVal(r, k) = r[k]

(* C18: what is not canonical or not retained is refused (roots no id points to are refused *)
(* by construction); a retained canonical state is served whenever its id entry is current  *)
RefusalExact == \A r \in DOMAIN ids :
                  (ix.on /\ ix.inited) =>
                     (Served(r) <=> (ids[r] \in hist.tail..(hist.head - 1) /\ CanonAt(ids[r]) = r))
=============================================================================
