SPECIFICATION MCSpec
CONSTANTS Key = {"a1", "a2", "s1"}
          MaxVal = 2
          MaxObjs = 4
          Readers = {1}
          AsyncModes = {TRUE, FALSE}
          RelinkSiblings = TRUE
          Depth = 14
          MaxDiffKeys = 3
          SlotKeys = {"s1"}
          MaxReads = 2
INVARIANTS TypeOK LiveReadable ReadCorrect NoSpuriousStale LookupSound DescendantsExact Rooted DiskContent DiskAligned ChainsSound
CONSTRAINT Emit
ACTION_CONSTRAINT AtomicCap
ACTION_CONSTRAINT SimBias
ACTION_CONSTRAINT FinalStep
ACTION_CONSTRAINT ReaderFocus
ACTION_CONSTRAINT NoWipeWhileFlushing
CHECK_DEADLOCK FALSE
