SPECIFICATION CSpec
CONSTANTS NAcc = 1
          NSlot = 1
          MaxVal = 1
          MaxDiffs = {1, 2}
          HistLimits = {0, 1}
          Policies = {"any"}
          Asyncs = {TRUE}
          MaxId = 3
INVARIANTS TypeOK Reopens Consistent SyncedCoversPersisted
PROPERTIES RecoverRestores RecoverFailKeeps
CONSTRAINT Bounded
VIEW CStateView
CHECK_DEADLOCK FALSE
