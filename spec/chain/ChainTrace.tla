----------------------------- MODULE ChainTrace -----------------------------
(* Trace validation for Chain: every line of the ndjson trace recorded from a real           *)
(* core.BlockChain (harness/cmd/c38 -mode record) must be explained by the action of         *)
(* Chain.tla it names, and the state projected from rawdb / the chain object after the call  *)
(* (stored blocks, state availability, receipts, number index, head markers, lookup table,   *)
(* resolved transaction and receipt lookups, events, result class) must equal the            *)
(* specification's successor state.  All invariants of Chain.tla are evaluated after every   *)
(* real call.                                                                                *)
EXTENDS Chain, Json, IOUtils

Trace == ndJsonDeserialize(IOEnv.TRACE)

VARIABLES l,    \* next line of the trace to explain
          rec   \* the last event if it was a crash image reopened in the middle of a call, else NoRec

Ev == Trace[l]
ToSet(s) == {s[i] : i \in 1..Len(s)}

Logged ==
  /\ known' = ToSet(Ev.st.known)
  /\ hasState' \ {0} = ToSet(Ev.st.hasState)
  /\ rcpt' = ToSet(Ev.st.rcpt)
  /\ canon' = Ev.st.canon
  /\ hb' = Ev.st.hb /\ hh' = Ev.st.hh /\ hs' = Ev.st.hs
  /\ txl' = Ev.st.txl /\ tail' = Ev.st.tail
  /\ ProjState'.clogs = Ev.st.clogs
  /\ cache' = Ev.st.resolve
  /\ ProjState'.dresolve = Ev.st.dresolve
  /\ ProjState'.rresolve = Ev.st.rresolve
  /\ ev' = Ev.st.ev
  /\ res'.err = Ev.st.err

NoRec == [op |-> "none"]
Step(A) == l <= Len(Trace) /\ A /\ l' = l + 1 /\ rec' = NoRec

TReset    == Step(Ev.op = "reset" /\ TreeOK(Ev.tree) /\ Reset(Ev.tree, Ev.scheme) /\ Logged)
TInsert   == Step(Ev.op = "InsertChain" /\ InsertChain(Ev.seg) /\ Logged)
TNoHead   == Step(Ev.op = "InsertNoHead" /\ InsertNoHead(Ev.b) /\ Logged)
TSetCanon == Step(Ev.op = "SetCanonical" /\ SetCanonical(Ev.b) /\ Logged)
TSetHead  == Step(Ev.op = "SetHead" /\ SetHead(Ev.n) /\ Logged)
TRestart  == Step(Ev.op = "Restart" /\ Restart /\ Logged)

(* A copy of the key-value store taken after one of the writes of the call Ev.act was reopened *)
(* with NewBlockChain (no clean shutdown): the specification stays in the state before the call *)
(* and the recovered state is judged by the Rec* invariants below (property C39).              *)
TCrashIn == l <= Len(Trace) /\ Ev.op = "CrashIn" /\ rec' = Ev /\ l' = l + 1 /\ UNCHANGED vars

EmptyTree == [parent |-> <<>>, txs |-> <<>>, ntx |-> 0]
TraceInit == InitWith(EmptyTree, "hash") /\ l = 1 /\ rec = NoRec
TraceNext == TReset \/ TInsert \/ TNoHead \/ TSetCanon \/ TSetHead \/ TRestart \/ TCrashIn
TraceSpec == TraceInit /\ [][TraceNext]_<<vars, l, rec>>

(* ---------------- recovered crash images (C39 on arbitrary trees, crash inside a call) -------- *)
IsRec   == rec.op = "CrashIn"
R       == rec.st
RKnown  == ToSet(R.known)
RHas    == ToSet(R.hasState) \cup {0}
RC(n)   == IF n = 0 THEN 0 ELSE R.canon[n]
RTop    == IF \E i \in 1..N : R.canon[i] # Nil THEN CHOOSE i \in 1..N : R.canon[i] # Nil /\ \A j \in 1..N : R.canon[j] # Nil => j <= i ELSE 0
(* did the interrupted call (or an earlier one) write a head without reorg below the head header (C38-F1)? *)
CallF1  == LET a == rec.act IN
           CASE a.op = "InsertChain"  -> InsertChainF(Cur, a.seg).f1
             [] a.op = "InsertNoHead" -> InsertNoHeadF(Cur, a.b).f1
             [] a.op = "SetCanonical" -> SetCanonicalF(Cur, a.b).f1
             [] OTHER -> FALSE
(* does the interrupted call reorganise the chain (reorg) or rewind it (SetHead)? *)
CallReorgs == LET a == rec.act IN
           CASE a.op = "InsertChain"  -> InsertChainF(Cur, a.seg).purged
             [] a.op = "InsertNoHead" -> InsertNoHeadF(Cur, a.b).purged
             [] a.op = "SetCanonical" -> SetCanonicalF(Cur, a.b).purged
             [] OTHER -> TRUE
Plain == IsRec /\ ~gh.f1 /\ ~CallF1 /\ ~CallReorgs
RecWellFormed   == IsRec => R.hb \in Ids /\ R.hh \in Ids /\ R.hs \in Ids /\ \A i \in 1..N : R.canon[i] \in Ids \cup {Nil}
RecHeadState    == IsRec => R.hb \in RHas
RecHeadOrder    == IsRec => Num(R.hh) >= Num(R.hb) /\ R.hb \in Anc(R.hh)
RecDataClosed   == IsRec => /\ \A b \in RKnown : Par(b) = 0 \/ Par(b) \in RKnown
                            /\ \A i \in 1..N : R.canon[i] # Nil => R.canon[i] \in RKnown
                            /\ {R.hb, R.hh, R.hs} \subseteq RKnown \cup {0}
RecCanonHasHeads == IsRec => RC(Num(R.hb)) = R.hb /\ RC(Num(R.hh)) = R.hh
RecCanonLinked  == IsRec => \A i \in 1..N : R.canon[i] # Nil => (Num(R.canon[i]) = i /\ Par(R.canon[i]) = RC(i - 1))
RecCanonEndsAtHead == IsRec => RTop = Num(R.hh)
(* KNOWN-FINDING (C39-F4, see NOTES.md): reorg and SetHead update the number index, the  *)
(* lookups and the head markers in several batches; a crash between them leaves heads without *)
(* index entries or index entries above the heads.  Listed as open in known_findings.json; the *)
(* index claims on crash images are made for calls that do not reorganise or rewind.           *)
RecCanonHasHeadsPending   == Plain => RecCanonHasHeads
RecCanonLinkedPending     == Plain => RecCanonLinked
RecCanonEndsAtHeadPending == Plain => RecCanonEndsAtHead
(* nothing that was stored before the interrupted call is lost (SetHead deletes on purpose) *)
RecNoLoss       == (IsRec /\ rec.act.op # "SetHead") => known \subseteq RKnown
(* a transaction resolved from the database sits in a block of the recovered canonical chain *)
RecLookupSound  == Plain =>
                     \A t \in 1..NT : R.dresolve[t] # Nil =>
                        LET b == R.dresolve[t] IN b \in Anc(R.hh) /\ RC(Num(b)) = b /\ t \in TxSet(b)
(* importing the blocks up to the head of the node that did not crash reaches that head, its index and state *)
RecHeals        == Plain => rec.heal.err = "none" /\ rec.heal.hb = rec.heal.target /\ rec.heal.canonok /\ rec.heal.state
(* ... and the recovered node can be shut down cleanly (Stop dereferences the canonical block at and below the head) *)
RecStops        == Plain => rec.heal.stop = "ok"
(* strict versions (C39-F4 replay) *)
RecHealsStrict  == (IsRec /\ rec.act.op # "SetHead") => rec.heal.err = "none" /\ rec.heal.hb = rec.heal.target /\ rec.heal.canonok /\ rec.heal.state
RecStopsStrict  == IsRec => rec.heal.stop = "ok"

TraceAccepted == TLCGet("stats").diameter - 1 = Len(Trace)
=============================================================================
