----------------------------- MODULE ChainTrace -----------------------------
(* Trace validation for Chain: every line of the ndjson trace recorded from a real           *)
(* core.BlockChain (harness/cmd/c38 -mode record) must be explained by the action of         *)
(* Chain.tla it names, and the state projected from rawdb / the chain object after the call  *)
(* (stored blocks, state availability, receipts, number index, head markers, lookup table,   *)
(* resolved transaction and receipt lookups, events, result class) must equal the            *)
(* specification's successor state.  All invariants of Chain.tla are evaluated after every   *)
(* real call.                                                                                *)
EXTENDS Chain, Json, IOUtils

Trace == ndJsonDeserialize(IOEnv.TRACE)

VARIABLE l      \* next line of the trace to explain

Ev == Trace[l]
ToSet(s) == {s[i] : i \in 1..Len(s)}

Logged ==
  /\ known' = ToSet(Ev.st.known)
  /\ hasState' \ {0} = ToSet(Ev.st.hasState)
  /\ rcpt' = ToSet(Ev.st.rcpt)
  /\ canon' = Ev.st.canon
  /\ hb' = Ev.st.hb /\ hh' = Ev.st.hh /\ hs' = Ev.st.hs
  /\ txl' = Ev.st.txl /\ tail' = Ev.st.tail
  /\ cache' = Ev.st.resolve
  /\ ProjState'.dresolve = Ev.st.dresolve
  /\ ProjState'.rresolve = Ev.st.rresolve
  /\ ev' = Ev.st.ev
  /\ res'.err = Ev.st.err

Step(A) == l <= Len(Trace) /\ A /\ l' = l + 1

TReset    == Step(Ev.op = "reset" /\ TreeOK(Ev.tree) /\ Reset(Ev.tree, Ev.scheme) /\ Logged)
TInsert   == Step(Ev.op = "InsertChain" /\ InsertChain(Ev.seg) /\ Logged)
TNoHead   == Step(Ev.op = "InsertNoHead" /\ InsertNoHead(Ev.b) /\ Logged)
TSetCanon == Step(Ev.op = "SetCanonical" /\ SetCanonical(Ev.b) /\ Logged)
TSetHead  == Step(Ev.op = "SetHead" /\ SetHead(Ev.n) /\ Logged)
TRestart  == Step(Ev.op = "Restart" /\ Restart /\ Logged)

EmptyTree == [parent |-> <<>>, txs |-> <<>>, ntx |-> 0]
TraceInit == InitWith(EmptyTree, "hash") /\ l = 1
TraceNext == TReset \/ TInsert \/ TNoHead \/ TSetCanon \/ TSetHead \/ TRestart
TraceSpec == TraceInit /\ [][TraceNext]_<<vars, l>>

TraceAccepted == TLCGet("stats").diameter - 1 = Len(Trace)
=============================================================================
