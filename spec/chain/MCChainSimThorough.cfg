SPECIFICATION MCSpec
CONSTANTS MaxSeg = 4
          NBlocks = 7
          NTx = 3
          MaxFork = 2
          Schemes = {"hash", "path"}
          Depth = 10
          Trees <- GenTrees
CONSTRAINT EmitMBT
CONSTRAINT Bound
CHECK_DEADLOCK FALSE
