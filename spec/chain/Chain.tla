------------------------------- MODULE Chain -------------------------------
(* The canonical-chain bookkeeping of core.BlockChain (property C38).                      *)
(*                                                                                        *)
(* A fixed block tree (chosen in Init) is offered to a chain database.  One action per    *)
(* public call of core.BlockChain: InsertChain(batch), InsertBlockWithoutSetHead(b),      *)
(* SetCanonical(b), SetHead(n), Restart (Stop + NewBlockChain on the same database).      *)
(* The bodies follow core/blockchain.go: insertChain (known-block trimming, side chain    *)
(* import on a pruned ancestor, block processing), writeBlockAndSetHead, writeKnownBlock, *)
(* reorg (collect old/new chains, rewrite canonical numbers, delete stale lookups and     *)
(* markers, emit removed / reborn logs), writeHeadBlock, recoverAncestors, SetCanonical,  *)
(* HeaderChain.setHead + setHeadBeyondRoot (rewindHead), Stop (what state survives).      *)
(*                                                                                        *)
(* Persistent state: block data (known), state availability (hasState, durable), stored   *)
(* receipts (rcpt), the number->block index (canon), the three head markers, the tx lookup*)
(* table (txl) and the tx index tail.  Output of the last call: result class and events.  *)
EXTENDS Integers, Sequences, FiniteSets, TLC

CONSTANTS MaxSeg       \* longest batch handed to InsertChain by TLC (model checking only)

Nil == -1

VARIABLES
  tree,      \* [parent : Seq(0..N), txs : Seq(Seq(1..NT)), ntx : Nat]; block ids 1..N, genesis = 0
  scheme,    \* "hash" | "path" : what survives a clean restart
  known,     \* blocks whose header+body are stored (genesis implicit)
  hasState,  \* blocks whose state root can be opened now (memory or disk; genesis included)
  durable,   \* hash scheme: blocks whose state root is on disk
  rcpt,      \* blocks whose receipts are stored
  canon,     \* Seq over 1..N : number -> block id or Nil
  hb, hh, hs,\* head block, head header, head snap block
  txl,       \* Seq over 1..ntx : tx -> block number or Nil (raw lookup entries)
  tail,      \* tx index tail (constant 0: whole chain indexed)
  cache,     \* Seq over 1..ntx : what BlockChain.GetCanonicalTransaction answers (txLookupCache over the database)
  ev,        \* events emitted by the last call
  res,       \* [op, err]: name and result class of the last call
  gh         \* ghost: [kb, rx] blocks the last call made head through writeKnownBlock / re-executed while canonical;
             \*        f1 (sticky): a head was written without reorg while the head header was not the head block

vars  == <<tree, scheme, known, hasState, durable, rcpt, canon, hb, hh, hs, txl, tail, cache, ev, res, gh>>
pvars == <<tree, scheme, known, hasState, durable, rcpt, canon, hb, hh, hs, txl, tail, cache, gh.f1>>   \* what later calls depend on

N     == Len(tree.parent)
NT    == tree.ntx
Ids   == 0..N
Par(b) == tree.parent[b]
RECURSIVE Num(_)
Num(b) == IF b = 0 THEN 0 ELSE 1 + Num(Par(b))
TxsOf(b) == IF b = 0 THEN <<>> ELSE tree.txs[b]
TxSet(b) == {TxsOf(b)[i] : i \in 1..Len(TxsOf(b))}
LogsOf(b) == [i \in 1..Len(TxsOf(b)) |-> <<TxsOf(b)[i], b>>]        \* every tx emits one log
Lg(b, r)  == [i \in 1..Len(TxsOf(b)) |-> <<TxsOf(b)[i], b, r>>]     \* as delivered: r = 1 iff the Removed flag is set
RECURSIVE Anc(_)
Anc(b) == IF b = 0 THEN {0} ELSE {b} \cup Anc(Par(b))                \* inclusive
RECURSIVE PathUp(_, _)
PathUp(b, a) == IF b = a THEN <<>> ELSE <<b>> \o PathUp(Par(b), a)   \* b first, a excluded
RECURSIVE CommonAnc(_, _)
CommonAnc(x, y) == IF x = y THEN x
                   ELSE IF Num(x) > Num(y) THEN CommonAnc(Par(x), y)
                   ELSE IF Num(y) > Num(x) THEN CommonAnc(x, Par(y))
                   ELSE CommonAnc(Par(x), Par(y))
Rev(s) == [i \in 1..Len(s) |-> s[Len(s) + 1 - i]]
RECURSIVE Flat(_)
Flat(ss) == IF ss = <<>> THEN <<>> ELSE Head(ss) \o Flat(Tail(ss))
SeqSet(s) == {s[i] : i \in 1..Len(s)}

(* A well-formed tree: parents precede children, no transaction twice on one branch. *)
TreeOK(t) ==
  /\ \A b \in 1..Len(t.parent) : t.parent[b] \in 0..(b-1)
  /\ Len(t.txs) = Len(t.parent)
  /\ \A b \in 1..Len(t.parent) : \A i \in 1..Len(t.txs[b]) : t.txs[b][i] \in 1..t.ntx

NoEv == [chain |-> <<>>, crcpt |-> <<>>, head |-> <<>>, rm |-> <<>>, logs |-> <<>>]

(* ------------------------------------------------------------------------------------ *)
(* The mutable part as a record so that the call bodies can be written as functions.     *)
Cur == [known |-> known, hasState |-> hasState, rcpt |-> rcpt, canon |-> canon,
        hb |-> hb, hh |-> hh, hs |-> hs, txl |-> txl, ev |-> NoEv, err |-> "none", kb |-> {}, rx |-> {}, f1 |-> FALSE, purged |-> FALSE]

CanonAt(S, n) == IF n = 0 THEN 0 ELSE IF n > N THEN Nil ELSE S.canon[n]
HasBlock(S, b) == b = 0 \/ b \in S.known
HasSt(S, b)    == b = 0 \/ b \in S.hasState
KnownWS(S, b)  == HasBlock(S, b) /\ HasSt(S, b)                   \* HasBlockAndState
DbLogs(S, b)   == IF b \in S.rcpt THEN LogsOf(b) ELSE <<>>        \* collectLogs reads stored receipts
DbLg(S, b, r)  == IF b \in S.rcpt THEN Lg(b, r) ELSE <<>>         \* ... a fresh copy, Removed set as asked
Emit(S, k, x)  == [S EXCEPT !.ev[k] = Append(@, x)]
EmitNE(S, k, x) == IF x = <<>> THEN S ELSE Emit(S, k, x)

(* what the insert iterator reports for block b (header verification + ValidateBody) *)
Verdict(S, b) ==
  IF ~HasBlock(S, Par(b)) THEN "unknown"
  ELSE IF KnownWS(S, b) THEN "known"
  ELSE IF HasSt(S, Par(b)) THEN "ok" ELSE "pruned"

(* writeHeadBlock: canonical number, tx lookups and the three markers in one batch *)
WriteHead(S, b) ==
  [S EXCEPT !.canon = [@ EXCEPT ![Num(b)] = b],
            !.txl   = [t \in 1..NT |-> IF t \in TxSet(b) THEN Num(b) ELSE @[t]],
            !.hb = b, !.hh = b, !.hs = b]

(* reorg(oldHead, newHead): the new head itself is left to the caller *)
RECURSIVE WriteHeads(_, _, _)
WriteHeads(S, nc, i) == IF i < 2 THEN S ELSE WriteHeads(WriteHead(S, nc[i]), nc, i - 1)

Reorg(S, old, new) ==
  LET c      == CommonAnc(old, new)
      oc     == PathUp(old, c)                      \* old head first
      nc     == PathUp(new, c)                      \* new head first
      rmLogs == Flat([i \in 1..Len(oc) |-> DbLg(S, oc[Len(oc) + 1 - i], 1)])     \* forward order, Removed = true
      reborn == Flat([i \in 1..(IF Len(nc) > 1 THEN Len(nc) - 1 ELSE 0) |-> DbLg(S, nc[Len(nc) + 1 - i], 0)])
      S1     == EmitNE(S, "rm", rmLogs)
      S2     == WriteHeads(S1, nc, Len(nc))
      S3     == EmitNE(S2, "logs", reborn)
      delTx  == UNION {TxSet(oc[i]) : i \in 1..Len(oc)}
      newTx  == UNION {TxSet(nc[i]) : i \in 2..Len(nc)}
      from   == IF Len(nc) > 1 THEN Num(nc[2]) ELSE Num(c)
  IN [S3 EXCEPT !.purged = TRUE,
                !.txl   = [t \in 1..NT |-> IF t \in delTx \ newTx THEN Nil ELSE @[t]],
                !.canon = [i \in 1..N |-> IF i > from /\ \A j \in (from+1)..i : S3.canon[j] # Nil THEN Nil ELSE @[i]]]

(* F1Fixed = TRUE models the candidate fix of C38-F1 (NOTES.md): the callers of writeHeadBlock also run *)
(* reorg when the head header is not the head block, which clears the index above the head. *)
F1Fixed == FALSE
SetHeadTo(S, b) == WriteHead(IF Par(b) # S.hb \/ (F1Fixed /\ S.hh # S.hb) THEN Reorg(S, S.hb, b)
                                ELSE [S EXCEPT !.f1 = @ \/ S.hh # S.hb], b)

(* writeBlockWithState *)
StoreWithState(S, b) == [S EXCEPT !.known = @ \cup {b}, !.hasState = @ \cup {b}, !.rcpt = @ \cup {b}]

(* ProcessBlock + writeBlockAndSetHead (emitHeadEvent = false) *)
Process(S, b) ==
  LET S0 == IF CanonAt(S, Num(b)) = b /\ Num(b) <= Num(S.hb) THEN [S EXCEPT !.rx = @ \cup {b}] ELSE S
      S1 == SetHeadTo(StoreWithState(S0, b), b)
  IN EmitNE(Emit(Emit(S1, "chain", b), "crcpt", Lg(b, 0)), "logs", Lg(b, 0))

(* writeKnownBlock: no ChainEvent and no logs for the block itself *)
WriteKnown(S, b) == SetHeadTo([S EXCEPT !.kb = @ \cup {b}], b)

RECURSIVE FirstWithState(_, _)
FirstWithState(S, b) == IF HasSt(S, b) THEN b ELSE FirstWithState(S, Par(b))

(* recoverAncestors: re-execute b and its stateless ancestors without touching the head *)
Stateless(S, b) == {a \in Anc(b) : \A x \in Anc(b) : Num(x) >= Num(a) /\ Num(x) <= Num(b) => ~HasSt(S, x)}
Recover(S, b) == LET l == Stateless(S, b) IN
  [S EXCEPT !.known = @ \cup l, !.hasState = @ \cup l, !.rcpt = @ \cup l]

RECURSIVE InsertChainF(_, _)
RECURSIVE Phase3(_, _, _, _)
RECURSIVE SideWrite(_, _, _)

(* deferred head event of insertChain *)
Finish(S, last) == IF last # Nil /\ S.hb = last THEN Emit(S, "head", last) ELSE S

(* the block processing loop *)
Phase3(S, seg, i, last) ==
  IF i > Len(seg) THEN Finish(S, last)
  ELSE LET b == seg[i]  v == Verdict(S, b) IN
       IF v = "known" THEN Phase3(WriteKnown(S, b), seg, i + 1, b)
       ELSE IF v = "ok" THEN Phase3(Process(S, b), seg, i + 1, b)
       ELSE Finish(S, last)                             \* not reachable for contiguous batches

(* insertSideChain, first loop: store blocks without state while their ancestor is pruned *)
SideWrite(S, seg, i) ==
  IF i > Len(seg) \/ Verdict(S, seg[i]) # "pruned" THEN [S |-> S, i |-> i]
  ELSE SideWrite([S EXCEPT !.known = @ \cup {seg[i]}], seg, i + 1)

SideChain(S, seg, i, last) ==
  LET w    == SideWrite(S, seg, i)
      top  == seg[w.i - 1]                              \* it.previous()
      blks == Rev(PathUp(top, FirstWithState(w.S, top)))   \* stateless ancestors, lowest first
  IN IF blks = <<>> THEN Finish(w.S, last)
     ELSE Finish(InsertChainF(w.S, blks), last)

(* insertChain(chain, setHead = true) *)
RECURSIVE SkipKnown(_, _, _, _)
SkipKnown(S, seg, i, cur) ==
  IF i <= Len(seg) /\ Verdict(S, seg[i]) = "known" /\ Num(seg[i]) <= Num(cur) /\ CanonAt(S, Num(seg[i])) = seg[i]
  THEN SkipKnown(S, seg, i + 1, cur) ELSE i
RECURSIVE WriteKnowns(_, _)
WriteKnowns(R, seg) ==
  IF R.i <= Len(seg) /\ Verdict(R.S, seg[R.i]) = "known"
  THEN WriteKnowns([S |-> WriteKnown(R.S, seg[R.i]), i |-> R.i + 1, last |-> seg[R.i]], seg) ELSE R

InsertChainF(S, seg) ==
  LET i1 == SkipKnown(S, seg, 1, S.hb)
      R  == WriteKnowns([S |-> S, i |-> i1, last |-> Nil], seg)
  IN IF R.i > Len(seg) THEN Finish(R.S, R.last)
     ELSE LET v == Verdict(R.S, seg[R.i]) IN
          IF v = "pruned" THEN SideChain(R.S, seg, R.i, R.last)
          ELSE IF v = "unknown" THEN Finish([R.S EXCEPT !.err = "unknown_ancestor"], R.last)
          ELSE Phase3(R.S, seg, R.i, R.last)

(* insertChain({b}, setHead = false) *)
InsertNoHeadF(S, b) ==
  LET v == Verdict(S, b) IN
  IF v = "known" THEN
       IF Num(b) <= Num(S.hb) /\ CanonAt(S, Num(b)) = b THEN S
       ELSE Finish(WriteKnown(S, b), b)                 \* the known-block path ignores setHead
  ELSE IF v = "unknown" THEN [S EXCEPT !.err = "unknown_ancestor"]
  ELSE IF v = "pruned" THEN Recover(S, b)
  ELSE StoreWithState(S, b)

(* SetCanonical(b), b stored *)
SetCanonicalF(S, b) ==
  LET S0 == IF HasSt(S, b) THEN S ELSE Recover(S, b)
      S1 == SetHeadTo(S0, b)
  IN Emit(EmitNE(Emit(Emit(S1, "chain", b), "crcpt", DbLg(S1, b, 0)), "logs", DbLg(S1, b, 0)), "head", b)

(* SetHead(n): HeaderChain.setHead with the update/delete callbacks of setHeadBeyondRoot *)
MaxNum(S) == LET ns == {Num(b) : b \in S.known} IN IF ns = {} THEN 0 ELSE CHOOSE m \in ns : \A k \in ns : k <= m
RECURSIVE Rewind(_, _, _)
Rewind(S, n, first) ==
  IF Num(S.hh) <= n THEN S
  ELSE LET hdr == S.hh
           p   == Par(hdr)
           S1  == IF Num(p) <= Num(S.hb) THEN [S EXCEPT !.hb = FirstWithState(S, p)] ELSE S
           S2  == IF Num(p) < Num(S1.hs) THEN [S1 EXCEPT !.hs = p] ELSE S1
           top == IF first THEN MaxNum(S) ELSE Num(hdr)
           del == Num(hdr)..top
       IN Rewind([S2 EXCEPT !.hh = p,
                            !.known = {b \in @ : Num(b) \notin del},
                            !.rcpt  = {b \in @ : Num(b) \notin del},
                            !.canon = [i \in 1..N |-> IF i \in del THEN Nil ELSE @[i]]], n, FALSE)
SetHeadF(S, n) == LET S1 == Rewind(S, n, TRUE) IN Emit([S1 EXCEPT !.purged = TRUE], "head", S1.hb)

(* ------------------------------------------------------------------------------------ *)
(* The tx indexer runs with limit 0 (index the whole chain) on a database whose index tail *)
(* is already 0: its background runs are no-ops, every lookup entry is written or deleted  *)
(* synchronously by writeHeadBlock / reorg.  (The very first run on a fresh database is    *)
(* scheduled by a racy select in txIndexer.loop and is left out, see NOTES.md.)            *)
(* ReadCanonicalTransaction on the database: the stored number, the block the index has for  *)
(* that number, and the transaction must be in that block's body                            *)
ResolveDb(S, t) == IF S.txl[t] = Nil THEN Nil
                   ELSE LET b == CanonAt(S, S.txl[t]) IN
                        IF b # Nil /\ b # 0 /\ b \in S.known /\ t \in TxSet(b) THEN b ELSE Nil
(* GetCanonicalTransaction: a cached answer wins; the cache is purged by reorg and SetHead.   *)
(* The harness looks every transaction up after every call, so every answer is cached.      *)
Lookups(S) == [t \in 1..NT |-> IF ~S.purged /\ cache[t] # Nil THEN cache[t] ELSE ResolveDb(S, t)]

Commit(S, o) ==
     /\ known' = S.known /\ hasState' = S.hasState /\ rcpt' = S.rcpt /\ canon' = S.canon
     /\ hb' = S.hb /\ hh' = S.hh /\ hs' = S.hs /\ txl' = S.txl /\ cache' = Lookups(S)
     /\ ev' = S.ev /\ res' = [op |-> o, err |-> S.err] /\ gh' = [kb |-> S.kb, rx |-> S.rx, f1 |-> gh.f1 \/ S.f1]
     /\ UNCHANGED <<tree, scheme, durable, tail>>

(* ------------------------------------------------------------------------------------ *)
IsPath(seg) == Len(seg) >= 1 /\ \A i \in 1..Len(seg) : seg[i] \in 1..N /\ (i > 1 => Par(seg[i]) = seg[i-1])

InsertChain(seg)  == IsPath(seg) /\ Commit(InsertChainF(Cur, seg), "InsertChain")
InsertNoHead(b)   == b \in 1..N /\ Commit(InsertNoHeadF(Cur, b), "InsertNoHead")
SetCanonical(b)   == b \in known /\ Commit(SetCanonicalF(Cur, b), "SetCanonical")
SetHead(n)        == n \in 0..N /\ Commit(SetHeadF(Cur, n), "SetHead")

(* Stop + NewBlockChain on the same database.  Hash scheme: Stop commits the head state   *)
(* and its canonical parent, everything else that was only in memory is gone.  Path        *)
(* scheme: the journal keeps the layers from the head down to the disk layer.              *)
Restart ==
  LET prev == IF Num(hb) >= 2 THEN {CanonAt(Cur, Num(hb) - 1)} ELSE {}
      dur  == durable \cup (({hb} \cup prev) \cap hasState)
      keep == IF scheme = "hash" THEN dur ELSE hasState \cap Anc(hb)
  IN /\ hasState' = keep \cup {0}
     /\ cache' = [t \in 1..NT |-> ResolveDb(Cur, t)]
     /\ durable' = IF scheme = "hash" THEN dur ELSE durable
     /\ ev' = NoEv /\ res' = [op |-> "Restart", err |-> "none"] /\ gh' = [kb |-> {}, rx |-> {}, f1 |-> gh.f1]
     /\ UNCHANGED <<tree, scheme, known, rcpt, canon, hb, hh, hs, txl, tail>>

InitWith(t, sc) ==
  /\ tree = t /\ scheme = sc
  /\ known = {} /\ hasState = {0} /\ durable = {0} /\ rcpt = {}
  /\ canon = [i \in 1..Len(t.parent) |-> Nil]
  /\ hb = 0 /\ hh = 0 /\ hs = 0
  /\ txl = [i \in 1..t.ntx |-> Nil] /\ tail = 0
  /\ cache = [i \in 1..t.ntx |-> Nil]
  /\ ev = NoEv /\ res = [op |-> "init", err |-> "none"] /\ gh = [kb |-> {}, rx |-> {}, f1 |-> FALSE]

(* a fresh database with tree t (trace validation: between concatenated traces) *)
Reset(t, sc) ==
  /\ tree' = t /\ scheme' = sc
  /\ known' = {} /\ hasState' = {0} /\ durable' = {0} /\ rcpt' = {}
  /\ canon' = [i \in 1..Len(t.parent) |-> Nil]
  /\ hb' = 0 /\ hh' = 0 /\ hs' = 0
  /\ txl' = [i \in 1..t.ntx |-> Nil] /\ tail' = 0
  /\ cache' = [i \in 1..t.ntx |-> Nil]
  /\ ev' = NoEv /\ res' = [op |-> "reset", err |-> "none"] /\ gh' = [kb |-> {}, rx |-> {}, f1 |-> FALSE]

(* all parent-linked batches of at most MaxSeg blocks *)
RECURSIVE PathsFrom(_, _)
PathsFrom(b, k) == {<<b>>} \cup (IF k <= 1 THEN {} ELSE
                    UNION {{<<b>> \o p : p \in PathsFrom(c, k - 1)} : c \in {x \in 1..N : Par(x) = b}})
Segs == UNION {PathsFrom(b, MaxSeg) : b \in 1..N}

Next ==
  \/ \E seg \in Segs : InsertChain(seg)
  \/ \E b \in 1..N : InsertNoHead(b)
  \/ \E b \in 1..N : SetCanonical(b)
  \/ \E n \in 0..N : SetHead(n)
  \/ Restart

(* ------------------------------ properties (C38) ------------------------------------- *)
CanonTop == IF \E i \in 1..N : canon[i] # Nil THEN CHOOSE i \in 1..N : canon[i] # Nil /\ \A j \in 1..N : canon[j] # Nil => j <= i ELSE 0
CAt(n) == IF n = 0 THEN 0 ELSE canon[n]

TypeOK ==
  /\ known \subseteq 1..N /\ hasState \subseteq Ids /\ rcpt \subseteq 1..N
  /\ hb \in Ids /\ hh \in Ids /\ hs \in Ids

(* block data is ancestor-closed, every marker points at stored data *)
DataClosed == /\ \A b \in known : Par(b) = 0 \/ Par(b) \in known
              /\ \A i \in 1..N : canon[i] # Nil => canon[i] \in known
              /\ HasBlock(Cur, hb) /\ HasBlock(Cur, hh) /\ HasBlock(Cur, hs)

(* the number index is a parent-linked chain from genesis ... *)
CanonLinked == \A i \in 1..N : canon[i] # Nil => Num(canon[i]) = i /\ Par(canon[i]) = CAt(i - 1)
(* ... that contains the head block and ends at the head header *)
CanonHasHeads == CAt(Num(hb)) = hb /\ CAt(Num(hh)) = hh /\ CAt(Num(hs)) = hs
CanonEndsAtHead == CanonTop = Num(hh)

HeadOrder      == Num(hh) >= Num(hb) /\ hb \in Anc(hh)
HeadStateAvail == HasSt(Cur, hb)

(* lookups: what GetCanonicalTransaction answers (cache) and what the database resolves *)
Resolve(t) == ResolveDb(Cur, t)
OnChain(b) == b # Nil /\ b \in Anc(hh) /\ CAt(Num(b)) = b
(* every transaction of the canonical chain up to the head block is found, in its block *)
LookupComplete == \A n \in 1..Num(hb) : CAt(n) # Nil => (\A t \in TxSet(CAt(n)) : cache[t] = CAt(n) /\ Resolve(t) = CAt(n))
(* and nothing else is: an answer names a block of the canonical chain that contains the transaction *)
LookupSound == \A t \in 1..NT : /\ (cache[t] # Nil => (OnChain(cache[t]) /\ t \in TxSet(cache[t])))
                                 /\ (Resolve(t) # Nil => OnChain(Resolve(t)))
CacheCoherent == \A t \in 1..NT : cache[t] = Resolve(t)

(* what the harness observes on core.BlockChain / rawdb after every call *)
ResolveRcpt(t) == LET b == Resolve(t) IN IF b # Nil /\ b \in rcpt THEN b ELSE Nil
ProjState == [known |-> known, hasState |-> hasState \ {0}, rcpt |-> rcpt, canon |-> canon,
              hb |-> hb, hh |-> hh, hs |-> hs, txl |-> txl, tail |-> tail,
              clogs    |-> [n \in 1..N |-> IF n <= Num(hb) /\ canon[n] # Nil /\ canon[n] \in rcpt THEN Lg(canon[n], 0) ELSE <<>>],
              resolve  |-> cache,
              dresolve |-> [t \in 1..NT |-> Resolve(t)],
              rresolve |-> [t \in 1..NT |-> ResolveRcpt(t)],
              ev |-> ev, err |-> res.err]

(* events: a call that can reorganise the chain announces exactly the logs that left and     *)
(* the logs that entered the canonical chain (up to the head block)                          *)
CanonBlocks == {CAt(i) : i \in 1..Num(hb)}
LogSet(bs)  == UNION {SeqSet(LogsOf(b)) : b \in bs}
(* (SetCanonical of a block that is already canonical re-announces that block; the only      *)
(* caller, the engine API, never does that: excluded from the claim)                          *)
Redundant == res'.op = "SetCanonical" /\ ev'.chain[1] \in CanonBlocks
ReorgCall == res'.op \in {"InsertChain", "InsertNoHead", "SetCanonical"} /\ ~Redundant
Pairs(ls) == {<<x[1], x[2]>> : x \in SeqSet(ls)}
Removed   == Pairs(Flat(ev'.rm))
Added     == Pairs(Flat(ev'.logs))
(* removed logs carry the Removed flag; announced logs and the receipts of a ChainEvent do not *)
FlagsRight == [][/\ \A x \in SeqSet(Flat(ev'.rm)) : x[3] = 1
                 /\ \A x \in SeqSet(Flat(ev'.logs)) \cup SeqSet(Flat(ev'.crcpt)) : x[3] = 0]_vars
RemovedLogsExact   == [][ReorgCall => Removed = LogSet(CanonBlocks \ CanonBlocks')]_vars
AddedLogsCanonical == [][ReorgCall => Added \subseteq LogSet(CanonBlocks')]_vars
AddedLogsComplete  == [][ReorgCall => LogSet(CanonBlocks' \ CanonBlocks) \subseteq Added]_vars
AddedLogsNoDup     == [][ReorgCall => Added \subseteq LogSet(CanonBlocks' \ CanonBlocks)]_vars
(* the strict claim *)
EventsDescribeSwitch == RemovedLogsExact /\ AddedLogsComplete /\ AddedLogsNoDup
RemovedWereCanonical == [][ReorgCall => Removed \subseteq LogSet(CanonBlocks)]_vars

(* KNOWN-FINDING (C38-F2, see NOTES.md): the strict claim fails on the model exactly as it *)
(* fails on core.BlockChain for calls that                                                    *)
(*   kb : make a stored block with state the head through writeKnownBlock (no ChainEvent and  *)
(*        no logs are sent for it),                                                            *)
(*   rx : re-execute a block that is already canonical because its state was pruned (its logs *)
(*        are sent again, the blocks above it are announced as removed),                       *)
(*   or move a block whose receipts were never stored (left behind by a kb call) into or out  *)
(*   of the canonical chain.  Listed as open in known_findings.json; the claim is checked for all other   *)
(*   calls.                                                                                    *)
CleanCall == /\ gh'.kb = {} /\ gh'.rx = {}
             /\ (CanonBlocks \ CanonBlocks') \subseteq rcpt
             /\ (CanonBlocks' \ CanonBlocks) \subseteq rcpt'
EventsDescribeSwitchPending ==
  [][ReorgCall /\ CleanCall => /\ Removed = LogSet(CanonBlocks \ CanonBlocks')
                               /\ Added = LogSet(CanonBlocks' \ CanonBlocks)]_vars

(* KNOWN-FINDING (C38-F1, see NOTES.md): writeHeadBlock moves the head header to the new  *)
(* head block unconditionally; when the head header was above the head block (after a SetHead *)
(* onto a block without state, or after crash repair) the number index keeps entries above    *)
(* the new head.  stale = numbers above the head header that still carry an entry.            *)
Stale == {i \in 1..N : i > Num(hh) /\ canon[i] # Nil}
CanonLinkedToHead == \A i \in 1..Num(hh) : canon[i] # Nil /\ Num(canon[i]) = i /\ (gh.f1 \/ Par(canon[i]) = CAt(i - 1))
CanonLinkedPending     == gh.f1 \/ CanonLinked
CanonEndsAtHeadPending == gh.f1 \/ CanonEndsAtHead
LookupCompletePending  == gh.f1 \/ LookupComplete
LookupSoundPending     == gh.f1 \/ LookupSound
CacheCoherentPending   == gh.f1 \/ CacheCoherent

(* a head event names the head block *)
HeadEventIsHead == [][ev'.head # <<>> => ev'.head[Len(ev'.head)] = hb']_vars
=============================================================================
