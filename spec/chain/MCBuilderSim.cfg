SPECIFICATION Spec
CONSTANTS Unit = 21000
          Limits = {3, 4, 5}
          PlainAccts = 3
          BlobAccts = 2
          MaxLen = 2
          BlobMaxLen = 2
          Tips = {1, 2, 3}
          GasShapes <- GS5
          PlainCls = {"ok", "ok", "nonceLow", "invalid", "evicted"}
          BlobCls = {"ok", "invalid"}
          BlobCounts = {1, 2}
          MaxBlobsSet = {1, 2, 3}
          Amsterdam = FALSE
          StateShapes = {0}
          EmitCases = TRUE
INVARIANTS OnlyOk NoDup NonceOrder BlobLimit GasLimit ImportValid Progress RevDisjoint NoFitLeft
CONSTRAINT Emit
CHECK_DEADLOCK FALSE
