SPECIFICATION MCSpec
CONSTANTS MaxSeg = 3
          NBlocks = 5
          NTx = 2
          MaxFork = 2
          Schemes = {"hash", "path"}
          Depth = 8
          Trees <- GenTrees
CONSTRAINT EmitMBT
CONSTRAINT Bound
CHECK_DEADLOCK FALSE
