SPECIFICATION MCSpec
CONSTANTS MaxSeg = 3
          MaxC = 7
          MaxS = 2
          MaxCrashes = 2
          Schemes = {"hash", "path"}
          SnapModes = {TRUE, FALSE}
          Depth = 0
INVARIANTS TypeOK CrashHeadState CrashCanon CrashCanonWeak AncientsConsistent ReimportHeals
PROPERTIES NoLossBelowPersisted
VIEW View
CHECK_DEADLOCK FALSE
