SPECIFICATION MCSpec
CONSTANTS MaxLen = 3
          MaxId = 3
          NFilters = 4
          MaxQueries = 1
          HistLen = 0
INVARIANTS ExactResult ChainOrderNoDup SessionExact
VIEW View
CHECK_DEADLOCK FALSE
