\* simulation mode: random behaviours are printed (tag MBT) and turned into schedules for the real index
SPECIFICATION MCSpec
CONSTANTS MaxLen = 5
          MaxId = 9
          NFilters = 4
          MaxQueries = 3
          HistLen = 24
INVARIANTS ExactResult ChainOrderNoDup SessionExact
CONSTRAINT Emit
CHECK_DEADLOCK FALSE
