SPECIFICATION MCSpec
CONSTANTS MaxSeg = 2
          NBlocks = 5
          NTx = 2
          MaxFork = 2
          Schemes = {"hash"}
          Depth = 0
          Trees <- FindingTrees
INVARIANTS CanonLinked
VIEW View
CHECK_DEADLOCK FALSE
