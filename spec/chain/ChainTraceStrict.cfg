SPECIFICATION TraceSpec
CONSTANTS MaxSeg = 0
INVARIANTS TypeOK DataClosed CanonHasHeads CanonLinked CanonEndsAtHead HeadOrder HeadStateAvail LookupComplete LookupSound CacheCoherent
PROPERTIES RemovedLogsExact AddedLogsComplete AddedLogsNoDup HeadEventIsHead FlagsRight
POSTCONDITION TraceAccepted
CHECK_DEADLOCK FALSE
