-------------------------- MODULE LogIndexTrace --------------------------
(* Trace validation for LogIndex (C40): chains, reorgs and range queries executed on the real   *)
(* core/filtermaps index and eth/filters.Filter.Logs.  Every recorded query outcome (logs or      *)
(* error class) is installed as the specification's `outcome` for the chain view the session     *)
(* ended with, and the specification's invariants ExactResult / ChainOrderNoDup (Scan, Match,     *)
(* range resolution of UpdateView) decide whether the real result is the right one.               *)
EXTENDS LogIndex, Json, IOUtils

Trace == ndJsonDeserialize(IOEnv.TRACE)

VARIABLES l, known          \* next trace line; all blocks ever made: id -> Block
Ev == Trace[l]

ToSet(s)  == {s[i] : i \in DOMAIN s}
Learn(K, bs) == [i \in DOMAIN K \cup {b.id : b \in ToSet(bs)} |->
                   IF i \in DOMAIN K THEN K[i] ELSE CHOOSE b \in ToSet(bs) : b.id = i]
BlocksOf(K, ids) == [i \in DOMAIN ids |-> K[ids[i]]]
FilterOf(f) == [addrs |-> ToSet(f.addrs), topics |-> [i \in DOMAIN f.topics |-> ToSet(f.topics[i])]]

Step(A) == l <= Len(Trace) /\ A /\ l' = l + 1

TChain == Step(/\ Ev.op \in {"init", "chain"}
               /\ known' = Learn(IF Ev.op = "init" THEN <<>> ELSE known, Ev.blocks)
               /\ chain' = BlocksOf(known', Ev.chain)
               /\ outcome' = [kind |-> "none"]
               /\ UNCHANGED <<idx, valid, q>>)

(* the session's final chain view is the chain at its last CurrentView call; range and error class *)
(* follow UpdateView on that view                                                                   *)
TQuery == Step(/\ Ev.op = "query"
               /\ known' = Learn(known, Ev.blocks)
               /\ chain' = BlocksOf(known', Ev.chain)
               /\ LET view == BlocksOf(known', Ev.views[Len(Ev.views)])
                      head == Len(view) - 1
                      fb   == IF Ev.first = Latest THEN head ELSE Ev.first
                      lb   == IF Ev.last = Latest THEN head ELSE Ev.last
                      kind == IF Inverted(Ev.first, Ev.last) \/ fb > lb THEN "invalid" ELSE IF lb > head THEN "future" ELSE "ok"
                  IN /\ \/ Ev.err = kind
                        \* an indexed search may fail when the indexed range moves under it (see QSearchFails)
                        \/ Ev.err = "error" /\ kind = "ok" /\ (Ev.progress # Ev.progress2 \/ Ev.nsched > 0)
                     /\ outcome' = [kind |-> Ev.err, logs |-> Ev.result, view |-> view, f |-> FilterOf(Ev.filter),
                                    first |-> Ev.first, last |-> Ev.last, sr |-> Rng(fb, lb + 1)]
               /\ UNCHANGED <<idx, valid, q>>)

TraceInit == /\ l = 1 /\ known = <<>>
             /\ chain = <<>> /\ idx = [view |-> <<>>, rng |-> Rng(0, 0)] /\ valid = Rng(0, 0) /\ q = Idle
             /\ outcome = [kind |-> "none"]
TraceNext == TChain \/ TQuery
TraceSpec == TraceInit /\ [][TraceNext]_<<vars, l, known>>

TraceAccepted == TLCGet("stats").diameter - 1 = Len(Trace)
=============================================================================
