SPECIFICATION Spec
CONSTANTS Unit = 21000
          Limits = {3, 4}
          PlainAccts = 2
          BlobAccts = 1
          MaxLen = 2
          BlobMaxLen = 0
          Tips = {1}
          GasShapes <- GS3
          PlainCls = {"ok", "invalid"}
          BlobCls = {"ok"}
          BlobCounts = {1}
          MaxBlobsSet = {1}
          Amsterdam = TRUE
          StateShapes = {0, 1}
          EmitCases = FALSE
INVARIANTS OnlyOk NoDup NonceOrder BlobLimit GasLimit ImportValid Progress RevDisjoint
CHECK_DEADLOCK FALSE
