SPECIFICATION TraceSpec
CONSTANTS MaxSeg = 0
INVARIANTS TypeOK DataClosed CanonHasHeads CanonLinkedToHead StaleIsLeftover HeadOrder HeadStateAvail LookupComplete LookupSound
PROPERTIES EventsDescribeSwitchPending AddedLogsCanonical RemovedWereCanonical HeadEventIsHead
POSTCONDITION TraceAccepted
CHECK_DEADLOCK FALSE
