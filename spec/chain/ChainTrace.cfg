SPECIFICATION TraceSpec
CONSTANTS MaxSeg = 0
INVARIANTS TypeOK DataClosed CanonHasHeads CanonLinkedToHead CanonLinkedPending CanonEndsAtHeadPending HeadOrder HeadStateAvail LookupCompletePending LookupSoundPending CacheCoherentPending
PROPERTIES EventsDescribeSwitchPending AddedLogsCanonical RemovedWereCanonical HeadEventIsHead FlagsRight
POSTCONDITION TraceAccepted
CHECK_DEADLOCK FALSE
