SPECIFICATION TraceSpec
CONSTANTS MaxSeg = 0
INVARIANTS TypeOK DataClosed CanonHasHeads HeadOrder HeadStateAvail LookupComplete LookupSound
POSTCONDITION TraceAccepted
CHECK_DEADLOCK FALSE
