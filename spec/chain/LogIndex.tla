---------------------------- MODULE LogIndex ----------------------------
(* Log queries through the filtermaps log index (core/filtermaps + eth/filters), property C40. *)
(*                                                                                              *)
(* The canonical chain changes (Extend, Reorg) while the indexer follows it asynchronously       *)
(* (Retarget = revert to the common ancestor of its view and the new target, Render = any        *)
(* change of the fully indexed block range of its view: head indexing, tail indexing, tail        *)
(* unindexing under a history limit) and while a range query runs as the multi-step search        *)
(* session of eth/filters.Filter.rangeLogs: sync with the matcher, take the current chain view,   *)
(* search the indexed part through the index (potential matches filtered exactly), re-sync and    *)
(* keep only the range that stayed valid, scan unindexed parts directly from the receipts,        *)
(* refresh the chain view and trim what a reorg invalidated, until the match range covers the     *)
(* search range.  The matcher's valid range is the intersection of the indexed block ranges of    *)
(* all index updates since its last sync (FilterMaps.updateMatchersValidRange).                   *)
(*                                                                                              *)
(* A block is [id, logs]; a log is [addr, topics]; equal ids mean the same block.  Block          *)
(* numbers start at 0 (chain[1] is block 0).  Ranges are [first, after) pairs.                    *)
EXTENDS Integers, Sequences, FiniteSets, TLC

VARIABLES chain,      \* canonical chain: Seq(Block)
          idx,        \* the index: [view: Seq(Block), rng: range of fully indexed blocks of view]
          valid,      \* the query's matcher backend: blocks that stayed indexed since its last sync
          q,          \* the running query session, or [phase |-> "idle"]
          outcome     \* result of the last finished query: [kind, logs, view, f, first, last]

vars == <<chain, idx, valid, q, outcome>>

(* ------------------------------ ranges ------------------------------ *)
Rng(a, b)     == [first |-> a, after |-> IF b < a THEN a ELSE b]
Empty(r)      == r.after <= r.first
Inter(r, s)   == LET a == IF r.first > s.first THEN r.first ELSE s.first
                     b == IF r.after < s.after THEN r.after ELSE s.after
                 IN IF b <= a THEN Rng(0, 0) ELSE Rng(a, b)
SameRng(r, s) == (Empty(r) /\ Empty(s)) \/ r = s
UnionAdj(r, s) == IF Empty(r) THEN s ELSE IF Empty(s) THEN r
                  ELSE Rng(IF r.first < s.first THEN r.first ELSE s.first, IF r.after > s.after THEN r.after ELSE s.after)

(* ------------------------------ filter semantics (eth_getLogs) ------------------------------ *)
(* a filter is [addrs: set, topics: Seq(set)]: an empty address set / an empty position matches    *)
(* anything; a log with fewer topics than the filter has positions never matches                   *)
Match(log, f) ==
  /\ (f.addrs = {} \/ log.addr \in f.addrs)
  /\ Len(f.topics) <= Len(log.topics)
  /\ \A i \in DOMAIN f.topics : f.topics[i] = {} \/ log.topics[i] \in f.topics[i]

(* matching logs of one block, in log order: [num, id, li] *)
RECURSIVE BlockHits(_, _, _, _)
BlockHits(b, num, f, li) ==
  IF li > Len(b.logs) THEN <<>>
  ELSE (IF Match(b.logs[li], f) THEN << [num |-> num, id |-> b.id, li |-> li] >> ELSE <<>>) \o BlockHits(b, num, f, li + 1)

(* the direct scan of the receipts of view over a block range: chain order, no duplicates *)
RECURSIVE Scan(_, _, _)
Scan(view, f, r) ==
  IF Empty(r) \/ r.first >= Len(view) THEN <<>>
  ELSE BlockHits(view[r.first + 1], r.first, f, 1) \o Scan(view, f, Rng(r.first + 1, r.after))

(* number of leading blocks two views have in common (ChainView.SharedRange) *)
RECURSIVE SharedLen(_, _, _)
SharedLen(v, w, k) == IF k < Len(v) /\ k < Len(w) /\ v[k + 1].id = w[k + 1].id THEN SharedLen(v, w, k + 1) ELSE k
Shared(v, w) == Rng(0, SharedLen(v, w, 0))

Trim(hits, r) == SelectSeq(hits, LAMBDA h : h.num >= r.first /\ h.num < r.after)

(* ------------------------------ chain and indexer ------------------------------ *)
Extend(b) == /\ chain' = Append(chain, b)
             /\ UNCHANGED <<idx, valid, q, outcome>>

Reorg(k, bs) == /\ k >= 1 /\ k < Len(chain)
                /\ chain' = SubSeq(chain, 1, k) \o bs
                /\ UNCHANGED <<idx, valid, q, outcome>>

(* the indexer adopts the current chain as its target: everything beyond the common ancestor is reverted *)
Retarget == /\ idx.view # chain
            /\ idx' = [view |-> chain, rng |-> Inter(idx.rng, Shared(idx.view, chain))]
            /\ valid' = Inter(valid, idx'.rng)
            /\ UNCHANGED <<chain, q, outcome>>

(* any change of the fully indexed range within the indexer's view *)
Render(r) == /\ r.after <= Len(idx.view)
             /\ r # idx.rng
             /\ idx' = [idx EXCEPT !.rng = r]
             /\ valid' = Inter(valid, r)
             /\ UNCHANGED <<chain, q, outcome>>

(* ------------------------------ the search session ------------------------------ *)
Idle == [phase |-> "idle"]
Latest == -1

Finish(kind, s) ==
  /\ outcome' = [kind |-> kind, logs |-> IF kind = "ok" THEN s.matches ELSE <<>>, view |-> s.view, f |-> s.f,
                 first |-> s.first, last |-> s.last, sr |-> s.sr]
  /\ q' = Idle

(* updateChainView: take the current chain, resolve "latest", trim matches a reorg invalidated *)
UpdateView(s) ==
  LET head  == Len(chain) - 1
      fb    == IF s.first = Latest THEN head ELSE s.first
      lb    == IF s.last = Latest THEN head ELSE s.last
      sr    == Rng(fb, lb + 1)
      tr    == Inter(Shared(chain, s.view), sr)
      mr    == IF Empty(s.mr) THEN s.mr ELSE Inter(s.mr, tr)
  IN IF fb > lb THEN [s EXCEPT !.phase = "invalid"]
     ELSE IF lb > head THEN [s EXCEPT !.phase = "future"]
     ELSE [s EXCEPT !.view = chain, !.sr = sr, !.mr = mr, !.matches = IF Empty(mr) THEN <<>> ELSE Trim(s.matches, mr),
                    !.phase = "iterate"]

(* Filter.rangeLogs: newSearchSession = SyncLogIndex + updateChainView *)
(* rangeLogs rejects a range whose first block is above its last one before anything else, with  *)
(* "latest" standing for the largest block number                                               *)
Inverted(first, last) == (first = Latest /\ last # Latest) \/ (first # Latest /\ last # Latest /\ first > last)

QStart(f, first, last) ==
  /\ q.phase = "idle"
  /\ valid' = idx.rng
  /\ LET s0 == UpdateView([phase |-> "start", f |-> f, first |-> first, last |-> last, view |-> chain, sr |-> Rng(0, 0),
                          mr |-> Rng(0, 0), matches |-> <<>>, sync |-> idx, force |-> FALSE, raw |-> <<>>, rawr |-> Rng(0, 0), rawkind |-> "none"])
         s  == IF Inverted(first, last) THEN [s0 EXCEPT !.phase = "invalid"] ELSE s0
     IN IF s.phase \in {"invalid", "future"} THEN Finish(s.phase, s) ELSE q' = s /\ UNCHANGED outcome
  /\ UNCHANGED <<chain, idx>>

(* doSearchIteration, first half: choose the next range and search it.  An indexed search reads the  *)
(* index as it is now (what it returns outside the range that stays valid is discarded at the sync). *)
QSearch ==
  /\ q.phase = "iterate" /\ ~SameRng(q.sr, q.mr)
  /\ LET isr == Inter(q.sr, q.sync.rng)
         hr0 == Rng(q.mr.after, q.sr.after)
         ihr == Inter(hr0, q.sync.rng)
     IN \/ /\ Empty(q.mr) /\ ~Empty(isr)                                    \* no results yet: indexed part first
           /\ q' = [q EXCEPT !.phase = "searched", !.force = FALSE, !.rawkind = "first", !.rawr = isr,
                             !.raw = Scan(idx.view, q.f, Inter(isr, idx.rng))]
        \/ /\ Empty(q.mr) /\ Empty(isr)                                     \* nothing indexed: scan everything
           /\ q' = [q EXCEPT !.phase = "update", !.force = TRUE, !.mr = q.sr, !.matches = Scan(q.view, q.f, q.sr)]
        \/ /\ ~Empty(q.mr) /\ q.mr.first > q.sr.first                        \* tail section: always unindexed
           /\ LET tail == Rng(q.sr.first, q.mr.first) IN
              q' = [q EXCEPT !.phase = "update", !.mr = UnionAdj(tail, q.mr), !.matches = Scan(q.view, q.f, tail) \o q.matches]
        \/ /\ ~Empty(q.mr) /\ q.mr.first = q.sr.first /\ q.sr.after > q.mr.after   \* head section
           /\ IF ~q.force /\ ~Empty(ihr) /\ ihr.first = hr0.first
              THEN q' = [q EXCEPT !.phase = "searched", !.rawkind = "head", !.rawr = ihr,
                                  !.raw = Scan(idx.view, q.f, Inter(ihr, idx.rng))]
              ELSE q' = [q EXCEPT !.phase = "update", !.force = TRUE, !.mr = UnionAdj(q.mr, hr0),
                                  !.matches = q.matches \o Scan(q.view, q.f, hr0)]
  /\ UNCHANGED <<chain, idx, valid, outcome>>

(* The matcher reads the index without excluding the indexer: when the indexed range has moved     *)
(* since the session's last sync (tail unindexed, head reverted) an indexed search may fail with    *)
(* an internal error instead of returning; the caller retries.                                       *)
QSearchFails ==
  /\ q.phase = "iterate" /\ ~SameRng(q.sr, q.mr) /\ ~q.force
  /\ ~Empty(Inter(q.sr, q.sync.rng)) /\ idx # q.sync
  /\ Finish("error", q)
  /\ UNCHANGED <<chain, idx, valid>>

(* doSearchIteration, second half of an indexed search: SyncLogIndex, keep only what stayed valid *)
QSync ==
  /\ q.phase = "searched"
  /\ valid' = idx.rng
  /\ LET tr   == Inter(valid, Shared(q.view, idx.view))
         hmr  == Inter(q.rawr, tr)
         hm   == IF Empty(hmr) THEN <<>> ELSE Trim(q.raw, hmr)
         s    == [q EXCEPT !.sync = idx, !.raw = <<>>, !.phase = "update"]
     IN IF q.rawkind = "first" \/ hmr.first # q.mr.after
        THEN q' = [s EXCEPT !.mr = hmr, !.matches = hm]          \* first section, or not adjacent: (re)start from it
        ELSE q' = [s EXCEPT !.mr = UnionAdj(q.mr, hmr), !.matches = q.matches \o hm]
  /\ UNCHANGED <<chain, idx, outcome>>

(* after every iteration: refresh the chain view *)
QUpdate ==
  /\ q.phase = "update"
  /\ LET s == UpdateView(q) IN
       IF s.phase \in {"invalid", "future"} THEN Finish(s.phase, s) ELSE q' = s /\ UNCHANGED outcome
  /\ UNCHANGED <<chain, idx, valid>>

QEnd ==
  /\ q.phase = "iterate" /\ SameRng(q.sr, q.mr)
  /\ Finish("ok", q)
  /\ UNCHANGED <<chain, idx, valid>>

(* ------------------------------ the property (C40) ------------------------------ *)
(* a completed query returns exactly the logs a direct scan of the canonical receipts returns (for  *)
(* the chain view the session ended with), in chain order and without duplicates                    *)
ExactResult == outcome.kind = "ok" => outcome.logs = Scan(outcome.view, outcome.f, outcome.sr)
Ordered(s) == \A i, j \in DOMAIN s : i < j => (s[i].num < s[j].num \/ (s[i].num = s[j].num /\ s[i].li < s[j].li))
ChainOrderNoDup == outcome.kind = "ok" => Ordered(outcome.logs)
(* while a session runs, what it holds is exact for its match range on its view *)
SessionExact == q.phase \in {"iterate", "update"} =>
                  (Empty(q.mr) /\ q.matches = <<>>) \/ q.matches = Scan(q.view, q.f, q.mr)
=============================================================================
