------------------------------ MODULE MCChain ------------------------------
(* Model-checking wrapper of Chain: the set of block trees TLC explores, the label of the   *)
(* last call (for replay on core.BlockChain) and the behaviour emitter.                      *)
EXTENDS Chain, Json

CONSTANTS NBlocks,     \* blocks per tree (besides genesis)
          NTx,         \* transactions in the universe
          MaxFork,     \* longest branch off the first-born ("main") line
          Schemes,     \* subset of {"hash", "path"}
          Trees,       \* the block trees to explore (cfg: Trees <- GenTrees or an explicit set)
          Depth        \* length of emitted behaviours (simulation)

VARIABLES act, hist

(* parent vectors: block b hangs below an earlier block *)
RECURSIVE Shapes(_)
Shapes(n) == IF n = 0 THEN {<<>>} ELSE {Append(p, q) : p \in Shapes(n - 1), q \in 0..(n - 1)}

RECURSIVE AncP(_, _)
AncP(p, b) == IF b = 0 THEN {} ELSE {p[b]} \cup AncP(p, p[b])          \* proper ancestors
RECURSIVE NumP(_, _)
NumP(p, b) == IF b = 0 THEN 0 ELSE 1 + NumP(p, p[b])
(* block b carries transaction ((b-1) mod NTx)+1 unless an ancestor already does: the same   *)
(* transaction shows up on competing branches, at equal or different heights                  *)
TxOf(p, b) == LET k == ((b - 1) % NTx) + 1 IN
              IF NTx = 0 \/ \E a \in AncP(p, b) : a # 0 /\ ((a - 1) % NTx) + 1 = k THEN <<>> ELSE <<k>>
(* the main line is the chain of first-born children; a side branch is at most MaxFork long   *)
FirstBorn(p, b) == \A c \in 1..Len(p) : (p[c] = p[b] /\ c # b) => c > b
RECURSIVE OffMain(_, _)
OffMain(p, b) == IF b = 0 THEN 0 ELSE IF FirstBorn(p, b) /\ OffMain(p, p[b]) = 0 THEN 0 ELSE 1 + OffMain(p, p[b])
GenTrees == {[parent |-> p, txs |-> [b \in 1..NBlocks |-> TxOf(p, b)], ntx |-> NTx] :
            p \in {q \in Shapes(NBlocks) : \A b \in 1..NBlocks : OffMain(q, b) <= MaxFork}}

(* the shapes behind the candidate findings of NOTES.md *)
FindingTrees == {[parent |-> <<0, 1, 2, 3, 0>>, txs |-> <<<<1>>, <<2>>, <<>>, <<>>, <<1>>>>, ntx |-> 2]}

(* thorough tier: hand-picked larger shapes (the full set of 5-block trees is ~10^8 transitions) *)
ThoroughShapes == {<<0, 1, 2, 3, 0>>, <<0, 1, 2, 1, 4>>, <<0, 0, 1, 2, 3>>, <<0, 1, 1, 2, 3>>, <<0, 1, 2, 2, 2>>,
                   <<0, 1, 2, 3, 1, 5>>, <<0, 1, 2, 0, 4, 5>>, <<0, 1, 2, 3, 2, 5>>, <<0, 0, 1, 1, 2, 2>>,
                   <<0, 1, 2, 3, 4, 0>>, <<0, 1, 2, 2, 3, 4>>}
ThoroughTrees == {[parent |-> p, txs |-> [b \in 1..Len(p) |-> TxOf(p, b)], ntx |-> NTx] : p \in ThoroughShapes}

MCInit == /\ \E t \in Trees, sc \in Schemes : InitWith(t, sc)
          /\ act = [op |-> "init"] /\ hist = <<>>

Step(a) == act' = a /\ hist' = IF Depth = 0 THEN hist ELSE Append(hist, [act |-> a, st |-> ProjState'])

MCNext ==
  \/ \E seg \in Segs : InsertChain(seg) /\ Step([op |-> "InsertChain", seg |-> seg])
  \/ \E b \in 1..N : InsertNoHead(b) /\ Step([op |-> "InsertNoHead", b |-> b])
  \/ \E b \in 1..N : SetCanonical(b) /\ Step([op |-> "SetCanonical", b |-> b])
  \/ \E n \in 0..N : SetHead(n) /\ Step([op |-> "SetHead", n |-> n])
  \/ Restart /\ Step([op |-> "Restart"])

MCSpec == MCInit /\ [][MCNext]_<<vars, act, hist>>

View == pvars

EmitMBT == IF Depth > 0 /\ Len(hist) = Depth
        THEN PrintT(<<"MBT", ToJson([tree |-> tree, scheme |-> scheme, steps |-> hist])>>) ELSE TRUE
Bound == Depth = 0 \/ Len(hist) <= Depth
=============================================================================
