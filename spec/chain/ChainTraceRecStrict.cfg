SPECIFICATION TraceSpec
CONSTANTS MaxSeg = 0
INVARIANTS TypeOK RecWellFormed RecHeadState RecHeadOrder RecDataClosed RecCanonHasHeads RecCanonLinked RecCanonEndsAtHead RecNoLoss RecLookupSound RecHealsStrict RecStopsStrict
POSTCONDITION TraceAccepted
CHECK_DEADLOCK FALSE
