---------------------------- MODULE MCLogIndex ----------------------------
(* Model-checking wrapper of LogIndex: a small universe of blocks (logs determined by the block   *)
(* id), filters and ranges; every interleaving of chain changes, indexer progress and the steps   *)
(* of one query at a time.                                                                         *)
EXTENDS LogIndex, Json

CONSTANTS MaxLen,      \* longest chain (blocks including genesis)
          MaxId,       \* block ids 1..MaxId (0 is genesis)
          NFilters,    \* filters 1..NFilters of FilterTable
          MaxQueries,  \* queries per behaviour
          HistLen      \* simulation: behaviours of this length are printed

VARIABLES used, nq,    \* block ids handed out so far, queries started
          hist        \* the operations so far (for replay on the real index)

(* logs of a block depend on its id only: three shapes over addresses {x, y} and topics {s, t} *)
LogsOf(id) == CASE id % 3 = 0 -> << [addr |-> "x", topics |-> <<"s">>] >>
                [] id % 3 = 1 -> << [addr |-> "y", topics |-> <<"s", "t">>], [addr |-> "x", topics |-> <<>>] >>
                [] OTHER      -> << [addr |-> "x", topics |-> <<"t">>], [addr |-> "x", topics |-> <<"s">>] >>
Blk(id) == [id |-> id, logs |-> LogsOf(id)]

FilterTable == << [addrs |-> {"x"}, topics |-> <<>>],
                  [addrs |-> {}, topics |-> << {"s"} >>],
                  [addrs |-> {"x", "y"}, topics |-> << {}, {"t"} >>],
                  [addrs |-> {"y"}, topics |-> << {"s", "t"} >>] >>

AllRanges(n) == {Rng(a, b) : a \in 0..n, b \in 0..n}

MCInit == /\ chain = << Blk(0) >>
          /\ idx = [view |-> << Blk(0) >>, rng |-> Rng(0, 1)]
          /\ valid = Rng(0, 0)
          /\ q = Idle
          /\ outcome = [kind |-> "none"]
          /\ used = 0 /\ nq = 0 /\ hist = <<>>

H(e) == hist' = Append(hist, e)
MCNext ==
  \/ /\ Len(chain) < MaxLen /\ used < MaxId
     /\ Extend(Blk(used + 1)) /\ used' = used + 1 /\ UNCHANGED nq
     /\ H([op |-> "chain", keep |-> Len(chain), block |-> Blk(used + 1)])
  \/ /\ used < MaxId
     /\ \E k \in 1..(Len(chain) - 1) : Reorg(k, << Blk(used + 1) >>) /\ H([op |-> "chain", keep |-> k, block |-> Blk(used + 1)])
     /\ used' = used + 1 /\ UNCHANGED nq
  \/ Retarget /\ UNCHANGED <<used, nq>> /\ H([op |-> "indexer"])
  \/ \E r \in AllRanges(MaxLen) : ~Empty(r) /\ Render(r) /\ UNCHANGED <<used, nq>> /\ H([op |-> "indexer"])
  \/ /\ nq < MaxQueries
     /\ \E i \in 1..NFilters : \E first, last \in (0..(MaxLen - 1)) \cup {Latest} :
          QStart(FilterTable[i], first, last) /\ H([op |-> "qstart", filter |-> FilterTable[i], first |-> first, last |-> last, done |-> q'.phase = "idle"])
     /\ nq' = nq + 1 /\ UNCHANGED used
  \/ (QSearch \/ QSync) /\ UNCHANGED <<used, nq>> /\ H([op |-> "qstep"])
  \/ QUpdate /\ UNCHANGED <<used, nq>> /\ H([op |-> "qupdate", done |-> q'.phase = "idle"])
  \/ QEnd /\ UNCHANGED <<used, nq>> /\ H([op |-> "qend"])
  \/ QSearchFails /\ UNCHANGED <<used, nq>> /\ H([op |-> "qend"])

MCSpec == MCInit /\ [][MCNext]_<<vars, used, nq, hist>>
View == <<vars, used, nq>>
Emit == IF Len(hist) = HistLen THEN PrintT(<<"MBT", ToJson(hist)>>) ELSE TRUE
=============================================================================
