----------------------------- MODULE ChainCrash -----------------------------
(* Restart of core.BlockChain after a crash (property C39).                                 *)
(*                                                                                          *)
(* Chain.tla extended with what a crash distinguishes: which states are on disk (trie       *)
(* commit points of the hash scheme, the disk layer of the path scheme), the persistent     *)
(* layer of the flat state (snapshot, hash scheme only), and how far the chain freezer has  *)
(* moved canonical blocks into the ancient store.  The tree is a main line 1..C with an     *)
(* optional side chain rooted at genesis (the shape of core/blockchain_repair_test.go).     *)
(*                                                                                          *)
(* Actions: import of a batch (Chain!InsertChain), CommitTrie (triedb.Commit of the head    *)
(* state), FlattenSnap (snapshot Cap to the head), Freeze (SetFinalized + one freezer       *)
(* cycle), CrashReopen (stopWithoutSaving: nothing is flushed or journaled; then            *)
(* NewBlockChain: loadLastState, head-state repair through setHeadBeyondRoot/rewindHead,     *)
(* truncation of the ancient store when the head fell below it).                             *)
EXTENDS Chain

VARIABLES
  frozen,     \* number of items in the ancient store: blocks 0..frozen-1 are frozen
  snaps,      \* flat-state snapshots enabled (hash scheme only)
  snapDisk,   \* block whose state is the persistent snapshot layer
  recov,      \* persisted snapshot recovery number (Nil = never written)
  crashes     \* number of crashes so far

cvars == <<frozen, snaps, snapDisk, recov, crashes>>
allvars == <<vars, cvars>>

(* main line: the first-born chain 1..C; the tree of this module is built by LinearTree *)
LinearTree(c, s) == [parent |-> [b \in 1..(c + s) |-> IF b = c + 1 THEN 0 ELSE b - 1],
                     txs    |-> [b \in 1..(c + s) |-> <<>>], ntx |-> 0, main |-> c]
MainLen == tree.main
Main == 1..MainLen                                   \* block id = height on the main line
Side == (MainLen + 1)..N

CInsert(seg) == InsertChain(seg) /\ UNCHANGED cvars

(* triedb.Commit(head root): hash scheme writes the trie of that state to disk; path scheme  *)
(* flattens every layer up to it into the disk layer (older and competing layers are gone)   *)
CommitTrie ==
  /\ hb # 0 /\ hb \in hasState /\ hb = hh /\ hb \notin durable
  /\ IF scheme = "hash"
     THEN durable' = durable \cup {hb} /\ hasState' = hasState
     ELSE durable' = {hb} /\ hasState' = {b \in hasState : hb \in Anc(b)}
  /\ ev' = NoEv /\ res' = [op |-> "CommitTrie", err |-> "none"] /\ gh' = [kb |-> {}, rx |-> {}, f1 |-> gh.f1]
  /\ UNCHANGED <<tree, scheme, known, rcpt, canon, hb, hh, hs, txl, tail, cache>>
  /\ UNCHANGED cvars

(* snapshot Cap(head root, 0): the persistent flat-state layer moves to the head *)
FlattenSnap ==
  /\ snaps /\ crashes = 0 /\ hb # 0 /\ hb = hh /\ hb \in hasState /\ hb # snapDisk
  /\ snapDisk' = hb
  /\ ev' = NoEv /\ res' = [op |-> "FlattenSnap", err |-> "none"] /\ gh' = [kb |-> {}, rx |-> {}, f1 |-> gh.f1]
  /\ UNCHANGED <<tree, scheme, known, hasState, durable, rcpt, canon, hb, hh, hs, txl, tail, cache>>
  /\ UNCHANGED <<frozen, snaps, recov, crashes>>

(* SetFinalized(canonical block f) + one freezer cycle: canonical blocks up to f move to the  *)
(* ancient store; competing blocks at those heights and everything built on them is deleted  *)
Freeze(f) ==
  /\ hb = hh /\ f \in 1..Num(hb) /\ f + 1 > frozen
  /\ LET gone0 == {b \in known : Num(b) <= f /\ CAt(Num(b)) # b}
         gone  == {b \in known : Anc(b) \cap gone0 # {}}
     IN known' = known \ gone /\ rcpt' = rcpt \ gone
  /\ frozen' = f + 1
  /\ ev' = NoEv /\ res' = [op |-> "Freeze", err |-> "none"] /\ gh' = [kb |-> {}, rx |-> {}, f1 |-> gh.f1]
  /\ UNCHANGED <<tree, scheme, hasState, durable, canon, hb, hh, hs, txl, tail, cache>>
  /\ UNCHANGED <<snaps, snapDisk, recov, crashes>>

(* rewindHead: walk down from the head until a block whose state is on disk is found, after   *)
(* the block of the persistent snapshot layer has been passed (hash scheme with snapshots)    *)
OnDisk(b) == b = 0 \/ b \in durable
RECURSIVE RewindTo(_, _, _)
RewindTo(h, beyond, rootBlk) ==
  LET bey == beyond \/ h = rootBlk IN
  IF ~OnDisk(h) THEN (IF Par(h) = 0 THEN 0 ELSE RewindTo(Par(h), bey, rootBlk))
  ELSE IF bey \/ h = 0 THEN h
  ELSE RewindTo(Par(h), bey, rootBlk)

(* the last persisted state: the highest canonical block whose trie is on disk and that is    *)
(* not above the persistent flat-state layer                                                  *)
PersistedHeights == {Num(b) : b \in {x \in 1..N : OnDisk(x) /\ CAt(Num(x)) = x /\ Num(x) <= Num(hb)
                                                  /\ (snaps => Num(x) <= Num(snapDisk) /\ snapDisk \in Anc(hb))}}
Floor == IF PersistedHeights = {} THEN 0 ELSE CHOOSE m \in PersistedHeights : \A k \in PersistedHeights : k <= m

CrashReopen ==
  LET repair  == hb # 0 /\ ~OnDisk(hb)
      rootBlk == IF scheme = "hash" /\ snaps THEN snapDisk ELSE Nil
      nhb     == IF repair THEN RewindTo(hb, rootBlk = Nil, rootBlk) ELSE hb
      wipe    == repair /\ Num(nhb) + 1 < frozen
      (* the walk passed the block of the persistent snapshot layer: its number is persisted as  *)
      (* recovery number; setupSnapshot keeps a snapshot that is ahead of the head only in       *)
      (* recovery mode, otherwise a snapshot whose root is not the head's is rebuilt at the head *)
      passed  == repair /\ rootBlk # Nil /\ rootBlk # 0 /\ rootBlk \in Anc(hb) /\ Num(rootBlk) >= Num(nhb)
      nrecov  == IF passed THEN Num(snapDisk) ELSE recov
      recover == nrecov # Nil /\ nrecov >= Num(nhb)
      rebuild == snaps /\ snapDisk # nhb /\ ~recover          \* Tree.Rebuild also drops the recovery number
  IN /\ crashes' = crashes + 1
     /\ recov' = IF rebuild THEN Nil ELSE nrecov
     /\ snapDisk' = IF rebuild THEN nhb ELSE snapDisk
     /\ hasState' = durable \cup {0}
     /\ hb' = nhb
     /\ IF wipe
        THEN /\ known' = {b \in known : Num(b) <= Num(nhb)}
             /\ rcpt'  = {b \in rcpt : Num(b) <= Num(nhb)}
             /\ canon' = [i \in 1..N |-> IF i > Num(nhb) THEN Nil ELSE canon[i]]
             /\ hh' = nhb /\ hs' = nhb
             /\ frozen' = Num(nhb) + 1
        ELSE UNCHANGED <<known, rcpt, canon, hh, hs, frozen>>
     /\ cache' = [t \in 1..NT |-> Nil]
     /\ ev' = NoEv /\ res' = [op |-> "CrashReopen", err |-> "none"] /\ gh' = [kb |-> {}, rx |-> {}, f1 |-> gh.f1]
     /\ UNCHANGED <<tree, scheme, durable, txl, tail, snaps>>

CInitWith(c, s, sc, sn) ==
  /\ InitWith(LinearTree(c, s), sc)
  /\ frozen = 0 /\ snaps = sn /\ snapDisk = 0 /\ recov = Nil /\ crashes = 0

(* ------------------------------ properties (C39) ------------------------------------- *)
(* after every reopen (and from then on) *)
Reopened == crashes > 0
(* the head block's state is available, the header head is at or beyond the block head *)
CrashHeadState == Reopened => HeadStateAvail /\ HeadOrder
(* the canonical index is a parent-linked chain of stored blocks up to the head header *)
(* (KNOWN-FINDING C38-F1: importing a competing block right after a repair that left the  *)
(* head header above the head block keeps index entries of the abandoned branch; pending)     *)
CrashCanon == (Reopened /\ ~gh.f1) => DataClosed /\ CanonHasHeads /\ CanonLinked /\ CanonEndsAtHead
CrashCanonWeak == Reopened => HasBlock(Cur, hb) /\ HasBlock(Cur, hh) /\ CanonHasHeads /\ CanonLinkedToHead
(* nothing at or below the last persisted state is lost, the head is not below it *)
NoLossBelowPersisted == [][res'.op = "CrashReopen" =>
   /\ Num(hb') >= Floor
   /\ \A n \in 1..Floor : canon'[n] = canon[n] /\ canon[n] \in known']_allvars
(* the ancient store never extends beyond the head header, the head block is not below it   *)
AncientsConsistent == frozen <= Num(hh) + 1 /\ (hb # 0 => Num(hb) + 1 >= frozen)
(* importing the rest of the main line works and ends in the state of a node that never      *)
(* crashed: every block of the main line stored, canonical, head markers at the tip         *)
RECURSIVE Range(_, _)
Range(a, b) == IF a > b THEN <<>> ELSE <<a>> \o Range(a + 1, b)
Healthy(S, c) == /\ S.hb = c /\ S.hh = c /\ S.hs = c /\ c \in S.hasState
                 /\ \A n \in 1..c : S.canon[n] = n /\ n \in S.known
ReimportHeals == (hb \in Main \cup {0} /\ hb \in Anc(hh)) =>
   \A c \in Main : c > hb =>
      LET S == InsertChainF(Cur, Range(hb + 1, c)) IN S.err = "none" /\ Healthy(S, c)

=============================================================================
