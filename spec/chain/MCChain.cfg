SPECIFICATION MCSpec
CONSTANTS MaxSeg = 2
          NBlocks = 4
          NTx = 2
          MaxFork = 2
          Schemes = {"hash", "path"}
          Depth = 0
          Trees <- GenTrees
INVARIANTS TypeOK DataClosed CanonHasHeads CanonLinkedToHead CanonLinkedPending CanonEndsAtHeadPending HeadOrder HeadStateAvail LookupCompletePending LookupSoundPending CacheCoherentPending
PROPERTIES EventsDescribeSwitchPending AddedLogsCanonical RemovedWereCanonical HeadEventIsHead FlagsRight
VIEW View
CHECK_DEADLOCK FALSE
