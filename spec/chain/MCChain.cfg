SPECIFICATION MCSpec
CONSTANTS MaxSeg = 2
          NBlocks = 4
          NTx = 2
          MaxFork = 2
          Schemes = {"hash", "path"}
          Depth = 0
INVARIANTS TypeOK DataClosed CanonLinked CanonHasHeads CanonEndsAtHead HeadOrder HeadStateAvail LookupComplete LookupSound
PROPERTIES EventsDescribeSwitch HeadEventIsHead
VIEW View
CHECK_DEADLOCK FALSE
