---------------------------- MODULE MCChainCrash ----------------------------
(* Model-checking wrapper of ChainCrash: scenario shapes, call labels, behaviour emitter. *)
EXTENDS ChainCrash, Json

CONSTANTS MaxC,        \* longest main line
          MaxS,        \* longest side chain
          MaxCrashes,  \* crashes per behaviour
          Schemes, SnapModes,
          Depth        \* length of emitted behaviours (simulation); 0 = off

VARIABLES act, hist

CProj == [known |-> known, hasState |-> hasState \ {0}, canon |-> canon, hb |-> hb, hh |-> hh, hs |-> hs,
          frozen |-> frozen, snapDisk |-> snapDisk, recov |-> recov, err |-> res.err]

MCInit == /\ \E c \in 1..MaxC, s \in 0..MaxS, sc \in Schemes, sn \in SnapModes :
               (sn => sc = "hash") /\ CInitWith(c, s, sc, sn)
          /\ act = [op |-> "init"] /\ hist = <<>>

Step(a) == act' = a /\ hist' = IF Depth = 0 THEN hist ELSE Append(hist, [act |-> a, st |-> CProj'])

(* batches: the next blocks of the main line, or the whole side chain (imported first, as the  *)
(* repair tests do)                                                                           *)
NextMain == IF hb \in Main \cup {0} /\ (hb = 0 \/ hb \in Anc(hh)) THEN {Range(hb + 1, c) : c \in {x \in Main : x > hb /\ x <= hb + MaxSeg}} ELSE {}
SideSeg  == IF Side # {} /\ known = {} /\ crashes = 0 THEN {Range(MainLen + 1, N)} ELSE {}

MCNext ==
  \/ \E seg \in NextMain \cup SideSeg : CInsert(seg) /\ Step([op |-> "InsertChain", seg |-> seg])
  \/ CommitTrie /\ Step([op |-> "CommitTrie"])
  \/ FlattenSnap /\ Step([op |-> "FlattenSnap"])
  \/ \E f \in 1..N : Freeze(f) /\ Step([op |-> "Freeze", f |-> f])
  \/ crashes < MaxCrashes /\ CrashReopen /\ Step([op |-> "CrashReopen"])

MCSpec == MCInit /\ [][MCNext]_<<allvars, act, hist>>

View == <<pvars, durable, cvars>>

EmitMBT == IF Depth > 0 /\ Len(hist) = Depth
           THEN PrintT(<<"MBT", ToJson([tree |-> tree, scheme |-> scheme, snaps |-> snaps, steps |-> hist])>>) ELSE TRUE
Bound == Depth = 0 \/ Len(hist) <= Depth
=============================================================================
