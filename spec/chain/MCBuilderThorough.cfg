SPECIFICATION Spec
CONSTANTS Unit = 21000
          Limits = {3, 4}
          PlainAccts = 2
          BlobAccts = 1
          MaxLen = 2
          BlobMaxLen = 1
          Tips = {1, 2}
          GasShapes <- GS3
          PlainCls = {"ok", "nonceLow", "invalid"}
          BlobCls = {"ok"}
          BlobCounts = {1, 2}
          MaxBlobsSet = {2}
          Amsterdam = FALSE
          StateShapes = {0}
          EmitCases = FALSE
INVARIANTS OnlyOk NoDup NonceOrder BlobLimit GasLimit ImportValid Progress RevDisjoint NoFitLeft
CHECK_DEADLOCK FALSE
