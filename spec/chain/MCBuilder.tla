----------------------------- MODULE MCBuilder -----------------------------
(* Model-checking wrapper for Builder.tla: TLC enumerates bounded pool snapshots and block  *)
(* limits, runs the commitTransactions loop one iteration per step, checks the invariants   *)
(* and (in simulation mode) prints finished scenarios as CASE lines for replay on the real  *)
(* miner.                                                                                   *)
EXTENDS Builder, Json, TLC

CONSTANTS
  Unit,        \* gas of the smallest transaction (21000 for the legacy pool)
  Limits,      \* block gas limits, in units
  PlainAccts,  \* number of plain-transaction accounts
  BlobAccts,   \* number of blob-transaction accounts
  MaxLen,      \* transactions per account
  Tips,        \* effective tips
  GasShapes,   \* set of <<gas, used>> in units
  PlainCls, BlobCls,
  BlobCounts,  \* blobs per blob transaction
  MaxBlobsSet, \* miner's blob limit
  Amsterdam,   \* BOOLEAN: two-dimensional gas pool
  StateShapes, \* Amsterdam: state-gas share (in units) moved from exec to state, {0} otherwise
  EmitCases    \* BOOLEAN: print finished scenarios

(* gas shapes selectable from a cfg (cfg files cannot write tuples) *)
GS3 == {<<1, 1>>, <<2, 1>>, <<2, 2>>}
GS5 == GS3 \cup {<<3, 1>>, <<3, 3>>}
GS2 == {<<1, 1>>, <<2, 2>>}

VARIABLES env, plain0, blob0, st

vars == <<env, plain0, blob0, st>>

PlainIds == 1..PlainAccts
BlobIds  == (PlainAccts + 1)..(PlainAccts + BlobAccts)

(* tx identity: account*10 + position; time: unique, account-major *)
MkTx(a, pos, gs, tip, cls, nb, sg) ==
  [id |-> a * 10 + pos, gas |-> gs[1] * Unit, used |-> gs[2] * Unit,
   exec |-> (gs[2] - Min(sg, gs[2])) * Unit, state |-> Min(sg, gs[2]) * Unit,
   blobs |-> nb, tip |-> tip, time |-> a * 10 + pos, cls |-> cls]

PlainTxs(a, pos) == {MkTx(a, pos, gs, t, c, 0, sg) : gs \in GasShapes, t \in Tips, c \in PlainCls, sg \in StateShapes}
BlobTxs(a, pos)  == {MkTx(a, pos, <<1, 1>>, t, c, nb, 0) : t \in Tips, c \in BlobCls, nb \in BlobCounts}

ListsOf(a, F(_, _)) ==
  IF MaxLen = 1 THEN {<<>>} \cup {<<x>> : x \in F(a, 1)}
  ELSE {<<>>} \cup {<<x>> : x \in F(a, 1)} \cup {<<x, y>> : x \in F(a, 1), y \in F(a, 2)}

Init == /\ \E lim \in Limits, mb \in MaxBlobsSet :
             env = [limit |-> lim * Unit, floor |-> 21000, maxBlobs |-> mb, amsterdam |-> Amsterdam, maxTxGas |-> 16777216]
        /\ plain0 \in [PlainIds -> UNION {ListsOf(a, PlainTxs) : a \in PlainIds}]
        /\ \A a \in PlainIds : plain0[a] \in ListsOf(a, PlainTxs)
        /\ blob0 \in [BlobIds -> UNION {ListsOf(a, BlobTxs) : a \in BlobIds}]
        /\ \A a \in BlobIds : blob0[a] \in ListsOf(a, BlobTxs)
        /\ st = InitState(env, plain0, blob0)

Next == /\ ~st.done
        /\ st' = Iterate(env, st)
        /\ UNCHANGED <<env, plain0, blob0>>

Spec == Init /\ [][Next]_vars

----------------------------------------------------------------------------
AllTxs == UNION {{plain0[a][i] : i \in DOMAIN plain0[a]} : a \in PlainIds}
          \cup UNION {{blob0[a][i] : i \in DOMAIN blob0[a]} : a \in BlobIds}
TxOf(id) == CHOOSE t \in AllTxs : t.id = id
IncTxs == [i \in DOMAIN st.inc |-> TxOf(st.inc[i])]
ListOfAcct(a) == IF a \in PlainIds THEN plain0[a] ELSE blob0[a]
Included(id) == \E i \in DOMAIN st.inc : st.inc[i] = id

(* only executable transactions are included, each at most once *)
OnlyOk  == \A i \in DOMAIN st.inc : TxOf(st.inc[i]).cls = "ok"
NoDup   == \A i, j \in DOMAIN st.inc : i # j => st.inc[i] # st.inc[j]
(* nonce order: everything before an included transaction in its account's list was        *)
(* included earlier or was skipped as nonce-too-low                                         *)
NonceOrder == \A i \in DOMAIN st.inc :
                LET id == st.inc[i]  a == id \div 10  pos == id % 10  L == ListOfAcct(a) IN
                \A q \in 1..(pos - 1) :
                   \/ L[q].cls = "nonceLow"
                   \/ \E j \in 1..(i - 1) : st.inc[j] = L[q].id
(* limits of the block being built *)
BlobLimit == st.blobs <= env.maxBlobs /\ st.blobs = SumBlobs(IncTxs)
GasLimit  == BlockGasUsed(env, st.gp) <= env.limit
(* THE PROPERTY (gas/blob/validity dimension): the importer accepts what the builder built *)
ImportValid == ImportAccepts(env, IncTxs, BlockGasUsed(env, st.gp), env.maxBlobs)
(* the loop terminates within a bounded number of iterations *)
Progress == Len(st.inc) + Len(st.rev) <= Cardinality(AllTxs)
(* a tried-and-failed transaction is never included *)
RevDisjoint == \A r \in DOMAIN st.rev : ~Included(st.rev[r].id)

Emit == IF EmitCases /\ st.done
        THEN PrintT(<<"CASE", ToJson([env |-> env, plain |-> plain0, blob |-> blob0,
                                      inc |-> st.inc, rev |-> st.rev, gasUsed |-> BlockGasUsed(env, st.gp)])>>)
        ELSE TRUE
=============================================================================
