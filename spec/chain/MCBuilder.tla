----------------------------- MODULE MCBuilder -----------------------------
(* Model-checking wrapper for Builder.tla: TLC composes a bounded pool snapshot and block   *)
(* limits step by step (one generator action per choice, so that simulation can sample       *)
(* scenarios cheaply), then runs the commitTransactions loop one iteration per step, checks  *)
(* the invariants and - with EmitCases - prints every finished scenario as a CASE line for   *)
(* replay on the real miner.                                                                  *)
EXTENDS Builder, Json, TLC

CONSTANTS
  Unit,        \* gas of the smallest transaction (21000 for the legacy pool)
  Limits,      \* block gas limits, in units
  PlainAccts,  \* number of plain-transaction accounts
  BlobAccts,   \* number of blob-transaction accounts
  MaxLen,      \* transactions per plain account
  BlobMaxLen,  \* transactions per blob account
  Tips,        \* effective tips
  GasShapes,   \* set of <<gas, used>> in units
  PlainCls, BlobCls,
  BlobCounts,  \* blobs per blob transaction
  MaxBlobsSet, \* miner's blob limit
  Amsterdam,   \* BOOLEAN: two-dimensional gas pool
  StateShapes, \* Amsterdam: units of the used gas that are state gas, {0} otherwise
  EmitCases    \* BOOLEAN: print finished scenarios

(* gas shapes selectable from a cfg (cfg files cannot write tuples) *)
GS2 == {<<1, 1>>, <<2, 2>>}
GS3 == {<<1, 1>>, <<2, 1>>, <<2, 2>>}
GS5 == GS3 \cup {<<3, 1>>, <<3, 3>>}

VARIABLES gen, env, plain0, blob0, st

vars == <<gen, env, plain0, blob0, st>>

PlainIds == 1..PlainAccts
BlobIds  == (PlainAccts + 1)..(PlainAccts + BlobAccts)
NAcct    == PlainAccts + BlobAccts
Running  == gen = NAcct + 2

(* tx identity: account*10 + position; first-seen time: unique, account-major *)
MkTx(a, pos, gs, tip, cls, nb, sg) ==
  [id |-> a * 10 + pos, gas |-> gs[1] * Unit, used |-> gs[2] * Unit,
   exec |-> (gs[2] - Min(sg, gs[2])) * Unit, state |-> Min(sg, gs[2]) * Unit,
   blobs |-> nb, tip |-> tip, time |-> a * 10 + pos, cls |-> cls]

PlainTxs(a, pos) == {MkTx(a, pos, gs, t, c, 0, sg) : gs \in GasShapes, t \in Tips, c \in PlainCls, sg \in StateShapes}
BlobTxs(a, pos)  == {MkTx(a, pos, <<1, 1>>, t, c, nb, 0) : t \in Tips, c \in BlobCls, nb \in BlobCounts}

ListsOf(a, F(_, _), n) ==
  IF n = 0 THEN {<<>>}
  ELSE IF n = 1 THEN {<<>>} \cup {<<x>> : x \in F(a, 1)}
  ELSE {<<>>} \cup {<<x>> : x \in F(a, 1)} \cup {<<x, y>> : x \in F(a, 1), y \in F(a, 2)}

Env0 == [limit |-> 0, floor |-> 21000, maxBlobs |-> 0, amsterdam |-> Amsterdam, maxTxGas |-> 16777216]

Init == /\ gen = 0 /\ env = Env0
        /\ plain0 = [a \in PlainIds |-> <<>>] /\ blob0 = [a \in BlobIds |-> <<>>]
        /\ st = InitState(Env0, plain0, blob0)

GenEnv == /\ gen = 0
          /\ \E lim \in Limits, mb \in MaxBlobsSet : env' = [Env0 EXCEPT !.limit = lim * Unit, !.maxBlobs = mb]
          /\ gen' = 1 /\ UNCHANGED <<plain0, blob0, st>>

GenPlain == /\ gen \in PlainIds
            /\ \E l \in ListsOf(gen, PlainTxs, MaxLen) : plain0' = [plain0 EXCEPT ![gen] = l]
            /\ gen' = gen + 1 /\ UNCHANGED <<env, blob0, st>>

GenBlob == /\ gen \in BlobIds
           /\ \E l \in ListsOf(gen, BlobTxs, BlobMaxLen) : blob0' = [blob0 EXCEPT ![gen] = l]
           /\ gen' = gen + 1 /\ UNCHANGED <<env, plain0, st>>

Start == /\ gen = NAcct + 1
         /\ st' = InitState(env, plain0, blob0)
         /\ gen' = gen + 1 /\ UNCHANGED <<env, plain0, blob0>>

Loop == /\ Running /\ ~st.done
        /\ st' = Iterate(env, st)
        /\ UNCHANGED <<gen, env, plain0, blob0>>

Next == GenEnv \/ GenPlain \/ GenBlob \/ Start \/ Loop

Spec == Init /\ [][Next]_vars

----------------------------------------------------------------------------
AllTxs == UNION {{plain0[a][i] : i \in DOMAIN plain0[a]} : a \in PlainIds}
          \cup UNION {{blob0[a][i] : i \in DOMAIN blob0[a]} : a \in BlobIds}
TxOf(id) == CHOOSE t \in AllTxs : t.id = id
IncTxs == [i \in DOMAIN st.inc |-> TxOf(st.inc[i])]
ListOfAcct(a) == IF a \in PlainIds THEN plain0[a] ELSE blob0[a]
Included(id) == \E i \in DOMAIN st.inc : st.inc[i] = id

(* only executable transactions are included, each at most once *)
OnlyOk  == Running => \A i \in DOMAIN st.inc : TxOf(st.inc[i]).cls = "ok"
NoDup   == Running => \A i, j \in DOMAIN st.inc : i # j => st.inc[i] # st.inc[j]
(* nonce order: everything before an included transaction in its account's list was        *)
(* included earlier or was skipped as nonce-too-low                                         *)
NonceOrder == Running =>
              \A i \in DOMAIN st.inc :
                LET id == st.inc[i]  a == id \div 10  pos == id % 10  L == ListOfAcct(a) IN
                \A q \in 1..(pos - 1) :
                   \/ L[q].cls = "nonceLow"
                   \/ \E j \in 1..(i - 1) : st.inc[j] = L[q].id
(* limits of the block being built *)
BlobLimit == Running => (st.blobs <= env.maxBlobs /\ st.blobs = SumBlobs(IncTxs))
GasLimit  == Running => BlockGasUsed(env, st.gp) <= env.limit
(* THE PROPERTY (gas / blob / executability dimension): the importer accepts what the builder built *)
ImportValid == Running => ImportAccepts(env, IncTxs, BlockGasUsed(env, st.gp), env.maxBlobs)
(* every transaction is tried at most once: the loop terminates *)
Progress == Running => Len(st.inc) + Len(st.rev) <= Cardinality(AllTxs)
(* a tried-and-failed transaction is never included *)
RevDisjoint == Running => \A r \in DOMAIN st.rev : ~Included(st.rev[r].id)
(* nothing executable that still fits is left behind at the head of a heap *)
NoFitLeft == (Running /\ st.done /\ st.gp.remaining >= env.floor) => (Heads(st.plain) = {} /\ Heads(st.blob) = {})

Emit == IF EmitCases /\ Running /\ st.done
        THEN PrintT(<<"CASE", ToJson([env |-> env, plain |-> [a \in PlainIds |-> plain0[a]], blob |-> [a \in 1..BlobAccts |-> blob0[PlainAccts + a]],
                                      inc |-> st.inc, rev |-> st.rev, gasUsed |-> BlockGasUsed(env, st.gp)])>>)
        ELSE TRUE
=============================================================================
