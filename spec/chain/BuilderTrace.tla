---------------------------- MODULE BuilderTrace ----------------------------
(* Trace validation for C36.  One event per block built by the real miner:                  *)
(*   build  env plain blob inc rev gasUsed protoMaxBlobs                                    *)
(* env/plain/blob: the pool snapshot the miner saw (per-account nonce-ordered lists; tips    *)
(* and first-seen times as order-preserving ranks) with, per transaction, what               *)
(* core.ApplyTransaction did with it when re-executed by the harness at that position        *)
(* (class, receipt gas, EIP-8037 execution/state contributions); inc/rev: the transactions   *)
(* of the built block and the tried-and-reverted list reported by the payload.               *)
(* TLC recomputes the commitTransactions loop of Builder.tla on the snapshot: the built      *)
(* block must be exactly the specified one, and the specified importer must accept it.       *)
EXTENDS Builder, Json, IOUtils, TLC

Trace == ndJsonDeserialize(IOEnv.TRACE)

VARIABLES l, blocks

Ev == Trace[l]

AllOf(L) == UNION {{L[a][i] : i \in DOMAIN L[a]} : a \in DOMAIN L}
TxById(e, id) == CHOOSE t \in AllOf(e.plain) \cup AllOf(e.blob) : t.id = id

Expected(e) == Build(e.env, e.plain, e.blob)

Conforms(e) ==
  LET r == Expected(e)
      txs == [i \in DOMAIN e.inc |-> TxById(e, e.inc[i])]
  IN  /\ r.inc = e.inc                       \* same transactions in the same order
      /\ r.rev = e.rev                       \* same tried-and-reverted transactions at the same positions
      /\ BlockGasUsed(e.env, r.gp) = e.gasUsed
      /\ ImportAccepts(e.env, txs, e.gasUsed, e.protoMaxBlobs)

TBuild == /\ l <= Len(Trace)
          /\ Ev.op = "build"
          /\ Conforms(Ev)
          /\ l' = l + 1 /\ blocks' = blocks + 1

TraceInit == l = 1 /\ blocks = 0
TraceNext == TBuild
TraceSpec == TraceInit /\ [][TraceNext]_<<l, blocks>>

TraceAccepted == TLCGet("stats").diameter - 1 = Len(Trace)
=============================================================================
