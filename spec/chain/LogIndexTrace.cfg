SPECIFICATION TraceSpec
INVARIANTS ExactResult ChainOrderNoDup
POSTCONDITION TraceAccepted
CHECK_DEADLOCK FALSE
