SPECIFICATION MCSpec
CONSTANTS MaxSeg = 4
          MaxC = 8
          MaxS = 3
          MaxCrashes = 2
          Schemes = {"hash", "path"}
          SnapModes = {TRUE, FALSE}
          Depth = 11
CONSTRAINT EmitMBT
CONSTRAINT Bound
CHECK_DEADLOCK FALSE
