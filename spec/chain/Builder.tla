------------------------------ MODULE Builder ------------------------------
(* C36: the block builder's transaction selection loop, miner/worker.go:commitTransactions *)
(* as written, over an abstract pool snapshot, together with the importer's gas-pool rule  *)
(* (core/gaspool.go + stateTransition.preCheck/settleGas), so that "a block produced by    *)
(* the builder is accepted by import" can be stated and checked.                            *)
(*                                                                                         *)
(* A pool snapshot is what TxPool.Pending returns: per account a nonce-ordered list of     *)
(* lazy transactions, plain and blob transactions in separate sets.  A transaction is the  *)
(* record                                                                                   *)
(*   [id, gas, used, exec, state, blobs, tip, time, cls]                                    *)
(* gas = gas limit, used = receipt gas used, exec/state = its EIP-8037 contributions to    *)
(* the two block dimensions (Amsterdam), blobs = number of blobs, tip = effective miner    *)
(* tip, time = first-seen time, cls = what core.ApplyTransaction does with it when its      *)
(* turn comes:                                                                              *)
(*   "ok"       executes (possibly reverting inside the EVM): included                      *)
(*   "nonceLow" core.ErrNonceTooLow                         : skipped, Shift                *)
(*   "invalid"  any other consensus error (nonce too high, insufficient funds, ...): Pop   *)
(*   "evicted"  LazyTransaction.Resolve() returns nil       : Pop, never executed           *)
EXTENDS Integers, Sequences, FiniteSets

NoTx == [id |-> 0]

(* ---- price-and-nonce heaps (txorder.TransactionsByPriceAndNonce) ---- *)
Heads(L) == {a \in DOMAIN L : L[a] # <<>>}
Better(x, y) == x.tip > y.tip \/ (x.tip = y.tip /\ x.time < y.time)
BestAcct(L) == CHOOSE a \in Heads(L) : \A b \in Heads(L) \ {a} : Better(L[a][1], L[b][1])
Peek(L)  == IF Heads(L) = {} THEN NoTx ELSE L[BestAcct(L)][1]
Shift(L) == [L EXCEPT ![BestAcct(L)] = Tail(@)]
Pop(L)   == [L EXCEPT ![BestAcct(L)] = <<>>]
Clear(L) == [a \in DOMAIN L |-> <<>>]

(* ---- block gas pool (core.GasPool) ---- *)
NewPool(limit) == [initial |-> limit, remaining |-> limit, cumExec |-> 0, cumState |-> 0, cumUsed |-> 0]
Min(a, b) == IF a < b THEN a ELSE b
Max(a, b) == IF a > b THEN a ELSE b

(* preCheck: may the transaction be started?  (CheckGasLegacy / CheckGasAmsterdam) *)
CanStart(env, gp, tx) ==
  IF env.amsterdam
  THEN /\ gp.initial - gp.cumExec  >= Min(tx.gas, env.maxTxGas)
       /\ gp.initial - gp.cumState >= tx.gas
  ELSE gp.remaining >= tx.gas

(* settleGas: the pool after the transaction (ChargeGasLegacy / ChargeGasAmsterdam);      *)
(* Amsterdam charging can still fail when the 2D maximum exceeds the limit                 *)
ChargeOK(env, gp, tx) ==
  env.amsterdam => Max(gp.cumExec + tx.exec, gp.cumState + tx.state) <= gp.initial
Charge(env, gp, tx) ==
  IF env.amsterdam
  THEN [gp EXCEPT !.cumExec = @ + tx.exec, !.cumState = @ + tx.state, !.cumUsed = @ + tx.used,
                  !.remaining = gp.initial - (gp.cumExec + tx.exec)]
  ELSE [gp EXCEPT !.remaining = @ - tx.used, !.cumUsed = @ + tx.used]

BlockGasUsed(env, gp) ==
  IF env.amsterdam /\ (gp.cumExec > 0 \/ gp.cumState > 0) THEN Max(gp.cumExec, gp.cumState)
  ELSE gp.initial - gp.remaining

(* ---- one iteration of the for-loop of commitTransactions ---- *)
(* s = [plain, blob, gp, blobs, inc, rev, done]; env = [limit, floor, maxBlobs, amsterdam, maxTxGas] *)
InitState(env, plain, blob) ==
  [plain |-> plain, blob |-> blob, gp |-> NewPool(env.limit), blobs |-> 0,
   inc |-> <<>>, rev |-> <<>>, done |-> FALSE]

Iterate(env, s) ==
  IF s.gp.remaining < env.floor THEN [s EXCEPT !.done = TRUE]            \* not enough gas for any further tx
  ELSE
  LET blob1 == IF Heads(s.blob) # {} /\ s.blobs >= env.maxBlobs THEN Clear(s.blob) ELSE s.blob
      p == Peek(s.plain)
      b == Peek(blob1)
      useBlob == IF p.id = 0 THEN TRUE ELSE IF b.id = 0 THEN FALSE ELSE p.tip < b.tip
      ltx == IF useBlob THEN b ELSE p
      s1 == [s EXCEPT !.blob = blob1]
      popped  == IF useBlob THEN [s1 EXCEPT !.blob = Pop(blob1)]   ELSE [s1 EXCEPT !.plain = Pop(s.plain)]
      shifted == IF useBlob THEN [s1 EXCEPT !.blob = Shift(blob1)] ELSE [s1 EXCEPT !.plain = Shift(s.plain)]
      tried(st) == [st EXCEPT !.rev = Append(@, [id |-> ltx.id, idx |-> Len(s.inc)])]
  IN
  IF ltx.id = 0 THEN [s1 EXCEPT !.done = TRUE]                            \* both heaps empty
  ELSE IF s.gp.remaining < ltx.gas THEN popped                            \* not enough gas left for this tx
  ELSE IF env.maxBlobs - s.blobs < ltx.blobs THEN popped                  \* not enough blob space left
  ELSE IF ltx.cls = "evicted" THEN popped
  ELSE IF ltx.cls = "nonceLow" THEN tried(shifted)
  ELSE IF ltx.cls = "invalid" THEN tried(popped)
  ELSE IF ~CanStart(env, s.gp, ltx) \/ ~ChargeOK(env, s.gp, ltx) THEN tried(popped)   \* ErrGasLimitReached
  ELSE [shifted EXCEPT !.gp = Charge(env, s.gp, ltx), !.blobs = @ + ltx.blobs, !.inc = Append(@, ltx.id)]

RECURSIVE Run(_, _)
Run(env, s) == IF s.done THEN s ELSE Run(env, Iterate(env, s))

Build(env, plain, blob) == Run(env, InitState(env, plain, blob))

(* ---- the importer: StateProcessor.Process + ValidateBody over the included list ---- *)
(* txs: sequence of tx records in block order *)
RECURSIVE ImportFrom(_, _, _, _)
ImportFrom(env, gp, txs, i) ==
  IF i > Len(txs) THEN [ok |-> TRUE, gp |-> gp]
  ELSE LET tx == txs[i] IN
       IF tx.cls # "ok" \/ ~CanStart(env, gp, tx) \/ ~ChargeOK(env, gp, tx) THEN [ok |-> FALSE, gp |-> gp]
       ELSE ImportFrom(env, Charge(env, gp, tx), txs, i + 1)

SumBlobs(txs) == LET RECURSIVE Sm(_) Sm(i) == IF i = 0 THEN 0 ELSE txs[i].blobs + Sm(i - 1) IN Sm(Len(txs))

ImportAccepts(env, txs, headerGasUsed, protocolMaxBlobs) ==
  LET r == ImportFrom(env, NewPool(env.limit), txs, 1)
  IN  /\ r.ok
      /\ BlockGasUsed(env, r.gp) = headerGasUsed
      /\ SumBlobs(txs) <= protocolMaxBlobs
=============================================================================
