----------------------------- MODULE MCStackTrie -----------------------------
(* Exhaustive check of StackTrie.tla: one state per key-value set. *)
EXTENDS StackTrie

CONSTANTS MaxKeys
VARIABLE kv

AllKV == UNION {[S -> Vals] : S \in {X \in SUBSET Keys : Cardinality(X) <= MaxKeys}}
Init == kv \in AllKV
Next == UNCHANGED kv
Spec == Init /\ [][Next]_kv

SortedPairs == LET sk == SortedKeys(DOMAIN kv) IN [i \in 1..Len(sk) |-> <<sk[i], kv[sk[i]]>>]
B == StackBuild(SortedPairs)

(* the streaming builder produces the canonical tree, hence the same root *)
StackRootInv == B.root = CanonKV(kv)
(* it hands exactly the stored nodes of that tree to the callback, each exactly once *)
StackEmitInv == (kv # EmptyKV => B.em = StoredPaths(CanonKV(kv))) /\ ~B.dup
(* ascending insertion never reaches a hashed node or an existing key *)
StackNoPanicInv == ~HasSPanic(B.st)
=============================================================================
