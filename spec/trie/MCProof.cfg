SPECIFICATION Spec
CONSTANTS Nib = {0, 1}
          KeyLen = 2
          Vals = {281, 291}
          Pad = 0
          MaxKeys = 4
          EmitRows = TRUE
INVARIANTS SoundInv CompleteInv ExactInv ProveVerifyInv EmptyInv Emit
CHECK_DEADLOCK FALSE
