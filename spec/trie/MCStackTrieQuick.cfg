SPECIFICATION Spec
CONSTANTS Nib = {0, 1, 15}
          KeyLen = 3
          Vals = {271}
          Pad = 1
          MaxKeys = 3
INVARIANTS StackRootInv StackEmitInv StackNoPanicInv
CHECK_DEADLOCK FALSE
