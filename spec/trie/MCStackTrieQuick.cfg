SPECIFICATION Spec
CONSTANTS Nib = {0, 1}
          KeyLen = 3
          Vals = {271}
          Pad = 1
          MaxKeys = 8
INVARIANTS StackRootInv StackEmitInv StackNoPanicInv
CHECK_DEADLOCK FALSE
