SPECIFICATION Spec
CONSTANTS Nib = {0, 15}
          KeyLen = 2
          Vals = {281, 291}
          Pad = 0
          MaxKeys = 3
          EmitRows = TRUE
INVARIANTS CharacterInv MoreInv ProofInv NoProofInv AlgInv Emit
CHECK_DEADLOCK FALSE
