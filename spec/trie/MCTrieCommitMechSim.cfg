SPECIFICATION MCSpec
CONSTANTS Nib = {0, 1, 15}
          KeyLen = 3
          Vals = {10, 11, 331, 271, 291, 261}
          Pad = 1
          MaxKeys = 27
          TrackHash = FALSE
          MaxRoots = 0
          MaxOps = 8
          Mode = "sim"
          Depth = 45
          MaxGen = 6
          CommitWeight = 3
          NKeys = 3
INVARIANTS MTreeInv TracerInv StoreExact
PROPERTIES MechRefines CommitOK
CONSTRAINT Emit
CONSTRAINT SimStop
CHECK_DEADLOCK FALSE
