--------------------------- MODULE TrieCommitTrace ---------------------------
(* Trace validation for TrieCommit.tla (C07): seeded multi-generation histories on the     *)
(* real trie over 32-byte keys (64 nibbles, alphabet 0..15), committed into a rawdb        *)
(* path-scheme store.  put / del events drive the model tree; a commit event carries what   *)
(* the implementation showed:                                                              *)
(*   set      the node set returned by Trie.Commit: [path, del, hasprev] per entry         *)
(*   listing  the paths present in the store's trie-node key space after applying it       *)
(* and must be explained by TrieCommit!Commit: every entry allowed (a write at a stored    *)
(* path of the new trie / a deletion of a stored path that is gone; has a previous value   *)
(* iff the store held that path), the model's minimal set contained in it, and the listing *)
(* equal to the model's store after the commit.  Blob contents are compared by the driver  *)
(* (reference encoder) in the replay modes; here the paths, kinds and flags are checked.   *)
EXTENDS TrieCommit, Json, IOUtils

Trace == ndJsonDeserialize(IOEnv.TRACE)

VARIABLE l

Ev == Trace[l]

SeqSet(s) == {s[i] : i \in 1..Len(s)}

EntryOK(e) ==
  LET exp == DOMAIN Expected(tree) IN
  /\ e.hasprev = (e.path \in DOMAIN pstore)
  /\ IF e.del THEN e.path \in DOMAIN pstore /\ e.path \notin exp ELSE e.path \in exp

Logged ==
  /\ \A i \in 1..Len(Ev.set) : EntryOK(Ev.set[i])
  /\ \A m \in MinSet : \E i \in 1..Len(Ev.set) : Ev.set[i].path = m.path /\ Ev.set[i].del = (m.blob = Deleted)
  /\ SeqSet(Ev.listing) = DOMAIN pstore'
  /\ Len(Ev.listing) = Cardinality(DOMAIN pstore')

Step(A) == l <= Len(Trace) /\ A /\ l' = l + 1

TReset  == Step(Ev.op = "reset" /\ kv' = EmptyKV /\ tree' = Nil /\ ckv' = EmptyKV /\ pstore' = <<>> /\ nset' = {}
                /\ UNCHANGED <<hstore, roots>>)
TPut    == Step(Ev.op = "put" /\ Put(Ev.k, Ev.v))
TDel    == Step(Ev.op = "del" /\ Del(Ev.k))
TCommit == Step(Ev.op = "commit" /\ Commit /\ Logged)

TraceInit == Init /\ l = 1
TraceNext == TReset \/ TPut \/ TDel \/ TCommit
TraceSpec == TraceInit /\ [][TraceNext]_<<kv, tree, ckv, pstore, hstore, roots, nset, l>>

TraceAccepted == TLCGet("stats").diameter - 1 = Len(Trace)
=============================================================================
