------------------------------ MODULE MCProof ------------------------------
(* Exhaustive check and test-plan generation for Proof.tla (C08): one state per            *)
(* (key-value set, key); the invariants quantify over every proof set assembled from the   *)
(* trie's own stored nodes plus at most one genuine node of a neighbouring trie (a trie     *)
(* that differs in one key: it shares most nodes, the strongest substitution adversary).    *)
EXTENDS Proof, Json

CONSTANTS MaxKeys, EmitRows

VARIABLES kv, k

t == CanonKV(kv)

AllKV == UNION {[S -> Vals] : S \in {X \in SUBSET Keys : Cardinality(X) <= MaxKeys}}

Init == kv \in AllKV /\ k \in Keys
Next == UNCHANGED <<kv, k>>
Spec == Init /\ [][Next]_<<kv, k>>

(* neighbouring tries: one key put (other value / new key) or deleted *)
Neighbours == {KVPut(kv, x, v) : x \in Keys, v \in Vals} \cup {KVDel(kv, x) : x \in DOMAIN kv}
Foreign == UNION {StoredNodes(CanonKV(m)) : m \in Neighbours} \ StoredNodes(t)

ProofSets == {S \cup F : S \in SUBSET StoredNodes(t), F \in {{}} \cup {{f} : f \in Foreign}}

SoundInv    == \A P \in ProofSets : Sound(kv, t, k, P)
CompleteInv == \A P \in ProofSets : Complete(kv, t, k, P)
ExactInv    == \A P \in ProofSets : Exact(kv, t, k, P)
(* the proof Prove produces verifies to the true value (non-empty tries) *)
ProveVerifyInv == t.t # "nil" => Verify(t, k, ProofNodes(t, k)) = TrueVal(kv, k)
(* an empty trie has no root node: Prove emits nothing and nothing verifies *)
EmptyInv == t.t = "nil" => ProofNodes(t, k) = {} /\ Verify(t, k, {}) = Fail

(* --------------------------------- rows ---------------------------------- *)
KVList(m) == LET sk == SortedKeys(DOMAIN m) IN [i \in 1..Len(sk) |-> [k |-> sk[i], v |-> m[sk[i]]]]
RECURSIVE TreeJ(_)
TreeJ(n) ==
  CASE n.t = "nil"  -> [t |-> "nil"]
    [] n.t = "leaf" -> [t |-> "leaf", path |-> n.path, val |-> n.val, size |-> RlpSize(n)]
    [] n.t = "ext"  -> [t |-> "ext", path |-> n.path, child |-> TreeJ(n.child), size |-> RlpSize(n)]
    [] n.t = "br"   -> LET live == SortedSeq({i \in Nib : n.ch[i] # Nil}) IN
                       [t |-> "br", size |-> RlpSize(n),
                        ch |-> [j \in 1..Len(live) |-> [i |-> live[j], n |-> TreeJ(n.ch[live[j]])]]]
RECURSIVE SetToSeq(_)
SetToSeq(S) == IF S = {} THEN <<>> ELSE LET x == CHOOSE y \in S : TRUE IN <<x>> \o SetToSeq(S \ {x})

PathOf(tr, n) == (CHOOSE x \in StoredPaths(tr) : x.node = n).path
StoredSeq == SetToSeq(StoredPaths(t))

(* every subset of the trie's own stored nodes, by index into StoredSeq *)
Cases == SetToSeq({[s |-> SetToSeq(I), r |-> Verify(t, k, {StoredSeq[i].node : i \in I})] : I \in SUBSET (1..Len(StoredSeq))})

(* substitution: the neighbour's node f replaces t's node at the same path (if any); all other nodes genuine *)
Subs == SetToSeq(UNION {
          {[nk |-> KVList(m), path |-> x.path,
            r |-> Verify(t, k, {y.node : y \in {z \in StoredPaths(t) : z.path # x.path}} \cup {x.node})]
             : x \in {y \in StoredPaths(CanonKV(m)) : y.node \notin StoredNodes(t)}}
          : m \in Neighbours})

Row == [kv |-> KVList(kv), tree |-> TreeJ(t), k |-> k, want |-> TrueVal(kv, k),
        stored |-> [i \in 1..Len(StoredSeq) |-> StoredSeq[i].path],
        proof |-> SetToSeq({PathOf(t, n) : n \in ProofNodes(t, k)}),
        cases |-> Cases, subs |-> Subs]

Emit == IF EmitRows THEN PrintT(<<"CASE", ToJson(Row)>>) ELSE TRUE
=============================================================================
