------------------------------ MODULE HealTrace ------------------------------
(* Validation of heal-only runs of the real snap/1 syncer (snap.NewV1Syncer with             *)
(* state.NewStateSync as scheduler) against a harness peer: every response the peer sent is   *)
(* logged with the requested hashes, the hashes of the delivered blobs (0 = a blob that is no *)
(* node/code of the target) and whether OnTrieNodes/OnByteCodes accepted it.  The verdict     *)
(* must be the one HealFilter prescribes, and every run must end with the complete target     *)
(* and nothing foreign in the database.                                                       *)
EXTENDS HealFilter, TLC, Json, IOUtils

Trace == ndJsonDeserialize(IOEnv.TRACE)
VARIABLE l
Ev == Trace[l]

Explained ==
  \/ Ev.op = "start"
  \/ /\ Ev.op \in {"trienodes", "bytecodes"}
     /\ Ev.accepted = Match(Ev.req, Ev.resp).ok
     /\ ForwardedMatches(Ev.req, Ev.resp)
  \/ /\ Ev.op = "healed"
     /\ Ev.complete /\ ~Ev.foreign

Init == l = 1
Next == l <= Len(Trace) /\ Explained /\ l' = l + 1
TraceSpec == Init /\ [][Next]_l
TraceAccepted == TLCGet("stats").diameter - 1 = Len(Trace)
=============================================================================
