-------------------------- MODULE RangeProofTrace --------------------------
(* Trace validation for RangeProof.tla (C09): every recorded trie.VerifyRangeProof call on *)
(* random tries over 32-byte keys is checked against the ground truth.  Keys are rank-     *)
(* compressed by the driver (each key replaced by <<its index in the sorted set of all     *)
(* keys occurring in the call>>), which preserves everything RangeOK / More depend on.     *)
(*   proof = "all"     every stored node of the trie                                       *)
(*   proof = "honest"  the nodes Trie.Prove emits for the start key and the run's last key *)
(*   proof = "nil"     no proof: the run must be the whole trie                            *)
EXTENDS RangeProof, Json, IOUtils

Trace == ndJsonDeserialize(IOEnv.TRACE)

VARIABLE l

Ev == Trace[l]

KVOf(list) == [x \in {list[i].k : i \in 1..Len(list)} |-> list[(CHOOSE i \in 1..Len(list) : list[i].k = x)].v]
RunOf(list) == [i \in 1..Len(list) |-> <<list[i].k, list[i].v>>]

Expected(kv, first, R, proof) ==
  IF proof = "nil" THEN [ok |-> AcceptNoProof(kv, R), more |-> FALSE]
  ELSE LET ok == DOMAIN kv # {} /\ RangeOK(kv, first, R) IN [ok |-> ok, more |-> ok /\ More(kv, R)]

Step(A) == l <= Len(Trace) /\ A /\ l' = l + 1

TRange == Step(/\ Ev.op = "range"
               /\ LET e == Expected(KVOf(Ev.kv), Ev.first, RunOf(Ev.run), Ev.proof) IN
                    Ev.ok = e.ok /\ (Ev.ok => Ev.more = e.more))

TraceInit == l = 1
TraceNext == TRange
TraceSpec == TraceInit /\ [][TraceNext]_l

TraceAccepted == TLCGet("stats").diameter - 1 = Len(Trace)
=============================================================================
