------------------------------ MODULE MCTrie ------------------------------
(* Model-checking / test-generation wrapper of Trie.tla (C06).                            *)
(*   act   label of the last user-level action (edges mode: every transition printed)     *)
(*   hist  sequence of user-level steps with the expected state (simulation mode)         *)
EXTENDS Trie, Json, Randomization

CONSTANTS Mode,        \* "mc" | "edges" | "edgesb" (batch edges over the pool keys only) | "sim"
          SeqBatches,  \* FALSE: leave out batches that take the sequential fallback (they are
                       \* compositions of Put/Del steps and add no new states, only cost)
          Depth,       \* sim: length of the emitted behaviours
          NBatch,      \* sim: number of random candidate batches offered per step
          NKeys,       \* sim: number of randomly drawn keys offered per step (keeps the successor set small)
          Encs         \* representations of the empty value offered for deletions-by-empty-value:
                       \* "nil", "empty" (zero-length non-nil slice), "mixed" (alternating inside a batch);
                       \* the abstract action is the same, the binding must not care

VARIABLES act, hist, cur

mcvars == <<kv, tree, pend, goal, act, hist, cur>>

(* ------------------------------ JSON views ------------------------------ *)
KVList(m) == LET sk == SortedKeys(DOMAIN m) IN [i \in 1..Len(sk) |-> [k |-> sk[i], v |-> m[sk[i]]]]

RECURSIVE TreeJ(_)
TreeJ(n) ==
  CASE n.t = "nil"  -> [t |-> "nil"]
    [] n.t = "leaf" -> [t |-> "leaf", path |-> n.path, val |-> n.val, size |-> RlpSize(n)]
    [] n.t = "ext"  -> [t |-> "ext", path |-> n.path, child |-> TreeJ(n.child), size |-> RlpSize(n)]
    [] n.t = "br"   -> LET live == SortedSeq({i \in Nib : n.ch[i] # Nil}) IN
                       [t |-> "br", size |-> RlpSize(n),
                        ch |-> [j \in 1..Len(live) |-> [i |-> live[j], n |-> TreeJ(n.ch[live[j]])]]]

(* ------------------------------ batches --------------------------------- *)
AllOps == [k : Keys, v : Vals \cup {0}]

(* exhaustive: every batch of a length in BatchLens over the operations BOps *)
CONSTANTS BOps, BatchLens
MCBatchSet == UNION {[1..n -> BOps] : n \in BatchLens}

(* sampled: NBatch random batches of random length over all operations, fresh per state *)
SimBatchSet == UNION {RandomSubset(NBatch, [1..n -> AllOps]) : n \in BatchLens}

(* concrete operation pools (cfg files cannot write records) *)
(* four keys in three first-nibble groups *)
PoolKeys == {<<0, 0>>, <<0, 1>>, <<1, 0>>, <<15, 1>>}
OpsAll == [k : Keys, v : Vals \cup {0}]
OpsIns == [k : Keys, v : Vals]
(* four keys in three first-nibble groups, put and delete *)
OpsPool == [k : PoolKeys, v : Vals \cup {0}]
(* a smaller pool for the quick tier: still two keys in one group, deletions in two groups *)
MaxVal == CHOOSE v \in Vals : \A w \in Vals : w <= v
OpsPool6 == {[k |-> <<0, 0>>, v |-> MaxVal], [k |-> <<0, 0>>, v |-> 0], [k |-> <<0, 1>>, v |-> MaxVal],
             [k |-> <<1, 0>>, v |-> MaxVal], [k |-> <<1, 0>>, v |-> 0], [k |-> <<15, 1>>, v |-> MaxVal]}

(* ------------------------------- actions -------------------------------- *)
(* sim: remember the raw successor, converted to its JSON view only when printed *)
Log    == hist' = IF Mode = "sim" THEN Append(hist, [act |-> act', kv |-> kv', tree |-> tree']) ELSE hist
Exp    == [kv |-> KVList(kv'), tree |-> TreeJ(tree')]
HistJ  == [i \in 1..Len(hist) |-> [act |-> hist[i].act, exp |-> [kv |-> KVList(hist[i].kv), tree |-> TreeJ(hist[i].tree)]]]

MCInit == Init /\ act = [op |-> "init"] /\ hist = <<>> /\ cur = <<>>

SimKeys == IF Mode = "sim" THEN RandomSubset(NKeys, Keys) ELSE IF Mode = "edgesb" THEN PoolKeys ELSE Keys

(* a batch without deletions has nothing to encode *)
EmptyEncs(ops) == IF \E i \in 1..Len(ops) : ops[i].v = 0 THEN Encs ELSE {"nil"}

MCNext ==
  \/ \E k \in SimKeys : \E v \in Vals :
        Put(k, v) /\ act' = [op |-> "put", k |-> k, v |-> v] /\ Log /\ UNCHANGED cur
  \/ \E k \in SimKeys : \E via \in {"del"} \cup Encs :
        Del(k) /\ act' = [op |-> IF via = "del" THEN "del" ELSE "putempty", k |-> k, v |-> 0, enc |-> via]
               /\ Log /\ UNCHANGED cur
  \/ \E ops \in BatchSet : \E enc \in EmptyEncs(ops) :
        \/ SeqBatches /\ BatchSeq(ops) /\ act' = [op |-> "batch", ops |-> ops, par |-> FALSE, enc |-> enc]
                         /\ Log /\ UNCHANGED cur
        \/ BatchPar(ops) /\ act' = [op |-> "batchstart", ops |-> ops, par |-> TRUE, enc |-> enc]
                         /\ cur' = [ops |-> ops, enc |-> enc] /\ UNCHANGED hist
  \/ \E i \in Nib : Worker(i) /\ act' = [op |-> "worker", i |-> i] /\ UNCHANGED <<hist, cur>>
  \/ BatchEnd /\ act' = [op |-> "batch", ops |-> cur.ops, par |-> TRUE, enc |-> cur.enc]
              /\ Log /\ cur' = <<>>

MCSpec == MCInit /\ [][MCNext]_mcvars

View == <<kv, tree, pend, goal>>

(* edges mode: print every user-level transition once; a concurrent batch is printed when *)
(* it starts, as one edge from the state it started in to the state the sequential        *)
(* semantics prescribes (BatchInv/CanonInv establish that every interleaving ends there)   *)
Edge ==
  IF Mode \notin {"edges", "edgesb"} \/ act'.op = "worker" \/ (act'.op = "batch" /\ act'.par) THEN TRUE
  ELSE IF Mode = "edgesb" /\ act'.op \notin {"batch", "batchstart"} THEN TRUE
  ELSE IF act'.op = "batchstart"
       THEN PrintT(<<"EDGE", ToJson([from |-> KVList(kv), act |-> [op |-> "batch", ops |-> act'.ops, par |-> TRUE, enc |-> act'.enc],
                                     to |-> [kv |-> KVList(goal'), tree |-> TreeJ(CanonKV(goal'))]])>>)
       ELSE PrintT(<<"EDGE", ToJson([from |-> KVList(kv), act |-> act', to |-> Exp])>>)

(* sim mode: print the behaviour once it has Depth user-level steps *)
Emit == IF Mode = "sim" /\ Len(hist) = Depth /\ Quiescent THEN PrintT(<<"MBT", ToJson(HistJ)>>) ELSE TRUE
SimStop == Len(hist) <= Depth
=============================================================================
