SPECIFICATION Spec
CONSTANTS Nib = {0, 1}
          KeyLen = 3
          Vals = {11, 331}
          Pad = 1
          MaxKeys = 3
          EmitRows = TRUE
INVARIANTS SoundInv CompleteInv ExactInv ProveVerifyInv EmptyInv Emit
CHECK_DEADLOCK FALSE
