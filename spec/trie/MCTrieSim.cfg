SPECIFICATION MCSpec
CONSTANTS Nib = {0, 1, 15}
          KeyLen = 3
          Vals = {10, 11, 331, 271, 291, 261}
          Pad = 1
          MaxKeys = 27
          Mode = "sim"
          SeqBatches = TRUE
          Depth = 25
          NBatch = 3
          NKeys = 4
          Encs = {"nil", "empty", "mixed"}
          BOps <- OpsAll
          BatchLens = {3, 4, 5, 7}
          BatchSet <- SimBatchSet
INVARIANTS CanonInv LookupInv IterInv WFInv BatchInv
CONSTRAINT Emit
CONSTRAINT SimStop
CHECK_DEADLOCK FALSE
