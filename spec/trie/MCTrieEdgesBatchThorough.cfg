SPECIFICATION MCSpec
CONSTANTS Nib = {0, 1, 15}
          KeyLen = 2
          Vals = {331}
          Pad = 0
          MaxKeys = 4
          Mode = "edgesb"
          SeqBatches = TRUE
          Depth = 0
          NBatch = 0
          NKeys = 4
          Encs = {"nil", "empty"}
          BOps <- OpsPool
          BatchLens = {4}
          BatchSet <- MCBatchSet
INVARIANTS CanonInv WFInv BatchInv
CONSTRAINT Small
ACTION_CONSTRAINT Edge
VIEW View
CHECK_DEADLOCK FALSE
