SPECIFICATION MCSpec
CONSTANTS Nib = {0, 1}
          KeyLen = 2
          Vals = {331}
          Pad = 0
          MaxKeys = 4
          TrackHash = TRUE
          MaxRoots = 3
          Mode = "mc"
          Depth = 0
          MaxGen = 0
          CommitWeight = 1
          NKeys = 3
INVARIANTS TreeInv StoreExact ReadBackInv HashReadBackInv
PROPERTIES CommitOK
CONSTRAINT Small
VIEW View
CHECK_DEADLOCK FALSE
