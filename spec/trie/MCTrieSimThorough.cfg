SPECIFICATION MCSpec
CONSTANTS Nib = {0, 1, 2, 15}
          KeyLen = 3
          Vals = {10, 11, 331}
          Pad = 61
          MaxKeys = 64
          Mode = "sim"
          SeqBatches = TRUE
          Depth = 40
          NBatch = 3
          NKeys = 4
          Encs = {"nil", "empty", "mixed"}
          BOps <- OpsAll
          BatchLens = {3, 4, 5, 8}
          BatchSet <- SimBatchSet
INVARIANTS CanonInv LookupInv IterInv WFInv BatchInv
CONSTRAINT Emit
CONSTRAINT SimStop
CHECK_DEADLOCK FALSE
