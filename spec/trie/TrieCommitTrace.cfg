SPECIFICATION TraceSpec
CONSTANTS Nib = {0, 1, 2, 3, 4, 5, 6, 7, 8, 9, 10, 11, 12, 13, 14, 15}
          KeyLen = 64
          Vals = {}
          Pad = 0
          MaxKeys = 0
          TrackHash = FALSE
          MaxRoots = 0
INVARIANTS TreeInv StoreExact
POSTCONDITION TraceAccepted
CHECK_DEADLOCK FALSE
