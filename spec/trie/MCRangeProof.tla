--------------------------- MODULE MCRangeProof ---------------------------
(* Exhaustive check and verdict-table generation for RangeProof.tla (C09): one state per   *)
(* (key-value set, start key).  Candidate runs = every contiguous run of the trie's        *)
(* entries (and the empty run) and every single tampering of one (entry dropped, value     *)
(* altered or emptied, key injected at its sorted position - an absent key or an entry of  *)
(* the trie outside the run -, two neighbours swapped).                                    *)
EXTENDS RangeProofAlg, Json

CONSTANTS MaxKeys, EmitRows

VARIABLES kv, first

t == CanonKV(kv)
sk == SortedKeys(DOMAIN kv)
n == Len(sk)

AllKV == UNION {[S -> Vals] : S \in {X \in SUBSET Keys : Cardinality(X) <= MaxKeys}}

Init == kv \in AllKV /\ first \in Keys
Next == UNCHANGED <<kv, first>>
Spec == Init /\ [][Next]_<<kv, first>>

MinVal == CHOOSE v \in Vals : \A w \in Vals : v <= w

RemoveAt(B, i) == [x \in 1..(Len(B) - 1) |-> IF x < i THEN B[x] ELSE B[x + 1]]
InsertAt(B, p, e) == [x \in 1..(Len(B) + 1) |-> IF x < p THEN B[x] ELSE IF x = p THEN e ELSE B[x - 1]]
SortedPos(B, x) == 1 + Cardinality({i \in 1..Len(B) : SeqLess(B[i][1], x)})
Swap(B, i) == [B EXCEPT ![i] = B[i + 1], ![i + 1] = B[i]]

Tampers(B) ==
  {B}
  \cup {RemoveAt(B, i) : i \in 1..Len(B)}
  \cup {[B EXCEPT ![i] = <<B[i][1], v>>] : i \in 1..Len(B), v \in Vals \cup {0}}
  \cup {InsertAt(B, SortedPos(B, x), <<x, IF x \in DOMAIN kv THEN kv[x] ELSE MinVal>>) : x \in Keys \ RunKeys(B)}
  \cup {Swap(B, i) : i \in 1..(Len(B) - 1)}

Cands == UNION {Tampers(B) : B \in {HonestRun(kv, i, j) : i \in 1..n, j \in 1..n} \cup {<<>>}}

(* the runs an honest prover can produce for this start key *)
HonestSet ==
  ({HonestRun(kv, i, j) : i \in {x \in 1..n : HonestFirst(kv, first, x)}, j \in 1..n} \ {<<>>})
    \cup (IF \E x \in DOMAIN kv : SeqLeq(first, x) THEN {} ELSE {<<>>})

(* ------------------------------ theorems -------------------------------- *)
(* the declarative ground truth accepts exactly the honest runs, among all candidates *)
CharacterInv == \A R \in Cands : RangeOK(kv, first, R) <=> R \in HonestSet
(* more-flag of an honest run i..j *)
MoreInv == \A i \in 1..n : \A j \in i..n : More(kv, HonestRun(kv, i, j)) <=> j < n
(* with the honest edge proofs every honest run is accepted; no run is accepted without them *)
ProofInv == \A R \in HonestSet : t.t # "nil" =>
              /\ Accept(kv, t, first, R, Needed(t, first, R))
              /\ \A x \in Needed(t, first, R) : ~Accept(kv, t, first, R, StoredNodes(t) \ {x})
(* whole-trie runs without proof *)
NoProofInv == \A R \in Cands : AcceptNoProof(kv, R) <=> (R = HonestRun(kv, 1, n))

(* the algorithm of trie/proof.go (RangeProofAlg.tla) decides exactly Accept, reports the   *)
(* right more-flag and never panics: for every candidate run and for the complete proof     *)
(* database, exactly the needed nodes, and every database with one stored node withheld     *)
PSets(R) == {StoredNodes(t), Needed(t, first, R)} \cup {StoredNodes(t) \ {x} : x \in StoredNodes(t)}
AlgInv == \A R \in Cands : \A P \in PSets(R) :
            LET a == AlgVerify(t, first, R, P) IN
            /\ ~a.panic
            /\ a.ok = Accept(kv, t, first, R, P)
            /\ (a.ok => a.more = More(kv, R))

(* --------------------------------- rows ---------------------------------- *)
KVList(m) == LET s == SortedKeys(DOMAIN m) IN [i \in 1..Len(s) |-> [k |-> s[i], v |-> m[s[i]]]]
RECURSIVE TreeJ(_)
TreeJ(nd) ==
  CASE nd.t = "nil"  -> [t |-> "nil"]
    [] nd.t = "leaf" -> [t |-> "leaf", path |-> nd.path, val |-> nd.val, size |-> RlpSize(nd)]
    [] nd.t = "ext"  -> [t |-> "ext", path |-> nd.path, child |-> TreeJ(nd.child), size |-> RlpSize(nd)]
    [] nd.t = "br"   -> LET live == SortedSeq({i \in Nib : nd.ch[i] # Nil}) IN
                        [t |-> "br", size |-> RlpSize(nd),
                         ch |-> [j \in 1..Len(live) |-> [i |-> live[j], n |-> TreeJ(nd.ch[live[j]])]]]
RECURSIVE SetToSeq(_)
SetToSeq(S) == IF S = {} THEN <<>> ELSE LET x == CHOOSE y \in S : TRUE IN <<x>> \o SetToSeq(S \ {x})

RunJ(R) == [i \in 1..Len(R) |-> [k |-> R[i][1], v |-> R[i][2]]]
PathOf(nd) == (CHOOSE x \in StoredPaths(t) : x.node = nd).path

(* all candidates with the complete proof database (every stored node of the trie) *)
Cases == SetToSeq({[run |-> RunJ(R), ok |-> Accept(kv, t, first, R, StoredNodes(t)), more |-> More(kv, R),
                    nilok |-> AcceptNoProof(kv, R)] : R \in Cands})

(* honest runs with exactly the needed nodes, and with one stored node withheld *)
ProofCases == SetToSeq(UNION {
   {[run |-> RunJ(R), drop |-> <<>>, only |-> SetToSeq({PathOf(x) : x \in Needed(t, first, R)}),
     ok |-> Accept(kv, t, first, R, Needed(t, first, R)), more |-> More(kv, R)]}
   \cup {[run |-> RunJ(R), drop |-> <<PathOf(x)>>, only |-> <<>>,
          ok |-> Accept(kv, t, first, R, StoredNodes(t) \ {x}), more |-> More(kv, R)] : x \in StoredNodes(t)}
   : R \in HonestSet})

Row == [kv |-> KVList(kv), tree |-> TreeJ(t), first |-> first, cases |-> Cases, proofcases |-> ProofCases]

Emit == IF EmitRows THEN PrintT(<<"CASE", ToJson(Row)>>) ELSE TRUE
=============================================================================
