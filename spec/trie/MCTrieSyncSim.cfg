SPECIFICATION MCSpecEarly
CONSTANTS Scheme <- WScheme
          NumLocs <- WNumLocs
          LocPath <- WLocPath
          Target <- WTarget
          Kids <- WKids
          Inner <- WInner
          Sub <- WSub
          BlobSize <- WBlobSize
          Stale <- WStale
          RootLoc <- WRootLoc
          NumCodes <- WNumCodes
          CodeSize <- WCodeSize
          Batches = {0, 1, 2, 3}
          MaxFetches = 16384
          MaxCmds = 40

CONSTRAINT Emit
CONSTRAINT Bounded
CHECK_DEADLOCK FALSE
