----------------------------- MODULE HealFilter -----------------------------
(* The hash cross-reference that stands between the network and the trie sync scheduler     *)
(* (eth/protocols/snap: OnTrieNodes, onHealByteCodes).  A request lists hashes; a response   *)
(* is a list of blobs, here represented by their hashes (0: the hash of a blob that is no     *)
(* node/code of the world).  Each delivered blob is matched, in order, to the next requested  *)
(* hash that equals its own; requested items that are skipped are gaps (to be re-requested);  *)
(* a blob that matches no remaining request makes the whole response invalid and nothing of   *)
(* it reaches the scheduler.  This is where "a delivered node whose hash does not match its    *)
(* request is rejected and never written" (C12) is decided.                                    *)
EXTENDS Integers, Sequences, FiniteSets

NextIdx(req, h, from) ==
  LET cand == {k \in from..Len(req) : req[k] = h} IN
  IF cand = {} THEN 0 ELSE CHOOSE k \in cand : \A j \in cand : k <= j

(* fill[k] = index of the delivered blob forwarded for request k, 0 = gap *)
RECURSIVE MatchFrom(_, _, _, _, _)
MatchFrom(req, resp, i, from, fill) ==
  IF i > Len(resp) THEN [ok |-> TRUE, fill |-> fill]
  ELSE LET k == NextIdx(req, resp[i], from) IN
       IF k = 0 THEN [ok |-> FALSE, fill |-> [j \in 1..Len(req) |-> 0]]
       ELSE MatchFrom(req, resp, i + 1, k + 1, [fill EXCEPT ![k] = i])
Match(req, resp) == MatchFrom(req, resp, 1, 1, [j \in 1..Len(req) |-> 0])

(* ------------------------------ what the filter guarantees ------------------------------ *)
(* whatever is forwarded for a request carries exactly the requested hash *)
ForwardedMatches(req, resp) ==
  LET m == Match(req, resp) IN \A k \in 1..Len(req) : m.fill[k] # 0 => resp[m.fill[k]] = req[k]
(* a response containing a blob whose hash was not requested is rejected as a whole *)
ForeignRejected(req, resp) ==
  (\E i \in 1..Len(resp) : \A k \in 1..Len(req) : req[k] # resp[i]) => ~Match(req, resp).ok
(* rejected responses forward nothing *)
RejectedForwardsNothing(req, resp) ==
  LET m == Match(req, resp) IN ~m.ok => \A k \in 1..Len(req) : m.fill[k] = 0
(* honest answers (a sub-sequence of the request, in order) are accepted and fully forwarded *)
RECURSIVE IsSubSeq(_, _)
IsSubSeq(a, b) == IF Len(a) = 0 THEN TRUE ELSE IF Len(b) = 0 THEN FALSE
                  ELSE IF a[1] = b[1] THEN IsSubSeq(Tail(a), Tail(b)) ELSE IsSubSeq(a, Tail(b))
HonestAccepted(req, resp) ==
  IsSubSeq(resp, req) =>
     LET m == Match(req, resp) IN m.ok /\ Cardinality({k \in 1..Len(req) : m.fill[k] # 0}) = Len(resp)
=============================================================================
