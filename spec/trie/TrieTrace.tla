----------------------------- MODULE TrieTrace -----------------------------
(* Trace validation for Trie.tla (C06): seeded long histories on the real trie.Trie over   *)
(* 32-byte keys (64 nibbles, alphabet 0..15).  Every logged call must be explained by the  *)
(* corresponding action of Trie.tla on the model tree (the Yellow-Paper insert / delete of *)
(* MPT.tla; a batch by its sequential semantics, which MCTrie proves equal to every        *)
(* interleaving of the concurrent workers), and what the implementation showed afterwards  *)
(* must match the model:                                                                   *)
(*   gets    Get results of sampled keys        = Lookup on the model tree                 *)
(*   nodes   NodeIterator listing (path, hashed?) = the model's nodes and their            *)
(*           stored-vs-embedded decision (when has = TRUE)                                 *)
(*   root    the root hash: equal key-value sets <=> equal roots (identity bookkeeping     *)
(*           over all roots seen in the trace: hashes are opaque in the model)             *)
(* CanonInv (tree = canonical tree of kv) is evaluated after every real step.              *)
EXTENDS Trie, Json, IOUtils

Trace == ndJsonDeserialize(IOEnv.TRACE)

VARIABLES l, seen      \* seen: root string -> model tree, for every root logged so far

Ev == Trace[l]

OpsOf(list) == [i \in 1..Len(list) |-> [k |-> list[i].k, v |-> list[i].v]]
SeqSet(s) == {s[i] : i \in 1..Len(s)}

Observed ==
  /\ \A i \in 1..Len(Ev.gets) : Lookup(tree', Ev.gets[i].k) = Ev.gets[i].v
  /\ Ev.has => /\ SeqSet(Ev.nodes) = {[path |-> x.path, stored |-> IsStored(x)] : x \in Nodes(tree', <<>>)}
               /\ Len(Ev.nodes) = Cardinality(Nodes(tree', <<>>))
               /\ Ev.leaves = Cardinality(DOMAIN kv')
               /\ IF Ev.root \in DOMAIN seen THEN seen[Ev.root] = tree' /\ seen' = seen
                  ELSE /\ \A r \in DOMAIN seen : seen[r] # tree'
                       /\ seen' = [r \in DOMAIN seen \cup {Ev.root} |-> IF r = Ev.root THEN tree' ELSE seen[r]]
  /\ ~Ev.has => seen' = seen

Step(A) == l <= Len(Trace) /\ A /\ l' = l + 1

TReset == Step(Ev.op = "reset" /\ kv' = EmptyKV /\ tree' = Nil /\ seen' = seen /\ UNCHANGED <<pend, goal>>)
TPut   == Step(Ev.op = "put" /\ Ev.v # 0 /\ Put(Ev.k, Ev.v) /\ Observed)
TDel   == Step(Ev.op \in {"del", "putempty"} /\ Del(Ev.k) /\ Observed)
TBatch == Step(/\ Ev.op = "batch"
               /\ kv' = FoldKV(kv, OpsOf(Ev.ops)) /\ tree' = FoldTree(tree, OpsOf(Ev.ops))
               /\ UNCHANGED <<pend, goal>> /\ Observed)

TraceInit == Init /\ l = 1 /\ seen = <<>>
TraceNext == TReset \/ TPut \/ TDel \/ TBatch
TraceSpec == TraceInit /\ [][TraceNext]_<<kv, tree, pend, goal, l, seen>>

TraceAccepted == TLCGet("stats").diameter - 1 = Len(Trace)
=============================================================================
