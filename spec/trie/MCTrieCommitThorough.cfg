SPECIFICATION MCSpec
CONSTANTS Nib = {0, 1, 15}
          KeyLen = 2
          Vals = {10, 331}
          Pad = 0
          MaxKeys = 2
          TrackHash = FALSE
          MaxRoots = 0
          Mode = "mc"
          Depth = 0
          MaxGen = 0
          CommitWeight = 1
          NKeys = 3
INVARIANTS TreeInv StoreExact ReadBackInv
PROPERTIES CommitOK
CONSTRAINT Small
VIEW View
CHECK_DEADLOCK FALSE
