--------------------------- MODULE BulkSyncTrace ---------------------------
(* Summarised validation of a bulk trie sync (one contract with tens of thousands of slots,   *)
(* state.NewStateSync, honest batched delivery, empty local database).  The target is too      *)
(* large to be a TLC constant, so the driver logs one event per round (Missing - deliver all -  *)
(* maybe Commit) with counts, and decides node-level facts (requested item is a target item     *)
(* requested for the first time, database content equals the source) itself.  What is checked   *)
(* here are the clauses of TrieSync.tla that only show at this size:                             *)
(*   OnlyTargetRequested  in total exactly the target items are handed out, each once            *)
(*   FetchBound           Missing never has more than MaxFetches + 1 requests of one depth       *)
(*                        handed out and unanswered                                              *)
(*   SlotsReleased / Complete / Terminates                                                       *)
(*                        completed requests release their slot, so the throttle lets the sync   *)
(*                        go on: when Missing returns nothing, nothing is pending and the        *)
(*                        database holds exactly the target                                      *)
EXTENDS Integers, Sequences, TLC, Json, IOUtils

CONSTANT MaxFetches
Trace == ndJsonDeserialize(IOEnv.TRACE)
VARIABLES l, target, asked
Ev == Trace[l]

Start == /\ Ev.op = "start" /\ Ev.target > 0 /\ Ev.pending = 1        \* only the root is scheduled
         /\ target' = Ev.target /\ asked' = 0
Round == /\ Ev.op = "round"
         /\ Ev.asked > 0 /\ (Ev.max = 0 \/ Ev.asked <= Ev.max)
         /\ Ev.delivered = Ev.asked
         /\ Ev.undelivered_peak <= MaxFetches + 1
         /\ asked' = asked + Ev.asked /\ asked' <= target
         /\ Ev.pending >= 0 /\ Ev.pending <= target
         /\ UNCHANGED target
Final == /\ Ev.op = "final"
         /\ Ev.asked = asked /\ Ev.delivered = asked /\ Ev.target = target
         /\ Ev.pending = 0            \* Missing returned nothing: the sync must be over
         /\ asked = target           \* every item of the target requested, once
         /\ Ev.complete /\ ~Ev.foreign /\ Ev.stored = Ev.want
         /\ UNCHANGED <<target, asked>>

Init == l = 1 /\ target = 0 /\ asked = 0
Next == l <= Len(Trace) /\ (Start \/ Round \/ Final) /\ l' = l + 1
TraceSpec == Init /\ [][Next]_<<l, target, asked>>
TraceAccepted == TLCGet("stats").diameter - 1 = Len(Trace)
=============================================================================
