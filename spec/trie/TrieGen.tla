------------------------------- MODULE TrieGen -------------------------------
(* Trie generation from flat state (triedb/generate.go).  Property C11.                     *)
(*                                                                                         *)
(* The flat state is a sorted account table (account hash -> account, with a recorded       *)
(* storage root that may be stale) and a sorted storage table ((account hash, slot hash) ->  *)
(* value) that may contain slots of accounts that do not exist.  The account hash space is   *)
(* split by the first nibble into partitions; every partition runs generatePartition, a      *)
(* merge-join of the two tables that                                                          *)
(*   - deletes the slots of owners that are no account (before, between and after the        *)
(*     accounts of the partition),                                                            *)
(*   - builds the storage trie of every account and rewrites the flat account when its       *)
(*     recorded root differs,                                                                 *)
(*   - builds the partition's slice of the account trie with the leading nibble stripped,    *)
(*     emitting the nodes at their absolute paths,                                            *)
(* and assembleRoot mounts the slices: no populated partition -> empty root; exactly one ->   *)
(* the leading nibble is folded back into the slice's root (a branch gets an extension in    *)
(* front and stays where it is, a short node gets its key extended and the copy at [n] is     *)
(* deleted); two or more -> a branch over the slice roots.                                    *)
(* One action per loop iteration of generatePartition so that partitions interleave, a       *)
(* Flush action for the batch threshold, one action for assembleRoot.  The trie layer comes   *)
(* from MPT.tla: a stack trie fed with sorted keys yields Canon of the key set.               *)
EXTENDS MPT, FlatCorrection

CONSTANTS
  AcctKeys,     \* account hashes that may occur (model keys, subset of Keys)
  SlotKeys,     \* slot hashes that may occur (subset of Keys)
  SlotVal,      \* [SlotKeys -> Vals] the value a slot has when present
  FlushAnywhere,\* TRUE: the batch may be written at any loop iteration (threshold abstracted)
  Sequential    \* TRUE: partitions run one after the other (model checking all layouts);
                \* FALSE: the partition goroutines interleave freely

None == <<"none">>
Parts == Nib                         \* partition = first nibble; partitions outside Nib are empty
PartOf(k) == k[1]

VARIABLES
  flatA,     \* [account hash -> [stale : BOOLEAN]]   the flat account table in the database
  flatS,     \* set of <<account hash, slot hash>>     the flat storage table in the database
  nodes,     \* set of [owner, path, node]             trie nodes in the database (path scheme view)
  want,      \* "correct" / "other": the expected root handed to GenerateTrie (read by assembleRoot's caller)
  pc,        \* [Parts -> "acct" | "slots" | "tail" | "done"]
  cur,       \* [Parts -> account being processed or None]
  lastA,     \* [Parts -> last account returned by the account iterator or None]
  lastS,     \* [Parts -> last storage entry consumed by the storage iterator or None]
  slots,     \* [Parts -> set of <<slot hash, value>> collected for cur]
  pkv,       \* [Parts -> set of <<stripped account key, account value>> fed to the slice builder]
  batch,     \* [Parts -> Seq of pending database operations]
  proot,     \* [Parts -> root node of the finished slice, Nil while running or if empty]
  stats,     \* [scanned, updated, deleted]
  result,    \* [done, err : BOOLEAN, root : node]
  flat0      \* ghost: the flat state GenerateTrie started from [A, S]

vars == <<flatA, flatS, nodes, want, pc, cur, lastA, lastS, slots, pkv, batch, proot, stats, result, flat0>>

(* ------------------------------ trie layer ------------------------------ *)
SlotsOf(S, a) == {<<e[2], SlotVal[e[2]]>> : e \in {x \in S : x[1] = a}}
StorageTrie(slotset) == Canon(slotset)
(* value of an account leaf: the account with the storage root of its slots (opaque hash) *)
AcctVal(a, slotset) == [acct |-> a, sroot |-> Hash(StorageTrie(slotset))]
(* nodes a finished storage trie writes under its owner (root always, others when >= 32 bytes) *)
StorageNodes(a, slotset) == {[owner |-> a, path |-> x.path, node |-> x.node] : x \in StoredPaths(StorageTrie(slotset))}
(* account leaves are larger than 32 bytes, so every node of the account trie is stored *)
AcctNodes(root, prefix) == {[owner |-> None, path |-> x.path, node |-> x.node] : x \in Nodes(root, prefix)}

(* ------------------------------ iterators ------------------------------ *)
EntryLess(e, f) == SeqLess(e[1], f[1]) \/ (e[1] = f[1] /\ SeqLess(e[2], f[2]))
MinKey(S) == CHOOSE k \in S : \A j \in S \ {k} : SeqLess(k, j)
MinEntry(S) == CHOOSE e \in S : \A f \in S \ {e} : EntryLess(e, f)

(* next account of the partition's account iterator (it stops at the end of the range) *)
AcctCands(p) == {k \in DOMAIN flatA : PartOf(k) = p /\ (lastA[p] = None \/ SeqLess(lastA[p], k))}
(* next entry of the partition's storage iterator: it starts at the range start and is not  *)
(* bounded above                                                                             *)
StorCands(p) == {e \in flatS : PartOf(e[1]) >= p /\ (lastS[p] = None \/ EntryLess(lastS[p], e))}

Op(k, a, b) == [k |-> k, a |-> a, b |-> b]
Push(p, ops) == batch' = [batch EXCEPT ![p] = @ \o ops]

(* ------------------------------ generatePartition ------------------------------ *)
(* for iters.acct.Next() *)
NextAccount(p) ==
  /\ pc[p] = "acct"
  /\ IF AcctCands(p) = {}
     THEN /\ pc' = [pc EXCEPT ![p] = "tail"]
          /\ UNCHANGED <<cur, lastA, slots, stats>>
     ELSE LET a == MinKey(AcctCands(p)) IN
          /\ pc' = [pc EXCEPT ![p] = "slots"]
          /\ cur' = [cur EXCEPT ![p] = a]
          /\ lastA' = [lastA EXCEPT ![p] = a]
          /\ slots' = [slots EXCEPT ![p] = {}]
          /\ stats' = [stats EXCEPT !.scanned = @ + 1]
  /\ UNCHANGED <<flatA, flatS, nodes, want, lastS, pkv, batch, proot, result, flat0>>

(* the account is complete: hash its storage trie, fix the flat account, feed the slice *)
FinishAccount(p) ==
  LET a == cur[p]
      st == slots[p]
      fix == IF flatA[a].stale THEN <<Op("putA", a, None)>> ELSE <<>>
  IN /\ Push(p, fix \o <<Op("nodes", StorageNodes(a, st), None)>>)
     /\ stats' = [stats EXCEPT !.updated = @ + (IF flatA[a].stale THEN 1 ELSE 0)]
     /\ pkv' = [pkv EXCEPT ![p] = @ \cup {<<Tail(a), AcctVal(a, st)>>}]
     /\ pc' = [pc EXCEPT ![p] = "acct"]
     /\ cur' = [cur EXCEPT ![p] = None]

(* for iters.stor.Next() inside the account loop *)
SlotStep(p) ==
  /\ pc[p] = "slots"
  /\ IF StorCands(p) = {}
     THEN FinishAccount(p) /\ UNCHANGED <<lastS, slots>>
     ELSE LET e == MinEntry(StorCands(p)) IN
          IF SeqLess(e[1], cur[p])
          THEN \* slot of an owner that is no account: delete it
               /\ Push(p, <<Op("delS", e[1], e[2])>>)
               /\ stats' = [stats EXCEPT !.deleted = @ + 1]
               /\ lastS' = [lastS EXCEPT ![p] = e]
               /\ UNCHANGED <<pc, cur, slots, pkv>>
          ELSE IF SeqLess(cur[p], e[1])
          THEN \* slot of a later owner: Hold() and leave the loop
               FinishAccount(p) /\ UNCHANGED <<lastS, slots>>
          ELSE /\ slots' = [slots EXCEPT ![p] = @ \cup {<<e[2], SlotVal[e[2]]>>}]
               /\ lastS' = [lastS EXCEPT ![p] = e]
               /\ UNCHANGED <<pc, cur, pkv, batch, stats>>
  /\ UNCHANGED <<flatA, flatS, nodes, want, lastA, proot, result, flat0>>

ApplyOp(db, o) ==
  CASE o.k = "delS"  -> [db EXCEPT !.S = @ \ {<<o.a, o.b>>}]
    [] o.k = "putA"  -> [db EXCEPT !.A = [@ EXCEPT ![o.a] = [stale |-> FALSE]]]
    [] o.k = "nodes" -> [db EXCEPT !.N = @ \cup o.a]
RECURSIVE ApplyOps(_, _)
ApplyOps(db, ops) == IF Len(ops) = 0 THEN db ELSE ApplyOps(ApplyOp(db, Head(ops)), Tail(ops))
WriteBatch(p) ==
  LET db == ApplyOps([A |-> flatA, S |-> flatS, N |-> nodes], batch[p]) IN
  /\ flatA' = db.A /\ flatS' = db.S /\ nodes' = db.N
  /\ batch' = [batch EXCEPT ![p] = <<>>]

(* the slots after the last account of the range, then the end of the partition *)
TailStep(p) ==
  /\ pc[p] = "tail"
  /\ LET inRange == {e \in StorCands(p) : PartOf(e[1]) = p} IN
     IF inRange # {}
     THEN LET e == MinEntry(StorCands(p)) IN
          /\ Push(p, <<Op("delS", e[1], e[2])>>)
          /\ stats' = [stats EXCEPT !.deleted = @ + 1]
          /\ lastS' = [lastS EXCEPT ![p] = e]
          /\ UNCHANGED <<flatA, flatS, nodes, pc, proot>>
     ELSE \* acctTrie.Hash() emits the slice; final batch.Write()
          LET slice == Canon(pkv[p])
              db == ApplyOps([A |-> flatA, S |-> flatS, N |-> nodes], batch[p] \o <<Op("nodes", AcctNodes(slice, <<p>>), None)>>)
          IN /\ flatA' = db.A /\ flatS' = db.S /\ nodes' = db.N
             /\ batch' = [batch EXCEPT ![p] = <<>>]
             /\ proot' = [proot EXCEPT ![p] = slice]
             /\ pc' = [pc EXCEPT ![p] = "done"]
             /\ UNCHANGED <<stats, lastS>>
  /\ UNCHANGED <<want, cur, lastA, slots, pkv, result, flat0>>

(* flushIfFull: the batch is written in the middle of the partition's work *)
Flush(p) ==
  /\ FlushAnywhere /\ pc[p] \in {"acct", "slots", "tail"} /\ Len(batch[p]) > 0
  /\ WriteBatch(p)
  /\ UNCHANGED <<want, pc, cur, lastA, lastS, slots, pkv, proot, stats, result, flat0>>

(* ------------------------------ assembleRoot ------------------------------ *)
Populated == {p \in Parts : proot[p] # Nil}
(* trie.MountPartitionRoot *)
Mount(r, p) == CASE r.t = "br"   -> [root |-> Ext(<<p>>, r), orphan |-> FALSE]
                 [] r.t = "ext"  -> [root |-> Ext(<<p>> \o r.path, r.child), orphan |-> TRUE]
                 [] r.t = "leaf" -> [root |-> Leaf(<<p>> \o r.path, r.val), orphan |-> TRUE]
Assemble ==
  /\ ~result.done /\ \A p \in Parts : pc[p] = "done"
  /\ want' \in {"correct", "other"}
  /\ LET n == Cardinality(Populated) IN
     IF n = 0 THEN /\ result' = [done |-> TRUE, err |-> want' # "correct", root |-> Nil]
                   /\ UNCHANGED nodes
     ELSE IF n = 1
     THEN LET p == CHOOSE x \in Populated : TRUE
              m == Mount(proot[p], p)
              top == [owner |-> None, path |-> <<>>, node |-> m.root]
              old == [owner |-> None, path |-> <<p>>, node |-> proot[p]]
          IN /\ nodes' = (IF m.orphan THEN nodes \ {old} ELSE nodes) \cup {top}
             /\ result' = [done |-> TRUE, err |-> want' # "correct", root |-> m.root]
     ELSE LET top == Br([i \in Nib |-> proot[i]])
          IN /\ nodes' = nodes \cup {[owner |-> None, path |-> <<>>, node |-> top]}
             /\ result' = [done |-> TRUE, err |-> want' # "correct", root |-> top]
  /\ UNCHANGED <<flatA, flatS, pc, cur, lastA, lastS, slots, pkv, batch, proot, stats, flat0>>

(* ------------------------------ initial states ------------------------------ *)
(* every layout: each key is no account / a fresh account / an account with a stale root,   *)
(* and independently owns any subset of the slots (an owner that is no account is dangling)  *)
SlotSets == {S \in SUBSET SlotKeys : \A x \in S, y \in SlotKeys : SeqLess(y, x) => y \in S}   \* prefixes of the sorted slots
Layouts == [AcctKeys -> [a : {"none", "fresh", "stale"}, s : SlotSets]]
InitWith(lay) ==
  /\ flatA = [k \in {x \in AcctKeys : lay[x].a # "none"} |-> [stale |-> lay[k].a = "stale"]]
  /\ flatS = UNION {{<<k, s>> : s \in lay[k].s} : k \in AcctKeys}
  /\ nodes = {}
  /\ want = "unset"
  /\ pc = [p \in Parts |-> "acct"]
  /\ cur = [p \in Parts |-> None] /\ lastA = [p \in Parts |-> None] /\ lastS = [p \in Parts |-> None]
  /\ slots = [p \in Parts |-> {}] /\ pkv = [p \in Parts |-> {}]
  /\ batch = [p \in Parts |-> <<>>] /\ proot = [p \in Parts |-> Nil]
  /\ stats = [scanned |-> 0, updated |-> 0, deleted |-> 0]
  /\ result = [done |-> FALSE, err |-> FALSE, root |-> Nil]
  /\ flat0 = [A |-> flatA, S |-> flatS]
Init == \E lay \in Layouts : InitWith(lay)

Step(p) == NextAccount(p) \/ SlotStep(p) \/ TailStep(p) \/ Flush(p)
MayRun(p) == ~Sequential \/ \A q \in Parts : q < p => pc[q] = "done"
Next == (\E p \in Parts : MayRun(p) /\ Step(p)) \/ Assemble
Spec == Init /\ [][Next]_vars

(* ------------------------------ the property ------------------------------ *)
(* the state described by the flat data after correction *)
Accounts0 == DOMAIN flat0.A
CorrectedS == CorrectedStorage(Accounts0, flat0.S)
CorrectedKV == {<<a, AcctVal(a, SlotsOf(flat0.S, a))>> : a \in Accounts0}
CanonRoot == Canon(CorrectedKV)
CanonNodes == AcctNodes(CanonRoot, <<>>) \cup UNION {StorageNodes(a, SlotsOf(flat0.S, a)) : a \in Accounts0}
Dangling0 == flat0.S \ CorrectedS
Stale0 == {a \in Accounts0 : flat0.A[a].stale}

Finished == result.done

(* root of the corrected state; mismatch reported exactly when another root was expected *)
RootCorrect == Finished => result.root = CanonRoot /\ result.err = (want # "correct")
(* flat state corrected: stale roots rewritten, dangling storage gone, nothing else touched *)
FlatCorrected == Finished => /\ DOMAIN flatA = Accounts0 /\ \A a \in Accounts0 : ~flatA[a].stale
                             /\ flatS = CorrectedS
(* the node store holds exactly the canonical tries: opens at the root, nothing outside *)
StoreExact == Finished => nodes = CanonNodes
(* counters *)
StatsExact == Finished => stats = ExpectedStats(Accounts0, Stale0, flat0.S)
(* while running: nothing but dangling slots is ever deleted, accounts are never lost *)
NeverLosesState == /\ DOMAIN flatA = Accounts0
                   /\ CorrectedS \subseteq flatS
=============================================================================
