SPECIFICATION MCSpec
CONSTANTS Nib = {0, 1, 2, 15}
          KeyLen = 3
          Vals = {10, 11, 331}
          Pad = 61
          MaxKeys = 64
          TrackHash = FALSE
          MaxRoots = 0
          MaxOps = 8
          Mode = "sim"
          Depth = 60
          MaxGen = 6
          CommitWeight = 3
          NKeys = 3
INVARIANTS MTreeInv TracerInv StoreExact
PROPERTIES MechRefines CommitOK
CONSTRAINT Emit
CONSTRAINT SimStop
CHECK_DEADLOCK FALSE
