------------------------------- MODULE ProofKV -------------------------------
(* Key-value level specification of Trie.Prove / VerifyProof for keys of ARBITRARY length  *)
(* (C08, growth beyond the fixed-length structural model of MPT.tla / Proof.tla): keys     *)
(* are nibble-free byte strings, one key may be a strict prefix of another and the empty   *)
(* key is a key, so values also live in the value slot (17th child) of branch nodes.       *)
(* The trie is abstracted to its key-value function; a proof set is abstracted to whether  *)
(* it is the complete honest proof of the key (Prove's output, possibly with extra nodes)  *)
(* or an arbitrary subset of genuine nodes.                                                *)
(*   Complete : over the honest proof VerifyProof returns exactly Lookup(kv, key)          *)
(*   Sound    : over any set of genuine nodes it returns an error or Lookup(kv, key)       *)
(* Results: a value id > 0, Absent = 0 (proven absent), Err = -1. Panics (-2) and values   *)
(* that are not the trie's (-3) are never allowed.                                         *)
EXTENDS Integers, Sequences, FiniteSets

Absent == 0
Err == -1

Lookup(kv, key) == IF key \in DOMAIN kv THEN kv[key] ELSE Absent

Complete(kv, key, res) == res = Lookup(kv, key)
Sound(kv, key, res) == res \in {Err, Lookup(kv, key)}
(* the empty trie has no root node: Prove emits nothing and VerifyProof reports an error    *)
CompleteOrEmpty(kv, key, res) == IF DOMAIN kv = {} THEN res = Err ELSE Complete(kv, key, res)
=============================================================================
