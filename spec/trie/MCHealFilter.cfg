SPECIFICATION Spec
CONSTANTS MaxLen = 4
          Hashes = {0, 1, 2, 3}
INVARIANT Sound
CHECK_DEADLOCK FALSE
