------------------------------- MODULE Proof -------------------------------
(* Property C08: Merkle proofs are sound and complete.                                    *)
(*                                                                                        *)
(*   ProofNodes(t, k)   what Trie.Prove puts into the proof database: the nodes on the    *)
(*                      path of k that are stored on their own (the root always, the      *)
(*                      others iff their encoding has >= 32 bytes)                        *)
(*   Verify(t, k, P)    trie.VerifyProof for the root of t over the proof database P:     *)
(*                      the hash-chained walk; embedded nodes are walked inside the blob  *)
(*                      of their parent.  P is a set of nodes; hashes are opaque and      *)
(*                      injective, so "the database holds a blob with hash h" is "the     *)
(*                      node with Hash(node) = h is in P".                                *)
(* The adversary assembles P from genuine nodes of the trie and of another trie.          *)
EXTENDS MPT

Fail   == -1     \* verification error
Absent == 0      \* proven absence (VerifyProof returns nil, nil)

TrueVal(kv, k) == IF k \in DOMAIN kv THEN kv[k] ELSE Absent

(* ---------------------------- proof generation -------------------------- *)
RECURSIVE PathNodes(_, _, _)
(* all nodes visited by the walk for key (suffix `key`) starting at node n sitting at prefix *)
PathNodes(n, key, prefix) ==
  CASE n.t = "nil"  -> {}
    [] n.t = "leaf" -> {[path |-> prefix, node |-> n]}
    [] n.t = "ext"  -> {[path |-> prefix, node |-> n]} \cup
                       (IF IsPrefix(n.path, key) THEN PathNodes(n.child, Drop(key, Len(n.path)), prefix \o n.path) ELSE {})
    [] n.t = "br"   -> {[path |-> prefix, node |-> n]} \cup
                       (IF Len(key) = 0 THEN {} ELSE PathNodes(n.ch[key[1]], Tail(key), Append(prefix, key[1])))

ProofNodes(t, k) == {x.node : x \in {y \in PathNodes(t, k, <<>>) : IsStored(y)}}

StoredNodes(t) == {x.node : x \in StoredPaths(t)}

(* ------------------------------ verification ---------------------------- *)
RECURSIVE Walk(_, _, _, _)
(* n is a node whose blob is available (it was found in P, or it is embedded in such a    *)
(* node); root tells whether n is the root (always referenced by hash).                    *)
Resolve(c, key, P) ==
  (* reference to child c: embedded children are part of the blob, others need P *)
  IF c.t = "nil" THEN Absent
  ELSE IF Embedded(c) THEN Walk(c, key, P, FALSE)
  ELSE IF c \in P THEN Walk(c, key, P, FALSE)
  ELSE Fail
Walk(n, key, P, isroot) ==
  CASE n.t = "leaf" -> IF n.path = key THEN n.val ELSE Absent
    [] n.t = "ext"  -> IF IsPrefix(n.path, key) THEN Resolve(n.child, Drop(key, Len(n.path)), P) ELSE Absent
    [] n.t = "br"   -> IF Len(key) = 0 THEN Absent ELSE Resolve(n.ch[key[1]], Tail(key), P)

Verify(t, k, P) == IF t.t = "nil" \/ t \notin P THEN Fail ELSE Walk(t, k, P, TRUE)

(* ------------------------------- properties ----------------------------- *)
(* for a trie with key-value set kv, its tree t, any key k and any proof set P *)
Sound(kv, t, k, P)    == Verify(t, k, P) \in {TrueVal(kv, k), Fail}
Complete(kv, t, k, P) == (t.t # "nil" /\ ProofNodes(t, k) \subseteq P) => Verify(t, k, P) = TrueVal(kv, k)
(* the exact verdict: verification succeeds iff the proof set holds every node Prove emits *)
Exact(kv, t, k, P)    == Verify(t, k, P) = IF t.t # "nil" /\ ProofNodes(t, k) \subseteq P THEN TrueVal(kv, k) ELSE Fail
=============================================================================
