SPECIFICATION TraceSpec
CONSTANTS Scheme <- WScheme
          NumLocs <- WNumLocs
          LocPath <- WLocPath
          Target <- WTarget
          Kids <- WKids
          Inner <- WInner
          Sub <- WSub
          BlobSize <- WBlobSize
          Stale <- WStale
          RootLoc <- WRootLoc
          NumCodes <- WNumCodes
          CodeSize <- WCodeSize
          Batches = {0}
          MaxFetches = 16384
INVARIANTS OnlyTargetRequested OnlyTargetWritten DBClosed BatchClosed CompleteT DepsExact SizeExact FetchBound
POSTCONDITION TraceAccepted
CHECK_DEADLOCK FALSE
