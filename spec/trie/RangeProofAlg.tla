---------------------------- MODULE RangeProofAlg ----------------------------
(* Second layer of property C09: the verification *algorithm* of trie/proof.go             *)
(* (VerifyRangeProof = proofToPath x 2, unsetInternal / unset, re-insertion of the run,    *)
(* root comparison, hasRightElement) over partially resolved tries, step by step as the    *)
(* code performs it, including the cached node hashes: a node decoded from a proof blob    *)
(* carries the hash it was loaded under, and the hasher trusts that cache unless the node  *)
(* was marked dirty.  TLC checks AlgVerify against the ground truth of RangeProof.tla      *)
(* (MCRangeProof!AlgInv): accepted <=> Accept, same more-flag, never a panic.              *)
(*                                                                                         *)
(* Partial nodes: Nil | [t = "hash", n]            unresolved reference to full node n     *)
(*              | leaf / ext / br with field o     o = the full node whose hash is cached, *)
(*                                                 or NoOrig when the node is dirty / was  *)
(*                                                 decoded inline (embedded in its parent) *)
(*              | Panic                            marks a state in which the code panics  *)
EXTENDS RangeProof

NoOrig == [t |-> "none"]
Panic  == [t |-> "panic"]
PLeaf(p, v, o) == [t |-> "leaf", path |-> p, val |-> v, o |-> o]
PExt(p, c, o)  == [t |-> "ext", path |-> p, child |-> c, o |-> o]
PBr(ch, o)     == [t |-> "br", ch |-> ch, o |-> o]
PHash(n)       == [t |-> "hash", n |-> n]

(* ------------------------------- decodeNode ------------------------------ *)
RECURSIVE Decode(_, _)
RECURSIVE DecodeRef(_)
(* byhash: the blob was fetched from the proof database under its hash (flags.hash set) *)
Decode(n, byhash) ==
  LET o == IF byhash THEN n ELSE NoOrig IN
  CASE n.t = "leaf" -> PLeaf(n.path, n.val, o)
    [] n.t = "ext"  -> PExt(n.path, DecodeRef(n.child), o)
    [] n.t = "br"   -> PBr([i \in Nib |-> DecodeRef(n.ch[i])], o)
DecodeRef(c) == IF c.t = "nil" THEN Nil ELSE IF Embedded(c) THEN Decode(c, FALSE) ELSE PHash(c)

(* ------------------------------- proofToPath ----------------------------- *)
(* result: [err, node, val]; val = 0 when the path does not end in a value *)
RECURSIVE P2P(_, _, _, _)
P2PChild(c, key, P, allowNE) ==
  IF c.t = "nil" THEN [err |-> ~allowNE, node |-> c, val |-> 0]
  ELSE IF c.t = "hash" THEN
         IF c.n \in P THEN P2P(Decode(c.n, TRUE), key, P, allowNE) ELSE [err |-> TRUE, node |-> c, val |-> 0]
  ELSE P2P(c, key, P, allowNE)
P2P(n, key, P, allowNE) ==
  CASE n.t = "leaf" -> IF n.path = key THEN [err |-> FALSE, node |-> n, val |-> n.val]
                       ELSE [err |-> ~allowNE, node |-> n, val |-> 0]
    [] n.t = "ext"  -> IF IsPrefix(n.path, key)
                       THEN LET r == P2PChild(n.child, Drop(key, Len(n.path)), P, allowNE) IN
                            [err |-> r.err, node |-> [n EXCEPT !.child = r.node], val |-> r.val]
                       ELSE [err |-> ~allowNE, node |-> n, val |-> 0]
    [] n.t = "br"   -> LET r == P2PChild(n.ch[key[1]], Tail(key), P, allowNE) IN
                       [err |-> r.err, node |-> [n EXCEPT !.ch[key[1]] = r.node], val |-> r.val]

(* first call: the root node itself is resolved from the proof database *)
P2PRoot(t, key, P, allowNE) ==
  IF t.t = "nil" \/ t \notin P THEN [err |-> TRUE, node |-> Nil, val |-> 0]
  ELSE P2P(Decode(t, TRUE), key, P, allowNE)

(* ----------------------------------- unset ------------------------------- *)
RECURSIVE U(_, _, _)
(* c hangs below a full node (or is the child of the fork extension); k is the rest of    *)
(* the edge key below that slot; the result replaces c in its parent                      *)
U(c, k, removeLeft) ==
  CASE c.t = "nil"  -> Nil
    [] c.t = "br"   -> LET kept == [i \in Nib |-> IF (removeLeft /\ i < k[1]) \/ (~removeLeft /\ i > k[1]) THEN Nil ELSE c.ch[i]] IN
                       PBr([kept EXCEPT ![k[1]] = U(@, Tail(k), removeLeft)], NoOrig)
    [] c.t \in {"leaf", "ext"} ->
         IF ~IsPrefix(c.path, k)
         THEN (* fork inside a short node: drop it iff it lies on the range side of the edge; *)
              (* if kept, it keeps its cached hash                                            *)
              IF removeLeft THEN (IF SeqLess(c.path, k) THEN Nil ELSE c)
              ELSE (IF SeqLess(k, c.path) THEN Nil ELSE c)
         ELSE IF c.t = "leaf" THEN Nil
         ELSE PExt(c.path, U(c.child, Drop(k, Len(c.path)), removeLeft), NoOrig)
    [] OTHER        -> Panic          \* hash reference: panic("it shouldn't happen")

Cmp(a, b) == IF a = b THEN 0 ELSE IF SeqLess(a, b) THEN -1 ELSE 1

(* -------------------------------- unsetInternal -------------------------- *)
(* result: [err, node]; node = Nil when the fork point removes the whole (sub)trie *)
RECURSIVE UI(_, _, _)
UI(n, left, right) ==
  CASE n.t \in {"leaf", "ext"} ->
         LET K  == n.path
             fl == Cmp(Take(left, Len(K)), K)
             fr == Cmp(Take(right, Len(K)), K) IN
         IF fl = 0 /\ fr = 0 THEN
              IF n.t = "leaf" THEN [err |-> TRUE, node |-> Panic]
              ELSE LET r == UI(n.child, Drop(left, Len(K)), Drop(right, Len(K))) IN
                   [err |-> r.err, node |-> PExt(K, r.node, NoOrig)]
         ELSE IF (fl = -1 /\ fr = -1) \/ (fl = 1 /\ fr = 1) THEN [err |-> TRUE, node |-> n]   \* "empty range"
         ELSE IF fl # 0 /\ fr # 0 THEN [err |-> FALSE, node |-> Nil]
         ELSE IF fr # 0 THEN
              (IF n.t = "leaf" THEN [err |-> FALSE, node |-> Nil]
               ELSE [err |-> FALSE, node |-> PExt(K, U(n.child, Drop(left, Len(K)), FALSE), NoOrig)])
         ELSE (IF n.t = "leaf" THEN [err |-> FALSE, node |-> Nil]
               ELSE [err |-> FALSE, node |-> PExt(K, U(n.child, Drop(right, Len(K)), TRUE), NoOrig)])
    [] n.t = "br" ->
         IF left[1] = right[1] /\ n.ch[left[1]].t # "nil"
         THEN LET r == UI(n.ch[left[1]], Tail(left), Tail(right)) IN
              [err |-> r.err, node |-> PBr([n.ch EXCEPT ![left[1]] = r.node], NoOrig)]
         ELSE LET cleared == [i \in Nib |-> IF i > left[1] /\ i < right[1] THEN Nil ELSE n.ch[i]]
                  c1 == [cleared EXCEPT ![left[1]] = U(@, Tail(left), FALSE)]
                  c2 == [c1 EXCEPT ![right[1]] = U(@, Tail(right), TRUE)] IN
              [err |-> FALSE, node |-> PBr(c2, NoOrig)]
    [] OTHER -> [err |-> TRUE, node |-> Panic]       \* panic("invalid node")

(* ------------------------------ Trie.Update on partial tries ------------- *)
EmptyPCh == [i \in Nib |-> Nil]
WrapP(p, n) == IF Len(p) = 0 THEN n ELSE PExt(p, n, NoOrig)
RECURSIVE InsertP(_, _, _)
(* result [err, node]; a reference that cannot be resolved (no database) is an error;     *)
(* an insertion that changes nothing leaves the nodes (and their cached hashes) untouched *)
InsertP(n, path, v) ==
  CASE n.t = "nil"  -> [err |-> FALSE, node |-> PLeaf(path, v, NoOrig)]
    [] n.t = "hash" -> [err |-> TRUE, node |-> n]
    [] n.t = "leaf" ->
         IF n.path = path THEN [err |-> FALSE, node |-> IF n.val = v THEN n ELSE PLeaf(path, v, NoOrig)]
         ELSE LET m == PLen(n.path, path) IN
              [err |-> FALSE,
               node |-> WrapP(Take(path, m),
                              PBr([[EmptyPCh EXCEPT ![n.path[m+1]] = PLeaf(Drop(n.path, m+1), n.val, NoOrig)]
                                             EXCEPT ![path[m+1]] = PLeaf(Drop(path, m+1), v, NoOrig)], NoOrig))]
    [] n.t = "ext"  ->
         LET m == PLen(n.path, path) IN
         IF m = Len(n.path)
         THEN LET r == InsertP(n.child, Drop(path, m), v) IN
              IF r.err THEN r
              ELSE [err |-> FALSE, node |-> IF r.node = n.child THEN n ELSE PExt(n.path, r.node, NoOrig)]
         ELSE [err |-> FALSE,
               node |-> WrapP(Take(path, m),
                              PBr([[EmptyPCh EXCEPT ![n.path[m+1]] = WrapP(Drop(n.path, m+1), n.child)]
                                             EXCEPT ![path[m+1]] = PLeaf(Drop(path, m+1), v, NoOrig)], NoOrig))]
    [] n.t = "br"   ->
         LET r == InsertP(n.ch[path[1]], Tail(path), v) IN
         IF r.err THEN r
         ELSE [err |-> FALSE, node |-> IF r.node = n.ch[path[1]] THEN n ELSE PBr([n.ch EXCEPT ![path[1]] = r.node], NoOrig)]
    [] OTHER -> [err |-> TRUE, node |-> Panic]

RECURSIVE InsertRun(_, _, _)
InsertRun(n, R, i) ==
  IF i > Len(R) THEN [err |-> FALSE, node |-> n]
  ELSE LET r == InsertP(n, R[i][1], R[i][2]) IN IF r.err THEN r ELSE InsertRun(r.node, R, i + 1)

(* ------------------------------- hashing --------------------------------- *)
RECURSIVE NormP(_)
(* the full tree whose root hash the hasher computes for a partial trie: a cached hash is  *)
(* trusted whatever the node now contains                                                  *)
NormP(n) ==
  IF n.t = "nil" THEN Nil
  ELSE IF n.t = "hash" THEN n.n
  ELSE IF n.t = "panic" THEN n
  ELSE IF n.o # NoOrig THEN n.o
  ELSE IF n.t = "leaf" THEN Leaf(n.path, n.val)
  ELSE IF n.t = "ext" THEN Ext(n.path, NormP(n.child))
  ELSE Br([i \in Nib |-> NormP(n.ch[i])])

RECURSIVE HasPanic(_)
HasPanic(n) ==
  IF n.t = "panic" THEN TRUE
  ELSE IF n.t = "ext" THEN HasPanic(n.child)
  ELSE IF n.t = "br" THEN \E i \in Nib : HasPanic(n.ch[i])
  ELSE FALSE

(* ---------------------------- hasRightElement ---------------------------- *)
RECURSIVE HasRight(_, _)
(* 1 true, 0 false, -1 panic (unresolved reference on the path) *)
HasRight(n, key) ==
  CASE n.t = "nil"  -> 0
    [] n.t = "br"   -> IF \E i \in Nib : i > key[1] /\ n.ch[i].t # "nil" THEN 1 ELSE HasRight(n.ch[key[1]], Tail(key))
    [] n.t = "ext"  -> IF IsPrefix(n.path, key) THEN HasRight(n.child, Drop(key, Len(n.path)))
                       ELSE IF SeqLess(key, n.path) THEN 1 ELSE 0
    [] n.t = "leaf" -> IF n.path = key THEN 0 ELSE IF SeqLess(key, n.path) THEN 1 ELSE 0
    [] OTHER        -> -1

(* ------------------------------ VerifyRangeProof ------------------------- *)
Rej      == [ok |-> FALSE, more |-> FALSE, panic |-> FALSE]
Acc(h)   == IF h = -1 THEN [ok |-> FALSE, more |-> FALSE, panic |-> TRUE] ELSE [ok |-> TRUE, more |-> h = 1, panic |-> FALSE]
Panicked == [ok |-> FALSE, more |-> FALSE, panic |-> TRUE]

AlgVerify(t, first, R, P) ==
  IF ~RunWellFormed(R) THEN Rej
  ELSE IF Len(R) = 0 THEN
         LET r == P2PRoot(t, first, P, TRUE) IN
         IF r.err THEN Rej
         ELSE LET h == HasRight(r.node, first) IN
              IF h = -1 THEN Panicked ELSE IF r.val # 0 \/ h = 1 THEN Rej ELSE Acc(0)
  ELSE IF SeqLess(R[1][1], first) THEN Rej
  ELSE IF Len(R) = 1 /\ first = LastKey(R) THEN
         LET r == P2PRoot(t, first, P, FALSE) IN
         IF r.err THEN Rej ELSE IF r.val # R[1][2] THEN Rej ELSE Acc(HasRight(r.node, first))
  ELSE IF ~SeqLess(first, LastKey(R)) THEN Rej
  ELSE LET r1 == P2PRoot(t, first, P, TRUE) IN
       IF r1.err THEN Rej
       ELSE LET r2 == P2P(r1.node, LastKey(R), P, TRUE) IN
            IF r2.err THEN Rej
            ELSE LET u == UI(r2.node, first, LastKey(R)) IN
                 IF HasPanic(u.node) THEN Panicked
                 ELSE IF u.err THEN Rej
                 ELSE LET ins == InsertRun(u.node, R, 1) IN
                      IF HasPanic(ins.node) THEN Panicked
                      ELSE IF ins.err THEN Rej
                      ELSE IF NormP(ins.node) # t THEN Rej
                      ELSE Acc(HasRight(ins.node, LastKey(R)))
=============================================================================
