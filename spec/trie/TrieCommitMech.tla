--------------------------- MODULE TrieCommitMech ---------------------------
(* Property C07, mechanism layer: how trie.Trie produces the node set of TrieCommit.tla.  *)
(*                                                                                        *)
(* The in-memory node graph as the code keeps it between New() and Commit():              *)
(*   MHash(n)            unresolved reference (hashNode) to the stored full node n        *)
(*   MLeaf / MExt / MBr  resolved nodes with their dirty flag d (FALSE: as loaded from    *)
(*                       the store, or decoded inline from a loaded parent; TRUE: created *)
(*                       or modified since)                                               *)
(* and the two tracers:                                                                   *)
(*   ins, del   opTracer: paths of nodes created / removed since New(); a path created    *)
(*              and removed again (or removed and created again) cancels                  *)
(*   pre        PrevalueTracer: paths whose blob was loaded from the store                *)
(* MInsert / MDelete are trie.insert / trie.delete with every tracer call in place        *)
(* (onInsert, onDelete, resolveAndTrack); MechSet is Trie.Commit: the tracked deletions   *)
(* that were loaded (deletedNodes) followed by the committer's walk over dirty and        *)
(* embedded nodes (committer.commit / store).                                             *)
(* Theorem checked by TLC (MechRefines): the mechanism's node set is allowed by           *)
(* TrieCommit, contains its minimal set, carries the stored blob as previous value of     *)
(* every entry, and applied to the store gives exactly Expected(new trie).                *)
EXTENDS TrieCommit

CONSTANTS MaxOps        \* modifications explored per commit generation

VARIABLES mroot,        \* the node graph (Trie.root)
          tr,           \* [ins, del, pre]
          nops,         \* modifications since the trie was opened
          mset          \* node set produced by the mechanism at the last commit

mvars == <<kv, tree, ckv, pstore, hstore, roots, nset, mroot, tr, nops, mset>>

MHash(n)       == [t |-> "hash", n |-> n]
MLeaf(p, v, d) == [t |-> "leaf", path |-> p, val |-> v, d |-> d]
MExt(p, c, d)  == [t |-> "ext", path |-> p, child |-> c, d |-> d]
MBr(ch, d)     == [t |-> "br", ch |-> ch, d |-> d]
IsShort(n)     == n.t \in {"leaf", "ext"}

RECURSIVE FullM(_)
FullM(n) == CASE n.t = "nil"  -> Nil
              [] n.t = "hash" -> n.n
              [] n.t = "leaf" -> Leaf(n.path, n.val)
              [] n.t = "ext"  -> Ext(n.path, FullM(n.child))
              [] n.t = "br"   -> Br([i \in Nib |-> FullM(n.ch[i])])

(* decodeNode of a stored blob: stored children stay references, embedded ones are decoded inline *)
RECURSIVE LoadM(_)
LoadRef(c) == IF c.t = "nil" THEN Nil ELSE IF Embedded(c) THEN LoadM(c) ELSE MHash(c)
LoadM(n) == CASE n.t = "leaf" -> MLeaf(n.path, n.val, FALSE)
              [] n.t = "ext"  -> MExt(n.path, LoadRef(n.child), FALSE)
              [] n.t = "br"   -> MBr([i \in Nib |-> LoadRef(n.ch[i])], FALSE)

(* ------------------------------- tracers --------------------------------- *)
OnInsert(t, p) == IF p \in t.del THEN [t EXCEPT !.del = @ \ {p}] ELSE [t EXCEPT !.ins = @ \cup {p}]
OnDelete(t, p) == IF p \in t.ins THEN [t EXCEPT !.ins = @ \ {p}] ELSE [t EXCEPT !.del = @ \cup {p}]
Track(t, p)    == [t EXCEPT !.pre = @ \cup {p}]
NewTracer      == [ins |-> {}, del |-> {}, pre |-> {}]

(* -------------------------------- insert --------------------------------- *)
EmptyMCh == [i \in Nib |-> Nil]
RECURSIVE MInsert(_, _, _, _, _)
(* result [d |-> changed?, n |-> node to put in the parent's slot, t |-> tracer] *)
MInsert(n, prefix, key, v, t) ==
  CASE n.t = "nil"  -> [d |-> TRUE, n |-> MLeaf(key, v, TRUE), t |-> OnInsert(t, prefix)]
    [] n.t = "hash" -> LET rn == LoadM(n.n)
                           r  == MInsert(rn, prefix, key, v, Track(t, prefix)) IN
                       IF r.d THEN r ELSE [d |-> FALSE, n |-> rn, t |-> r.t]
    [] n.t = "leaf" ->
         IF n.path = key THEN (IF n.val = v THEN [d |-> FALSE, n |-> n, t |-> t]
                               ELSE [d |-> TRUE, n |-> MLeaf(key, v, TRUE), t |-> t])
         ELSE LET m  == PLen(n.path, key)
                  t1 == OnInsert(t, prefix \o Take(n.path, m + 1))      \* the old leaf re-created below the branch
                  t2 == OnInsert(t1, prefix \o Take(key, m + 1))        \* the new leaf
                  br == MBr([[EmptyMCh EXCEPT ![n.path[m+1]] = MLeaf(Drop(n.path, m+1), n.val, TRUE)]
                                       EXCEPT ![key[m+1]] = MLeaf(Drop(key, m+1), v, TRUE)], TRUE) IN
              IF m = 0 THEN [d |-> TRUE, n |-> br, t |-> t2]
              ELSE [d |-> TRUE, n |-> MExt(Take(key, m), br, TRUE), t |-> OnInsert(t2, prefix \o Take(key, m))]
    [] n.t = "ext"  ->
         LET m == PLen(n.path, key) IN
         IF m = Len(n.path)
         THEN LET r == MInsert(n.child, prefix \o n.path, Drop(key, m), v, t) IN
              IF r.d THEN [d |-> TRUE, n |-> MExt(n.path, r.n, TRUE), t |-> r.t]
              ELSE [d |-> FALSE, n |-> n, t |-> r.t]
         ELSE LET rest == Drop(n.path, m + 1)
                  (* the old child keeps its place (no tracer call) unless a shorter extension is created for it *)
                  old == IF Len(rest) = 0 THEN n.child ELSE MExt(rest, n.child, TRUE)
                  t1  == IF Len(rest) = 0 THEN t ELSE OnInsert(t, prefix \o Take(n.path, m + 1))
                  t2  == OnInsert(t1, prefix \o Take(key, m + 1))
                  br  == MBr([[EmptyMCh EXCEPT ![n.path[m+1]] = old] EXCEPT ![key[m+1]] = MLeaf(Drop(key, m+1), v, TRUE)], TRUE) IN
              IF m = 0 THEN [d |-> TRUE, n |-> br, t |-> t2]
              ELSE [d |-> TRUE, n |-> MExt(Take(key, m), br, TRUE), t |-> OnInsert(t2, prefix \o Take(key, m))]
    [] n.t = "br"   ->
         LET r == MInsert(n.ch[key[1]], Append(prefix, key[1]), Tail(key), v, t) IN
         IF r.d THEN [d |-> TRUE, n |-> MBr([n.ch EXCEPT ![key[1]] = r.n], TRUE), t |-> r.t]
         ELSE [d |-> FALSE, n |-> n, t |-> r.t]

(* -------------------------------- delete --------------------------------- *)
(* a short node with key p whose child became the short node c: merged into one short node *)
MergeM(p, c) == IF c.t = "leaf" THEN MLeaf(p \o c.path, c.val, TRUE) ELSE MExt(p \o c.path, c.child, TRUE)

RECURSIVE MDelete(_, _, _, _)
MDelete(n, prefix, key, t) ==
  CASE n.t = "nil"  -> [d |-> FALSE, n |-> n, t |-> t]
    [] n.t = "hash" -> LET rn == LoadM(n.n)
                           r  == MDelete(rn, prefix, key, Track(t, prefix)) IN
                       IF r.d THEN r ELSE [d |-> FALSE, n |-> rn, t |-> r.t]
    [] n.t = "leaf" -> IF n.path = key THEN [d |-> TRUE, n |-> Nil, t |-> OnDelete(t, prefix)]
                       ELSE [d |-> FALSE, n |-> n, t |-> t]
    [] n.t = "ext"  ->
         IF ~IsPrefix(n.path, key) THEN [d |-> FALSE, n |-> n, t |-> t]
         ELSE LET r == MDelete(n.child, prefix \o n.path, Drop(key, Len(n.path)), t) IN
              IF ~r.d THEN [d |-> FALSE, n |-> n, t |-> r.t]
              ELSE IF IsShort(r.n) THEN [d |-> TRUE, n |-> MergeM(n.path, r.n), t |-> OnDelete(r.t, prefix \o n.path)]
              ELSE [d |-> TRUE, n |-> MExt(n.path, r.n, TRUE), t |-> r.t]
    [] n.t = "br"   ->
         LET r == MDelete(n.ch[key[1]], Append(prefix, key[1]), Tail(key), t) IN
         IF ~r.d THEN [d |-> FALSE, n |-> n, t |-> r.t]
         ELSE LET ch   == [n.ch EXCEPT ![key[1]] = r.n]
                  live == {i \in Nib : ch[i].t # "nil"} IN
              IF r.n.t # "nil" \/ Cardinality(live) >= 2 THEN [d |-> TRUE, n |-> MBr(ch, TRUE), t |-> r.t]
              ELSE LET pos == CHOOSE i \in live : TRUE
                       (* the remaining child is resolved to see whether it is a short node *)
                       t1  == IF ch[pos].t = "hash" THEN Track(r.t, Append(prefix, pos)) ELSE r.t
                       cn  == IF ch[pos].t = "hash" THEN LoadM(ch[pos].n) ELSE ch[pos] IN
                   IF IsShort(cn) THEN [d |-> TRUE, n |-> MergeM(<<pos>>, cn), t |-> OnDelete(t1, Append(prefix, pos))]
                   ELSE [d |-> TRUE, n |-> MExt(<<pos>>, ch[pos], TRUE), t |-> t1]

(* -------------------------------- commit --------------------------------- *)
PrevM(t, p) == IF p \in t.pre THEN pstore[p] ELSE None     \* PrevalueTracer.Get

RECURSIVE Walk(_, _, _)
(* committer.commit: entries for the dirty / embedded part of the graph below n *)
Walk(n, path, t) ==
  IF n.t \in {"nil", "hash"} THEN {}
  ELSE LET stored == Len(path) = 0 \/ RlpSize(FullM(n)) >= 32 IN
       IF stored /\ ~n.d THEN {}                                           \* clean node with a hash: skipped with all below
       ELSE LET below == CASE n.t = "leaf" -> {}
                           [] n.t = "ext"  -> IF n.child.t = "br" THEN Walk(n.child, path \o n.path, t) ELSE {}
                           [] n.t = "br"   -> UNION {Walk(n.ch[i], Append(path, i), t) : i \in Nib}
                self  == IF stored THEN {[path |-> path, blob |-> Blob(FullM(n)), prev |-> PrevM(t, path)]}
                         ELSE IF path \in t.pre THEN {[path |-> path, blob |-> Deleted, prev |-> PrevM(t, path)]}
                         ELSE {} IN
            below \cup self

(* Trie.Commit: tracked deletions first, overridden by the committer's entries on the same path *)
MechSet(root, t) ==
  LET dels == {[path |-> p, blob |-> Deleted, prev |-> PrevM(t, p)] : p \in t.del \cap t.pre} IN
  IF root.t = "nil" THEN dels
  ELSE IF root.t = "hash" \/ ~root.d THEN {}
  ELSE LET w == Walk(root, <<>>, t) IN w \cup {e \in dels : ~\E x \in w : x.path = e.path}

Open(full) == IF full.t = "nil" THEN [root |-> Nil, t |-> NewTracer]
              ELSE [root |-> LoadM(full), t |-> Track(NewTracer, <<>>)]        \* New() resolves the root

(* ------------------------------- actions --------------------------------- *)
MInit == /\ Init
         /\ mroot = Nil /\ tr = NewTracer /\ nops = 0 /\ mset = {}

MPut(k, v) == /\ nops < MaxOps /\ Put(k, v)
              /\ LET r == MInsert(mroot, <<>>, k, v, tr) IN mroot' = r.n /\ tr' = r.t
              /\ nops' = nops + 1 /\ UNCHANGED mset

MDel(k) == /\ nops < MaxOps /\ Del(k)
           /\ LET r == MDelete(mroot, <<>>, k, tr) IN mroot' = r.n /\ tr' = r.t
           /\ nops' = nops + 1 /\ UNCHANGED mset

(* a read resolves the nodes on its path (and loads them into the prevalue tracer) *)
RECURSIVE MGet(_, _, _, _)
MGet(n, prefix, key, t) ==
  CASE n.t = "hash" -> MGet(LoadM(n.n), prefix, key, Track(t, prefix))
    [] n.t = "ext"  -> IF IsPrefix(n.path, key)
                       THEN LET r == MGet(n.child, prefix \o n.path, Drop(key, Len(n.path)), t) IN
                            [n |-> [n EXCEPT !.child = r.n], t |-> r.t]
                       ELSE [n |-> n, t |-> t]
    [] n.t = "br"   -> LET r == MGet(n.ch[key[1]], Append(prefix, key[1]), Tail(key), t) IN
                       [n |-> [n EXCEPT !.ch[key[1]] = r.n], t |-> r.t]
    [] OTHER        -> [n |-> n, t |-> t]
MRead(k) == /\ nops < MaxOps
            /\ LET r == MGet(mroot, <<>>, k, tr) IN mroot' = r.n /\ tr' = r.t
            /\ nops' = nops + 1
            /\ UNCHANGED <<kv, tree, ckv, pstore, hstore, roots, nset, mset>>

MCommit == /\ Commit
           /\ mset' = MechSet(mroot, tr)
           /\ LET o == Open(tree) IN mroot' = o.root /\ tr' = o.t
           /\ nops' = 0

MNext == \/ \E k \in Keys : (\E v \in Vals : MPut(k, v)) \/ MDel(k) \/ MRead(k)
         \/ MCommit

MSpec == MInit /\ [][MNext]_mvars

(* ------------------------------ properties ------------------------------ *)
(* the node graph is the canonical tree of the key-value set *)
MTreeInv == FullM(mroot) = tree /\ tree = CanonKV(kv)

TracerInv == /\ tr.ins \cap tr.del = {}
             /\ tr.pre \subseteq DOMAIN pstore                 \* only stored nodes are ever loaded
             /\ tr.del \cap tr.pre \subseteq DOMAIN pstore

(* the mechanism refines the abstract commit *)
MechRefines == [][ckv' # ckv \/ mset' # mset \/ nops' = 0 =>
                    /\ \A e \in mset' : Allowed(e) /\ (e.blob = Deleted => e.prev # None)
                    /\ MinSet \subseteq mset'
                    /\ ApplyP(pstore, mset') = Expected(tree)
                    /\ ApplyP(pstore, mset') = pstore']_mvars
=============================================================================
