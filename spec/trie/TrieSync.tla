------------------------------ MODULE TrieSync ------------------------------
(* Trie synchronisation scheduler (trie/sync.go, core/state/sync.go).  Property C12.        *)
(*                                                                                         *)
(* The target is a state trie given as a forest over locations: a location is a node path  *)
(* (account-trie path, or 64 account nibbles followed by a storage-trie path); Target[l] is  *)
(* the hash of the target node stored at l (0: the target has no node there), Kids[l] the    *)
(* locations of the children that node references by hash, Sub[l] the storage root location  *)
(* and the code named by the account leaf held in the node at l.  Hashes and codes are       *)
(* opaque ids.  The actions are the exported calls of trie.Sync, written as the code does    *)
(* them: requests are kept per path, existence is looked up in the database only (not in the *)
(* uncommitted batch), by hash in the hash scheme and by path+hash in the path scheme (a     *)
(* different node at the path is deleted), finished nodes wait for their dependencies and    *)
(* are appended to the batch bottom-up.                                                      *)
(* ProcessNode is given the blob of the target node of the path it names: a delivery whose   *)
(* hash differs from the requested hash never reaches the scheduler (it is filtered by hash  *)
(* in eth/protocols/snap before ProcessNode is called); ProcessBad is a blob that does not   *)
(* decode.                                                                                   *)
EXTENDS Integers, Sequences, FiniteSets, TLC

CONSTANTS
  Scheme,       \* "hash" or "path"
  NumLocs,      \* locations are 1..NumLocs
  LocPath,      \* [Locs -> Seq(0..15)]
  Target,       \* [Locs -> Nat]  hash id of the target node at the location, 0 = none
  Kids,         \* [Locs -> Seq(Locs)]
  Inner,        \* [Locs -> SUBSET Locs] locations strictly inside the key of a short node with a hash child
  Sub,          \* [Locs -> [root : Locs \cup {0}, code : Codes \cup {0}, leaf : BOOLEAN]]
  BlobSize,     \* [Locs -> Nat] size of the target node blob
  Stale,        \* [Locs -> Nat] hash id of an outdated node that may sit at the location, 0 = none
  RootLoc,      \* location of the root node, 0 for the empty trie
  NumCodes,     \* codes are 1..NumCodes
  CodeSize,     \* [Codes -> Nat]
  Batches,      \* the values of max the client passes to Missing (0 = no limit)
  MaxFetches    \* maxFetchesPerDepth: requests handed out and not yet completed, per path depth

Locs  == 1..NumLocs
Codes == 1..NumCodes
TargetLocs == {l \in Locs : Target[l] # 0}

VARIABLES
  dbn,       \* path scheme: [present locations -> hash]; hash scheme: the set of present hashes
  dbc,       \* codes in the database
  reqs,      \* nodeReqs: [requested locations -> [got, deps, parent]]
  creqs,     \* codeReqs: [requested codes -> Seq(parent locations)]
  queue,     \* scheduled items not yet handed out by Missing: <<"n", loc>> / <<"c", code>>
  asked,     \* every item Missing has ever returned
  mb,        \* membatch.nodes: Seq([del, loc])
  mc,        \* membatch.codes
  ms,        \* membatch.size
  fetches,   \* [depth -> Int] requests handed out by Missing and not yet completed
  res        \* result of the last call (observable outcome)

vars == <<dbn, dbc, reqs, creqs, queue, asked, mb, mc, ms, fetches, res>>

RangeOf(s) == {s[i] : i \in 1..Len(s)}
RestrictTo(f, S) == [x \in S |-> f[x]]
HashLen == 32

(* ------------------------------ database view ------------------------------ *)
Present(l) == IF Scheme = "hash" THEN Target[l] \in dbn
              ELSE l \in DOMAIN dbn /\ dbn[l] = Target[l]
Occupied(l) == Scheme = "path" /\ l \in DOMAIN dbn          \* some node sits at the path
Exists(l) == Present(l)
Inconsistent(l) == Scheme = "path" /\ l \in DOMAIN dbn /\ dbn[l] # Target[l]

PathLen(l)  == Len(LocPath[l])
(* depth of a request = length of its path; a code request carries the 64-nibble path of the  *)
(* account leaf that names it                                                                 *)
CodeDepth == 64
Depths == {PathLen(l) : l \in Locs} \cup {CodeDepth}
Depth(it) == IF it[1] = "n" THEN PathLen(it[2]) ELSE CodeDepth
IsStorage(l) == PathLen(l) >= 64
(* syncMemBatch.addNode / delNode size accounting *)
WriteCharge(l) == IF Scheme = "path"
                  THEN (IF IsStorage(l) THEN HashLen + (PathLen(l) - 64) ELSE PathLen(l)) + BlobSize[l]
                  ELSE HashLen + BlobSize[l]
DelCharge(l) == IF IsStorage(l) THEN HashLen + (PathLen(l) - 64) ELSE PathLen(l)

S0 == [reqs |-> reqs, creqs |-> creqs, queue |-> queue, mb |-> mb, mc |-> mc, ms |-> ms, fe |-> fetches]

DelNode(s, l) == [s EXCEPT !.mb = Append(@, [del |-> TRUE, loc |-> l]), !.ms = @ + DelCharge(l)]

Schedule(s, l, parent) ==
  [s EXCEPT !.reqs = [x \in DOMAIN s.reqs \cup {l} |-> IF x = l THEN [got |-> FALSE, deps |-> 0, parent |-> parent] ELSE s.reqs[x]],
            !.queue = @ \cup {<<"n", l>>}]

(* Sync.AddSubTrie(root, path, parent, parentPath, callback) *)
AddSubTrie(s, l, parent) ==
  IF l = 0 \/ Exists(l) THEN s
  ELSE LET s1 == IF Inconsistent(l) THEN DelNode(s, l) ELSE s
           s2 == IF parent # 0 THEN [s1 EXCEPT !.reqs[parent].deps = @ + 1] ELSE s1
       IN Schedule(s2, l, parent)

(* Sync.AddCodeEntry(hash, path, parent, parentPath) *)
AddCode(s, c, parent) ==
  IF c = 0 \/ c \in s.mc \/ c \in dbc THEN s
  ELSE LET s1 == [s EXCEPT !.reqs[parent].deps = @ + 1]
       IN IF c \in DOMAIN s1.creqs THEN [s1 EXCEPT !.creqs[c] = Append(@, parent)]
          ELSE [s1 EXCEPT !.creqs = [x \in DOMAIN s1.creqs \cup {c} |-> IF x = c THEN <<parent>> ELSE s1.creqs[x]],
                          !.queue = @ \cup {<<"c", c>>}]

(* Sync.commitNodeRequest: write the node into the batch, then complete parents bottom-up *)
RECURSIVE CommitNode(_, _)
CommitNode(s, l) ==
  LET p  == s.reqs[l].parent
      \* s.fetches[len(req.path)]--: the completed request releases its slot.
      \* (A request that is still queued when it completes is skipped by Missing later without
      \*  being returned: the code decrements here and increments again at that pop; dropping it
      \*  from the queue here and leaving the counter alone is the same but for that interval.)
      queued == <<"n", l>> \in s.queue
      s1 == [s EXCEPT !.mb = Append(@, [del |-> FALSE, loc |-> l]), !.ms = @ + WriteCharge(l),
                      !.reqs = RestrictTo(@, DOMAIN @ \ {l}), !.queue = @ \ {<<"n", l>>},
                      !.fe[PathLen(l)] = IF queued THEN @ ELSE @ - 1]
  IN IF p = 0 THEN s1
     ELSE LET s2 == [s1 EXCEPT !.reqs[p].deps = @ - 1]
          IN IF s2.reqs[p].deps = 0 THEN CommitNode(s2, p) ELSE s2

RECURSIVE DelAll(_, _)
DelAll(s, seq) == IF Len(seq) = 0 THEN s ELSE DelAll(DelNode(s, Head(seq)), Tail(seq))
RECURSIVE ScheduleAll(_, _, _)
ScheduleAll(s, seq, parent) == IF Len(seq) = 0 THEN s ELSE ScheduleAll(Schedule(s, Head(seq), parent), Tail(seq), parent)

RECURSIVE AnySeq(_)
AnySeq(S) == IF S = {} THEN <<>> ELSE LET x == CHOOSE y \in S : TRUE IN <<x>> \o AnySeq(S \ {x})

(* Sync.children + the tail of ProcessNode, for the target node at l *)
Expand(s, l) ==
  LET \* path scheme: nodes that sit inside the key range of a short node are dangling
      dangling == IF Scheme = "path" THEN {i \in Inner[l] : Occupied(i)} ELSE {}
      s1 == DelAll(s, AnySeq(dangling))
      \* account leaf: link the storage trie and the code below this request
      s2 == IF Sub[l].leaf THEN AddCode(AddSubTrie(s1, Sub[l].root, l), Sub[l].code, l) ELSE s1
      \* children referenced by hash: skip what the database has, drop what it has wrongly
      kids    == Kids[l]
      missing == SelectSeq(kids, LAMBDA k : ~Exists(k))
      wrong   == SelectSeq(kids, LAMBDA k : Inconsistent(k))
      s3 == DelAll(s2, wrong)
  IN IF Len(missing) = 0 /\ s3.reqs[l].deps = 0 THEN CommitNode(s3, l)
     ELSE ScheduleAll([s3 EXCEPT !.reqs[l].deps = @ + Len(missing)], missing, l)

Install(s) == /\ reqs' = s.reqs /\ creqs' = s.creqs /\ queue' = s.queue
              /\ mb' = s.mb /\ mc' = s.mc /\ ms' = s.ms /\ fetches' = s.fe

EmptyS == [reqs |-> [x \in {} |-> 0], creqs |-> [x \in {} |-> <<>>], queue |-> {}, mb |-> <<>>, mc |-> {}, ms |-> 0,
           fe |-> [d \in Depths |-> 0]]

(* ------------------------------ initial database ------------------------------ *)
(* What may be present locally: target nodes together with everything below them (the sync  *)
(* writes a node only after its descendants), and, in the path scheme, outdated nodes at     *)
(* locations whose target node is not present.                                               *)
ClosedSet(P, PC) == \A l \in P : /\ RangeOf(Kids[l]) \subseteq P
                                 /\ Sub[l].root # 0 => Sub[l].root \in P
                                 /\ Sub[l].code # 0 => Sub[l].code \in PC
StaleLocs == {l \in Locs : Stale[l] # 0}

InitDB(P, PC, St) ==
  /\ dbc = PC
  /\ dbn = IF Scheme = "hash" THEN {Target[l] : l \in P}
           ELSE [l \in P \cup St |-> IF l \in P THEN Target[l] ELSE Stale[l]]

(* NewSync(root, database, callback, scheme) *)
Start ==
  LET s == AddSubTrie(EmptyS, RootLoc, 0) IN
  /\ reqs = s.reqs /\ creqs = s.creqs /\ queue = s.queue /\ mb = s.mb /\ mc = s.mc /\ ms = s.ms
  /\ fetches = s.fe
  /\ asked = {} /\ res = [op |-> "NewSync"]

Init == \E P \in SUBSET TargetLocs, PC \in SUBSET Codes, St \in SUBSET StaleLocs :
          /\ ClosedSet(P, PC) /\ St \cap P = {}
          /\ Scheme = "hash" => St = {}
          /\ InitDB(P, PC, St)
          /\ Start

(* ------------------------------ actions ------------------------------ *)
ItemPath(it) == IF it[1] = "n" THEN LocPath[it[2]] ELSE <<>>
(* priority of a queued request: depth first, then the first 14 nibbles in lexicographic     *)
(* order; code requests carry the path of the account that names them, which is not part of  *)
(* the item, so their order against each other is left open                                  *)
RECURSIVE LexLess(_, _)
LexLess(a, b) == IF Len(a) = 0 \/ Len(b) = 0 THEN FALSE
                 ELSE IF a[1] # b[1] THEN a[1] < b[1] ELSE LexLess(Tail(a), Tail(b))
Take(s, n) == SubSeq(s, 1, IF Len(s) < n THEN Len(s) ELSE n)
Before(a, b) == \* a must be handed out before b: deeper first, then (node requests) lexicographic
  \/ Depth(a) > Depth(b)
  \/ /\ a[1] = "n" /\ b[1] = "n" /\ PathLen(a[2]) = PathLen(b[2])
     /\ LexLess(Take(LocPath[a[2]], 14), Take(LocPath[b[2]], 14))

CountAt(R, d) == Cardinality({it \in R : Depth(it) = d})
MaxDepthOf(R) == CHOOSE d \in {Depth(it) : it \in R} : \A it \in R : Depth(it) <= d

(* Sync.Missing(max): pops the best requests one by one until max are collected, the queue is *)
(* empty, or the depth of the best remaining request has more than MaxFetches requests in     *)
(* flight (throttle).  Every popped request takes a slot of its depth.                         *)
Missing(max, R) ==
  LET rest == queue \ R
      fe2  == [d \in Depths |-> fetches[d] + CountAt(R, d)]
  IN /\ R \subseteq queue
     /\ \A a \in rest, b \in R : ~Before(a, b)
     /\ \A d \in Depths : CountAt(R, d) > 0 => fe2[d] <= MaxFetches + 1     \* none was popped while throttled
     /\ max # 0 => Cardinality(R) <= max
     /\ \/ rest = {}
        \/ max # 0 /\ Cardinality(R) = max
        \/ rest # {} /\ fe2[MaxDepthOf(rest)] > MaxFetches
     /\ queue' = rest
     /\ asked' = asked \cup R
     /\ fetches' = fe2
     /\ res' = [op |-> "Missing", max |-> max, items |-> R]
     /\ UNCHANGED <<dbn, dbc, reqs, creqs, mb, mc, ms>>

(* Sync.ProcessNode({path, blob of the target node at path}) *)
ProcessNode(l) ==
  /\ Target[l] # 0
  /\ IF l \notin DOMAIN reqs THEN res' = [op |-> "ProcessNode", loc |-> l, err |-> "notrequested"] /\ UNCHANGED <<reqs, creqs, queue, mb, mc, ms, fetches>>
     ELSE IF reqs[l].got THEN res' = [op |-> "ProcessNode", loc |-> l, err |-> "already"] /\ UNCHANGED <<reqs, creqs, queue, mb, mc, ms, fetches>>
     ELSE /\ Install(Expand([S0 EXCEPT !.reqs[l].got = TRUE], l))
          /\ res' = [op |-> "ProcessNode", loc |-> l, err |-> "ok"]
  /\ UNCHANGED <<dbn, dbc, asked>>

(* a blob that is not a trie node: rejected, nothing changes (unless the path is unknown or done) *)
ProcessBad(l) ==
  /\ res' = [op |-> "ProcessBad", loc |-> l,
             err |-> IF l \notin DOMAIN reqs THEN "notrequested" ELSE IF reqs[l].got THEN "already" ELSE "invalid"]
  /\ UNCHANGED <<dbn, dbc, reqs, creqs, queue, asked, mb, mc, ms, fetches>>

(* Sync.ProcessCode *)
RECURSIVE CompleteParents(_, _)
CompleteParents(s, ps) ==
  IF Len(ps) = 0 THEN s
  ELSE LET p  == Head(ps)
           s1 == [s EXCEPT !.reqs[p].deps = @ - 1]
       IN CompleteParents(IF s1.reqs[p].deps = 0 THEN CommitNode(s1, p) ELSE s1, Tail(ps))
ProcessCode(c) ==
  /\ IF c \notin DOMAIN creqs THEN res' = [op |-> "ProcessCode", code |-> c, err |-> "notrequested"] /\ UNCHANGED <<reqs, creqs, queue, mb, mc, ms, fetches>>
     ELSE LET s1 == [S0 EXCEPT !.mc = @ \cup {c}, !.ms = @ + HashLen + CodeSize[c],
                               !.creqs = RestrictTo(@, DOMAIN @ \ {c}),
                               !.fe[CodeDepth] = @ - 1]          \* s.fetches[len(req.path)]--
          IN /\ Install(CompleteParents(s1, creqs[c]))
             /\ res' = [op |-> "ProcessCode", code |-> c, err |-> "ok"]
  /\ UNCHANGED <<dbn, dbc, asked>>

(* Sync.Commit(batch) followed by batch.Write() *)
RECURSIVE ApplyOps(_, _)
ApplyOps(d, ops) ==
  IF Len(ops) = 0 THEN d
  ELSE LET o == Head(ops) IN
       ApplyOps(IF Scheme = "hash"
                THEN (IF o.del THEN d ELSE d \cup {Target[o.loc]})
                ELSE (IF o.del THEN RestrictTo(d, DOMAIN d \ {o.loc})
                      ELSE [x \in DOMAIN d \cup {o.loc} |-> IF x = o.loc THEN Target[o.loc] ELSE d[x]]),
                Tail(ops))
Commit ==
  /\ dbn' = ApplyOps(dbn, mb)
  /\ dbc' = dbc \cup mc
  /\ mb' = <<>> /\ mc' = {} /\ ms' = 0
  /\ res' = [op |-> "Commit"]
  /\ UNCHANGED <<reqs, creqs, queue, asked, fetches>>

Pending == Cardinality(DOMAIN reqs) + Cardinality(DOMAIN creqs)
Done == Pending = 0

(* deliveries the network can make: answers to outstanding requests, repeats of old answers *)
Outstanding(it) == it \in asked /\ (IF it[1] = "n" THEN it[2] \in DOMAIN reqs /\ ~reqs[it[2]].got ELSE it[2] \in DOMAIN creqs)

Deliver ==
  \E it \in asked : Outstanding(it) /\ (IF it[1] = "n" THEN ProcessNode(it[2]) ELSE ProcessCode(it[2]))
Duplicate ==
  \E it \in asked : ~Outstanding(it) /\ (IF it[1] = "n" THEN ProcessNode(it[2]) ELSE ProcessCode(it[2]))
Garbage == \E it \in asked : it[1] = "n" /\ ProcessBad(it[2])
Ask == \E max \in Batches : \E R \in SUBSET queue : R # {} /\ Missing(max, R)
Flush == Len(mb) + Cardinality(mc) > 0 /\ Commit

(* an answer that arrives for a request the scheduler has queued but not yet handed out *)
Early == \E l \in DOMAIN reqs : <<"n", l>> \in queue /\ ProcessNode(l)

Next == Ask \/ Deliver \/ Duplicate \/ Garbage \/ Flush

Spec == Init /\ [][Next]_vars /\ WF_vars(Ask) /\ WF_vars(Deliver) /\ WF_vars(Flush)

(* ------------------------------ properties ------------------------------ *)
(* Only target nodes and target codes are ever requested, each under its own hash. *)
TargetCodes == {Sub[l].code : l \in TargetLocs} \ {0}
OnlyTargetRequested ==
  /\ DOMAIN reqs \subseteq TargetLocs
  /\ DOMAIN creqs \subseteq TargetCodes
  /\ \A it \in asked \cup queue : IF it[1] = "n" THEN it[2] \in TargetLocs ELSE it[2] \in TargetCodes

(* Only target nodes are written, and nothing that was already there is requested *)
OnlyTargetWritten == \A i \in 1..Len(mb) : ~mb[i].del => mb[i].loc \in TargetLocs

(* the database stays closed: a present target node has all its descendants, storage trie    *)
(* and code present - no node is committed before its children                               *)
DBClosed == \A l \in TargetLocs : Present(l) =>
              /\ \A k \in RangeOf(Kids[l]) : Present(k)
              /\ Sub[l].root # 0 => Present(Sub[l].root)
              /\ Sub[l].code # 0 => Sub[l].code \in dbc

(* the same for the database as it will be after the pending batch is written *)
AfterCommit == ApplyOps(dbn, mb)
PresentAfter(l) == IF Scheme = "hash" THEN Target[l] \in AfterCommit
                   ELSE l \in DOMAIN AfterCommit /\ AfterCommit[l] = Target[l]
BatchClosed == \A l \in TargetLocs : PresentAfter(l) =>
              /\ \A k \in RangeOf(Kids[l]) : PresentAfter(k)
              /\ Sub[l].root # 0 => PresentAfter(Sub[l].root)
              /\ Sub[l].code # 0 => Sub[l].code \in dbc \cup mc

(* when nothing is pending, writing the batch leaves the whole target in the database *)
Complete == Done => /\ \A l \in TargetLocs : PresentAfter(l)
                    /\ TargetCodes \subseteq dbc \cup mc

(* path scheme: no outdated node is left on the way to a target node *)
NoStaleOnTarget == (Scheme = "path" /\ Done) => \A l \in TargetLocs : PresentAfter(l)

(* dependency counters: a finished request waits for exactly its unfinished children *)
CodeDeps(l) == Cardinality({p \in UNION {{<<c, i>> : i \in 1..Len(creqs[c])} : c \in DOMAIN creqs} : creqs[p[1]][p[2]] = l})
DepsExact == \A l \in DOMAIN reqs : reqs[l].got =>
   reqs[l].deps = Cardinality({k \in DOMAIN reqs : reqs[k].parent = l}) + CodeDeps(l)

(* the per-depth throttle: never more than MaxFetches + 1 requests of one depth in flight, and *)
(* a slot is held exactly as long as its request is handed out and not completed - so every   *)
(* completed request has released its slot and a finished sync holds none                      *)
FetchBound == \A d \in Depths : fetches[d] <= MaxFetches + 1
InFlight(d) == Cardinality({it \in asked \ queue : Depth(it) = d /\
                   (IF it[1] = "n" THEN it[2] \in DOMAIN reqs ELSE it[2] \in DOMAIN creqs)})
FetchesExact == \A d \in Depths : fetches[d] = InFlight(d)
SlotsReleased == Done => \A d \in Depths : fetches[d] = 0

(* reported batch size equals its contents *)
RECURSIVE OpsCharge(_)
OpsCharge(ops) == IF Len(ops) = 0 THEN 0
                  ELSE (IF Head(ops).del THEN DelCharge(Head(ops).loc) ELSE WriteCharge(Head(ops).loc)) + OpsCharge(Tail(ops))
RECURSIVE CodeCharge(_)
CodeCharge(S) == IF S = {} THEN 0 ELSE LET c == CHOOSE x \in S : TRUE IN HashLen + CodeSize[c] + CodeCharge(S \ {c})
SizeExact == ms = OpsCharge(mb) + CodeCharge(mc)

(* the sync terminates *)
Terminates == <>Done
=============================================================================
