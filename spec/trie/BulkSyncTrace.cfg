SPECIFICATION TraceSpec
CONSTANT MaxFetches = 16384
POSTCONDITION TraceAccepted
CHECK_DEADLOCK FALSE
