-------------------------- MODULE MCTrieCommitMech --------------------------
(* Model-checking / test-generation wrapper of TrieCommitMech.tla (C07, mechanism layer).   *)
(* sim mode emits behaviours (put / del / get / commit) with the *exact* node set the        *)
(* mechanism predicts for every commit.                                                      *)
EXTENDS TrieCommitMech, Json, Randomization

CONSTANTS Mode, Depth, MaxGen, CommitWeight, NKeys

VARIABLES act, hist

mcvars == <<kv, tree, ckv, pstore, hstore, roots, nset, mroot, tr, nops, mset, act, hist>>

KVList(m) == LET sk == SortedKeys(DOMAIN m) IN [i \in 1..Len(sk) |-> [k |-> sk[i], v |-> m[sk[i]]]]
RECURSIVE TreeJ(_)
TreeJ(n) ==
  CASE n.t = "nil"  -> [t |-> "nil"]
    [] n.t = "leaf" -> [t |-> "leaf", path |-> n.path, val |-> n.val, size |-> RlpSize(n)]
    [] n.t = "ext"  -> [t |-> "ext", path |-> n.path, child |-> TreeJ(n.child), size |-> RlpSize(n)]
    [] n.t = "br"   -> LET live == SortedSeq({i \in Nib : n.ch[i] # Nil}) IN
                       [t |-> "br", size |-> RlpSize(n),
                        ch |-> [j \in 1..Len(live) |-> [i |-> live[j], n |-> TreeJ(n.ch[live[j]])]]]
RECURSIVE SetToSeq(_)
SetToSeq(S) == IF S = {} THEN <<>> ELSE LET x == CHOOSE y \in S : TRUE IN <<x>> \o SetToSeq(S \ {x})
NSetJ(S) == SetToSeq({[path |-> e.path, del |-> e.blob = Deleted, hasprev |-> e.prev # None] : e \in S})

CommitJ(w) == [op |-> "commit", w |-> w, base |-> [kv |-> KVList(ckv), tree |-> TreeJ(CanonKV(ckv))],
               new |-> [kv |-> KVList(kv), tree |-> TreeJ(tree)], minset |-> NSetJ(nset'), exact |-> NSetJ(mset'), hasexact |-> TRUE]

Log == hist' = IF Mode = "sim" THEN Append(hist, act') ELSE hist
SimKeys == IF Mode = "sim" THEN RandomSubset(NKeys, Keys) ELSE Keys

MCInit == MInit /\ act = [op |-> "init"] /\ hist = <<>>
MCNext ==
  \/ \E k \in SimKeys : \E v \in Vals : MPut(k, v) /\ act' = [op |-> "put", k |-> k, v |-> v, kv |-> KVList(kv')] /\ Log
  \/ \E k \in SimKeys : MDel(k) /\ act' = [op |-> "del", k |-> k, v |-> 0, kv |-> KVList(kv')] /\ Log
  \/ \E k \in SimKeys : MRead(k) /\ act' = [op |-> "get", k |-> k, v |-> 0, kv |-> KVList(kv')] /\ Log
  \/ \E w \in 1..CommitWeight : MCommit /\ act' = CommitJ(w) /\ Log
MCSpec == MCInit /\ [][MCNext]_mcvars

View == <<kv, tree, ckv, pstore, mroot, tr, nops>>

NCommits(h) == Cardinality({i \in 1..Len(h) : h[i].op = "commit"})
Done(h) == Len(h) = Depth \/ (Len(h) > 0 /\ NCommits(h) = MaxGen /\ h[Len(h)].op = "commit")
Emit == IF Mode = "sim" /\ Done(hist) THEN PrintT(<<"MBT", ToJson(hist)>>) ELSE TRUE
SimStop == Len(hist) = 0 \/ ~Done(SubSeq(hist, 1, Len(hist) - 1))
=============================================================================
