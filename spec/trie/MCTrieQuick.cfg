SPECIFICATION MCSpec
CONSTANTS Nib = {0, 1}
          KeyLen = 3
          Vals = {10, 271}
          Pad = 1
          MaxKeys = 8
          Mode = "mc"
          SeqBatches = TRUE
          Depth = 0
          NBatch = 0
          NKeys = 4
          Encs = {"nil"}
          BOps <- OpsIns
          BatchLens = {}
          BatchSet <- MCBatchSet
INVARIANTS CanonInv LookupInv IterInv IterFromInv WFInv BatchInv
CONSTRAINT Small
VIEW View
CHECK_DEADLOCK FALSE
