------------------------------- MODULE MPT -------------------------------
(* Merkle-Patricia trie: structural layer shared by the trie family (C06-C09, C11, C12). *)
(*                                                                                        *)
(* Pure operators only (no variables), so that every other module can EXTEND it.          *)
(*                                                                                        *)
(*   semantic layer    kv \in [SUBSET Keys -> Vals]                                       *)
(*   structural layer  Node == Nil | Leaf(path, val) | Ext(path, child) | Br(children)    *)
(*                                                                                        *)
(* Keys are nibble strings of the fixed length KeyLen over the alphabet Nib (a subset of  *)
(* 0..15).  The binding maps a model key to the real key "model nibbles followed by Pad   *)
(* zero nibbles" (KeyLen + Pad even), so branch / extension shapes of the model and of    *)
(* the implementation coincide and only the leaf paths are Pad nibbles longer.            *)
(* A value id v stands for the byte string of VSize(v) = v \div 10 bytes, every byte      *)
(* equal to (IF v % 10 = 0 THEN 0x05 ELSE 0x80 + v % 10): ids 10, 11, 12 are three        *)
(* different one-byte values, 331 is a 33-byte value (not embeddable).                    *)
(*                                                                                        *)
(* Insert / Delete are the recursive algorithms of the Yellow Paper appendix D as the     *)
(* implementation performs them (trie/trie.go insert, delete) including the collapse      *)
(* cases; Canon builds the unique canonical tree of a key-value set directly.             *)
(* RlpSize computes the exact encoded size of a node from the sizes of its parts, so the  *)
(* model knows which nodes are embedded in their parent (< 32 bytes) and which are        *)
(* stored under their hash / path.  Hashes are opaque and injective: the identity of a    *)
(* node is the node (sub-tree) itself.                                                    *)
EXTENDS Integers, Sequences, FiniteSets, TLC

CONSTANTS Nib,      \* nibble alphabet of the model keys, subset of 0..15
          KeyLen,   \* nibbles per model key
          Vals,     \* value ids (see above), all >= 10
          Pad       \* zero nibbles appended to every key by the binding

Keys == [1..KeyLen -> Nib]

VSize(v) == v \div 10
VTag(v)  == v % 10

(* ------------------------------- nodes ---------------------------------- *)
Nil        == [t |-> "nil"]
Leaf(p, v) == [t |-> "leaf", path |-> p, val |-> v]
Ext(p, c)  == [t |-> "ext", path |-> p, child |-> c]
Br(ch)     == [t |-> "br", ch |-> ch]            \* ch \in [Nib -> Node]
EmptyCh    == [n \in Nib |-> Nil]

Drop(s, n) == SubSeq(s, n + 1, Len(s))
Take(s, n) == SubSeq(s, 1, n)

(* length of the longest common prefix *)
RECURSIVE PLen(_, _)
PLen(a, b) == IF Len(a) = 0 \/ Len(b) = 0 \/ a[1] # b[1] THEN 0 ELSE 1 + PLen(Tail(a), Tail(b))

IsPrefix(p, s) == Len(p) <= Len(s) /\ Take(s, Len(p)) = p

(* lexicographic order on nibble strings *)
RECURSIVE SeqLess(_, _)
SeqLess(a, b) ==
  IF Len(b) = 0 THEN FALSE
  ELSE IF Len(a) = 0 THEN TRUE
  ELSE IF a[1] # b[1] THEN a[1] < b[1]
  ELSE SeqLess(Tail(a), Tail(b))
SeqLeq(a, b) == a = b \/ SeqLess(a, b)

RECURSIVE SortedSeq(_)
SortedSeq(S) == IF S = {} THEN <<>>
                ELSE LET m == CHOOSE x \in S : \A y \in S : x <= y IN <<m>> \o SortedSeq(S \ {m})
NibSeq == SortedSeq(Nib)

(* keys of a set in ascending order *)
RECURSIVE SortedKeys(_)
SortedKeys(S) == IF S = {} THEN <<>>
                 ELSE LET m == CHOOSE x \in S : \A y \in S : SeqLeq(x, y) IN <<m>> \o SortedKeys(S \ {m})

(* ----------------------- semantic layer helpers ------------------------- *)
EmptyKV      == [k \in {} |-> 0]
KVPut(kv, k, v) == [x \in DOMAIN kv \cup {k} |-> IF x = k THEN v ELSE kv[x]]
KVDel(kv, k)    == [x \in DOMAIN kv \ {k} |-> kv[x]]
Pairs(kv)    == {<<k, kv[k]>> : k \in DOMAIN kv}

(* ----------------- canonical tree of a set of <<path, value>> ----------- *)
RECURSIVE CommonPrefixLen(_)
CommonPrefixLen(ps) ==
  LET p == CHOOSE x \in ps : TRUE IN
  IF Len(p[1]) = 0 THEN 0
  ELSE IF \A q \in ps : Len(q[1]) > 0 /\ q[1][1] = p[1][1]
       THEN 1 + CommonPrefixLen({<<Tail(q[1]), q[2]>> : q \in ps})
       ELSE 0

RECURSIVE Canon(_)
Canon(ps) ==
  IF ps = {} THEN Nil
  ELSE IF Cardinality(ps) = 1 THEN LET p == CHOOSE x \in ps : TRUE IN Leaf(p[1], p[2])
  ELSE LET m == CommonPrefixLen(ps) IN
       IF m > 0 THEN LET p == CHOOSE x \in ps : TRUE IN
                     Ext(Take(p[1], m), Canon({<<Drop(q[1], m), q[2]>> : q \in ps}))
       ELSE Br([n \in Nib |-> Canon({<<Tail(q[1]), q[2]>> : q \in {r \in ps : r[1][1] = n}})])

CanonKV(kv) == Canon(Pairs(kv))

(* ------------- insert / delete: the recursive algorithms ---------------- *)
Wrap(p, n) == IF Len(p) = 0 THEN n ELSE Ext(p, n)

RECURSIVE Insert(_, _, _)
Insert(n, path, v) ==
  CASE n.t = "nil"  -> Leaf(path, v)
    [] n.t = "leaf" -> IF n.path = path THEN Leaf(path, v)
                       ELSE LET m == PLen(n.path, path) IN
                            Wrap(Take(path, m),
                                 Br([[EmptyCh EXCEPT ![n.path[m+1]] = Leaf(Drop(n.path, m+1), n.val)]
                                             EXCEPT ![path[m+1]] = Leaf(Drop(path, m+1), v)]))
    [] n.t = "ext"  -> LET m == PLen(n.path, path) IN
                       IF m = Len(n.path) THEN Ext(n.path, Insert(n.child, Drop(path, m), v))
                       ELSE Wrap(Take(path, m),
                                 Br([[EmptyCh EXCEPT ![n.path[m+1]] = Wrap(Drop(n.path, m+1), n.child)]
                                             EXCEPT ![path[m+1]] = Leaf(Drop(path, m+1), v)]))
    [] n.t = "br"   -> Br([n.ch EXCEPT ![path[1]] = Insert(@, Tail(path), v)])

(* a short node whose child became c: short nodes never chain *)
Merge(p, c) == CASE c.t = "leaf" -> Leaf(p \o c.path, c.val)
                 [] c.t = "ext"  -> Ext(p \o c.path, c.child)
                 [] OTHER        -> Ext(p, c)

RECURSIVE Delete(_, _)
Delete(n, path) ==
  CASE n.t = "nil"  -> Nil
    [] n.t = "leaf" -> IF n.path = path THEN Nil ELSE n
    [] n.t = "ext"  -> IF PLen(n.path, path) < Len(n.path) THEN n
                       ELSE LET c == Delete(n.child, Drop(path, Len(n.path))) IN
                            IF c = n.child THEN n ELSE Merge(n.path, c)
    [] n.t = "br"   -> LET ch   == [n.ch EXCEPT ![path[1]] = Delete(@, Tail(path))]
                           live == {i \in Nib : ch[i] # Nil} IN
                       IF Cardinality(live) >= 2 THEN Br(ch)
                       ELSE LET i == CHOOSE x \in live : TRUE IN Merge(<<i>>, ch[i])

(* ------------------------------- reading -------------------------------- *)
(* value stored under path, or 0 *)
RECURSIVE Lookup(_, _)
Lookup(n, path) ==
  CASE n.t = "nil"  -> 0
    [] n.t = "leaf" -> IF n.path = path THEN n.val ELSE 0
    [] n.t = "ext"  -> IF IsPrefix(n.path, path) THEN Lookup(n.child, Drop(path, Len(n.path))) ELSE 0
    [] n.t = "br"   -> IF Len(path) = 0 THEN 0 ELSE Lookup(n.ch[path[1]], Tail(path))

(* in-order leaf enumeration: sequence of <<full key, value>> *)
RECURSIVE Leaves(_, _)
RECURSIVE LeavesOfChildren(_, _, _)
Leaves(n, prefix) ==
  CASE n.t = "nil"  -> <<>>
    [] n.t = "leaf" -> << <<prefix \o n.path, n.val>> >>
    [] n.t = "ext"  -> Leaves(n.child, prefix \o n.path)
    [] n.t = "br"   -> LeavesOfChildren(n, prefix, 1)
LeavesOfChildren(n, prefix, i) ==
  IF i > Len(NibSeq) THEN <<>>
  ELSE Leaves(n.ch[NibSeq[i]], Append(prefix, NibSeq[i])) \o LeavesOfChildren(n, prefix, i + 1)

(* ------------------------ encoded sizes (exact) ------------------------- *)
(* RLP size of a byte string of n >= 1 bytes whose single byte (if n = 1) is >= 0x80 *)
RlpStr(n) == IF n < 56 THEN 1 + n ELSE IF n < 256 THEN 2 + n ELSE 3 + n
(* RLP size of a list with the given payload size *)
RlpList(payload) == IF payload < 56 THEN 1 + payload ELSE IF payload < 256 THEN 2 + payload ELSE 3 + payload
(* hex-prefix (compact) encoding of k nibbles takes k \div 2 + 1 bytes; a single compact  *)
(* byte is < 0x80 and is its own RLP encoding                                              *)
CompactRlp(k) == LET b == k \div 2 + 1 IN IF b = 1 THEN 1 ELSE RlpStr(b)
ValRlp(v) == IF VSize(v) = 1 /\ VTag(v) = 0 THEN 1 ELSE RlpStr(VSize(v))

RECURSIVE RlpSize(_)
(* size of the reference to a child inside its parent: the node itself when it is         *)
(* smaller than 32 bytes (embedded), else its 32-byte hash as an RLP string                *)
Ref(c) == IF c.t = "nil" THEN 1 ELSE LET s == RlpSize(c) IN IF s < 32 THEN s ELSE 33
RECURSIVE SumRefs(_, _)
SumRefs(ch, S) == IF S = {} THEN 0 ELSE LET i == CHOOSE x \in S : TRUE IN Ref(ch[i]) + SumRefs(ch, S \ {i})
RlpSize(n) ==
  CASE n.t = "leaf" -> RlpList(CompactRlp(Len(n.path) + Pad) + ValRlp(n.val))
    [] n.t = "ext"  -> RlpList(CompactRlp(Len(n.path)) + Ref(n.child))
    [] n.t = "br"   -> RlpList((16 - Cardinality(Nib)) + SumRefs(n.ch, Nib) + 1)
    [] n.t = "nil"  -> 1

Embedded(n) == n.t # "nil" /\ RlpSize(n) < 32

(* opaque, injective hash *)
Hash(n) == [h |-> n]
Root(n) == Hash(n)

(* ------------------------------ node listing ---------------------------- *)
(* all nodes of the tree with the path (nibbles from the root) they sit at *)
RECURSIVE Nodes(_, _)
Nodes(n, prefix) ==
  CASE n.t = "nil"  -> {}
    [] n.t = "leaf" -> {[path |-> prefix, node |-> n]}
    [] n.t = "ext"  -> {[path |-> prefix, node |-> n]} \cup Nodes(n.child, prefix \o n.path)
    [] n.t = "br"   -> {[path |-> prefix, node |-> n]}
                         \cup UNION {Nodes(n.ch[i], Append(prefix, i)) : i \in Nib}

(* a node is stored on its own iff it is the root or its encoding has >= 32 bytes *)
IsStored(x) == Len(x.path) = 0 \/ RlpSize(x.node) >= 32

(* what a path-scheme node store must hold for the tree: exactly these (path, node) *)
StoredPaths(root) == {x \in Nodes(root, <<>>) : IsStored(x)}

(* printable summary of a node listing: path, kind, encoded size, stored? *)
NodeInfo(x) == [path |-> x.path, t |-> x.node.t, size |-> RlpSize(x.node), stored |-> IsStored(x)]
NodeInfos(root) == {NodeInfo(x) : x \in Nodes(root, <<>>)}

(* well-formedness of a tree as a canonical trie *)
RECURSIVE WellFormed(_, _)
WellFormed(n, depth) ==
  CASE n.t = "nil"  -> depth = 0
    [] n.t = "leaf" -> depth + Len(n.path) = KeyLen
    [] n.t = "ext"  -> Len(n.path) > 0 /\ n.child.t = "br" /\ WellFormed(n.child, depth + Len(n.path))
    [] n.t = "br"   -> /\ Cardinality({i \in Nib : n.ch[i] # Nil}) >= 2
                       /\ \A i \in Nib : n.ch[i] = Nil \/ WellFormed(n.ch[i], depth + 1)
=============================================================================
