----------------------------- MODULE ProofTrace -----------------------------
(* Trace validation for Proof.tla (C08): events recorded from trie.Prove /                *)
(* trie.VerifyProof on random tries over 32-byte keys (64 nibbles, alphabet 0..15).        *)
(*   trie    the key-value set of a new trie                                               *)
(*   prove   the paths of the nodes Trie.Prove emitted for a key                           *)
(*   verify  VerifyProof's result over a proof set given by the paths of the genuine nodes *)
(*           it contains (foreign nodes are not nodes of the trie: they cannot match any   *)
(*           hash and are only counted)                                                    *)
EXTENDS Proof, Json, IOUtils

Trace == ndJsonDeserialize(IOEnv.TRACE)

VARIABLES l, kv, tree

Ev == Trace[l]

KVOf(list) == [x \in {list[i].k : i \in 1..Len(list)} |-> (CHOOSE i \in 1..Len(list) : list[i].k = x) \* index
              ]
KVFromList(list) == LET idx == KVOf(list) IN [x \in DOMAIN idx |-> list[idx[x]].v]

PathSet(seq) == {seq[i] : i \in 1..Len(seq)}
NodeAt(p) == (CHOOSE x \in Nodes(tree, <<>>) : x.path = p).node

Step(A) == l <= Len(Trace) /\ A /\ l' = l + 1

TTrie == Step(/\ Ev.op = "trie"
              /\ kv' = KVFromList(Ev.kv)
              /\ tree' = CanonKV(kv'))

TProve == Step(/\ Ev.op = "prove"
               /\ PathSet(Ev.paths) = {x.path : x \in {y \in PathNodes(tree, Ev.key, <<>>) : IsStored(y)}}
               /\ Ev.n = Cardinality(PathSet(Ev.paths))
               /\ UNCHANGED <<kv, tree>>)

TVerify == Step(/\ Ev.op = "verify"
                /\ Ev.res = Verify(tree, Ev.key, {NodeAt(p) : p \in PathSet(Ev.paths)})
                /\ Sound(kv, tree, Ev.key, {NodeAt(p) : p \in PathSet(Ev.paths)})
                /\ UNCHANGED <<kv, tree>>)

(* the root of another trie over these nodes: its root node is not genuine for this trie,  *)
(* the only sound outcome is an error; any logged success is rejected here                 *)
TVerifyOther == Step(Ev.op = "verifyother" /\ FALSE /\ UNCHANGED <<kv, tree>>)

TraceInit == l = 1 /\ kv = EmptyKV /\ tree = Nil
TraceNext == TTrie \/ TProve \/ TVerify \/ TVerifyOther
TraceSpec == TraceInit /\ [][TraceNext]_<<l, kv, tree>>

TreeInv == tree = CanonKV(kv) /\ (tree.t = "nil" \/ WellFormed(tree, 0))

TraceAccepted == TLCGet("stats").diameter - 1 = Len(Trace)
=============================================================================
