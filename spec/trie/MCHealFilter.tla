---------------------------- MODULE MCHealFilter ----------------------------
(* All requests and responses of bounded length over a few hashes: the guarantees of HealFilter. *)
EXTENDS HealFilter, TLC
CONSTANTS MaxLen, Hashes
VARIABLES req, resp
BSeq(S, n) == UNION {[1..m -> S] : m \in 0..n}
Init == req \in BSeq(Hashes \ {0}, MaxLen) /\ resp \in BSeq(Hashes, MaxLen)
Next == UNCHANGED <<req, resp>>
Spec == Init /\ [][Next]_<<req, resp>>
Sound == ForwardedMatches(req, resp) /\ ForeignRejected(req, resp) /\ RejectedForwardsNothing(req, resp) /\ HonestAccepted(req, resp)
=============================================================================
