SPECIFICATION Spec
CONSTANTS Nib = {0, 1, 15}
          KeyLen = 2
          Vals = {11, 12}
          Pad = 0
          AcctKeys <- MCAcctKeys3
          SlotKeys <- MCSlotKeysLong
          SlotVal <- MCSlotValLong
          FlushAnywhere = FALSE
          Sequential = TRUE
INVARIANTS RootCorrect FlatCorrected StoreExact StatsExact NeverLosesState Emit
CHECK_DEADLOCK FALSE
