--------------------------- MODULE FlatCorrection ---------------------------
(* What generating the trie does to the flat state, independent of key representation:     *)
(* A is the set of account hashes, St the subset whose recorded storage root differs from   *)
(* the root of their slots, S the set of <<account hash, slot hash>> storage entries.        *)
EXTENDS FiniteSets
CorrectedStorage(A, S) == {e \in S : e[1] \in A}
DanglingStorage(A, S)  == S \ CorrectedStorage(A, S)
ExpectedStats(A, St, S) == [scanned |-> Cardinality(A), updated |-> Cardinality(St),
                            deleted |-> Cardinality(DanglingStorage(A, S))]
=============================================================================
