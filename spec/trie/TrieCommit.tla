---------------------------- MODULE TrieCommit ----------------------------
(* Property C07: committed trie changes reproduce the new trie exactly.                   *)
(*                                                                                        *)
(* A trie is opened on a node store at the last committed root, modified by Put / Del,    *)
(* and committed: Commit returns a node set (path -> new blob | deleted, each with the    *)
(* previous blob) which the owner applies to the store.                                   *)
(*   pstore   path scheme: [path -> blob]; must hold exactly the nodes of the new trie    *)
(*   hstore   hash scheme: set of blobs addressed by hash; only grows                      *)
(* A blob is a node with every separately stored child replaced by its hash (embedded     *)
(* children stay inline), i.e. what the RLP encoding of the node contains.                *)
(* The node set of the model is the minimal one (entries whose blob differs from what     *)
(* the store holds + deletions of stored paths that no longer exist); the implementation  *)
(* may additionally rewrite an unchanged node with identical content - see Allowed.       *)
EXTENDS MPT

CONSTANTS MaxKeys,
          TrackHash,   \* TRUE: also maintain the hash-scheme store and the set of committed roots
          MaxRoots     \* TrackHash: number of commit generations explored

VARIABLES kv,        \* key-value set of the open (modified) trie
          tree,      \* its node graph
          ckv,       \* key-value set at the last commit
          pstore,    \* path-scheme store
          hstore,    \* hash-scheme store
          roots,     \* all committed roots (trees), for the hash-scheme read-back
          nset       \* the node set of the last commit: set of [path, blob | Deleted, prev | None]

cvars == <<kv, tree, ckv, pstore, hstore, roots, nset>>

Deleted == [t |-> "deleted"]
None    == [t |-> "none"]

(* ------------------------------- blobs ---------------------------------- *)
HashRef(n) == [t |-> "hash", h |-> Hash(n)]
ChildRef(c) == IF c.t = "nil" \/ Embedded(c) THEN c ELSE HashRef(c)
RECURSIVE Inline(_)
(* an embedded child is part of its parent's blob, with its own children referenced *)
Inline(c) == CASE c.t = "ext"  -> Ext(c.path, IF Embedded(c.child) THEN Inline(c.child) ELSE HashRef(c.child))
               [] c.t = "br"   -> Br([i \in Nib |-> IF c.ch[i].t = "nil" THEN Nil
                                                    ELSE IF Embedded(c.ch[i]) THEN Inline(c.ch[i]) ELSE HashRef(c.ch[i])])
               [] OTHER        -> c
Blob(n) == Inline(n)

PathMap(S) == [p \in {x.path : x \in S} |-> Blob((CHOOSE x \in S : x.path = p).node)]

(* what the path store must hold for a tree *)
Expected(t) == PathMap(StoredPaths(t))

(* ------------------------- reading a tree back -------------------------- *)
Missing == [t |-> "missing"]
RECURSIVE LoadP(_, _, _)
(* path scheme: resolve the reference r found at path p *)
LoadP(st, r, p) ==
  CASE r.t = "hash" -> IF p \notin DOMAIN st THEN Missing
                       ELSE LET b == st[p] IN
                            (* the hash of what is stored must be the referenced hash: compare after loading *)
                            LET n == LoadP(st, b, p) IN IF Hash(n) = r.h THEN n ELSE Missing
    [] r.t = "ext"  -> Ext(r.path, LoadP(st, r.child, p \o r.path))
    [] r.t = "br"   -> Br([i \in Nib |-> LoadP(st, r.ch[i], Append(p, i))])
    [] OTHER        -> r
ReadBackP(st, root) == IF root.t = "nil" THEN Nil ELSE LoadP(st, HashRef(root), <<>>)

RECURSIVE LoadH(_, _)
LoadH(hs, r) ==
  CASE r.t = "hash" -> IF \E b \in hs : b.key = r.h THEN LoadH(hs, (CHOOSE b \in hs : b.key = r.h).blob) ELSE Missing
    [] r.t = "ext"  -> Ext(r.path, LoadH(hs, r.child))
    [] r.t = "br"   -> Br([i \in Nib |-> LoadH(hs, r.ch[i])])
    [] OTHER        -> r
ReadBackH(hs, root) == IF root.t = "nil" THEN Nil ELSE LoadH(hs, HashRef(root))

(* ------------------------------- actions -------------------------------- *)
Init == /\ kv = EmptyKV /\ tree = Nil /\ ckv = EmptyKV
        /\ pstore = <<>> /\ hstore = {} /\ roots = {} /\ nset = {}

Put(k, v) == kv' = KVPut(kv, k, v) /\ tree' = Insert(tree, k, v) /\ UNCHANGED <<ckv, pstore, hstore, roots, nset>>
Del(k)    == kv' = KVDel(kv, k) /\ tree' = Delete(tree, k) /\ UNCHANGED <<ckv, pstore, hstore, roots, nset>>

PrevOf(p) == IF p \in DOMAIN pstore THEN pstore[p] ELSE None

(* the minimal node set turning pstore into Expected(tree) *)
MinSet ==
  LET exp == Expected(tree) IN
  {[path |-> p, blob |-> exp[p], prev |-> PrevOf(p)] : p \in {q \in DOMAIN exp : PrevOf(q) # exp[q]}}
    \cup {[path |-> p, blob |-> Deleted, prev |-> pstore[p]] : p \in DOMAIN pstore \ DOMAIN exp}

(* what any correct node set may contain: the right blob at a path of the new trie, or the *)
(* deletion of a stored path that is not part of the new trie; always with the right prev  *)
Allowed(e) ==
  LET exp == Expected(tree) IN
  /\ e.prev = PrevOf(e.path)
  /\ IF e.blob = Deleted THEN e.path \in DOMAIN pstore /\ e.path \notin DOMAIN exp
     ELSE e.path \in DOMAIN exp /\ e.blob = exp[e.path]

ApplyP(st, S) ==
  LET del == {e.path : e \in {x \in S : x.blob = Deleted}}
      wr  == {e \in S : e.blob # Deleted} IN
  [p \in (DOMAIN st \ del) \cup {e.path : e \in wr} |->
     IF \E e \in wr : e.path = p THEN (CHOOSE e \in wr : e.path = p).blob ELSE st[p]]

NodeAt(t, p) == (CHOOSE x \in StoredPaths(t) : x.path = p).node

Commit ==
  /\ nset' = MinSet
  /\ pstore' = ApplyP(pstore, MinSet)
  /\ IF TrackHash
     THEN /\ Cardinality(roots) < MaxRoots
          (* the hash scheme stores the written nodes under their hash and ignores deletions *)
          /\ hstore' = hstore \cup {[key |-> Hash(NodeAt(tree, e.path)), blob |-> e.blob] : e \in {x \in MinSet : x.blob # Deleted}}
          /\ roots' = roots \cup {tree}
     ELSE UNCHANGED <<hstore, roots>>
  /\ ckv' = kv
  /\ UNCHANGED <<kv, tree>>

Next == \/ \E k \in Keys : (\E v \in Vals : Put(k, v)) \/ Del(k)
        \/ Commit

Spec == Init /\ [][Next]_cvars

Small == Cardinality(DOMAIN kv) <= MaxKeys

(* ------------------------------ properties ------------------------------ *)
TreeInv == tree = CanonKV(kv)

(* path scheme: after a commit the store holds exactly the new trie's nodes at their paths *)
(* (no stale, no missing node): checked in every state against the last committed set      *)
StoreExact == pstore = Expected(CanonKV(ckv))

(* the new root reads exactly the new contents from the store *)
ReadBackInv == LET t == CanonKV(ckv) IN
               /\ ReadBackP(pstore, t) = t
               /\ \A k \in Keys : Lookup(ReadBackP(pstore, t), k) = IF k \in DOMAIN ckv THEN ckv[k] ELSE 0

(* hash scheme: every committed root stays readable *)
HashReadBackInv == \A t \in roots : ReadBackH(hstore, t) = t

(* action property: Commit's set is allowed, applied it gives the expected store, and each *)
(* deletion / overwrite carries the blob that was stored                                    *)
CommitOK == [][ckv' # ckv \/ nset' # nset =>
                 /\ \A e \in nset' : Allowed(e) /\ e.prev # e.blob /\ (e.blob = Deleted => e.prev # None)
                 /\ pstore' = Expected(tree)]_cvars
=============================================================================
