SPECIFICATION MCSpec
CONSTANTS Nib = {0, 1}
          KeyLen = 2
          Vals = {10, 331}
          Pad = 0
          MaxKeys = 4
          TrackHash = FALSE
          MaxRoots = 0
          MaxOps = 3
          Mode = "mc"
          Depth = 0
          MaxGen = 0
          CommitWeight = 1
          NKeys = 3
INVARIANTS MTreeInv TracerInv StoreExact
PROPERTIES MechRefines CommitOK
CONSTRAINT Small
VIEW View
CHECK_DEADLOCK FALSE
