SPECIFICATION MCSpec
CONSTANTS Nib = {0, 1}
          KeyLen = 2
          Vals = {10, 331}
          Pad = 0
          MaxKeys = 4
          Mode = "mc"
          Depth = 0
          MaxGen = 0
INVARIANTS TreeInv StoreExact ReadBackInv HashReadBackInv NodeSetInv
PROPERTIES CommitOK
CONSTRAINT Small
VIEW ViewNoRoots
CHECK_DEADLOCK FALSE
