----------------------------- MODULE RangeProof -----------------------------
(* Property C09: range proofs accept exactly the true ranges.                             *)
(*                                                                                        *)
(* trie.VerifyRangeProof(root, first, keys, values, proof) -> (more, err)                 *)
(*                                                                                        *)
(* A run R is a sequence of <<key, value>> pairs.  Ground truth for a trie with           *)
(* key-value set kv:                                                                      *)
(*   RangeOK(kv, first, R)   R is strictly ascending, has no empty value, starts at or    *)
(*                           after first, and is exactly the set of entries of kv in      *)
(*                           [first, last key of R]; the empty run is OK iff kv has no    *)
(*                           entry at or after first                                      *)
(*   More(kv, R)             kv has an entry beyond the last key of R                     *)
(* With a proof database P (a set of genuine nodes, hashes opaque) the verifier needs the *)
(* stored nodes on the paths of the two edge keys (first and the last key of R; one path  *)
(* for the empty run and for the single entry at first):                                  *)
(*   Accept(kv, t, first, R, P)  ==  t non-empty /\ RangeOK /\ Needed \subseteq P         *)
(* Without any proof (proof = nil) the run must be the whole trie.                        *)
EXTENDS Proof

RunKeys(R) == {R[i][1] : i \in 1..Len(R)}
RunSet(R)  == {R[i] : i \in 1..Len(R)}
LastKey(R) == R[Len(R)][1]

(* the checks made on the run alone *)
RunWellFormed(R) ==
  /\ \A i \in 1..Len(R) : R[i][2] # 0
  /\ \A i \in 1..(Len(R) - 1) : SeqLess(R[i][1], R[i+1][1])

RangeOK(kv, first, R) ==
  /\ RunWellFormed(R)
  /\ IF Len(R) = 0 THEN ~\E x \in DOMAIN kv : SeqLeq(first, x)
     ELSE /\ SeqLeq(first, R[1][1])
          /\ RunSet(R) = {<<x, kv[x]>> : x \in {y \in DOMAIN kv : SeqLeq(first, y) /\ SeqLeq(y, LastKey(R))}}

More(kv, R) == Len(R) > 0 /\ \E x \in DOMAIN kv : SeqLess(LastKey(R), x)

Needed(t, first, R) ==
  IF Len(R) = 0 \/ (Len(R) = 1 /\ first = R[1][1]) THEN ProofNodes(t, first)
  ELSE ProofNodes(t, first) \cup ProofNodes(t, LastKey(R))

Accept(kv, t, first, R, P) == t.t # "nil" /\ RangeOK(kv, first, R) /\ Needed(t, first, R) \subseteq P

(* no proof: the run is the whole trie (an empty run for the empty trie) *)
AcceptNoProof(kv, R) == RunWellFormed(R) /\ RunSet(R) = Pairs(kv)

(* ------------------------------ honest runs ----------------------------- *)
(* the contiguous run of kv's entries number i..j (in key order) *)
HonestRun(kv, i, j) == LET sk == SortedKeys(DOMAIN kv) IN [x \in 1..(j - i + 1) |-> <<sk[i + x - 1], kv[sk[i + x - 1]]>>]

(* first is an honest start for the run i..j: no entry of kv in [first, key i) *)
HonestFirst(kv, first, i) == LET sk == SortedKeys(DOMAIN kv) IN
  /\ SeqLeq(first, sk[i])
  /\ ~\E x \in DOMAIN kv : SeqLeq(first, x) /\ SeqLess(x, sk[i])
=============================================================================
