--------------------------- MODULE MCTrieSyncLive ---------------------------
(* TrieSync without history variables bound to the built-in target: termination (<>Done)    *)
(* under weak fairness of asking, answering outstanding requests and flushing.               *)
EXTENDS TrieSync, TrieSyncStatic
=============================================================================
