--------------------------- MODULE TrieSyncStatic ---------------------------
(* A built-in target for TrieSync, for model checking independent of the Go harness:         *)
(* an account trie  root(1) -> branch(2) -> {leaf a (3), leaf b (4)},  leaf c (5) under the   *)
(* root; a and c share one code; a has a storage trie root(6) -> {7, 8} (or the single node 6 *)
(* when Small), b has the storage trie 9 which has the same hash as node 7 (identical         *)
(* subtries at two places).  Location 10 lies inside the key of the short node 1 -> 2 and may *)
(* hold an outdated node; outdated nodes may also sit at 2, 6 and 9.                          *)
EXTENDS Integers, Sequences

CONSTANT Small     \* TRUE: a's storage trie is the single node 6 (locations 7, 8 unused)
WScheme == "path"
WNumLocs == 10
WLocPath == << <<>>, <<1, 1>>, <<1, 1, 0>>, <<1, 1, 1>>, <<7>>,
               [i \in 1..64 |-> IF i <= 3 THEN <<1, 1, 0>>[i] ELSE 5],
               [i \in 1..65 |-> IF i <= 3 THEN <<1, 1, 0>>[i] ELSE IF i = 65 THEN 2 ELSE 5],
               [i \in 1..65 |-> IF i <= 3 THEN <<1, 1, 0>>[i] ELSE IF i = 65 THEN 9 ELSE 5],
               [i \in 1..64 |-> IF i <= 3 THEN <<1, 1, 1>>[i] ELSE 5],
               <<1>> >>
WTarget == IF Small THEN <<101, 102, 103, 104, 105, 106, 0, 0, 107, 0>> ELSE <<101, 102, 103, 104, 105, 106, 107, 108, 107, 0>>
WKids == << <<2, 5>>, <<3, 4>>, <<>>, <<>>, <<>>, IF Small THEN <<>> ELSE <<7, 8>>, <<>>, <<>>, <<>>, <<>> >>
WInner == << {10}, {}, {}, {}, {}, {}, {}, {}, {}, {} >>
NoSub == [root |-> 0, code |-> 0, leaf |-> FALSE]
WSub == << NoSub, NoSub, [root |-> 6, code |-> 1, leaf |-> TRUE], [root |-> 9, code |-> 0, leaf |-> TRUE],
           [root |-> 0, code |-> 1, leaf |-> TRUE], NoSub, NoSub, NoSub, NoSub, NoSub >>
WBlobSize == <<70, 83, 104, 104, 105, 83, 40, 41, 40, 0>>
WStale == <<0, 202, 0, 0, 0, 206, 0, 0, 209, 210>>
WRootLoc == 1
WNumCodes == 1
WCodeSize == <<20>>
=============================================================================
