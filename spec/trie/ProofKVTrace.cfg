SPECIFICATION TraceSpec
POSTCONDITION TraceAccepted
CHECK_DEADLOCK FALSE
