SPECIFICATION MCSpec
CONSTANTS Nib = {0, 1, 15}
          KeyLen = 2
          Vals = {281, 291}
          Pad = 0
          MaxKeys = 4
          Mode = "edges"
          SeqBatches = TRUE
          Depth = 0
          NBatch = 0
          NKeys = 4
          Encs = {"nil", "empty"}
          BOps <- OpsAll
          BatchLens = {}
          BatchSet <- MCBatchSet
INVARIANTS CanonInv LookupInv IterInv IterFromInv WFInv BatchInv
CONSTRAINT Small
ACTION_CONSTRAINT Edge
VIEW View
CHECK_DEADLOCK FALSE
