SPECIFICATION Spec
CONSTANTS Nib = {0, 1, 15}
          KeyLen = 2
          Vals = {11, 12}
          Pad = 62
          AcctKeys <- MCAcctKeys4
          SlotKeys <- MCSlotKeys
          SlotVal <- MCSlotVal
          FlushAnywhere = FALSE
          Sequential = TRUE
INVARIANTS RootCorrect FlatCorrected StoreExact StatsExact NeverLosesState
CHECK_DEADLOCK FALSE
