----------------------------- MODULE MCTrieSync -----------------------------
(* TrieSync (with command history) bound to the built-in target of TrieSyncStatic.tla. *)
EXTENDS MCTrieSyncBase, TrieSyncStatic
=============================================================================
