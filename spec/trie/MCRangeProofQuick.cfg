SPECIFICATION Spec
CONSTANTS Nib = {0, 1}
          KeyLen = 3
          Vals = {331}
          Pad = 1
          MaxKeys = 2
          EmitRows = TRUE
INVARIANTS CharacterInv MoreInv ProofInv NoProofInv AlgInv Emit
CHECK_DEADLOCK FALSE
