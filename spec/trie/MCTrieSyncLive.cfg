SPECIFICATION Spec
CONSTANTS Scheme <- WScheme
          NumLocs <- WNumLocs
          LocPath <- WLocPath
          Target <- WTarget
          Kids <- WKids
          Inner <- WInner
          Sub <- WSub
          BlobSize <- WBlobSize
          Stale <- WStale
          RootLoc <- WRootLoc
          NumCodes <- WNumCodes
          CodeSize <- WCodeSize
          Batches = {0}
          MaxFetches = 1
          Small = TRUE
PROPERTY Terminates

CHECK_DEADLOCK FALSE
