SPECIFICATION MCSpec
CONSTANTS Scheme <- WScheme
          NumLocs <- WNumLocs
          LocPath <- WLocPath
          Target <- WTarget
          Kids <- WKids
          Inner <- WInner
          Sub <- WSub
          BlobSize <- WBlobSize
          Stale <- WStale
          RootLoc <- WRootLoc
          NumCodes <- WNumCodes
          CodeSize <- WCodeSize
          Batches = {0, 2}
          MaxFetches = 1
          MaxCmds = 40
          Small = FALSE
INVARIANTS OnlyTargetRequested OnlyTargetWritten DBClosed BatchClosed Complete DepsExact SizeExact FetchBound FetchesExact SlotsReleased
VIEW View
CHECK_DEADLOCK FALSE
