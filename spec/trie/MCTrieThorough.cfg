SPECIFICATION MCSpec
CONSTANTS Nib = {0, 1, 15}
          KeyLen = 2
          Vals = {10, 331}
          Pad = 0
          MaxKeys = 9
          Mode = "mc"
          SeqBatches = TRUE
          Depth = 0
          NBatch = 0
          NKeys = 4
          Encs = {"nil"}
          BOps <- OpsIns
          BatchLens = {}
          BatchSet <- MCBatchSet
INVARIANTS CanonInv LookupInv IterInv IterFromInv WFInv BatchInv
CONSTRAINT Small
VIEW View
CHECK_DEADLOCK FALSE
