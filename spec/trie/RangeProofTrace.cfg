SPECIFICATION TraceSpec
CONSTANTS Nib = {0}
          KeyLen = 1
          Vals = {}
          Pad = 0
POSTCONDITION TraceAccepted
CHECK_DEADLOCK FALSE
