--------------------------- MODULE MCTrieCommit ---------------------------
(* Model-checking / test-generation wrapper of TrieCommit.tla (C07).                      *)
EXTENDS TrieCommit, Json

CONSTANTS Mode,     \* "mc" | "edges" | "sim"
          Depth,    \* sim: number of steps per behaviour
          MaxGen    \* sim: a behaviour is emitted once it holds this many commits (or Depth steps)

VARIABLES act, hist

mcvars == <<kv, tree, ckv, pstore, hstore, roots, nset, act, hist>>

KVList(m) == LET sk == SortedKeys(DOMAIN m) IN [i \in 1..Len(sk) |-> [k |-> sk[i], v |-> m[sk[i]]]]

RECURSIVE TreeJ(_)
TreeJ(n) ==
  CASE n.t = "nil"  -> [t |-> "nil"]
    [] n.t = "leaf" -> [t |-> "leaf", path |-> n.path, val |-> n.val, size |-> RlpSize(n)]
    [] n.t = "ext"  -> [t |-> "ext", path |-> n.path, child |-> TreeJ(n.child), size |-> RlpSize(n)]
    [] n.t = "br"   -> LET live == SortedSeq({i \in Nib : n.ch[i] # Nil}) IN
                       [t |-> "br", size |-> RlpSize(n),
                        ch |-> [j \in 1..Len(live) |-> [i |-> live[j], n |-> TreeJ(n.ch[live[j]])]]]

RECURSIVE SetToSeq(_)
SetToSeq(S) == IF S = {} THEN <<>> ELSE LET x == CHOOSE y \in S : TRUE IN <<x>> \o SetToSeq(S \ {x})

(* the minimal node set as a list of [path, del, hasprev] *)
NSetJ(S) == SetToSeq({[path |-> e.path, del |-> e.blob = Deleted, hasprev |-> e.prev # None] : e \in S})

CommitJ == [op |-> "commit", base |-> [kv |-> KVList(ckv), tree |-> TreeJ(CanonKV(ckv))],
            new |-> [kv |-> KVList(kv), tree |-> TreeJ(tree)], minset |-> NSetJ(nset')]

Log == hist' = IF Mode = "sim" THEN Append(hist, act') ELSE hist

MCInit == Init /\ act = [op |-> "init"] /\ hist = <<>>

MCNext ==
  \/ \E k \in Keys : \E v \in Vals : Put(k, v) /\ act' = [op |-> "put", k |-> k, v |-> v, kv |-> KVList(kv')] /\ Log
  \/ \E k \in Keys : Del(k) /\ act' = [op |-> "del", k |-> k, v |-> 0, kv |-> KVList(kv')] /\ Log
  \/ Commit /\ act' = CommitJ /\ Log

MCSpec == MCInit /\ [][MCNext]_mcvars

View == <<kv, tree, ckv, pstore, hstore, nset>>

(* the set of committed roots only matters for HashReadBackInv; bound it in exhaustive runs *)
ViewNoRoots == <<kv, tree, ckv, pstore, nset>>

Edge == IF Mode = "edges" /\ act'.op = "commit" THEN PrintT(<<"EDGE", ToJson(act')>>) ELSE TRUE

NCommits == Cardinality({i \in 1..Len(hist) : hist[i].op = "commit"})
Emit == IF Mode = "sim" /\ (Len(hist) = Depth \/ (NCommits = MaxGen /\ hist[Len(hist)].op = "commit"))
        THEN PrintT(<<"MBT", ToJson(hist)>>) ELSE TRUE
SimStop == Len(hist) < Depth /\ ~(NCommits = MaxGen /\ hist[Len(hist)].op = "commit")
=============================================================================
