--------------------------- MODULE MCTrieCommit ---------------------------
(* Model-checking / test-generation wrapper of TrieCommit.tla (C07).                      *)
EXTENDS TrieCommit, Json, Randomization

CONSTANTS Mode,     \* "mc" | "edges" | "sim"
          Depth,    \* sim: number of steps per behaviour
          MaxGen,   \* sim: a behaviour is emitted once it holds this many commits (or Depth steps)
          CommitWeight, \* sim: TLC picks successors uniformly; offer Commit this many times
          NKeys         \* sim: number of randomly drawn keys offered per step (keeps the successor set small)

VARIABLES act, hist

mcvars == <<kv, tree, ckv, pstore, hstore, roots, nset, act, hist>>

KVList(m) == LET sk == SortedKeys(DOMAIN m) IN [i \in 1..Len(sk) |-> [k |-> sk[i], v |-> m[sk[i]]]]

RECURSIVE TreeJ(_)
TreeJ(n) ==
  CASE n.t = "nil"  -> [t |-> "nil"]
    [] n.t = "leaf" -> [t |-> "leaf", path |-> n.path, val |-> n.val, size |-> RlpSize(n)]
    [] n.t = "ext"  -> [t |-> "ext", path |-> n.path, child |-> TreeJ(n.child), size |-> RlpSize(n)]
    [] n.t = "br"   -> LET live == SortedSeq({i \in Nib : n.ch[i] # Nil}) IN
                       [t |-> "br", size |-> RlpSize(n),
                        ch |-> [j \in 1..Len(live) |-> [i |-> live[j], n |-> TreeJ(n.ch[live[j]])]]]

RECURSIVE SetToSeq(_)
SetToSeq(S) == IF S = {} THEN <<>> ELSE LET x == CHOOSE y \in S : TRUE IN <<x>> \o SetToSeq(S \ {x})

(* the minimal node set as a list of [path, del, hasprev] *)
NSetJ(S) == SetToSeq({[path |-> e.path, del |-> e.blob = Deleted, hasprev |-> e.prev # None] : e \in S})

CommitJ(w) == [op |-> "commit", w |-> w, base |-> [kv |-> KVList(ckv), tree |-> TreeJ(CanonKV(ckv))],
            new |-> [kv |-> KVList(kv), tree |-> TreeJ(tree)], minset |-> NSetJ(nset')]

Log == hist' = IF Mode = "sim" THEN Append(hist, act') ELSE hist

MCInit == Init /\ act = [op |-> "init"] /\ hist = <<>>

SimKeys == IF Mode = "sim" THEN RandomSubset(NKeys, Keys) ELSE Keys

MCNext ==
  \/ \E k \in SimKeys : \E v \in Vals : Put(k, v) /\ act' = [op |-> "put", k |-> k, v |-> v, kv |-> KVList(kv')] /\ Log
  \/ \E k \in SimKeys : Del(k) /\ act' = [op |-> "del", k |-> k, v |-> 0, kv |-> KVList(kv')] /\ Log
  \/ \E w \in 1..CommitWeight : Commit /\ act' = CommitJ(w) /\ Log

MCSpec == MCInit /\ [][MCNext]_mcvars

(* nset is a function of the transition that produced it and is checked by the action      *)
(* property CommitOK on every transition, so it need not distinguish states                 *)
View == <<kv, tree, ckv, pstore, hstore, roots>>

Edge == IF Mode = "edges" /\ act'.op = "commit" THEN PrintT(<<"EDGE", ToJson(act')>>) ELSE TRUE

NCommits(h) == Cardinality({i \in 1..Len(h) : h[i].op = "commit"})
Done(h) == Len(h) = Depth \/ (Len(h) > 0 /\ NCommits(h) = MaxGen /\ h[Len(h)].op = "commit")
Emit == IF Mode = "sim" /\ Done(hist) THEN PrintT(<<"MBT", ToJson(hist)>>) ELSE TRUE
(* a behaviour ends with the first state that is Done (that state is still admitted, and emitted) *)
SimStop == Len(hist) = 0 \/ ~Done(SubSeq(hist, 1, Len(hist) - 1))
=============================================================================
