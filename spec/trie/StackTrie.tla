------------------------------ MODULE StackTrie ------------------------------
(* The streaming ordered builder (trie/stacktrie.go), part of properties C06 and C07:      *)
(* keys arrive in ascending order; when a new child is added to a branch the elder         *)
(* sibling sub-trie can never change again and is hashed (and, if it is stored on its own, *)
(* handed to the OnTrieNode callback with its path).  Hashed sub-tries are opaque: the     *)
(* model keeps the full node they stand for.                                               *)
(*   StackBuild(pairs)    state after inserting the sorted pairs and the final Hash()      *)
(*   theorems (MCStackTrie): the root is the canonical tree of the set, the emitted        *)
(*   (path, node) set is exactly StoredPaths of that tree, every stored node is emitted    *)
(*   exactly once, and no insertion ever reaches a hashed node (no panic).                 *)
EXTENDS MPT

SEmpty        == [t |-> "empty"]
SLeaf(k, v)   == [t |-> "sleaf", key |-> k, val |-> v]
SExt(k, c)    == [t |-> "sext", key |-> k, child |-> c]
SBr(ch)       == [t |-> "sbr", ch |-> ch]          \* ch \in [Nib -> stNode | Nil]
SHashed(n)    == [t |-> "hashed", n |-> n]          \* n: the full MPT node
SPanic        == [t |-> "spanic"]

(* the full node a (partly hashed) stack sub-trie stands for *)
RECURSIVE Full(_)
Full(st) ==
  CASE st.t = "sleaf"  -> Leaf(st.key, st.val)
    [] st.t = "sext"   -> Ext(st.key, Full(st.child))
    [] st.t = "sbr"    -> Br([i \in Nib |-> IF st.ch[i].t = "nil" THEN Nil ELSE Full(st.ch[i])])
    [] st.t = "hashed" -> st.n
    [] st.t = "empty"  -> Nil
    [] OTHER           -> st

(* nodes committed by hashing st sitting at path: everything below that is not hashed yet, *)
(* with the path-scheme storage rule (root or >= 32 bytes)                                 *)
RECURSIVE Committed(_, _)
Committed(st, path) ==
  LET self == {x \in {[path |-> path, node |-> Full(st)]} : IsStored(x)} IN
  CASE st.t = "sleaf"  -> self
    [] st.t = "sext"   -> self \cup Committed(st.child, path \o st.key)
    [] st.t = "sbr"    -> self \cup UNION {IF st.ch[i].t = "nil" THEN {} ELSE Committed(st.ch[i], Append(path, i)) : i \in Nib}
    [] OTHER           -> {}

(* hash(): result [n |-> hashed node, em |-> emitted (path, node) set] *)
StHash(st, path) == IF st.t = "hashed" THEN [n |-> st, em |-> {}]
                    ELSE [n |-> SHashed(Full(st)), em |-> Committed(st, path)]

DiffIdx(a, b) == PLen(a, b)     \* first index (0-based) at which the key chunks differ

(* the nearest elder sibling of slot idx, or 0 - 1 *)
Elder(ch, idx) == LET S == {i \in Nib : i < idx /\ ch[i].t # "nil"} IN
                  IF S = {} THEN -1 ELSE CHOOSE i \in S : \A j \in S : j <= i

RECURSIVE StInsert(_, _, _, _)
(* result [n, em]; key = remaining nibbles, path = nibbles consumed so far *)
StInsert(st, key, v, path) ==
  CASE st.t = "empty"  -> [n |-> SLeaf(key, v), em |-> {}]
    [] st.t = "sbr"    ->
         LET idx == key[1]
             e   == Elder(st.ch, idx)
             h   == IF e = -1 THEN [n |-> Nil, em |-> {}] ELSE StHash(st.ch[e], Append(path, e))
             ch1 == IF e = -1 THEN st.ch ELSE [st.ch EXCEPT ![e] = h.n]
             r   == IF ch1[idx].t = "nil" THEN [n |-> SLeaf(Tail(key), v), em |-> {}]
                    ELSE StInsert(ch1[idx], Tail(key), v, Append(path, idx)) IN
         [n |-> SBr([ch1 EXCEPT ![idx] = r.n]), em |-> h.em \cup r.em]
    [] st.t = "sext"   ->
         LET d == DiffIdx(st.key, key) IN
         IF d = Len(st.key)
         THEN LET r == StInsert(st.child, Drop(key, d), v, path \o Take(key, d)) IN
              [n |-> SExt(st.key, r.n), em |-> r.em]
         ELSE LET h == IF d < Len(st.key) - 1
                       THEN StHash(SExt(Drop(st.key, d + 1), st.child), path \o Take(st.key, d + 1))
                       ELSE StHash(st.child, path \o st.key)
                  p == SBr([[i \in Nib |-> Nil] EXCEPT ![st.key[d + 1]] = h.n, ![key[d + 1]] = SLeaf(Drop(key, d + 1), v)]) IN
              [n |-> IF d = 0 THEN p ELSE SExt(Take(st.key, d), p), em |-> h.em]
    [] st.t = "sleaf"  ->
         LET d == DiffIdx(st.key, key) IN
         IF d >= Len(st.key) THEN [n |-> SPanic, em |-> {}]        \* "Trying to insert into existing key"
         ELSE LET h == StHash(SLeaf(Drop(st.key, d + 1), st.val), path \o Take(st.key, d + 1))
                  p == SBr([[i \in Nib |-> Nil] EXCEPT ![st.key[d + 1]] = h.n, ![key[d + 1]] = SLeaf(Drop(key, d + 1), v)]) IN
              [n |-> IF d = 0 THEN p ELSE SExt(Take(st.key, d), p), em |-> h.em]
    [] OTHER           -> [n |-> SPanic, em |-> {}]                 \* "trying to insert into hash"

RECURSIVE StFold(_, _, _, _)
(* insert pairs[i..] into st; em accumulates; dup = some node was emitted twice *)
StFold(st, pairs, i, acc) ==
  IF i > Len(pairs) THEN [n |-> st, em |-> acc.em, dup |-> acc.dup]
  ELSE LET r == StInsert(st, pairs[i][1], pairs[i][2], <<>>) IN
       StFold(r.n, pairs, i + 1, [em |-> acc.em \cup r.em, dup |-> acc.dup \/ (acc.em \cap r.em # {})])

(* Update x n followed by Hash() *)
StackBuild(pairs) ==
  LET f == StFold(SEmpty, pairs, 1, [em |-> {}, dup |-> FALSE])
      h == StHash(f.n, <<>>) IN
  [root |-> Full(f.n), em |-> f.em \cup h.em, dup |-> f.dup \/ (f.em \cap h.em # {}), st |-> f.n]

RECURSIVE HasSPanic(_)
HasSPanic(st) ==
  IF st.t = "spanic" THEN TRUE
  ELSE IF st.t = "sext" THEN HasSPanic(st.child)
  ELSE IF st.t = "sbr" THEN \E i \in Nib : st.ch[i].t # "nil" /\ HasSPanic(st.ch[i])
  ELSE FALSE
=============================================================================
