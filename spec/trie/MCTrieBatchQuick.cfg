SPECIFICATION MCSpec
CONSTANTS Nib = {0, 1, 15}
          KeyLen = 2
          Vals = {10}
          Pad = 0
          MaxKeys = 3
          Mode = "mc"
          SeqBatches = FALSE
          Depth = 0
          NBatch = 0
          NKeys = 4
          Encs = {"nil"}
          BOps <- OpsPool6
          BatchLens = {4}
          BatchSet <- MCBatchSet
INVARIANTS CanonInv WFInv BatchInv
CONSTRAINT Small
VIEW View
CHECK_DEADLOCK FALSE
