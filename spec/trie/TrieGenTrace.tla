---------------------------- MODULE TrieGenTrace ----------------------------
(* Validation of recorded runs of triedb.GenerateTrie on large random flat states.  Account  *)
(* and slot hashes are abstracted to their ranks (order preserving).  Each event carries the *)
(* input layout and the observed outcome; the outcome must be the one FlatCorrection          *)
(* prescribes: counters, corrected flat state, error exactly when another root was expected.  *)
(* (Root value, node key space and read-back of the generated tries are compared by the       *)
(* driver against the canonical trie built by package trie.)                                  *)
EXTENDS Integers, Sequences, TLC, Json, IOUtils, FlatCorrection

Trace == ndJsonDeserialize(IOEnv.TRACE)
VARIABLE l
Ev == Trace[l]

SeqSet(s) == {s[i] : i \in 1..Len(s)}
Pairs(s) == {<<s[i][1], s[i][2]>> : i \in 1..Len(s)}

Generated ==
  LET A  == SeqSet(Ev.accounts)
      St == SeqSet(Ev.stale)
      S  == Pairs(Ev.storage)
      ex == ExpectedStats(A, St, S)
  IN /\ Ev.op = "generate"
     /\ St \subseteq A
     /\ Ev.err = (Ev.want # "correct")
     /\ Ev.scanned = ex.scanned /\ Ev.updated = ex.updated /\ Ev.deleted = ex.deleted
     /\ SeqSet(Ev.accountsAfter) = A
     /\ SeqSet(Ev.staleAfter) = {}
     /\ Pairs(Ev.storageAfter) = CorrectedStorage(A, S)

Init == l = 1
Next == l <= Len(Trace) /\ Generated /\ l' = l + 1
TraceSpec == Init /\ [][Next]_l
TraceAccepted == TLCGet("stats").diameter - 1 = Len(Trace)
=============================================================================
